(* C24 -- proofs about the machine (all operation lists, all runs) and refutation witnesses. *)
From Coq Require Import List ZArith NArith Bool Lia.
Import ListNotations.
From GMS Require Import Lang.C24Proc.
Open Scope Z_scope.

(* every jump index of the program lies in [0, len] *)
Definition idx_ok (len : Z) (o : op) : bool :=
  match o with
  | OpIf _ idx | OpGoto _ idx => (0 <=? idx) && (idx <=? len)
  | _ => true
  end.

Definition targets_ok (ops : list op) : bool := forallb (idx_ok (zlen ops)) ops.

Lemma nth_op_some : forall ops i, 0 <= i < zlen ops -> exists o, nth_op ops i = Some o.
Proof.
  intros ops i [H0 H1]. unfold nth_op. destruct (i <? 0) eqn:E; [apply Z.ltb_lt in E; lia|].
  destruct (nth_error ops (Z.to_nat i)) as [o|] eqn:En; [exists o; reflexivity|].
  apply nth_error_None in En. unfold zlen in H1. lia.
Qed.

Lemma nth_op_in : forall ops i o, nth_op ops i = Some o -> In o ops /\ 0 <= i < zlen ops.
Proof.
  intros ops i o H. unfold nth_op in H. destruct (i <? 0) eqn:E; [discriminate|]. apply Z.ltb_ge in E.
  split; [exact (nth_error_In _ _ H)|].
  assert (Hl : (Z.to_nat i < length ops)%nat) by (apply nth_error_Some; congruence).
  unfold zlen. lia.
Qed.

Lemma walk_fwd_ok : forall ops n counter target st,
  0 <= counter -> target <= zlen ops -> (Z.to_nat (target - counter) <= n)%nat ->
  exists st', walk_fwd ops n counter target st = Some (Z.max counter target, st').
Proof.
  intros ops n. induction n as [|n IH]; intros counter target st H0 Ht Hn.
  - cbn. destruct (counter <? target) eqn:E.
    + apply Z.ltb_lt in E. lia.
    + apply Z.ltb_ge in E. exists st. rewrite Z.max_l by lia. reflexivity.
  - cbn [walk_fwd]. destruct (counter <? target) eqn:E.
    + apply Z.ltb_lt in E. destruct (nth_op_some ops counter) as [o Ho]; [lia|]. rewrite Ho.
      destruct (IH (counter + 1) target (scope_effect_fwd (Some o) st)) as [st' Hs]; [lia | lia | lia |].
      exists st'. rewrite Hs. f_equal. f_equal. lia.
    + apply Z.ltb_ge in E. exists st. rewrite Z.max_l by lia. reflexivity.
Qed.

Lemma walk_bwd_ok : forall ops n counter target st,
  counter < zlen ops -> -1 <= target -> (Z.to_nat (counter - target) <= n)%nat ->
  exists st', walk_bwd ops n counter target st = Some (Z.min counter target, st').
Proof.
  intros ops n. induction n as [|n IH]; intros counter target st H0 Ht Hn.
  - cbn. destruct (counter >? target) eqn:E.
    + apply Z.gtb_lt in E. lia.
    + rewrite Z.gtb_ltb in E. apply Z.ltb_ge in E. exists st. rewrite Z.min_l by lia. reflexivity.
  - cbn [walk_bwd]. destruct (counter >? target) eqn:E.
    + apply Z.gtb_lt in E. destruct (nth_op_some ops counter) as [o Ho]; [lia|]. rewrite Ho.
      destruct (IH (counter - 1) target (scope_effect_bwd (Some o) st)) as [st' Hs]; [lia | lia | lia |].
      exists st'. rewrite Hs. f_equal. f_equal. lia.
    + rewrite Z.gtb_ltb in E. apply Z.ltb_ge in E. exists st. rewrite Z.min_l by lia. reflexivity.
Qed.

(* registered handlers carry a non-negative DECLARE counter *)
Definition hok (st : state) : Prop := Forall (Forall (fun h : handler => 0 <= snd h)) (hscopes st).

Lemma set_scopes_hs : forall st x v st', set_var st x v = Some st' -> hscopes st' = hscopes st.
Proof.
  intros st x v st' H. unfold set_var in H. destruct (set_scopes x v (scopes st)); [injection H as <-; reflexivity|].
  destruct (assocN x (params st)); [injection H as <-; reflexivity | discriminate].
Qed.

Lemma hok_push : forall st, hok st -> hok (push_scope st).
Proof. intros st H. unfold hok in *. cbn. constructor; [constructor | exact H]. Qed.

Lemma hok_pop : forall st, hok st -> hok (pop_scope st).
Proof. intros st H. unfold hok in *. cbn. destruct (hscopes st); [constructor|]. inversion H; assumption. Qed.

Lemma hok_declare_var : forall st x v, hok st -> hok (declare_var st x v).
Proof. intros st x v H. unfold declare_var. destruct (scopes st); exact H. Qed.

Lemma hok_declare_handler : forall st k h c, hok st -> 0 <= c -> hok (declare_handler st (k, h, c)).
Proof.
  intros st k h c H Hc. unfold declare_handler. destruct (hscopes st) as [|s r] eqn:E; [exact H|].
  unfold hok in *. cbn. rewrite E in H. inversion H as [|? ? Hs Hr]; subst. constructor; [|exact Hr].
  apply Forall_app. split; [exact Hs | constructor; [exact Hc | constructor]].
Qed.

Lemma hok_fwd : forall o st, hok st -> hok (scope_effect_fwd o st).
Proof. intros [[]|] st H; cbn; try exact H; [apply hok_push | apply hok_pop]; exact H. Qed.

Lemma hok_bwd : forall o st, hok st -> hok (scope_effect_bwd o st).
Proof. intros [[]|] st H; cbn; try exact H; [apply hok_pop | apply hok_push]; exact H. Qed.

Lemma walk_fwd_hok : forall ops n counter target st c st',
  hok st -> walk_fwd ops n counter target st = Some (c, st') -> hok st'.
Proof.
  intros ops n. induction n as [|n IH]; intros counter target st c st' H Hw; cbn [walk_fwd] in Hw;
    destruct (counter <? target); try discriminate; try (injection Hw as <- <-; exact H).
  destruct (nth_op ops counter) as [o|]; [|discriminate]. exact (IH _ _ _ _ _ (hok_fwd (Some o) st H) Hw).
Qed.

Lemma walk_bwd_hok : forall ops n counter target st c st',
  hok st -> walk_bwd ops n counter target st = Some (c, st') -> hok st'.
Proof.
  intros ops n. induction n as [|n IH]; intros counter target st c st' H Hw; cbn [walk_bwd] in Hw;
    destruct (counter >? target); try discriminate; try (injection Hw as <- <-; exact H).
  destruct (nth_op ops counter) as [o|]; [|discriminate]. exact (IH _ _ _ _ _ (hok_bwd (Some o) st H) Hw).
Qed.

(* one operation keeps the counter >= -1, the handler table well formed, and never indexes outside the list *)
Lemma exec_op_in_bounds : forall ops c o st,
  targets_ok ops = true -> hok st -> nth_op ops c = Some o ->
  match exec_op ops c o st with
  | SOk c' st' => -1 <= c' /\ hok st'
  | SPanic => False
  | _ => True
  end.
Proof.
  intros ops c o st Hok Hh Hn. destruct (nth_op_in _ _ _ Hn) as [Hin Hc].
  unfold targets_ok in Hok. rewrite forallb_forall in Hok. specialize (Hok o Hin).
  destruct o as [k h|d|x e|u e|x v|cnd idx|t idx|l idx|l idx]; cbn [exec_op].
  - split; [lia | apply hok_declare_handler; [exact Hh | lia]].
  - exact I.
  - destruct (eval st e) as [v|]; [|exact I].
    destruct (set_var st x v) as [st'|] eqn:Es; [|exact I].
    split; [lia|]. unfold hok. rewrite (set_scopes_hs _ _ _ _ Es). exact Hh.
  - destruct (eval st e) as [v|]; [split; [lia|exact Hh] | exact I].
  - split; [lia | apply hok_declare_var; exact Hh].
  - cbn in Hok. apply andb_prop in Hok. destruct Hok as [H1 H2]. apply Z.leb_le in H1, H2.
    destruct (eval st cnd) as [v|]; [|exact I].
    destruct (truthy v); (split; [lia | exact Hh]).
  - cbn in Hok. apply andb_prop in Hok. destruct Hok as [H1 H2]. apply Z.leb_le in H1, H2.
    destruct (c <=? idx) eqn:E.
    + apply Z.leb_le in E.
      destruct (walk_fwd_ok ops (S (length ops + Z.to_nat (Z.abs idx) + Z.to_nat (Z.abs c))) c (idx - 1) st) as [st' Hs];
        [lia | lia | lia |].
      rewrite Hs. split; [lia | exact (walk_fwd_hok _ _ _ _ _ _ _ Hh Hs)].
    + apply Z.leb_gt in E.
      destruct (walk_bwd_ok ops (S (length ops + Z.to_nat (Z.abs idx) + Z.to_nat (Z.abs c))) c (idx - 1) st) as [st' Hs];
        [lia | lia | lia |].
      rewrite Hs. split; [lia | exact (walk_bwd_hok _ _ _ _ _ _ _ Hh Hs)].
  - split; [lia | apply hok_push; exact Hh].
  - split; [lia | apply hok_pop; exact Hh].
Qed.

Lemma exit_scan_ok : forall ops n pos rem,
  0 <= pos -> (Z.to_nat (zlen ops - pos) <= n)%nat -> exists nc, exit_scan ops n pos rem = Some nc /\ pos <= nc.
Proof.
  intros ops n. induction n as [|n IH]; intros pos rem H0 Hn; cbn [exit_scan];
    destruct ((rem =? 0) || (zlen ops <=? pos)) eqn:E; try (exists pos; split; [reflexivity | lia]).
  - apply orb_false_elim in E. destruct E as [_ E]. apply Z.leb_gt in E. lia.
  - apply orb_false_elim in E. destruct E as [_ E]. apply Z.leb_gt in E.
    destruct (nth_op_some ops pos) as [o Ho]; [lia|]. rewrite Ho.
    destruct o; (edestruct (IH (pos + 1)) as [nc [Hs Hle]]; [lia | lia | rewrite Hs; exists nc; split; [reflexivity | lia]]).
Qed.

Lemma in_concat_hok : forall st h, hok st -> In h (concat (hscopes st)) -> 0 <= snd h.
Proof.
  intros st h H Hin. apply in_concat in Hin. destruct Hin as [l [Hl Hh]].
  unfold hok in H. rewrite Forall_forall in H. specialize (H l Hl). rewrite Forall_forall in H. exact (H h Hh).
Qed.

Lemma handle_error_in_bounds : forall ops c st, hok st -> 0 <= c ->
  match handle_error ops c st with
  | HGo c' st' => -1 <= c' /\ hok st'
  | HPanic => False
  | _ => True
  end.
Proof.
  intros ops c st Hh Hc. unfold handle_error.
  destruct (rev (concat (hscopes st))) as [|[[k h] hc] r] eqn:E; [exact I|].
  assert (Hhc : 0 <= hc).
  { apply (in_concat_hok st (k, h, hc) Hh). apply in_rev. rewrite E. left. reflexivity. }
  destruct h as [x e|u e].
  - destruct (run_hstmt st (HSet x e)) as [st'|] eqn:Er; [|exact I].
    assert (Hh' : hok st').
    { cbn in Er. destruct (eval st e) as [v|]; [|discriminate]. unfold hok. rewrite (set_scopes_hs _ _ _ _ Er). exact Hh. }
    destruct k.
    + destruct (exit_scan_ok ops (S (length ops)) hc 1 Hhc) as [nc [Hs Hle]]; [unfold zlen; lia|].
      rewrite Hs. split; [lia | exact Hh'].
    + split; [lia | exact Hh'].
  - destruct (eval st e) as [v|]; [|exact I]. split; [lia | exact Hh].
Qed.

(* pc_in_bounds: with all jump indexes inside [0, len], no run of any length ever reaches the "negative function counter"
   panic or indexes the operation list out of range (handlers included) *)
Theorem pc_in_bounds : forall ops, targets_ok ops = true ->
  forall fuel counter st, hok st -> -1 <= counter -> run ops fuel counter st <> MPanic.
Proof.
  intros ops Hok fuel. induction fuel as [|f IH]; intros counter st Hh Hc; [discriminate|].
  cbn [run]. destruct (counter + 1 <? 0) eqn:E; [apply Z.ltb_lt in E; lia|].
  destruct (nth_op ops (counter + 1)) as [o|] eqn:Hn; [|discriminate].
  pose proof (exec_op_in_bounds ops (counter + 1) o st Hok Hh Hn) as He.
  destruct (exec_op ops (counter + 1) o st) as [c' st'| | |]; [| |contradiction|discriminate].
  - destruct He as [Hb Hh']. exact (IH _ _ Hh' Hb).
  - pose proof (handle_error_in_bounds ops (counter + 1) st Hh ltac:(lia)) as Hhe.
    destruct (handle_error ops (counter + 1) st) as [| | |c' st']; try discriminate; [contradiction|].
    destruct Hhe as [Hb Hh']. exact (IH _ _ Hh' Hb).
Qed.

Lemma hok_init : forall ps us, hok (init_state ps us).
Proof. intros. unfold hok. cbn. constructor; constructor. Qed.

(* helper constructors taking Z identifiers (the development is in Z_scope) *)
Definition blk (l : Z) b := SBlock (Z.to_N l) b.
Definition dcl (x v : Z) := SDeclare (Z.to_N x) (Some v).
Definition set_ (x : Z) e := SSet (Z.to_N x) e.
Definition setu (u : Z) e := SSetUser (Z.to_N u) e.
Definition var (x : Z) := EVar (Z.to_N x).
Definition whl (l : Z) c b := SWhile (Z.to_N l) c b.
Definition lop (l : Z) b := SLoop (Z.to_N l) b.
Definition lv (l : Z) := SLeave (Z.to_N l).
Definition itr (l : Z) := SIterate (Z.to_N l).

(* ---------- refutation witnesses (both replayed on the engine by the driver's corpus) ---------- *)
(* BEGIN DECLARE v0 INT DEFAULT 1; l1: BEGIN DECLARE v0 INT DEFAULT 2; LEAVE l1; END; SET @u0 = v0; END *)
Definition leak_prog : stmt :=
  blk 0 (SSeq (dcl 0 1)
           (SSeq (blk 1 (SSeq (dcl 0 2) (lv 1)))
                 (setu 0 (var 0)))).

(* LEAVE of a labelled BEGIN..END jumps past its ScopeEnd without popping the scope: the inner v0 stays visible *)
Lemma leave_block_leaks_scope :
  (exists st, exec 20 leak_prog (init_state [] []) = (ONormal, st) /\ assocN 0%N (users st) = Some (Some 1))
  /\ (exists st, call leak_prog 100 [] [] = MDone st /\ assocN 0%N (users st) = Some (Some 2) /\ length (scopes st) = 2%nat).
Proof. split; eexists; vm_compute; repeat split; reflexivity. Qed.

(* BEGIN DECLARE v0 INT DEFAULT 0; l1: LOOP SET v0 = v0+1; IF v0 > 2 THEN LEAVE l1; END IF; END LOOP; SET v0 = 0;
   l1: WHILE v0 < 3 DO SET v0 = v0+1; IF v0 = 2 THEN ITERATE l1; END IF; SET @u0 = v0; END WHILE; END *)
Definition stale_prog : stmt :=
  blk 0 (SSeq (dcl 0 0)
           (SSeq (lop 1 (SSeq (set_ 0 (EBin Add (var 0) (EConst 1)))
                                (SIf (EBin Lt (EConst 2) (var 0)) (lv 1) SSkip)))
           (SSeq (set_ 0 (EConst 0))
                 (whl 1 (EBin Lt (var 0) (EConst 3))
                    (SSeq (set_ 0 (EBin Add (var 0) (EConst 1)))
                    (SSeq (SIf (EBin Eq (var 0) (EConst 2)) (itr 1) SSkip)
                          (setu 0 (var 0)))))))).

(* the label of the finished LOOP is still registered, so ITERATE l1 in the WHILE jumps back into the LOOP: the
   compiled program does not finish (within 3000 steps) although the structured semantics does *)
Lemma stale_label_diverges :
  (exists st, exec 50 stale_prog (init_state [] []) = (ONormal, st) /\ assocN 0%N (users st) = Some (Some 3))
  /\ call stale_prog 3000 [] [] = MNoFuel
  /\ targets_ok (parse stale_prog) = true.
Proof. split; [eexists; vm_compute; split; reflexivity | split; vm_compute; reflexivity]. Qed.

(* non-vacuity: a program with nested loops, LEAVE/ITERATE and shadowing on which machine and definition agree *)
Definition good_prog : stmt :=
  blk 0 (SSeq (dcl 0 0) (SSeq (dcl 1 0)
           (SSeq (whl 1 (EBin Lt (var 0) (EConst 5))
                    (SSeq (set_ 0 (EBin Add (var 0) (EConst 1)))
                    (SSeq (SIf (EBin Eq (var 0) (EConst 2)) (itr 1) SSkip)
                    (SSeq (SIf (EBin Eq (var 0) (EConst 4)) (lv 1) SSkip)
                    (SSeq (blk 0 (SSeq (dcl 1 100) (set_ 1 (EBin Add (var 1) (var 0)))))
                          (set_ 1 (EBin Add (var 1) (var 0))))))))
                 (SSeq (setu 0 (var 0)) (setu 1 (var 1)))))).

Lemma good_prog_agrees :
  targets_ok (parse good_prog) = true /\
  exists st1 st2, exec 50 good_prog (init_state [] []) = (ONormal, st1) /\ call good_prog 500 [] [] = MDone st2 /\
    users st1 = users st2 /\ users st1 = [(0%N, Some 4); (1%N, Some 4)] /\ length (scopes st2) = 1%nat.
Proof. split; [vm_compute; reflexivity|]. do 2 eexists. vm_compute. repeat split; reflexivity. Qed.

(* ---------- handlers: refutation witnesses (all replayed on the engine by the driver's corpus) ---------- *)
Definition hdl (k : hkind) (x v : Z) := SHandler k (HSet (Z.to_N x) (EConst v)).

(* BEGIN DECLARE v0 INT DEFAULT 0; DECLARE v1 INT DEFAULT 1;
     BEGIN DECLARE v1 INT DEFAULT 2; DECLARE EXIT HANDLER FOR SQLEXCEPTION SET v0 = 1; SIGNAL ...; SET @u1 = 1; END;
     SET @u0 = v1; END *)
Definition exit_leak_prog : stmt :=
  blk 0 (SSeq (dcl 0 0) (SSeq (dcl 1 1)
        (SSeq (blk 0 (SSeq (dcl 1 2) (SSeq (hdl HExit 0 1) (SSeq (SRaise false) (setu 1 (EConst 1))))))
              (setu 0 (var 1))))).

(* an EXIT handler continues after the ScopeEnd of its block without executing it: the block's scope is never popped *)
Lemma exit_handler_leaks_scope :
  (exists st, exec 20 exit_leak_prog (init_state [] []) = (ONormal, st) /\ assocN 0%N (users st) = Some (Some 1)
              /\ assocN 1%N (users st) = None)
  /\ (exists st, call exit_leak_prog 100 [] [] = MDone st /\ assocN 0%N (users st) = Some (Some 2)
                 /\ assocN 1%N (users st) = None /\ length (scopes st) = 2%nat).
Proof. split; eexists; vm_compute; repeat split; reflexivity. Qed.

(* BEGIN DECLARE v0 INT DEFAULT 0; DECLARE CONTINUE HANDLER ... SET v0 = 10;
     BEGIN DECLARE CONTINUE HANDLER ... SET v0 = 20; SIGNAL ...; END; SET @u0 = v0; END *)
Definition nested_handler_prog : stmt :=
  blk 0 (SSeq (dcl 0 0) (SSeq (hdl HContinue 0 10)
        (SSeq (blk 0 (SSeq (hdl HContinue 0 20) (SRaise false))) (setu 0 (var 0))))).

(* the most local handler must run; handleError keeps the last handler of ListHandlers, the outermost *)
Lemma outermost_handler_wins :
  (exists st, exec 20 nested_handler_prog (init_state [] []) = (ONormal, st) /\ assocN 0%N (users st) = Some (Some 20))
  /\ (exists st, call nested_handler_prog 100 [] [] = MDone st /\ assocN 0%N (users st) = Some (Some 10)).
Proof. split; eexists; vm_compute; split; reflexivity. Qed.

(* BEGIN DECLARE CONTINUE HANDLER FOR SQLEXCEPTION SET @u0 = 1; SIGNAL ...; SET @u1 = 2; END *)
Definition restart_prog : stmt :=
  blk 0 (SSeq (SHandler HContinue (HSetUser 0 (EConst 1))) (SSeq (SRaise false) (setu 1 (EConst 2)))).

(* a handler statement that returns rows (SET @u, INSERT ...) makes handleError return (-1, io.EOF): the procedure
   restarts from its first operation, for ever *)
Lemma handler_with_rows_restarts :
  (exists st, exec 20 restart_prog (init_state [] []) = (ONormal, st) /\ assocN 1%N (users st) = Some (Some 2))
  /\ call restart_prog 3000 [] [] = MNoFuel.
Proof. split; [eexists; vm_compute; split; reflexivity | vm_compute; reflexivity]. Qed.

(* non-vacuity for handlers: EXIT handler in an outer block, error in a nested block, no shadowing: agreement *)
Definition handler_good_prog : stmt :=
  blk 0 (SSeq (dcl 0 0)
        (SSeq (blk 0 (SSeq (hdl HExit 0 1)
                     (SSeq (blk 0 (SSeq (SRaise true) (setu 1 (EConst 1)))) (setu 2 (EConst 1)))))
              (setu 0 (var 0)))).

Lemma handler_good_agrees :
  exists st1 st2, exec 30 handler_good_prog (init_state [] []) = (ONormal, st1) /\
    call handler_good_prog 200 [] [] = MDone st2 /\ users st1 = users st2 /\ users st1 = [(0%N, Some 1)].
Proof. do 2 eexists. vm_compute. repeat split; reflexivity. Qed.

(* LOOP whose first body statement is a block with a shadowing declaration, ITERATE from inside the block *)
Definition loop_block_prog : stmt :=
  blk 0 (SSeq (dcl 0 1) (SSeq (dcl 1 0)
        (SSeq (lop 1 (blk 0 (SSeq (dcl 0 50)
                            (SSeq (set_ 1 (EBin Add (var 1) (EConst 1)))
                            (SSeq (SIf (EBin Le (EConst 3) (var 1)) (lv 1) SSkip)
                            (SSeq (SIf (EBin Eq (var 1) (EConst 1)) (itr 1) SSkip)
                                  (set_ 0 (EBin Add (var 0) (EConst 1)))))))))
              (setu 0 (var 0))))).

Lemma loop_block_agrees :
  exists st1 st2, exec 60 loop_block_prog (init_state [] []) = (ONormal, st1) /\
    call loop_block_prog 500 [] [] = MDone st2 /\ users st1 = users st2 /\ users st1 = [(0%N, Some 1)]
    /\ length (scopes st2) = 1%nat.
Proof. do 2 eexists. vm_compute. repeat split; reflexivity. Qed.

(* BEGIN DECLARE v0 INT DEFAULT 1; BEGIN DECLARE v0 INT DEFAULT 2; IF 1 THEN SET @u1 = 1; ELSE BEGIN SET @u1 = 2; END; END IF; END;
   SET @u0 = v0; END *)
Definition else_block_prog : stmt :=
  blk 0 (SSeq (dcl 0 1)
        (SSeq (blk 0 (SSeq (dcl 0 2) (SIf (EConst 1) (setu 1 (EConst 1)) (blk 0 (setu 1 (EConst 2))))))
              (setu 0 (var 0)))).

(* the Goto that skips an ELSE branch walks only up to Index-2: when the branch ends with a block, its ScopeBegin is
   pushed but its ScopeEnd not popped; the enclosing block then pops the wrong scope *)
Lemma else_block_leaks_scope :
  (exists st, exec 20 else_block_prog (init_state [] []) = (ONormal, st) /\ assocN 0%N (users st) = Some (Some 1))
  /\ (exists st, call else_block_prog 100 [] [] = MDone st /\ assocN 0%N (users st) = Some (Some 2) /\ length (scopes st) = 2%nat).
Proof. split; eexists; vm_compute; repeat split; reflexivity. Qed.

(* BEGIN DECLARE v0 INT DEFAULT 0; DECLARE v1 INT DEFAULT 0; SET v1 = NULL;
   REPEAT SET v0 = v0 + 1; IF 3 <= v0 THEN SET v1 = 1; END IF; UNTIL v1 = 1 END REPEAT; SET @u0 = v0; END *)
Definition until_null_prog : stmt :=
  blk 0 (SSeq (dcl 0 0) (SSeq (dcl 1 0) (SSeq (set_ 1 ENull)
        (SSeq (SRepeat 0%N (SSeq (set_ 0 (EBin Add (var 0) (EConst 1)))
                                 (SIf (EBin Le (EConst 3) (var 0)) (set_ 1 (EConst 1)) SSkip))
                           (EBin Eq (var 1) (EConst 1)))
              (setu 0 (var 0)))))).

(* REPEAT is compiled as IF NOT cond: when UNTIL evaluates to NULL, NOT NULL is NULL, the IF fails and the loop is left,
   although the condition is not true *)
Lemma until_null_leaves_loop :
  (exists st, exec 40 until_null_prog (init_state [] []) = (ONormal, st) /\ assocN 0%N (users st) = Some (Some 3))
  /\ (exists st, call until_null_prog 200 [] [] = MDone st /\ assocN 0%N (users st) = Some (Some 1)).
Proof. split; eexists; vm_compute; split; reflexivity. Qed.

(* BEGIN DECLARE v0 INT DEFAULT 1; l1: REPEAT BEGIN DECLARE v0 INT DEFAULT 2; IF 1 THEN ITERATE l1; END IF; END; UNTIL 1 END REPEAT;
   SET @u0 = v0; END *)
Definition iterate_repeat_prog : stmt :=
  blk 0 (SSeq (dcl 0 1)
        (SSeq (SRepeat 1%N (blk 0 (SSeq (dcl 0 2) (SIf (EConst 1) (itr 1) SSkip))) (EConst 1))
              (setu 0 (var 0)))).

(* ITERATE of a REPEAT from the first (unrolled) copy of its body is a FORWARD jump to the test; like every forward
   Goto it does not look at the operation just before its target -- here the ScopeEnd of the block the body ends with *)
Lemma iterate_repeat_leaks_scope :
  (exists st, exec 30 iterate_repeat_prog (init_state [] []) = (ONormal, st) /\ assocN 0%N (users st) = Some (Some 1))
  /\ (exists st, call iterate_repeat_prog 100 [] [] = MDone st /\ assocN 0%N (users st) = Some (Some 2) /\ length (scopes st) = 2%nat).
Proof. split; eexists; vm_compute; repeat split; reflexivity. Qed.
