(* C24 -- proofs about the machine (all operation lists, all runs) and refutation witnesses. *)
From Coq Require Import List ZArith NArith Bool Lia.
Import ListNotations.
From GMS Require Import Lang.C24Proc.
Open Scope Z_scope.

(* every jump index of the program lies in [0, len] *)
Definition idx_ok (len : Z) (o : op) : bool :=
  match o with
  | OpIf _ idx | OpGoto _ idx => (0 <=? idx) && (idx <=? len)
  | _ => true
  end.

Definition targets_ok (ops : list op) : bool := forallb (idx_ok (zlen ops)) ops.

Lemma nth_op_some : forall ops i, 0 <= i < zlen ops -> exists o, nth_op ops i = Some o.
Proof.
  intros ops i [H0 H1]. unfold nth_op. destruct (i <? 0) eqn:E; [apply Z.ltb_lt in E; lia|].
  destruct (nth_error ops (Z.to_nat i)) as [o|] eqn:En; [exists o; reflexivity|].
  apply nth_error_None in En. unfold zlen in H1. lia.
Qed.

Lemma nth_op_in : forall ops i o, nth_op ops i = Some o -> In o ops /\ 0 <= i < zlen ops.
Proof.
  intros ops i o H. unfold nth_op in H. destruct (i <? 0) eqn:E; [discriminate|]. apply Z.ltb_ge in E.
  split; [exact (nth_error_In _ _ H)|].
  assert (Hl : (Z.to_nat i < length ops)%nat) by (apply nth_error_Some; congruence).
  unfold zlen. lia.
Qed.

Lemma walk_fwd_ok : forall ops n counter target st,
  0 <= counter -> target <= zlen ops -> (Z.to_nat (target - counter) <= n)%nat ->
  exists st', walk_fwd ops n counter target st = Some (Z.max counter target, st').
Proof.
  intros ops n. induction n as [|n IH]; intros counter target st H0 Ht Hn.
  - cbn. destruct (counter <? target) eqn:E.
    + apply Z.ltb_lt in E. lia.
    + apply Z.ltb_ge in E. exists st. rewrite Z.max_l by lia. reflexivity.
  - cbn [walk_fwd]. destruct (counter <? target) eqn:E.
    + apply Z.ltb_lt in E. destruct (nth_op_some ops counter) as [o Ho]; [lia|]. rewrite Ho.
      destruct (IH (counter + 1) target (scope_effect_fwd (Some o) st)) as [st' Hs]; [lia | lia | lia |].
      exists st'. rewrite Hs. f_equal. f_equal. lia.
    + apply Z.ltb_ge in E. exists st. rewrite Z.max_l by lia. reflexivity.
Qed.

Lemma walk_bwd_ok : forall ops n counter target st,
  counter < zlen ops -> -1 <= target -> (Z.to_nat (counter - target) <= n)%nat ->
  exists st', walk_bwd ops n counter target st = Some (Z.min counter target, st').
Proof.
  intros ops n. induction n as [|n IH]; intros counter target st H0 Ht Hn.
  - cbn. destruct (counter >? target) eqn:E.
    + apply Z.gtb_lt in E. lia.
    + rewrite Z.gtb_ltb in E. apply Z.ltb_ge in E. exists st. rewrite Z.min_l by lia. reflexivity.
  - cbn [walk_bwd]. destruct (counter >? target) eqn:E.
    + apply Z.gtb_lt in E. destruct (nth_op_some ops counter) as [o Ho]; [lia|]. rewrite Ho.
      destruct (IH (counter - 1) target (scope_effect_bwd (Some o) st)) as [st' Hs]; [lia | lia | lia |].
      exists st'. rewrite Hs. f_equal. f_equal. lia.
    + rewrite Z.gtb_ltb in E. apply Z.ltb_ge in E. exists st. rewrite Z.min_l by lia. reflexivity.
Qed.

(* one operation keeps the counter in [-1, len-1] and never indexes outside the operation list *)
Lemma exec_op_in_bounds : forall ops c o st,
  targets_ok ops = true -> nth_op ops c = Some o ->
  exec_op ops c o st = SErr \/ exists c' st', exec_op ops c o st = SOk c' st' /\ -1 <= c' < zlen ops.
Proof.
  intros ops c o st Hok Hn. destruct (nth_op_in _ _ _ Hn) as [Hin Hc].
  unfold targets_ok in Hok. rewrite forallb_forall in Hok. specialize (Hok o Hin).
  destruct o as [x e|u e|x v|cnd idx|t idx|l idx|l idx]; cbn [exec_op].
  - destruct (eval st e) as [v|]; [|left; reflexivity].
    destruct (set_var st x v) as [st'|]; [right; exists c, st'; split; [reflexivity|lia] | left; reflexivity].
  - destruct (eval st e) as [v|]; [right; eexists c, _; split; [reflexivity|lia] | left; reflexivity].
  - right. eexists c, _. split; [reflexivity|lia].
  - cbn in Hok. apply andb_prop in Hok. destruct Hok as [H1 H2]. apply Z.leb_le in H1, H2.
    destruct (eval st cnd) as [v|]; [|left; reflexivity]. right.
    destruct (truthy v); [exists c, st | exists (idx - 1), st]; split; try reflexivity; lia.
  - cbn in Hok. apply andb_prop in Hok. destruct Hok as [H1 H2]. apply Z.leb_le in H1, H2. right.
    destruct (c <=? idx) eqn:E.
    + apply Z.leb_le in E.
      destruct (walk_fwd_ok ops (S (length ops + Z.to_nat (Z.abs idx) + Z.to_nat (Z.abs c))) c (idx - 1) st) as [st' Hs];
        [lia | lia | lia |].
      rewrite Hs. exists (Z.max c (idx - 1)), st'. split; [reflexivity | lia].
    + apply Z.leb_gt in E.
      destruct (walk_bwd_ok ops (S (length ops + Z.to_nat (Z.abs idx) + Z.to_nat (Z.abs c))) c (idx - 1) st) as [st' Hs];
        [lia | lia | lia |].
      rewrite Hs. exists (Z.min c (idx - 1)), st'. split; [reflexivity | lia].
  - right. eexists c, _. split; [reflexivity|lia].
  - right. eexists c, _. split; [reflexivity|lia].
Qed.

(* pc_in_bounds: with all jump indexes inside [0, len], no run of any length ever reaches the "negative function counter"
   panic or indexes the operation list out of range *)
Theorem pc_in_bounds : forall ops, targets_ok ops = true ->
  forall fuel counter st, -1 <= counter < zlen ops \/ counter = -1 -> run ops fuel counter st <> MPanic.
Proof.
  intros ops Hok fuel. induction fuel as [|f IH]; intros counter st Hc; [discriminate|].
  cbn [run]. destruct (counter + 1 <? 0) eqn:E; [apply Z.ltb_lt in E; lia|].
  destruct (nth_op ops (counter + 1)) as [o|] eqn:Hn; [|discriminate].
  destruct (exec_op_in_bounds ops (counter + 1) o st Hok Hn) as [He | [c' [st' [He Hb]]]]; rewrite He; [discriminate|].
  apply IH. left. exact Hb.
Qed.

(* helper constructors taking Z identifiers (the development is in Z_scope) *)
Definition blk (l : Z) b := SBlock (Z.to_N l) b.
Definition dcl (x v : Z) := SDeclare (Z.to_N x) (Some v).
Definition set_ (x : Z) e := SSet (Z.to_N x) e.
Definition setu (u : Z) e := SSetUser (Z.to_N u) e.
Definition var (x : Z) := EVar (Z.to_N x).
Definition whl (l : Z) c b := SWhile (Z.to_N l) c b.
Definition lop (l : Z) b := SLoop (Z.to_N l) b.
Definition lv (l : Z) := SLeave (Z.to_N l).
Definition itr (l : Z) := SIterate (Z.to_N l).

(* ---------- refutation witnesses (both replayed on the engine by the driver's corpus) ---------- *)
(* BEGIN DECLARE v0 INT DEFAULT 1; l1: BEGIN DECLARE v0 INT DEFAULT 2; LEAVE l1; END; SET @u0 = v0; END *)
Definition leak_prog : stmt :=
  blk 0 (SSeq (dcl 0 1)
           (SSeq (blk 1 (SSeq (dcl 0 2) (lv 1)))
                 (setu 0 (var 0)))).

(* LEAVE of a labelled BEGIN..END jumps past its ScopeEnd without popping the scope: the inner v0 stays visible *)
Lemma leave_block_leaks_scope :
  (exists st, exec 20 leak_prog (init_state [] []) = (ONormal, st) /\ assocN 0%N (users st) = Some (Some 1))
  /\ (exists st, call leak_prog 100 [] [] = MDone st /\ assocN 0%N (users st) = Some (Some 2) /\ length (scopes st) = 2%nat).
Proof. split; eexists; vm_compute; repeat split; reflexivity. Qed.

(* BEGIN DECLARE v0 INT DEFAULT 0; l1: LOOP SET v0 = v0+1; IF v0 > 2 THEN LEAVE l1; END IF; END LOOP; SET v0 = 0;
   l1: WHILE v0 < 3 DO SET v0 = v0+1; IF v0 = 2 THEN ITERATE l1; END IF; SET @u0 = v0; END WHILE; END *)
Definition stale_prog : stmt :=
  blk 0 (SSeq (dcl 0 0)
           (SSeq (lop 1 (SSeq (set_ 0 (EBin Add (var 0) (EConst 1)))
                                (SIf (EBin Lt (EConst 2) (var 0)) (lv 1) SSkip)))
           (SSeq (set_ 0 (EConst 0))
                 (whl 1 (EBin Lt (var 0) (EConst 3))
                    (SSeq (set_ 0 (EBin Add (var 0) (EConst 1)))
                    (SSeq (SIf (EBin Eq (var 0) (EConst 2)) (itr 1) SSkip)
                          (setu 0 (var 0)))))))).

(* the label of the finished LOOP is still registered, so ITERATE l1 in the WHILE jumps back into the LOOP: the
   compiled program does not finish (within 3000 steps) although the structured semantics does *)
Lemma stale_label_diverges :
  (exists st, exec 50 stale_prog (init_state [] []) = (ONormal, st) /\ assocN 0%N (users st) = Some (Some 3))
  /\ call stale_prog 3000 [] [] = MNoFuel
  /\ targets_ok (parse stale_prog) = true.
Proof. split; [eexists; vm_compute; split; reflexivity | split; vm_compute; reflexivity]. Qed.

(* non-vacuity: a program with nested loops, LEAVE/ITERATE and shadowing on which machine and definition agree *)
Definition good_prog : stmt :=
  blk 0 (SSeq (dcl 0 0) (SSeq (dcl 1 0)
           (SSeq (whl 1 (EBin Lt (var 0) (EConst 5))
                    (SSeq (set_ 0 (EBin Add (var 0) (EConst 1)))
                    (SSeq (SIf (EBin Eq (var 0) (EConst 2)) (itr 1) SSkip)
                    (SSeq (SIf (EBin Eq (var 0) (EConst 4)) (lv 1) SSkip)
                    (SSeq (blk 0 (SSeq (dcl 1 100) (set_ 1 (EBin Add (var 1) (var 0)))))
                          (set_ 1 (EBin Add (var 1) (var 0))))))))
                 (SSeq (setu 0 (var 0)) (setu 1 (var 1)))))).

Lemma good_prog_agrees :
  targets_ok (parse good_prog) = true /\
  exists st1 st2, exec 50 good_prog (init_state [] []) = (ONormal, st1) /\ call good_prog 500 [] [] = MDone st2 /\
    users st1 = users st2 /\ users st1 = [(0%N, Some 4); (1%N, Some 4)] /\ length (scopes st2) = 1%nat.
Proof. split; [vm_compute; reflexivity|]. do 2 eexists. vm_compute. repeat split; reflexivity. Qed.
