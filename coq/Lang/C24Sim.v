(* C24 -- guarded compiler correctness, part 1: a one-pass compiler [compile'] with an explicit label environment, the
   guard [ok] describing the structured fragment without the constructs on which the faithful model is refuted, and the
   forward simulation: whatever the definition [exec] computes for a guarded statement, the machine computes on the
   code [compile'] produced for it (program counter ~ position in the code, LEAVE / ITERATE ~ an in-flight Goto whose
   remaining walk over ScopeEnd / ScopeBegin operations performs the pops the definition performs block by block). *)
From Coq Require Import List ZArith NArith Bool Lia.
Import ListNotations.
From GMS Require Import Lang.C24Proc.
Open Scope Z_scope.

(* ---------- code length, one-pass compiler ---------- *)
Fixpoint clen (s : stmt) : Z :=
  match s with
  | SHandler _ _ | SRaise _ | SDeclare _ _ | SSet _ _ | SSetUser _ _ | SLeave _ | SIterate _ => 1
  | SSkip => 0
  | SSeq a b => clen a + clen b
  | SBlock _ b => clen b + 2
  | SIf _ t e => clen t + clen e + 2
  | SWhile _ _ b => clen b + 2
  | SRepeat _ b _ => clen b + clen b + 2
  | SLoop _ b => clen b + 1
  end.

(* enclosing loop labels -> (address ITERATE jumps to, address LEAVE jumps to) *)
Definition lenv := list (label * (Z * Z)).

Fixpoint assocE (k : label) (e : lenv) : option (Z * Z) :=
  match e with [] => None | (k', v) :: r => if N.eqb k k' then Some v else assocE k r end.

Definition bind (l : label) (v : Z * Z) (e : lenv) : lenv := if N.eqb l 0 then e else (l, v) :: e.

Fixpoint compile' (env : lenv) (base : Z) (s : stmt) : list op :=
  match s with
  | SHandler k h => [OpHandler k h]
  | SRaise d => [OpRaise d]
  | SSkip => []
  | SSeq a b => compile' env base a ++ compile' env (base + clen a) b
  | SDeclare x v => [OpDeclare x v]
  | SSet x e => [OpSet x e]
  | SSetUser u e => [OpExecUser u e]
  | SBlock l body => OpScopeBegin l (base + 1) :: compile' env (base + 1) body ++ [OpScopeEnd l (base + 1 + clen body + 1)]
  | SIf c th el =>
      let es := base + 1 + clen th + 1 in
      OpIf c es :: compile' env (base + 1) th ++ [OpGoto 0%N (es + clen el)] ++ compile' env es el
  | SWhile l c body =>
      let e := base + 1 + clen body + 1 in
      OpIf c e :: compile' (bind l (base, e) env) (base + 1) body ++ [OpGoto 0%N base]
  | SRepeat l body c =>
      let ls := base + clen body in
      let e := ls + 1 + clen body + 1 in
      let env' := bind l (ls, e) env in
      compile' env' base body ++ OpIf (ENot c) e :: compile' env' (ls + 1) body ++ [OpGoto 0%N ls]
  | SLoop l body =>
      let e := base + clen body + 1 in
      compile' (bind l (base, e) env) base body ++ [OpGoto l base]
  | SIterate l => [OpGoto l (match assocE l env with Some (s, _) => s | None => -1 end)]
  | SLeave l => [OpGoto l (match assocE l env with Some (_, e) => e | None => -2 end)]
  end.

Lemma zlen_app : forall {A} (a b : list A), zlen (a ++ b) = zlen a + zlen b.
Proof. intros. unfold zlen. rewrite app_length. lia. Qed.

Lemma zlen_cons : forall {A} (x : A) l, zlen (x :: l) = 1 + zlen l.
Proof. intros. unfold zlen. cbn [length]. lia. Qed.

Lemma zlen_nil : forall {A}, zlen (@nil A) = 0.
Proof. reflexivity. Qed.

Lemma zlen_nonneg : forall {A} (l : list A), 0 <= zlen l.
Proof. intros. unfold zlen. lia. Qed.

Lemma clen_compile' : forall s env base, zlen (compile' env base s) = clen s.
Proof.
  induction s; intros env base; cbn [compile' clen]; repeat (rewrite ?zlen_app, ?zlen_cons, ?zlen_nil);
    repeat match goal with H : forall env base, zlen (compile' env base ?x) = _ |- _ => rewrite !H; clear H end; try lia.
Qed.

Lemma clen_nonneg : forall s, 0 <= clen s.
Proof. intros s. rewrite <- (clen_compile' s [] 0). apply zlen_nonneg. Qed.

(* ---------- the guard ---------- *)
Definition addl (l : label) (ls : list label) : list label := if N.eqb l 0 then ls else l :: ls.
Definition memL (l : label) (ls : list label) : bool := existsb (N.eqb l) ls.

(* the UNTIL condition cannot evaluate to NULL (the engine leaves a REPEAT whose UNTIL is NULL, see the refutation) *)
Fixpoint total (e : expr) : bool :=
  match e with
  | EConst _ => true
  | EIsNull _ => true
  | ENot a => total a
  | EBin _ a b => total a && total b
  | _ => false
  end.

(* the code of the statement ends with a ScopeEnd *)
Fixpoint ends_block (s : stmt) : bool :=
  match s with
  | SBlock _ _ => true
  | SSeq a b => if clen b =? 0 then ends_block a else ends_block b
  | _ => false
  end.

(* the code of the statement starts with a Goto (LEAVE / ITERATE, or the back-jump of a LOOP with an empty body).  An
   ITERATE that is the very first operation of its LOOP has counter = Index: execOp takes the forward branch, walks
   nothing and the interpreter simply continues with the next operation instead of restarting the loop *)
Fixpoint starts_goto (s : stmt) : bool :=
  match s with
  | SLeave _ | SIterate _ => true
  | SSeq a b => if clen a =? 0 then starts_goto b else starts_goto a
  | SRepeat _ b _ => if clen b =? 0 then false else starts_goto b
  | SLoop _ b => if clen b =? 0 then true else starts_goto b
  | _ => false
  end.

(* [it] / [lv]: labels ITERATE / LEAVE may name here (enclosing WHILE and LOOP; enclosing REPEAT for LEAVE only) *)
Fixpoint ok (it lv : list label) (s : stmt) : bool :=
  match s with
  | SHandler _ _ | SRaise _ => false
  | SSkip | SDeclare _ _ | SSet _ _ | SSetUser _ _ => true
  | SSeq a b => ok it lv a && ok it lv b
  | SBlock l body => N.eqb l 0 && ok it lv body
  | SIf _ th el => ok it lv th && ok it lv el && negb (ends_block el)
  | SWhile l _ body => ok (addl l it) (addl l lv) body
  | SRepeat l body c => total c && negb (memL l it) && ok it (addl l lv) body
  | SLoop l body => (0 <? clen body) && negb (starts_goto body) && ok (addl l it) (addl l lv) body
  | SLeave l => memL l lv
  | SIterate l => memL l it
  end.

(* ---------- scope effects of walking over code ---------- *)
Definition eff_fwd (code : list op) (st : state) : state :=
  fold_left (fun st o => scope_effect_fwd (Some o) st) code st.

(* operations are visited from the last to the first *)
Definition eff_bwd (code : list op) (st : state) : state :=
  fold_right (fun o st => scope_effect_bwd (Some o) st) st code.

Lemma eff_fwd_app : forall a b st, eff_fwd (a ++ b) st = eff_fwd b (eff_fwd a st).
Proof. intros. unfold eff_fwd. apply fold_left_app. Qed.

Lemma eff_bwd_app : forall a b st, eff_bwd (a ++ b) st = eff_bwd a (eff_bwd b st).
Proof. intros. unfold eff_bwd. apply fold_right_app. Qed.

Lemma pop_push : forall st, pop_scope (push_scope st) = st.
Proof. intros [a b c d]. reflexivity. Qed.

(* complete statements are balanced in both directions *)
Lemma balanced_fwd : forall s env base st, eff_fwd (compile' env base s) st = st.
Proof.
  induction s; intros env base st; cbn [compile']; try reflexivity.
  - rewrite eff_fwd_app, IHs1, IHs2. reflexivity.
  - change (eff_fwd (compile' env (base + 1) s ++ [OpScopeEnd l (base + 1 + clen s + 1)]) (push_scope st) = st).
    rewrite eff_fwd_app, IHs. cbn. apply pop_push.
  - change (eff_fwd (compile' env (base + 1) s1 ++ [OpGoto 0%N (base + 1 + clen s1 + 1 + clen s2)] ++ compile' env (base + 1 + clen s1 + 1) s2) st = st).
    rewrite !eff_fwd_app, IHs1, IHs2. reflexivity.
  - change (eff_fwd (compile' (bind l (base, base + 1 + clen s + 1) env) (base + 1) s ++ [OpGoto 0%N base]) st = st).
    rewrite eff_fwd_app, IHs. reflexivity.
  - rewrite eff_fwd_app, IHs.
    change (eff_fwd (compile' (bind l (base + clen s, base + clen s + 1 + clen s + 1) env) (base + clen s + 1) s ++ [OpGoto 0%N (base + clen s)]) st = st).
    rewrite eff_fwd_app, IHs. reflexivity.
  - rewrite eff_fwd_app, IHs. reflexivity.
Qed.

Lemma balanced_bwd : forall s env base st, eff_bwd (compile' env base s) st = st.
Proof.
  induction s; intros env base st; cbn [compile']; try reflexivity.
  - rewrite eff_bwd_app, IHs2, IHs1. reflexivity.
  - change (scope_effect_bwd (Some (OpScopeBegin l (base + 1))) (eff_bwd (compile' env (base + 1) s ++ [OpScopeEnd l (base + 1 + clen s + 1)]) st) = st).
    rewrite eff_bwd_app. cbn [eff_bwd fold_right scope_effect_bwd]. fold (eff_bwd (compile' env (base + 1) s) (push_scope st)).
    rewrite IHs. apply pop_push.
  - change (eff_bwd (compile' env (base + 1) s1 ++ [OpGoto 0%N (base + 1 + clen s1 + 1 + clen s2)] ++ compile' env (base + 1 + clen s1 + 1) s2) st = st).
    rewrite !eff_bwd_app, IHs2. cbn [eff_bwd fold_right scope_effect_bwd]. fold (eff_bwd (compile' env (base + 1) s1) st). apply IHs1.
  - change (eff_bwd (compile' (bind l (base, base + 1 + clen s + 1) env) (base + 1) s ++ [OpGoto 0%N base]) st = st).
    rewrite eff_bwd_app. cbn [eff_bwd fold_right scope_effect_bwd]. apply IHs.
  - rewrite eff_bwd_app.
    change (eff_bwd (compile' (bind l (base + clen s, base + clen s + 1 + clen s + 1) env) base s)
             (eff_bwd (compile' (bind l (base + clen s, base + clen s + 1 + clen s + 1) env) (base + clen s + 1) s ++ [OpGoto 0%N (base + clen s)]) st) = st).
    rewrite eff_bwd_app. cbn [eff_bwd fold_right scope_effect_bwd].
    fold (eff_bwd (compile' (bind l (base + clen s, base + clen s + 1 + clen s + 1) env) (base + clen s + 1) s) st).
    rewrite IHs. apply IHs.
  - rewrite eff_bwd_app. cbn [eff_bwd fold_right scope_effect_bwd]. apply IHs.
Qed.

(* ---------- positions in concatenated code ---------- *)
Lemma nth_op_mid : forall (A : list op) o B, nth_op (A ++ o :: B) (zlen A) = Some o.
Proof.
  intros A o B. unfold nth_op. pose proof (zlen_nonneg A) as H.
  destruct (zlen A <? 0) eqn:E; [apply Z.ltb_lt in E; lia|].
  unfold zlen. rewrite Nat2Z.id. rewrite nth_error_app2 by lia. rewrite Nat.sub_diag. reflexivity.
Qed.

Lemma nth_op_end : forall (A : list op), nth_op A (zlen A) = None.
Proof.
  intros A. unfold nth_op. pose proof (zlen_nonneg A) as H.
  destruct (zlen A <? 0) eqn:E; [apply Z.ltb_lt in E; lia|].
  unfold zlen. rewrite Nat2Z.id. apply nth_error_None. lia.
Qed.

(* walking forward over [mid] *)
Lemma walk_fwd_zip : forall mid A B n st, (length mid <= n)%nat ->
  walk_fwd (A ++ mid ++ B) n (zlen A) (zlen A + zlen mid) st = Some (zlen A + zlen mid, eff_fwd mid st).
Proof.
  induction mid as [|o m IH]; intros A B n st Hn.
  - rewrite zlen_nil, Z.add_0_r. destruct n; cbn [walk_fwd]; rewrite Z.ltb_irrefl; reflexivity.
  - destruct n as [|n]; [cbn in Hn; lia|]. cbn [walk_fwd].
    rewrite zlen_cons. pose proof (zlen_nonneg m).
    destruct (zlen A <? zlen A + (1 + zlen m)) eqn:E; [|apply Z.ltb_ge in E; lia].
    change (A ++ (o :: m) ++ B) with (A ++ o :: (m ++ B)). rewrite nth_op_mid.
    replace (A ++ o :: m ++ B) with ((A ++ [o]) ++ m ++ B) by (rewrite <- app_assoc; reflexivity).
    replace (zlen A + 1) with (zlen (A ++ [o])) by (rewrite zlen_app, zlen_cons, zlen_nil; lia).
    replace (zlen A + (1 + zlen m)) with (zlen (A ++ [o]) + zlen m) by (rewrite zlen_app, zlen_cons, zlen_nil; lia).
    rewrite IH by (cbn in Hn; lia). reflexivity.
Qed.

(* walking backward over [mid], from its last operation to its first *)
Lemma walk_bwd_zip : forall mid A B n st, (length mid <= n)%nat ->
  walk_bwd (A ++ mid ++ B) n (zlen A + zlen mid - 1) (zlen A - 1) st = Some (zlen A - 1, eff_bwd mid st).
Proof.
  induction mid as [|o m IH] using rev_ind; intros A B n st Hn.
  - rewrite zlen_nil. destruct n; cbn [walk_bwd];
      (destruct (zlen A + 0 - 1 >? zlen A - 1) eqn:E; [apply Z.gtb_lt in E; lia|]); f_equal; f_equal; lia.
  - destruct n as [|n]; [rewrite app_length in Hn; cbn in Hn; lia|]. cbn [walk_bwd].
    rewrite zlen_app, zlen_cons, zlen_nil. pose proof (zlen_nonneg m).
    destruct (zlen A + (zlen m + (1 + 0)) - 1 >? zlen A - 1) eqn:E; [|rewrite Z.gtb_ltb in E; apply Z.ltb_ge in E; lia].
    replace (A ++ (m ++ [o]) ++ B) with ((A ++ m) ++ o :: B) by (rewrite <- !app_assoc; reflexivity).
    replace (zlen A + (zlen m + (1 + 0)) - 1) with (zlen (A ++ m)) by (rewrite zlen_app; lia).
    rewrite nth_op_mid.
    replace ((A ++ m) ++ o :: B) with (A ++ m ++ (o :: B)) by (rewrite <- app_assoc; reflexivity).
    replace (zlen (A ++ m) - 1) with (zlen A + zlen m - 1) by (rewrite zlen_app; lia).
    rewrite IH by (rewrite app_length in Hn; cbn in Hn; lia).
    rewrite eff_bwd_app. reflexivity.
Qed.

(* ---------- single steps and reachability ---------- *)
Definition mstep (ops : list op) (pc : Z) (st : state) : option (Z * state) :=
  match nth_op ops pc with
  | Some o => match exec_op ops pc o st with SOk c' st' => Some (c' + 1, st') | _ => None end
  | None => None
  end.

Inductive reach (ops : list op) : Z -> state -> Z -> state -> Prop :=
| reach_refl : forall pc st, reach ops pc st pc st
| reach_step : forall pc st pc1 st1 pc2 st2,
    mstep ops pc st = Some (pc1, st1) -> reach ops pc1 st1 pc2 st2 -> reach ops pc st pc2 st2.

Lemma reach_trans : forall ops a sa b sb c sc, reach ops a sa b sb -> reach ops b sb c sc -> reach ops a sa c sc.
Proof. intros ops a sa b sb c sc H. induction H; intros H2; [exact H2 | eapply reach_step; eauto]. Qed.

Lemma reach_one : forall ops pc st pc1 st1, mstep ops pc st = Some (pc1, st1) -> reach ops pc st pc1 st1.
Proof. intros. eapply reach_step; [eassumption | apply reach_refl]. Qed.

(* reach is what [run] does *)
Lemma reach_run : forall ops a sa b sb, reach ops a sa b sb ->
  forall k, exists n, run ops (n + k) (a - 1) sa = run ops k (b - 1) sb.
Proof.
  intros ops a sa b sb H. induction H as [pc st | pc st pc1 st1 pc2 st2 Hs Hr IH]; intros k.
  - exists 0%nat. reflexivity.
  - destruct (IH k) as [n Hn]. exists (S n). cbn [Nat.add run].
    replace (pc - 1 + 1) with pc by lia. unfold mstep in Hs.
    destruct (nth_op ops pc) as [o|] eqn:Eo; [|discriminate].
    assert (Hpc : (pc <? 0) = false).
    { unfold nth_op in Eo. destruct (pc <? 0); [discriminate | reflexivity]. }
    rewrite Hpc. destruct (exec_op ops pc o st) as [c' st'| | |]; try discriminate.
    injection Hs as <- <-. replace (c' + 1 - 1) with c' in Hn by lia. exact Hn.
Qed.

(* a non-jumping operation *)
Lemma step_plain : forall A o B st st',
  exec_op (A ++ o :: B) (zlen A) o st = SOk (zlen A) st' ->
  reach (A ++ o :: B) (zlen A) st (zlen A + 1) st'.
Proof. intros A o B st st' H. apply reach_one. unfold mstep. rewrite nth_op_mid, H. reflexivity. Qed.

(* a forward Goto over [mid] and one more operation [x] (which is skipped without being looked at) *)
Lemma goto_fwd : forall A t mid x B st,
  exec_op (A ++ (OpGoto t (zlen A + 1 + zlen mid + 1) :: mid) ++ x :: B) (zlen A)
          (OpGoto t (zlen A + 1 + zlen mid + 1)) st = SOk (zlen A + 1 + zlen mid) (eff_fwd mid st).
Proof.
  intros A t mid x B st. cbn [exec_op]. pose proof (zlen_nonneg mid). pose proof (zlen_nonneg A).
  destruct (zlen A <=? zlen A + 1 + zlen mid + 1) eqn:E; [|apply Z.leb_gt in E; lia].
  replace (zlen A + 1 + zlen mid + 1 - 1) with (zlen A + zlen (OpGoto t (zlen A + 1 + zlen mid + 1) :: mid))
    by (rewrite zlen_cons; lia).
  rewrite walk_fwd_zip.
  - rewrite zlen_cons. f_equal. lia.
  - rewrite !app_length. cbn [length]. lia.
Qed.

(* a forward Goto to the next operation *)
Lemma goto_next : forall A t B st,
  exec_op (A ++ OpGoto t (zlen A + 1) :: B) (zlen A) (OpGoto t (zlen A + 1)) st = SOk (zlen A) st.
Proof.
  intros A t B st. cbn [exec_op]. pose proof (zlen_nonneg A).
  destruct (zlen A <=? zlen A + 1) eqn:E; [|apply Z.leb_gt in E; lia].
  replace (zlen A + 1 - 1) with (zlen A) by lia.
  cbn [walk_fwd]. rewrite Z.ltb_irrefl. reflexivity.
Qed.

(* a backward Goto to the first operation of the non-empty [mid] that precedes it *)
Lemma goto_bwd : forall A t mid B st, mid <> [] ->
  exec_op (A ++ (mid ++ [OpGoto t (zlen A)]) ++ B) (zlen A + zlen mid) (OpGoto t (zlen A)) st
  = SOk (zlen A - 1) (eff_bwd mid st).
Proof.
  intros A t mid B st Hne. cbn [exec_op]. pose proof (zlen_nonneg A).
  assert (0 < zlen mid) by (destruct mid; [contradiction | rewrite zlen_cons; pose proof (zlen_nonneg mid); lia]).
  destruct (zlen A + zlen mid <=? zlen A) eqn:E; [apply Z.leb_le in E; lia|].
  replace (zlen A + zlen mid) with (zlen A + zlen (mid ++ [OpGoto t (zlen A)]) - 1)
    by (rewrite zlen_app, zlen_cons, zlen_nil; lia).
  rewrite walk_bwd_zip.
  - rewrite eff_bwd_app. reflexivity.
  - rewrite !app_length. cbn [length]. lia.
Qed.

(* removing the last operation of a branch that does not end with a block leaves it balanced *)
Lemma removelast_app_ne : forall {A} (a b : list A), b <> [] -> removelast (a ++ b) = a ++ removelast b.
Proof. intros. apply removelast_app. assumption. Qed.

Lemma clen_zero_nil : forall s env base, clen s = 0 -> compile' env base s = [].
Proof.
  intros s env base H. pose proof (clen_compile' s env base) as L. rewrite H in L.
  destruct (compile' env base s); [reflexivity | rewrite zlen_cons in L; pose proof (zlen_nonneg l); lia].
Qed.

Lemma clen_pos_ne : forall s env base, clen s <> 0 -> compile' env base s <> [].
Proof. intros s env base H E. pose proof (clen_compile' s env base) as L. rewrite E, zlen_nil in L. lia. Qed.

Lemma balanced_removelast : forall s it lv env base st,
  ok it lv s = true -> ends_block s = false -> eff_fwd (removelast (compile' env base s)) st = st.
Proof.
  induction s; intros it lv env base st Hok He; cbn [compile']; try reflexivity; cbn [ok ends_block] in *; try discriminate.
  - apply andb_prop in Hok. destruct Hok as [H1 H2].
    destruct (clen s2 =? 0) eqn:E.
    + apply Z.eqb_eq in E. rewrite (clen_zero_nil s2 _ _ E), app_nil_r. eapply IHs1; eassumption.
    + apply Z.eqb_neq in E. rewrite removelast_app_ne by (apply clen_pos_ne; exact E).
      rewrite eff_fwd_app, balanced_fwd. eapply IHs2; eassumption.
  - apply andb_prop in Hok. destruct Hok as [Hok Hnb]. apply andb_prop in Hok. destruct Hok as [H1 H2].
    apply negb_true_iff in Hnb.
    change (eff_fwd (removelast ((OpIf c (base + 1 + clen s1 + 1) :: compile' env (base + 1) s1) ++
              ([OpGoto 0%N (base + 1 + clen s1 + 1 + clen s2)] ++ compile' env (base + 1 + clen s1 + 1) s2))) st = st).
    rewrite removelast_app_ne by discriminate. rewrite eff_fwd_app.
    change (eff_fwd (OpIf c (base + 1 + clen s1 + 1) :: compile' env (base + 1) s1) st) with (eff_fwd (compile' env (base + 1) s1) st).
    rewrite balanced_fwd.
    destruct (clen s2 =? 0) eqn:E.
    + apply Z.eqb_eq in E. rewrite (clen_zero_nil s2 _ _ E). reflexivity.
    + apply Z.eqb_neq in E. rewrite removelast_app_ne by (apply clen_pos_ne; exact E).
      rewrite eff_fwd_app. cbn [eff_fwd fold_left scope_effect_fwd]. eapply IHs2; eassumption.
  - change (eff_fwd (removelast ((OpIf c (base + 1 + clen s + 1) :: compile' (bind l (base, base + 1 + clen s + 1) env) (base + 1) s) ++ [OpGoto 0%N base])) st = st).
    rewrite removelast_app_ne by discriminate. rewrite eff_fwd_app. cbn [removelast eff_fwd fold_left].
    change (eff_fwd (compile' (bind l (base, base + 1 + clen s + 1) env) (base + 1) s) st = st). apply balanced_fwd.
  - rewrite removelast_app_ne by discriminate. rewrite eff_fwd_app, balanced_fwd.
    change (eff_fwd (removelast ((OpIf (ENot c) (base + clen s + 1 + clen s + 1) :: compile' (bind l (base + clen s, base + clen s + 1 + clen s + 1) env) (base + clen s + 1) s) ++ [OpGoto 0%N (base + clen s)])) st = st).
    rewrite removelast_app_ne by discriminate. rewrite eff_fwd_app. cbn [removelast eff_fwd fold_left].
    change (eff_fwd (compile' (bind l (base + clen s, base + clen s + 1 + clen s + 1) env) (base + clen s + 1) s) st = st). apply balanced_fwd.
  - rewrite removelast_app_ne by discriminate. rewrite eff_fwd_app, balanced_fwd. reflexivity.
Qed.

Lemma starts_goto_first : forall s env base t i rest,
  starts_goto s = false -> compile' env base s <> OpGoto t i :: rest.
Proof.
  induction s; intros env base t i rest Hs; cbn [compile' starts_goto] in *; try discriminate.
  - destruct (clen s1 =? 0) eqn:E.
    + apply Z.eqb_eq in E. rewrite (clen_zero_nil s1 _ _ E). cbn [app]. apply IHs2. exact Hs.
    + apply Z.eqb_neq in E. pose proof (clen_pos_ne s1 env base E) as Hne.
      destruct (compile' env base s1) as [|x ca] eqn:Ec; [contradiction|].
      cbn [app]. intros Heq. injection Heq as -> _. exact (IHs1 env base t i ca Hs Ec).
  - destruct (clen s =? 0) eqn:E.
    + apply Z.eqb_eq in E. rewrite (clen_zero_nil s _ _ E). cbn [app]. discriminate.
    + apply Z.eqb_neq in E.
      pose proof (clen_pos_ne s (bind l (base + clen s, base + clen s + 1 + clen s + 1) env) base E) as Hne.
      destruct (compile' (bind l (base + clen s, base + clen s + 1 + clen s + 1) env) base s) as [|x ca] eqn:Ec; [contradiction|].
      cbn [app]. intros Heq. injection Heq as -> _. exact (IHs _ base t i ca Hs Ec).
  - destruct (clen s =? 0) eqn:E; [discriminate|].
    apply Z.eqb_neq in E.
    pose proof (clen_pos_ne s (bind l (base, base + clen s + 1) env) base E) as Hne.
    destruct (compile' (bind l (base, base + clen s + 1) env) base s) as [|x ca] eqn:Ec; [contradiction|].
    cbn [app]. intros Heq. injection Heq as -> _. exact (IHs _ base t i ca Hs Ec).
Qed.

(* ---------- facts about the definition ---------- *)
Lemma total_nonnull : forall c st v, total c = true -> eval st c = Some v -> v <> None.
Proof.
  induction c; intros st v Ht Hv; cbn [total eval] in *; try discriminate.
  - injection Hv as <-. discriminate.
  - apply andb_prop in Ht. destruct Ht as [H1 H2].
    destruct (eval st c1) as [x|] eqn:E1; [|discriminate]. destruct (eval st c2) as [y|] eqn:E2; [|discriminate].
    injection Hv as <-. pose proof (IHc1 st x H1 E1). pose proof (IHc2 st y H2 E2).
    destruct x as [x|]; [|contradiction]. destruct y as [y|]; [|contradiction]. destruct o; discriminate.
  - destruct (eval st c) as [[z|]|] eqn:E; try discriminate.
    + injection Hv as <-. discriminate.
    + exfalso. exact (IHc st None Ht E eq_refl).
  - destruct (eval st c) as [[z|]|]; try discriminate; injection Hv as <-; discriminate.
Qed.

Lemma truthy_b2v : forall b, truthy (b2v b) = b.
Proof. destruct b; reflexivity. Qed.

Lemma memL_addl_other : forall l l' ls, lbl_match l l' = false -> memL l' (addl l ls) = memL l' ls.
Proof.
  intros l l' ls H. unfold addl. destruct (N.eqb l 0) eqn:E0; [reflexivity|].
  cbn [memL existsb]. unfold lbl_match in H. rewrite E0 in H. cbn in H. rewrite N.eqb_sym, H. reflexivity.
Qed.

(* the labels an outcome carries are labels the guard allows at that place *)
Lemma outcome_labels : forall f s it lv st o st', ok it lv s = true -> exec f s st = (o, st') ->
  match o with OIter l => memL l it = true | OLeave l => memL l lv = true | _ => True end.
Proof.
  induction f as [|f IH]; intros s it lv st o st' Hok Hex; [cbn in Hex; injection Hex as <- <-; exact I|].
  destruct s; cbn [exec] in Hex; cbn [ok] in Hok; try discriminate Hok.
  - injection Hex as <- <-. exact I.
  - apply andb_prop in Hok. destruct Hok as [H1 H2]. destruct (exec f s1 st) as [oa st1] eqn:Ea.
    pose proof (IH _ _ _ _ _ _ H1 Ea) as Pa.
    destruct oa; try (injection Hex as <- <-; exact Pa). exact (IH _ _ _ _ _ _ H2 Hex).
  - injection Hex as <- <-. exact I.
  - destruct (eval st e); [destruct (set_var st x v)|]; injection Hex as <- <-; exact I.
  - destruct (eval st e); injection Hex as <- <-; exact I.
  - apply andb_prop in Hok. destruct Hok as [Hl Hb]. apply N.eqb_eq in Hl. subst l.
    destruct (exec f s (push_scope st)) as [ob st1] eqn:Eb. pose proof (IH _ _ _ _ _ _ Hb Eb) as Pb.
    destruct ob; try (injection Hex as <- <-; exact Pb).
    destruct (depth =? depth_of (push_scope st)); injection Hex as <- <-; exact I.
  - apply andb_prop in Hok. destruct Hok as [Hok _]. apply andb_prop in Hok. destruct Hok as [H1 H2].
    destruct (eval st c) as [v|]; [|injection Hex as <- <-; exact I].
    destruct (truthy v); [exact (IH _ _ _ _ _ _ H1 Hex) | exact (IH _ _ _ _ _ _ H2 Hex)].
  - (* SWhile *)
    destruct (eval st c) as [v|]; [|injection Hex as <- <-; exact I].
    destruct (truthy v); [|injection Hex as <- <-; exact I].
    destruct (exec f s st) as [ob st1] eqn:Eb. pose proof (IH _ _ _ _ _ _ Hok Eb) as Pb.
    assert (Hw : ok it lv (SWhile l c s) = true) by exact Hok.
    destruct ob; try (injection Hex as <- <-; exact I).
    + exact (IH _ _ _ _ _ _ Hw Hex).
    + destruct (lbl_match l l0) eqn:Lm; [injection Hex as <- <-; exact I|].
      injection Hex as <- <-. rewrite memL_addl_other in Pb by exact Lm. exact Pb.
    + destruct (lbl_match l l0) eqn:Lm; [exact (IH _ _ _ _ _ _ Hw Hex)|].
      injection Hex as <- <-. rewrite memL_addl_other in Pb by exact Lm. exact Pb.
  - (* SRepeat *)
    assert (Hr : ok it lv (SRepeat l s c) = true) by exact Hok.
    apply andb_prop in Hok. destruct Hok as [Hok Hb]. apply andb_prop in Hok. destruct Hok as [Ht Hni].
    destruct (exec f s st) as [ob st1] eqn:Eb. pose proof (IH _ _ _ _ _ _ Hb Eb) as Pb.
    assert (After : match eval st1 c with
                    | Some v => if truthy v then (ONormal, st1) else exec f (SRepeat l s c) st1
                    | None => (OErr, st1) end = (o, st') ->
                    match o with OIter l1 => memL l1 it = true | OLeave l1 => memL l1 lv = true | _ => True end).
    { intros Hx. destruct (eval st1 c) as [v|]; [|injection Hx as <- <-; exact I].
      destruct (truthy v); [injection Hx as <- <-; exact I | exact (IH _ _ _ _ _ _ Hr Hx)]. }
    destruct ob; try (injection Hex as <- <-; exact I).
    + exact (After Hex).
    + destruct (lbl_match l l0) eqn:Lm; [injection Hex as <- <-; exact I|].
      injection Hex as <- <-. rewrite memL_addl_other in Pb by exact Lm. exact Pb.
    + destruct (lbl_match l l0) eqn:Lm; [exact (After Hex)|]. injection Hex as <- <-. exact Pb.
  - (* SLoop *)
    assert (Hl : ok it lv (SLoop l s) = true) by exact Hok.
    apply andb_prop in Hok. destruct Hok as [_ Hb].
    destruct (exec f s st) as [ob st1] eqn:Eb. pose proof (IH _ _ _ _ _ _ Hb Eb) as Pb.
    destruct ob; try (injection Hex as <- <-; exact I).
    + exact (IH _ _ _ _ _ _ Hl Hex).
    + destruct (lbl_match l l0) eqn:Lm; [injection Hex as <- <-; exact I|].
      injection Hex as <- <-. rewrite memL_addl_other in Pb by exact Lm. exact Pb.
    + destruct (lbl_match l l0) eqn:Lm; [exact (IH _ _ _ _ _ _ Hl Hex)|].
      injection Hex as <- <-. rewrite memL_addl_other in Pb by exact Lm. exact Pb.
  - injection Hex as <- <-. exact Hok.
  - injection Hex as <- <-. exact Hok.
Qed.

(* ---------- the forward simulation ---------- *)
(* what the machine does for an outcome of the definition.  [base]: where [code] starts; [from]: where the machine starts *)
Definition sim_post_from (ops : list op) (env : lenv) (base from : Z) (code : list op) (st : state) (o : outcome) (st' : state) : Prop :=
  match o with
  | ONormal => reach ops from st (base + zlen code) st'
  | OLeave l => exists cpre cpost sl e stg, code = cpre ++ OpGoto l e :: cpost /\ assocE l env = Some (sl, e) /\
                  reach ops from st (base + zlen cpre) stg /\ eff_fwd cpost stg = st'
  | OIter l => exists cpre cpost sl e stg, code = cpre ++ OpGoto l sl :: cpost /\ assocE l env = Some (sl, e) /\
                  reach ops from st (base + zlen cpre) stg /\ eff_bwd cpre stg = st'
  | OExit _ => False
  | _ => True
  end.

Definition sim_post (ops : list op) (env : lenv) (base : Z) (code : list op) (st : state) (o : outcome) (st' : state) : Prop :=
  sim_post_from ops env base base code st o st'.

Definition lifted (o : outcome) (pre post : list op) (st' : state) : state :=
  match o with OLeave _ => eff_fwd post st' | OIter _ => eff_bwd pre st' | _ => st' end.

Lemma lift_post_from : forall ops env1 env2 base from0 from1 pre sub post st st1 o st',
  match o with
  | OLeave l | OIter l => forall v, assocE l env1 = Some v -> assocE l env2 = Some v
  | ONormal => False
  | _ => True
  end ->
  sim_post_from ops env1 (base + zlen pre) from1 sub st1 o st' ->
  reach ops from0 st from1 st1 ->
  sim_post_from ops env2 base from0 (pre ++ sub ++ post) st o (lifted o pre post st').
Proof.
  intros ops env1 env2 base from0 from1 pre sub post st st1 o st' Henv Hp Hr.
  destruct o as [|l|l|d| |]; cbn [sim_post_from lifted] in *; try contradiction; try exact I.
  - destruct Hp as [cpre [cpost [sl [e [stg [Hc [Ha [Hr2 He]]]]]]]].
    exists (pre ++ cpre), (cpost ++ post), sl, e, stg. split; [subst sub; rewrite <- !app_assoc; reflexivity|].
    split; [exact (Henv _ Ha)|]. split.
    + eapply reach_trans; [exact Hr|]. rewrite zlen_app. replace (base + (zlen pre + zlen cpre)) with (base + zlen pre + zlen cpre) by lia. exact Hr2.
    + rewrite eff_fwd_app, He. reflexivity.
  - destruct Hp as [cpre [cpost [sl [e [stg [Hc [Ha [Hr2 He]]]]]]]].
    exists (pre ++ cpre), (cpost ++ post), sl, e, stg. split; [subst sub; rewrite <- !app_assoc; reflexivity|].
    split; [exact (Henv _ Ha)|]. split.
    + eapply reach_trans; [exact Hr|]. rewrite zlen_app. replace (base + (zlen pre + zlen cpre)) with (base + zlen pre + zlen cpre) by lia. exact Hr2.
    + rewrite eff_bwd_app, He. reflexivity.
Qed.

Lemma lift_post : forall ops env1 env2 base pre sub post st st1 o st',
  match o with
  | OLeave l | OIter l => forall v, assocE l env1 = Some v -> assocE l env2 = Some v
  | ONormal => False
  | _ => True
  end ->
  sim_post ops env1 (base + zlen pre) sub st1 o st' ->
  reach ops base st (base + zlen pre) st1 ->
  sim_post ops env2 base (pre ++ sub ++ post) st o (lifted o pre post st').
Proof. intros. eapply lift_post_from; eassumption. Qed.

(* the machine first does something else, then what the outcome needs *)
Lemma post_prepend : forall ops env base from0 from1 code st0 st o st',
  reach ops from0 st0 from1 st -> sim_post_from ops env base from1 code st o st' ->
  sim_post_from ops env base from0 code st0 o st'.
Proof.
  intros ops env base from0 from1 code st0 st o st' Hr Hp.
  destruct o as [|l|l|d| |]; cbn [sim_post_from] in *; try exact Hp.
  - eapply reach_trans; eassumption.
  - destruct Hp as [cpre [cpost [sl [e [stg [Hc [Ha [Hr2 He]]]]]]]].
    exists cpre, cpost, sl, e, stg. repeat split; try assumption. eapply reach_trans; eassumption.
  - destruct Hp as [cpre [cpost [sl [e [stg [Hc [Ha [Hr2 He]]]]]]]].
    exists cpre, cpost, sl, e, stg. repeat split; try assumption. eapply reach_trans; eassumption.
Qed.

(* label bookkeeping *)
Lemma lbl_match_true : forall l l', lbl_match l l' = true -> l <> 0%N /\ l' = l.
Proof.
  intros l l' H. unfold lbl_match in H. apply andb_prop in H. destruct H as [H1 H2].
  apply negb_true_iff in H1. apply N.eqb_neq in H1. apply N.eqb_eq in H2. split; [exact H1 | symmetry; exact H2].
Qed.

Lemma assoc_bind_same : forall l v env, l <> 0%N -> assocE l (bind l v env) = Some v.
Proof.
  intros l v env H. unfold bind. apply N.eqb_neq in H. rewrite H. cbn [assocE]. rewrite N.eqb_refl. reflexivity.
Qed.

Lemma assoc_bind_other : forall l l' v env, lbl_match l l' = false -> assocE l' (bind l v env) = assocE l' env.
Proof.
  intros l l' v env H. unfold bind. destruct (N.eqb l 0) eqn:E0; [reflexivity|].
  cbn [assocE]. unfold lbl_match in H. rewrite E0 in H. cbn in H.
  rewrite N.eqb_sym. rewrite H. reflexivity.
Qed.

Lemma dom_bind_add : forall ls env l v,
  (forall l', memL l' ls = true -> exists w, assocE l' env = Some w) ->
  forall l', memL l' (addl l ls) = true -> exists w, assocE l' (bind l v env) = Some w.
Proof.
  intros ls env l v H l' Hm. unfold addl, bind in *. destruct (N.eqb l 0); [exact (H l' Hm)|].
  cbn [memL existsb] in Hm. cbn [assocE]. destruct (N.eqb l' l); [eexists; reflexivity|]. exact (H l' Hm).
Qed.

Lemma dom_bind_keep : forall ls env l v,
  (forall l', memL l' ls = true -> exists w, assocE l' env = Some w) ->
  forall l', memL l' ls = true -> exists w, assocE l' (bind l v env) = Some w.
Proof.
  intros ls env l v H l' Hm. unfold bind. destruct (N.eqb l 0); [exact (H l' Hm)|].
  cbn [assocE]. destruct (N.eqb l' l); [eexists; reflexivity|]. exact (H l' Hm).
Qed.

Ltac norm := repeat (progress (rewrite <- ?app_assoc; cbn [app])).
Ltac ops_eq H := rewrite H; norm; reflexivity.

Lemma step_at : forall ops A o B p st st', ops = A ++ o :: B -> p = zlen A ->
  exec_op ops p o st = SOk p st' -> reach ops p st (p + 1) st'.
Proof. intros; subst. apply step_plain. assumption. Qed.

Lemma jump_at : forall ops A o B p c st st', ops = A ++ o :: B -> p = zlen A ->
  exec_op ops p o st = SOk c st' -> reach ops p st (c + 1) st'.
Proof. intros; subst. apply reach_one. unfold mstep. rewrite nth_op_mid. rewrite H1. reflexivity. Qed.

Lemma jump_to : forall ops A o B p c q st st', ops = A ++ o :: B -> p = zlen A ->
  exec_op ops p o st = SOk c st' -> q = c + 1 -> reach ops p st q st'.
Proof. intros; subst. eapply jump_at; eauto. Qed.

Lemma goto_fwd_at : forall ops A t idx mid x B p st, ops = A ++ (OpGoto t idx :: mid) ++ x :: B -> p = zlen A ->
  idx = p + 1 + zlen mid + 1 -> exec_op ops p (OpGoto t idx) st = SOk (p + 1 + zlen mid) (eff_fwd mid st).
Proof. intros; subst. apply goto_fwd. Qed.

Lemma goto_next_at : forall ops A t idx B p st, ops = A ++ OpGoto t idx :: B -> p = zlen A -> idx = p + 1 ->
  exec_op ops p (OpGoto t idx) st = SOk p st.
Proof. intros; subst. apply goto_next. Qed.

Lemma goto_bwd_at : forall ops A t idx mid B p st, ops = A ++ (mid ++ [OpGoto t idx]) ++ B -> mid <> [] ->
  idx = zlen A -> p = zlen A + zlen mid -> exec_op ops p (OpGoto t idx) st = SOk (idx - 1) (eff_bwd mid st).
Proof. intros; subst. apply goto_bwd. assumption. Qed.

Definition P1 (f : nat) : Prop := forall s it lv env st o st',
  ok it lv s = true ->
  (forall l, memL l lv = true -> exists v, assocE l env = Some v) ->
  (forall l, memL l it = true -> exists v, assocE l env = Some v) ->
  exec f s st = (o, st') ->
  forall A B ops, ops = A ++ compile' env (zlen A) s ++ B ->
  sim_post ops env (zlen A) (compile' env (zlen A) s) st o st'.

(* one more round of a REPEAT whose machine is already in the second copy of the body: that copy with its test and
   back-jump is the code of WHILE NOT c DO body, entered just after the test *)
Definition P2 (f : nat) : Prop := forall l body c it lv env st o st',
  total c = true -> memL l it = false -> ok it (addl l lv) body = true ->
  (forall l, memL l lv = true -> exists v, assocE l env = Some v) ->
  (forall l, memL l it = true -> exists v, assocE l env = Some v) ->
  exec f (SRepeat l body c) st = (o, st') ->
  forall A B ops, ops = A ++ compile' env (zlen A) (SWhile l (ENot c) body) ++ B ->
  sim_post_from ops env (zlen A) (zlen A + 1) (compile' env (zlen A) (SWhile l (ENot c) body)) st o st'.

Lemma not_match_of_labels : forall l l' it, memL l it = false -> memL l' it = true -> lbl_match l l' = false.
Proof.
  intros l l' it H1 H2. destruct (lbl_match l l') eqn:E; [|reflexivity].
  destruct (lbl_match_true _ _ E) as [_ ->]. congruence.
Qed.

Lemma P2_step : forall f, P1 f -> P2 f -> P2 (S f).
Proof.
  intros f IH IH2. unfold P1 in IH. unfold P2 in *.
  intros l s c it lv env st o st' Ht Hni Hokb Hlv Hit Hex A B ops Hops.
  cbn [exec] in Hex. cbn [compile'] in *.
  set (e := zlen A + 1 + clen s + 1) in *.
  set (env' := bind l (zlen A, e) env) in *.
  set (W := OpIf (ENot c) e :: compile' env' (zlen A + 1) s ++ [OpGoto 0%N (zlen A)]) in *.
  assert (Hlv' : forall l', memL l' (addl l lv) = true -> exists w, assocE l' env' = Some w) by (apply dom_bind_add; exact Hlv).
  assert (Hit' : forall l', memL l' it = true -> exists w, assocE l' env' = Some w) by (apply dom_bind_keep; exact Hit).
  destruct (exec f s st) as [ob st1] eqn:Eb.
  pose proof (IH s it (addl l lv) env' st ob st1 Hokb Hlv' Hit' Eb (A ++ [OpIf (ENot c) e]) ([OpGoto 0%N (zlen A)] ++ B) ops) as P.
  rewrite zlen_app, zlen_cons, zlen_nil in P. replace (zlen A + (1 + 0)) with (zlen A + 1) in P by lia.
  specialize (P ltac:(unfold W in Hops; ops_eq Hops)).
  pose proof (outcome_labels f s it (addl l lv) st ob st1 Hokb Eb) as Lab.
  assert (HW : zlen W = clen s + 2) by (unfold W; rewrite zlen_cons, zlen_app, zlen_cons, zlen_nil, clen_compile'; lia).
  assert (After : forall st2, reach ops (zlen A + 1) st (zlen A) st2 ->
            match eval st2 c with
            | Some v => if truthy v then (ONormal, st2) else exec f (SRepeat l s c) st2
            | None => (OErr, st2) end = (o, st') ->
            sim_post_from ops env (zlen A) (zlen A + 1) W st o st').
  { intros st2 Hr Hx. destruct (eval st2 c) as [v|] eqn:Ev; [|injection Hx as <- <-; exact I].
    destruct v as [z|]; [|exfalso; exact (total_nonnull c st2 None Ht Ev eq_refl)].
    assert (Evn : eval st2 (ENot c) = Some (b2v (z =? 0))) by (cbn [eval]; rewrite Ev; reflexivity).
    destruct (truthy (Some z)) eqn:Tz.
    - injection Hx as <- <-. cbn [sim_post_from]. eapply reach_trans; [exact Hr|].
      eapply (jump_to ops A _ _ _ (e - 1)); [unfold W in Hops; ops_eq Hops | reflexivity | | rewrite HW; unfold e; lia].
      cbn [exec_op]. rewrite Evn, truthy_b2v. cbn [truthy] in Tz. apply negb_true_iff in Tz. rewrite Tz. reflexivity.
    - pose proof (IH2 l s c it lv env st2 o st' Ht Hni Hokb Hlv Hit Hx A B ops) as Pr. cbn [compile'] in Pr.
      specialize (Pr Hops). eapply post_prepend; [|exact Pr].
      eapply reach_trans; [exact Hr|].
      eapply (step_at ops A); [unfold W in Hops; ops_eq Hops | reflexivity |].
      cbn [exec_op]. rewrite Evn, truthy_b2v. cbn [truthy] in Tz. apply negb_false_iff in Tz. rewrite Tz. reflexivity. }
  destruct ob as [|l'|l'|d| |].
  - (* body completed: back-jump, then the test *)
    apply (After st1); [|exact Hex]. cbn [sim_post sim_post_from] in P. rewrite clen_compile' in P.
    eapply reach_trans; [exact P|].
    assert (Hb : eff_bwd (OpIf (ENot c) e :: compile' env' (zlen A + 1) s) st1 = st1).
    { change (eff_bwd (OpIf (ENot c) e :: compile' env' (zlen A + 1) s) st1) with (eff_bwd (compile' env' (zlen A + 1) s) st1). apply balanced_bwd. }
    rewrite <- Hb at 2.
    eapply (jump_to ops (A ++ OpIf (ENot c) e :: compile' env' (zlen A + 1) s) _ _ _ (zlen A - 1));
      [unfold W in Hops; ops_eq Hops | rewrite zlen_app, zlen_cons, clen_compile'; lia | | lia].
    eapply (goto_bwd_at ops A 0%N (zlen A) (OpIf (ENot c) e :: compile' env' (zlen A + 1) s) B);
      [unfold W in Hops; ops_eq Hops | discriminate | reflexivity | rewrite zlen_cons, clen_compile'; lia].
  - destruct (lbl_match l l') eqn:Lm.
    + injection Hex as <- <-. destruct (lbl_match_true _ _ Lm) as [Hl0 ->].
      cbn [sim_post sim_post_from] in P. destruct P as [cpre [cpost [sl [e' [stg [Hc [Ha [Hr He]]]]]]]].
      unfold env' in Ha. rewrite assoc_bind_same in Ha by exact Hl0. injection Ha as <- <-.
      pose proof (clen_compile' s env' (zlen A + 1)) as Hlen. rewrite Hc, zlen_app, zlen_cons in Hlen.
      cbn [sim_post_from]. rewrite HW.
      eapply reach_trans; [exact Hr|]. rewrite <- He.
      eapply (jump_to ops (A ++ OpIf (ENot c) e :: cpre) _ _ _ (zlen A + 1 + zlen cpre + 1 + zlen cpost));
        [unfold W in Hops; rewrite Hops, Hc; norm; reflexivity | rewrite zlen_app, zlen_cons; lia | | lia].
      eapply (goto_fwd_at ops (A ++ OpIf (ENot c) e :: cpre) l e cpost (OpGoto 0%N (zlen A)) B);
        [unfold W in Hops; rewrite Hops, Hc; norm; reflexivity | rewrite zlen_app, zlen_cons; lia | unfold e; lia].
    + injection Hex as <- <-.
      pose proof (lift_post_from ops env' env (zlen A) (zlen A + 1) (zlen A + 1) [OpIf (ENot c) e] (compile' env' (zlen A + 1) s)
                    [OpGoto 0%N (zlen A)] st st (OLeave l') st1) as L.
      rewrite zlen_cons, zlen_nil in L. replace (zlen A + (1 + 0)) with (zlen A + 1) in L by lia.
      refine (L _ P (reach_refl _ _ _)). intros w Hw. unfold env' in Hw. rewrite assoc_bind_other in Hw by exact Lm. exact Hw.
  - cbn in Lab. rewrite (not_match_of_labels l l' it Hni Lab) in Hex. injection Hex as <- <-.
    pose proof (lift_post_from ops env' env (zlen A) (zlen A + 1) (zlen A + 1) [OpIf (ENot c) e] (compile' env' (zlen A + 1) s)
                  [OpGoto 0%N (zlen A)] st st (OIter l') st1) as L.
    rewrite zlen_cons, zlen_nil in L. replace (zlen A + (1 + 0)) with (zlen A + 1) in L by lia.
    refine (L _ P (reach_refl _ _ _)). intros w Hw. unfold env' in Hw.
    rewrite assoc_bind_other in Hw by (exact (not_match_of_labels l l' it Hni Lab)). exact Hw.
  - contradiction.
  - injection Hex as <- <-. exact I.
  - injection Hex as <- <-. exact I.
Qed.

Lemma P1_step : forall f, P1 f -> P2 f -> P1 (S f).
Proof.
  intros f IH IH2. unfold P1 in IH. intros s it lv env st o st' Hok Hlv Hit Hex A B ops Hops.
  destruct s; cbn [exec] in Hex; cbn [ok] in Hok; try discriminate Hok.
  - (* SSkip *) injection Hex as <- <-. cbn [sim_post sim_post_from compile']. rewrite zlen_nil, Z.add_0_r. apply reach_refl.
  - (* SSeq *)
    apply andb_prop in Hok. destruct Hok as [Hok1 Hok2].
    destruct (exec f s1 st) as [oa st1] eqn:Ea.
    pose proof (IH s1 it lv env st oa st1 Hok1 Hlv Hit Ea A (compile' env (zlen A + clen s1) s2 ++ B) ops) as P1.
    cbn [compile'] in Hops. rewrite <- app_assoc in Hops. specialize (P1 Hops).
    cbn [compile'].
    destruct oa as [|l|l|d| |].
    + (* a normal *)
      pose proof (IH s2 it lv env st1 o st' Hok2 Hlv Hit Hex (A ++ compile' env (zlen A) s1) B ops) as P2.
      rewrite zlen_app, clen_compile' in P2. rewrite <- app_assoc in P2. specialize (P2 Hops).
      cbn [sim_post sim_post_from] in P1. rewrite clen_compile' in P1.
      destruct o as [|l|l|d| |]; try exact I.
      * cbn [sim_post sim_post_from] in *. rewrite zlen_app, !clen_compile' in *. eapply reach_trans; [exact P1|].
        replace (zlen A + (clen s1 + clen s2)) with (zlen A + clen s1 + clen s2) by lia. exact P2.
      * pose proof (lift_post ops env env (zlen A) (compile' env (zlen A) s1) (compile' env (zlen A + clen s1) s2) [] st st1 (OLeave l) st') as L.
        rewrite clen_compile' in L. specialize (L (fun v H => H) P2 P1). cbn [lifted eff_fwd fold_left] in L. rewrite app_nil_r in L. exact L.
      * pose proof (lift_post ops env env (zlen A) (compile' env (zlen A) s1) (compile' env (zlen A + clen s1) s2) [] st st1 (OIter l) st') as L.
        rewrite clen_compile' in L. specialize (L (fun v H => H) P2 P1). cbn [lifted] in L. rewrite app_nil_r, balanced_bwd in L. exact L.
      * exact P2.
    + injection Hex as <- <-.
      pose proof (lift_post ops env env (zlen A) [] (compile' env (zlen A) s1) (compile' env (zlen A + clen s1) s2) st st (OLeave l) st1) as L.
      rewrite zlen_nil, Z.add_0_r in L. specialize (L (fun v H => H) P1 (reach_refl _ _ _)). cbn [lifted app] in L. rewrite balanced_fwd in L. exact L.
    + injection Hex as <- <-.
      pose proof (lift_post ops env env (zlen A) [] (compile' env (zlen A) s1) (compile' env (zlen A + clen s1) s2) st st (OIter l) st1) as L.
      rewrite zlen_nil, Z.add_0_r in L. specialize (L (fun v H => H) P1 (reach_refl _ _ _)). cbn [lifted app eff_bwd fold_right] in L. exact L.
    + contradiction.
    + injection Hex as <- <-. exact I.
    + injection Hex as <- <-. exact I.
  - (* SDeclare *) injection Hex as <- <-. cbn [sim_post sim_post_from compile']. rewrite zlen_cons, zlen_nil.
    subst ops. cbn [compile' app]. replace (zlen A + (1 + 0)) with (zlen A + 1) by lia. apply step_plain. reflexivity.
  - (* SSet *)
    destruct (eval st e) as [v|] eqn:Ev; [|injection Hex as <- <-; exact I].
    destruct (set_var st x v) as [st2|] eqn:Es; injection Hex as <- <-; [|exact I].
    cbn [sim_post sim_post_from compile']. rewrite zlen_cons, zlen_nil. subst ops. cbn [compile' app].
    replace (zlen A + (1 + 0)) with (zlen A + 1) by lia. apply step_plain. cbn [exec_op]. rewrite Ev, Es. reflexivity.
  - (* SSetUser *)
    destruct (eval st e) as [v|] eqn:Ev; injection Hex as <- <-; [|exact I].
    cbn [sim_post sim_post_from compile']. rewrite zlen_cons, zlen_nil. subst ops. cbn [compile' app].
    replace (zlen A + (1 + 0)) with (zlen A + 1) by lia. apply step_plain. cbn [exec_op]. rewrite Ev. reflexivity.
  - (* SBlock *)
    apply andb_prop in Hok. destruct Hok as [Hl Hokb]. apply N.eqb_eq in Hl. subst l.
    cbn [compile'] in *.
    assert (R0 : reach ops (zlen A) st (zlen A + 1) (push_scope st)).
    { eapply (step_at ops A); [ops_eq Hops | reflexivity | reflexivity]. }
    destruct (exec f s (push_scope st)) as [ob st1] eqn:Eb.
    pose proof (IH s it lv env (push_scope st) ob st1 Hokb Hlv Hit Eb (A ++ [OpScopeBegin 0%N (zlen A + 1)])
                  ([OpScopeEnd 0%N (zlen A + 1 + clen s + 1)] ++ B) ops) as P.
    rewrite zlen_app, zlen_cons, zlen_nil in P. replace (zlen A + (1 + 0)) with (zlen A + 1) in P by lia.
    specialize (P ltac:(ops_eq Hops)).
    destruct ob as [|l|l|d| |].
    + injection Hex as <- <-. cbn [sim_post sim_post_from] in *. rewrite clen_compile' in P.
      rewrite zlen_cons, zlen_app, zlen_cons, zlen_nil, clen_compile'.
      eapply reach_trans; [exact R0|]. eapply reach_trans; [exact P|].
      replace (zlen A + (1 + (clen s + (1 + 0)))) with (zlen A + 1 + clen s + 1) by lia.
      eapply (step_at ops (A ++ OpScopeBegin 0%N (zlen A + 1) :: compile' env (zlen A + 1) s));
        [ops_eq Hops | rewrite zlen_app, zlen_cons, clen_compile'; lia | reflexivity].
    + cbn in Hex. injection Hex as <- <-.
      pose proof (lift_post ops env env (zlen A) [OpScopeBegin 0%N (zlen A + 1)] (compile' env (zlen A + 1) s)
                    [OpScopeEnd 0%N (zlen A + 1 + clen s + 1)] st (push_scope st) (OLeave l) st1) as L.
      rewrite zlen_cons, zlen_nil in L. replace (zlen A + (1 + 0)) with (zlen A + 1) in L by lia.
      exact (L (fun v H => H) P R0).
    + injection Hex as <- <-.
      pose proof (lift_post ops env env (zlen A) [OpScopeBegin 0%N (zlen A + 1)] (compile' env (zlen A + 1) s)
                    [OpScopeEnd 0%N (zlen A + 1 + clen s + 1)] st (push_scope st) (OIter l) st1) as L.
      rewrite zlen_cons, zlen_nil in L. replace (zlen A + (1 + 0)) with (zlen A + 1) in L by lia.
      exact (L (fun v H => H) P R0).
    + contradiction.
    + injection Hex as <- <-. exact I.
    + injection Hex as <- <-. exact I.
  - (* SIf *)
    apply andb_prop in Hok. destruct Hok as [Hok Hnb]. apply andb_prop in Hok. destruct Hok as [Hok1 Hok2].
    apply negb_true_iff in Hnb.
    cbn [compile'] in *.
    set (es := zlen A + 1 + clen s1 + 1) in *.
    destruct (eval st c) as [v|] eqn:Ev; [|injection Hex as <- <-; exact I].
    destruct (truthy v) eqn:Tv.
    + (* THEN *)
      assert (R0 : reach ops (zlen A) st (zlen A + 1) st).
      { eapply (step_at ops A); [ops_eq Hops | reflexivity | cbn [exec_op]; rewrite Ev, Tv; reflexivity]. }
      pose proof (IH s1 it lv env st o st' Hok1 Hlv Hit Hex (A ++ [OpIf c es])
                    ([OpGoto 0%N (es + clen s2)] ++ compile' env es s2 ++ B) ops) as P.
      rewrite zlen_app, zlen_cons, zlen_nil in P. replace (zlen A + (1 + 0)) with (zlen A + 1) in P by lia.
      specialize (P ltac:(ops_eq Hops)).
      destruct o as [|l|l|d| |]; try exact I.
      * cbn [sim_post sim_post_from] in *. rewrite clen_compile' in P.
        rewrite zlen_cons, !zlen_app, zlen_cons, zlen_nil, !clen_compile'.
        eapply reach_trans; [exact R0|]. eapply reach_trans; [exact P|].
        replace (zlen A + (1 + (clen s1 + (1 + 0 + clen s2)))) with (es + clen s2) by (unfold es; lia).
        destruct (Z.eq_dec (clen s2) 0) as [E0|E0].
        -- (* empty ELSE: the Goto targets the next operation *)
           rewrite E0, Z.add_0_r. replace es with (zlen A + 1 + clen s1 + 1) by reflexivity.
           eapply (jump_at ops (A ++ OpIf c es :: compile' env (zlen A + 1) s1));
             [ops_eq Hops | rewrite zlen_app, zlen_cons, clen_compile'; lia |].
           eapply (goto_next_at ops (A ++ OpIf c es :: compile' env (zlen A + 1) s1) 0%N _ (compile' env es s2 ++ B));
             [ops_eq Hops | rewrite zlen_app, zlen_cons, clen_compile'; lia | unfold es; lia].
        -- (* the Goto walks over the ELSE branch but for its last operation *)
           pose proof (clen_pos_ne s2 env es E0) as Hne.
           pose proof (app_removelast_last (OpGoto 0%N 0) Hne) as Hsplit.
           pose proof (clen_compile' s2 env es) as Hlen. rewrite Hsplit, zlen_app, zlen_cons, zlen_nil in Hlen.
           replace (es + clen s2) with ((zlen A + 1 + clen s1) + 1 + zlen (removelast (compile' env es s2)) + 1) by (assert (Hes : es = zlen A + 1 + clen s1 + 1) by reflexivity; clearbody es; lia).
           replace st' with (eff_fwd (removelast (compile' env es s2)) st') at 2 by (eapply balanced_removelast; eassumption).
           eapply (jump_at ops (A ++ OpIf c es :: compile' env (zlen A + 1) s1));
             [ops_eq Hops | rewrite zlen_app, zlen_cons, clen_compile'; lia |].
           eapply (goto_fwd_at ops (A ++ OpIf c es :: compile' env (zlen A + 1) s1) 0%N _ (removelast (compile' env es s2))
                     (last (compile' env es s2) (OpGoto 0%N 0)) B).
           ++ rewrite Hops. norm. rewrite Hsplit at 1. norm. reflexivity.
           ++ rewrite zlen_app, zlen_cons, clen_compile'. lia.
           ++ assert (Hes : es = zlen A + 1 + clen s1 + 1) by reflexivity. clearbody es. lia.
      * pose proof (lift_post ops env env (zlen A) [OpIf c es] (compile' env (zlen A + 1) s1)
                      ([OpGoto 0%N (es + clen s2)] ++ compile' env es s2) st st (OLeave l) st') as L.
        rewrite zlen_cons, zlen_nil in L. replace (zlen A + (1 + 0)) with (zlen A + 1) in L by lia.
        specialize (L (fun v H => H) P R0). cbn [lifted] in L. rewrite eff_fwd_app, balanced_fwd in L. exact L.
      * pose proof (lift_post ops env env (zlen A) [OpIf c es] (compile' env (zlen A + 1) s1)
                      ([OpGoto 0%N (es + clen s2)] ++ compile' env es s2) st st (OIter l) st') as L.
        rewrite zlen_cons, zlen_nil in L. replace (zlen A + (1 + 0)) with (zlen A + 1) in L by lia.
        exact (L (fun v H => H) P R0).
      * exact P.
    + (* ELSE *)
      assert (R0 : reach ops (zlen A) st es st).
      { replace es with (es - 1 + 1) by lia.
        eapply (jump_at ops A); [ops_eq Hops | reflexivity | cbn [exec_op]; rewrite Ev, Tv; reflexivity]. }
      pose proof (IH s2 it lv env st o st' Hok2 Hlv Hit Hex
                    (A ++ OpIf c es :: compile' env (zlen A + 1) s1 ++ [OpGoto 0%N (es + clen s2)]) B ops) as P.
      rewrite zlen_app, zlen_cons, zlen_app, zlen_cons, zlen_nil, clen_compile' in P.
      replace (zlen A + (1 + (clen s1 + (1 + 0)))) with es in P by (unfold es; lia).
      specialize (P ltac:(ops_eq Hops)).
      destruct o as [|l|l|d| |]; try exact I.
      * cbn [sim_post sim_post_from] in *. rewrite clen_compile' in P.
        rewrite zlen_cons, !zlen_app, zlen_cons, zlen_nil, !clen_compile'.
        eapply reach_trans; [exact R0|].
        replace (zlen A + (1 + (clen s1 + (1 + 0 + clen s2)))) with (es + clen s2) by (unfold es; lia). exact P.
      * pose proof (lift_post ops env env (zlen A) (OpIf c es :: compile' env (zlen A + 1) s1 ++ [OpGoto 0%N (es + clen s2)])
                      (compile' env es s2) [] st st (OLeave l) st') as L.
        rewrite zlen_cons, zlen_app, zlen_cons, zlen_nil, clen_compile' in L.
        replace (zlen A + (1 + (clen s1 + (1 + 0)))) with es in L by (unfold es; lia).
        specialize (L (fun v H => H) P R0). cbn [lifted eff_fwd fold_left] in L. rewrite app_nil_r in L.
        cbn [app] in L. rewrite <- app_assoc in L. exact L.
      * pose proof (lift_post ops env env (zlen A) (OpIf c es :: compile' env (zlen A + 1) s1 ++ [OpGoto 0%N (es + clen s2)])
                      (compile' env es s2) [] st st (OIter l) st') as L.
        rewrite zlen_cons, zlen_app, zlen_cons, zlen_nil, clen_compile' in L.
        replace (zlen A + (1 + (clen s1 + (1 + 0)))) with es in L by (unfold es; lia).
        specialize (L (fun v H => H) P R0). cbn [lifted] in L. rewrite app_nil_r in L.
        change (eff_bwd (OpIf c es :: compile' env (zlen A + 1) s1 ++ [OpGoto 0%N (es + clen s2)]) st')
          with (eff_bwd (compile' env (zlen A + 1) s1 ++ [OpGoto 0%N (es + clen s2)]) st') in L.
        rewrite eff_bwd_app in L. cbn [eff_bwd fold_right scope_effect_bwd] in L.
        fold (eff_bwd (compile' env (zlen A + 1) s1) st') in L. rewrite balanced_bwd in L.
        cbn [app] in L. rewrite <- app_assoc in L. exact L.
      * exact P.
  - (* SWhile *)
    cbn [compile'] in *.
    set (e := zlen A + 1 + clen s + 1) in *.
    set (env' := bind l (zlen A, e) env) in *.
    assert (Hlv' : forall l', memL l' (addl l lv) = true -> exists w, assocE l' env' = Some w) by (apply dom_bind_add; exact Hlv).
    assert (Hit' : forall l', memL l' (addl l it) = true -> exists w, assocE l' env' = Some w) by (apply dom_bind_add; exact Hit).
    destruct (eval st c) as [v|] eqn:Ev; [|injection Hex as <- <-; exact I].
    destruct (truthy v) eqn:Tv.
    2:{ (* the condition fails: leave the loop *)
      injection Hex as <- <-. cbn [sim_post sim_post_from].
      rewrite zlen_cons, zlen_app, zlen_cons, zlen_nil, clen_compile'.
      replace (zlen A + (1 + (clen s + (1 + 0)))) with (e - 1 + 1) by (unfold e; lia).
      eapply (jump_at ops A); [ops_eq Hops | reflexivity | cbn [exec_op]; rewrite Ev, Tv; reflexivity]. }
    assert (R0 : reach ops (zlen A) st (zlen A + 1) st).
    { eapply (step_at ops A); [ops_eq Hops | reflexivity | cbn [exec_op]; rewrite Ev, Tv; reflexivity]. }
    destruct (exec f s st) as [ob st1] eqn:Eb.
    pose proof (IH s (addl l it) (addl l lv) env' st ob st1 Hok Hlv' Hit' Eb (A ++ [OpIf c e]) ([OpGoto 0%N (zlen A)] ++ B) ops) as P.
    rewrite zlen_app, zlen_cons, zlen_nil in P. replace (zlen A + (1 + 0)) with (zlen A + 1) in P by lia.
    specialize (P ltac:(ops_eq Hops)).
    (* the whole loop again, from its first operation *)
    assert (Again : forall st2, reach ops (zlen A) st (zlen A) st2 -> exec f (SWhile l c s) st2 = (o, st') ->
              sim_post ops env (zlen A) (OpIf c e :: compile' env' (zlen A + 1) s ++ [OpGoto 0%N (zlen A)]) st o st').
    { intros st2 Hr Hx.
      pose proof (IH (SWhile l c s) it lv env st2 o st' Hok Hlv Hit Hx A B ops) as Pw. cbn [compile'] in Pw.
      specialize (Pw Hops). eapply post_prepend; [exact Hr | exact Pw]. }
    destruct ob as [|l'|l'|d| |].
    + (* body completed: the back-jump *)
      apply (Again st1); [|exact Hex]. cbn [sim_post sim_post_from] in P. rewrite clen_compile' in P.
      eapply reach_trans; [exact R0|]. eapply reach_trans; [exact P|].
      assert (Hb : eff_bwd (OpIf c e :: compile' env' (zlen A + 1) s) st1 = st1).
      { change (eff_bwd (OpIf c e :: compile' env' (zlen A + 1) s) st1) with (eff_bwd (compile' env' (zlen A + 1) s) st1). apply balanced_bwd. }
      rewrite <- Hb at 2.
      eapply (jump_to ops (A ++ OpIf c e :: compile' env' (zlen A + 1) s) _ _ _ (zlen A - 1));
        [ops_eq Hops | rewrite zlen_app, zlen_cons, clen_compile'; lia | | lia].
      eapply (goto_bwd_at ops A 0%N (zlen A) (OpIf c e :: compile' env' (zlen A + 1) s) B);
        [ops_eq Hops | discriminate | reflexivity | rewrite zlen_cons, clen_compile'; lia].
    + (* LEAVE *)
      destruct (lbl_match l l') eqn:Lm.
      * injection Hex as <- <-. destruct (lbl_match_true _ _ Lm) as [Hl0 ->].
        cbn [sim_post sim_post_from] in P. destruct P as [cpre [cpost [sl [e' [stg [Hc [Ha [Hr He]]]]]]]].
        unfold env' in Ha. rewrite assoc_bind_same in Ha by exact Hl0. injection Ha as <- <-.
        pose proof (clen_compile' s env' (zlen A + 1)) as Hlen. rewrite Hc, zlen_app, zlen_cons in Hlen.
        cbn [sim_post sim_post_from]. rewrite zlen_cons, zlen_app, zlen_cons, zlen_nil, clen_compile'.
        eapply reach_trans; [exact R0|]. eapply reach_trans; [exact Hr|].
        replace (zlen A + (1 + (clen s + (1 + 0)))) with (zlen A + 1 + zlen cpre + 1 + zlen cpost + 1) by lia.
        rewrite <- He.
        eapply (jump_at ops (A ++ OpIf c e :: cpre)); [rewrite Hops, Hc; norm; reflexivity | rewrite zlen_app, zlen_cons; lia |].
        eapply (goto_fwd_at ops (A ++ OpIf c e :: cpre) l e cpost (OpGoto 0%N (zlen A)) B);
          [rewrite Hops, Hc; norm; reflexivity | rewrite zlen_app, zlen_cons; lia | unfold e; lia].
      * injection Hex as <- <-.
        pose proof (lift_post ops env' env (zlen A) [OpIf c e] (compile' env' (zlen A + 1) s) [OpGoto 0%N (zlen A)] st st (OLeave l') st1) as L.
        rewrite zlen_cons, zlen_nil in L. replace (zlen A + (1 + 0)) with (zlen A + 1) in L by lia.
        refine (L _ P R0). intros w Hw. unfold env' in Hw. rewrite assoc_bind_other in Hw by exact Lm. exact Hw.
    + (* ITERATE *)
      destruct (lbl_match l l') eqn:Lm.
      * destruct (lbl_match_true _ _ Lm) as [Hl0 ->].
        cbn [sim_post sim_post_from] in P. destruct P as [cpre [cpost [sl [e' [stg [Hc [Ha [Hr He]]]]]]]].
        unfold env' in Ha. rewrite assoc_bind_same in Ha by exact Hl0. injection Ha as <- <-.
        apply (Again st1); [|exact Hex].
        eapply reach_trans; [exact R0|]. eapply reach_trans; [exact Hr|].
        rewrite <- He.
        change (eff_bwd cpre stg) with (eff_bwd (OpIf c e :: cpre) stg).
        eapply (jump_to ops (A ++ OpIf c e :: cpre) _ _ _ (zlen A - 1));
          [rewrite Hops, Hc; norm; reflexivity | rewrite zlen_app, zlen_cons; lia | | lia].
        eapply (goto_bwd_at ops A l (zlen A) (OpIf c e :: cpre) (cpost ++ [OpGoto 0%N (zlen A)] ++ B));
          [rewrite Hops, Hc; norm; reflexivity | discriminate | reflexivity | rewrite zlen_cons; lia].
      * injection Hex as <- <-.
        pose proof (lift_post ops env' env (zlen A) [OpIf c e] (compile' env' (zlen A + 1) s) [OpGoto 0%N (zlen A)] st st (OIter l') st1) as L.
        rewrite zlen_cons, zlen_nil in L. replace (zlen A + (1 + 0)) with (zlen A + 1) in L by lia.
        refine (L _ P R0). intros w Hw. unfold env' in Hw. rewrite assoc_bind_other in Hw by exact Lm. exact Hw.
    + contradiction.
    + injection Hex as <- <-. exact I.
    + injection Hex as <- <-. exact I.
  - (* SRepeat *)
    apply andb_prop in Hok. destruct Hok as [Hok Hokb]. apply andb_prop in Hok. destruct Hok as [Ht Hni].
    apply negb_true_iff in Hni.
    cbn [compile'] in *.
    set (ls := zlen A + clen s) in *.
    set (e := ls + 1 + clen s + 1) in *.
    set (env' := bind l (ls, e) env) in *.
    set (c1 := compile' env' (zlen A) s) in *.
    set (W := OpIf (ENot c) e :: compile' env' (ls + 1) s ++ [OpGoto 0%N ls]) in *.
    assert (Hlv' : forall l', memL l' (addl l lv) = true -> exists w, assocE l' env' = Some w) by (apply dom_bind_add; exact Hlv).
    assert (Hit' : forall l', memL l' it = true -> exists w, assocE l' env' = Some w) by (apply dom_bind_keep; exact Hit).
    assert (Hc1 : zlen c1 = clen s) by (unfold c1; apply clen_compile').
    assert (HW : zlen W = clen s + 2) by (unfold W; rewrite zlen_cons, zlen_app, zlen_cons, zlen_nil, clen_compile'; lia).
    assert (HbW : forall x, eff_fwd W x = x).
    { intros x. unfold W. change (eff_fwd (OpIf (ENot c) e :: compile' env' (ls + 1) s ++ [OpGoto 0%N ls]) x)
        with (eff_fwd (compile' env' (ls + 1) s ++ [OpGoto 0%N ls]) x). rewrite eff_fwd_app, balanced_fwd. reflexivity. }
    destruct (exec f s st) as [ob st1] eqn:Eb.
    pose proof (IH s it (addl l lv) env' st ob st1 Hokb Hlv' Hit' Eb A (W ++ B) ops) as P. fold c1 in P.
    specialize (P ltac:(unfold W in Hops |- *; ops_eq Hops)).
    pose proof (outcome_labels f s it (addl l lv) st ob st1 Hokb Eb) as Lab.
    assert (After : forall st2, reach ops (zlen A) st ls st2 ->
              match eval st2 c with
              | Some v => if truthy v then (ONormal, st2) else exec f (SRepeat l s c) st2
              | None => (OErr, st2) end = (o, st') ->
              sim_post ops env (zlen A) (c1 ++ W) st o st').
    { intros st2 Hr Hx. destruct (eval st2 c) as [v|] eqn:Ev; [|injection Hx as <- <-; exact I].
      destruct v as [z|]; [|exfalso; exact (total_nonnull c st2 None Ht Ev eq_refl)].
      assert (Evn : eval st2 (ENot c) = Some (b2v (z =? 0))) by (cbn [eval]; rewrite Ev; reflexivity).
      destruct (truthy (Some z)) eqn:Tz.
      - injection Hx as <- <-. cbn [sim_post sim_post_from]. eapply reach_trans; [exact Hr|].
        eapply (jump_to ops (A ++ c1) _ _ _ (e - 1));
          [unfold W in Hops; ops_eq Hops | rewrite zlen_app, Hc1; reflexivity | | rewrite zlen_app, Hc1, HW; unfold e, ls; lia].
        cbn [exec_op]. rewrite Evn, truthy_b2v. cbn [truthy] in Tz. apply negb_true_iff in Tz. rewrite Tz. reflexivity.
      - pose proof (IH2 l s c it lv env st2 o st' Ht Hni Hokb Hlv Hit Hx (A ++ c1) B ops) as Pr.
        rewrite zlen_app, Hc1 in Pr. cbn [compile'] in Pr. fold ls in Pr. fold e in Pr. fold env' in Pr. fold W in Pr.
        specialize (Pr ltac:(ops_eq Hops)).
        assert (Hstep : reach ops (zlen A) st (ls + 1) st2).
        { eapply reach_trans; [exact Hr|].
          eapply (step_at ops (A ++ c1)); [unfold W in Hops; ops_eq Hops | rewrite zlen_app, Hc1; reflexivity |].
          cbn [exec_op]. rewrite Evn, truthy_b2v. cbn [truthy] in Tz. apply negb_false_iff in Tz. rewrite Tz. reflexivity. }
        destruct o as [|l'|l'|d| |]; try exact I.
        + cbn [sim_post sim_post_from] in *. eapply reach_trans; [exact Hstep|].
          rewrite zlen_app, Hc1. replace (zlen A + (clen s + zlen W)) with (ls + zlen W) by (unfold ls; lia). exact Pr.
        + pose proof (lift_post_from ops env env (zlen A) (zlen A) (ls + 1) c1 W [] st st2 (OLeave l') st') as L.
          rewrite Hc1 in L. fold ls in L. specialize (L (fun v H => H) Pr Hstep). cbn [lifted eff_fwd fold_left] in L.
          rewrite app_nil_r in L. exact L.
        + pose proof (lift_post_from ops env env (zlen A) (zlen A) (ls + 1) c1 W [] st st2 (OIter l') st') as L.
          rewrite Hc1 in L. fold ls in L. specialize (L (fun v H => H) Pr Hstep). cbn [lifted] in L.
          rewrite app_nil_r in L. unfold c1 in L at 2. rewrite balanced_bwd in L. exact L.
        + exact Pr. }
    destruct ob as [|l'|l'|d| |].
    + apply (After st1); [|exact Hex]. cbn [sim_post sim_post_from] in P. rewrite Hc1 in P. exact P.
    + destruct (lbl_match l l') eqn:Lm.
      * injection Hex as <- <-. destruct (lbl_match_true _ _ Lm) as [Hl0 ->].
        cbn [sim_post sim_post_from] in P. destruct P as [cpre [cpost [sl [e' [stg [Hc [Ha [Hr He]]]]]]]].
        unfold env' in Ha. rewrite assoc_bind_same in Ha by exact Hl0. injection Ha as <- <-.
        pose proof Hc1 as Hlen. rewrite Hc, zlen_app, zlen_cons in Hlen.
        cbn [sim_post sim_post_from]. rewrite zlen_app, Hc1, HW.
        eapply reach_trans; [exact Hr|].
        assert (Hmid : eff_fwd (cpost ++ OpIf (ENot c) e :: compile' env' (ls + 1) s) stg = st1).
        { rewrite eff_fwd_app, He.
          change (eff_fwd (OpIf (ENot c) e :: compile' env' (ls + 1) s) st1) with (eff_fwd (compile' env' (ls + 1) s) st1).
          apply balanced_fwd. }
        rewrite <- Hmid.
        eapply (jump_to ops (A ++ cpre) _ _ _ (zlen A + zlen cpre + 1 + zlen (cpost ++ OpIf (ENot c) e :: compile' env' (ls + 1) s)));
          [unfold W in Hops; rewrite Hops, Hc; norm; reflexivity | rewrite zlen_app; lia | | rewrite zlen_app, zlen_cons, clen_compile'; unfold ls; lia].
        eapply (goto_fwd_at ops (A ++ cpre) l e (cpost ++ OpIf (ENot c) e :: compile' env' (ls + 1) s) (OpGoto 0%N ls) B);
          [unfold W in Hops; rewrite Hops, Hc; norm; reflexivity | rewrite zlen_app; lia
          | rewrite zlen_app, zlen_cons, clen_compile'; unfold e, ls; lia].
      * injection Hex as <- <-.
        pose proof (lift_post ops env' env (zlen A) [] c1 W st st (OLeave l') st1) as L.
        rewrite zlen_nil, Z.add_0_r in L. specialize (L ltac:(intros w Hw; unfold env' in Hw; rewrite assoc_bind_other in Hw by exact Lm; exact Hw) P (reach_refl _ _ _)).
        cbn [lifted app] in L. rewrite HbW in L. exact L.
    + cbn in Lab. pose proof (not_match_of_labels l l' it Hni Lab) as Lm. rewrite Lm in Hex. injection Hex as <- <-.
      pose proof (lift_post ops env' env (zlen A) [] c1 W st st (OIter l') st1) as L.
      rewrite zlen_nil, Z.add_0_r in L. specialize (L ltac:(intros w Hw; unfold env' in Hw; rewrite assoc_bind_other in Hw by exact Lm; exact Hw) P (reach_refl _ _ _)).
      cbn [lifted app eff_bwd fold_right] in L. exact L.
    + contradiction.
    + injection Hex as <- <-. exact I.
    + injection Hex as <- <-. exact I.
  - (* SLoop *)
    apply andb_prop in Hok. destruct Hok as [Hok Hokb]. apply andb_prop in Hok. destruct Hok as [Hpos Hsg].
    apply Z.ltb_lt in Hpos. apply negb_true_iff in Hsg.
    cbn [compile'] in *.
    set (e := zlen A + clen s + 1) in *.
    set (env' := bind l (zlen A, e) env) in *.
    assert (Hlv' : forall l', memL l' (addl l lv) = true -> exists w, assocE l' env' = Some w) by (apply dom_bind_add; exact Hlv).
    assert (Hit' : forall l', memL l' (addl l it) = true -> exists w, assocE l' env' = Some w) by (apply dom_bind_add; exact Hit).
    destruct (exec f s st) as [ob st1] eqn:Eb.
    pose proof (IH s (addl l it) (addl l lv) env' st ob st1 Hokb Hlv' Hit' Eb A ([OpGoto l (zlen A)] ++ B) ops) as P.
    specialize (P ltac:(ops_eq Hops)).
    assert (Again : forall st2, reach ops (zlen A) st (zlen A) st2 -> exec f (SLoop l s) st2 = (o, st') ->
              sim_post ops env (zlen A) (compile' env' (zlen A) s ++ [OpGoto l (zlen A)]) st o st').
    { intros st2 Hr Hx.
      assert (Hokl : ok it lv (SLoop l s) = true).
      { cbn [ok]. rewrite Hokb, Hsg. replace (0 <? clen s) with true by (symmetry; apply Z.ltb_lt; exact Hpos). reflexivity. }
      pose proof (IH (SLoop l s) it lv env st2 o st' Hokl Hlv Hit Hx A B ops) as Pw. cbn [compile'] in Pw.
      specialize (Pw Hops). eapply post_prepend; [exact Hr | exact Pw]. }
    assert (Hcne : compile' env' (zlen A) s <> []) by (apply clen_pos_ne; lia).
    destruct ob as [|l'|l'|d| |].
    + apply (Again st1); [|exact Hex]. cbn [sim_post sim_post_from] in P. rewrite clen_compile' in P.
      eapply reach_trans; [exact P|].
      rewrite <- (balanced_bwd s env' (zlen A) st1) at 2.
      eapply (jump_to ops (A ++ compile' env' (zlen A) s) _ _ _ (zlen A - 1));
        [ops_eq Hops | rewrite zlen_app, clen_compile'; lia | | lia].
      eapply (goto_bwd_at ops A l (zlen A) (compile' env' (zlen A) s) B);
        [ops_eq Hops | exact Hcne | reflexivity | rewrite clen_compile'; lia].
    + destruct (lbl_match l l') eqn:Lm.
      * injection Hex as <- <-. destruct (lbl_match_true _ _ Lm) as [Hl0 ->].
        cbn [sim_post sim_post_from] in P. destruct P as [cpre [cpost [sl [e' [stg [Hc [Ha [Hr He]]]]]]]].
        unfold env' in Ha. rewrite assoc_bind_same in Ha by exact Hl0. injection Ha as <- <-.
        pose proof (clen_compile' s env' (zlen A)) as Hlen. rewrite Hc, zlen_app, zlen_cons in Hlen.
        cbn [sim_post sim_post_from]. rewrite zlen_app, zlen_cons, zlen_nil, clen_compile'.
        eapply reach_trans; [exact Hr|]. rewrite <- He.
        eapply (jump_to ops (A ++ cpre) _ _ _ (zlen A + zlen cpre + 1 + zlen cpost));
          [rewrite Hops, Hc; norm; reflexivity | rewrite zlen_app; lia | | lia].
        eapply (goto_fwd_at ops (A ++ cpre) l e cpost (OpGoto l (zlen A)) B);
          [rewrite Hops, Hc; norm; reflexivity | rewrite zlen_app; lia | unfold e; lia].
      * injection Hex as <- <-.
        pose proof (lift_post ops env' env (zlen A) [] (compile' env' (zlen A) s) [OpGoto l (zlen A)] st st (OLeave l') st1) as L.
        rewrite zlen_nil, Z.add_0_r in L. refine (L _ P (reach_refl _ _ _)).
        intros w Hw. unfold env' in Hw. rewrite assoc_bind_other in Hw by exact Lm. exact Hw.
    + destruct (lbl_match l l') eqn:Lm.
      * destruct (lbl_match_true _ _ Lm) as [Hl0 ->].
        cbn [sim_post sim_post_from] in P. destruct P as [cpre [cpost [sl [e' [stg [Hc [Ha [Hr He]]]]]]]].
        unfold env' in Ha. rewrite assoc_bind_same in Ha by exact Hl0. injection Ha as <- <-.
        assert (Hpne : cpre <> []).
        { intros ->. cbn [app] in Hc. exact (starts_goto_first s env' (zlen A) l (zlen A) cpost Hsg Hc). }
        apply (Again st1); [|exact Hex].
        eapply reach_trans; [exact Hr|]. rewrite <- He.
        eapply (jump_to ops (A ++ cpre) _ _ _ (zlen A - 1));
          [rewrite Hops, Hc; norm; reflexivity | rewrite zlen_app; lia | | lia].
        eapply (goto_bwd_at ops A l (zlen A) cpre (cpost ++ [OpGoto l (zlen A)] ++ B));
          [rewrite Hops, Hc; norm; reflexivity | exact Hpne | reflexivity | lia].
      * injection Hex as <- <-.
        pose proof (lift_post ops env' env (zlen A) [] (compile' env' (zlen A) s) [OpGoto l (zlen A)] st st (OIter l') st1) as L.
        rewrite zlen_nil, Z.add_0_r in L. refine (L _ P (reach_refl _ _ _)).
        intros w Hw. unfold env' in Hw. rewrite assoc_bind_other in Hw by exact Lm. exact Hw.
    + contradiction.
    + injection Hex as <- <-. exact I.
    + injection Hex as <- <-. exact I.
  - (* SLeave *)
    injection Hex as <- <-. destruct (Hlv l Hok) as [[sl e] Ha].
    cbn [sim_post sim_post_from compile']. rewrite Ha.
    exists [], [], sl, e, st. split; [reflexivity|]. split; [reflexivity|]. split; [rewrite zlen_nil, Z.add_0_r; apply reach_refl | reflexivity].
  - (* SIterate *)
    injection Hex as <- <-. destruct (Hit l Hok) as [[sl e] Ha].
    cbn [sim_post sim_post_from compile']. rewrite Ha.
    exists [], [], sl, e, st. split; [reflexivity|]. split; [reflexivity|]. split; [rewrite zlen_nil, Z.add_0_r; apply reach_refl | reflexivity].
Qed.

Theorem sim_all : forall f, P1 f /\ P2 f.
Proof.
  induction f as [|f [IH1 IH2]].
  - split.
    + intros s it lv env st o st' _ _ _ Hex A B ops _. cbn in Hex. injection Hex as <- <-. exact I.
    + intros l body c it lv env st o st' _ _ _ _ _ Hex A B ops _. cbn in Hex. injection Hex as <- <-. exact I.
  - split; [apply P1_step | apply P2_step]; assumption.
Qed.
