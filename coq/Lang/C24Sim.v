(* C24 -- guarded compiler correctness, part 1: a one-pass compiler [compile'] with an explicit label environment, the
   guard [ok] describing the structured fragment without the constructs on which the faithful model is refuted, and the
   forward simulation: whatever the definition [exec] computes for a guarded statement, the machine computes on the
   code [compile'] produced for it (program counter ~ position in the code, LEAVE / ITERATE ~ an in-flight Goto whose
   remaining walk over ScopeEnd / ScopeBegin operations performs the pops the definition performs block by block). *)
From Coq Require Import List ZArith NArith Bool Lia.
Import ListNotations.
From GMS Require Import Lang.C24Proc.
Open Scope Z_scope.

(* ---------- code length, one-pass compiler ---------- *)
Fixpoint clen (s : stmt) : Z :=
  match s with
  | SHandler _ _ | SRaise _ | SDeclare _ _ | SSet _ _ | SSetUser _ _ | SLeave _ | SIterate _ => 1
  | SSkip => 0
  | SSeq a b => clen a + clen b
  | SBlock _ b => clen b + 2
  | SIf _ t e => clen t + clen e + 2
  | SWhile _ _ b => clen b + 2
  | SRepeat _ b _ => clen b + clen b + 2
  | SLoop _ b => clen b + 1
  end.

(* enclosing loop labels -> (address ITERATE jumps to, address LEAVE jumps to) *)
Definition lenv := list (label * (Z * Z)).

Fixpoint assocE (k : label) (e : lenv) : option (Z * Z) :=
  match e with [] => None | (k', v) :: r => if N.eqb k k' then Some v else assocE k r end.

Definition bind (l : label) (v : Z * Z) (e : lenv) : lenv := if N.eqb l 0 then e else (l, v) :: e.

Fixpoint compile' (env : lenv) (base : Z) (s : stmt) : list op :=
  match s with
  | SHandler k h => [OpHandler k h]
  | SRaise d => [OpRaise d]
  | SSkip => []
  | SSeq a b => compile' env base a ++ compile' env (base + clen a) b
  | SDeclare x v => [OpDeclare x v]
  | SSet x e => [OpSet x e]
  | SSetUser u e => [OpExecUser u e]
  | SBlock l body => OpScopeBegin l (base + 1) :: compile' env (base + 1) body ++ [OpScopeEnd l (base + 1 + clen body + 1)]
  | SIf c th el =>
      let es := base + 1 + clen th + 1 in
      OpIf c es :: compile' env (base + 1) th ++ [OpGoto 0%N (es + clen el)] ++ compile' env es el
  | SWhile l c body =>
      let e := base + 1 + clen body + 1 in
      OpIf c e :: compile' (bind l (base, e) env) (base + 1) body ++ [OpGoto 0%N base]
  | SRepeat l body c =>
      let ls := base + clen body in
      let e := ls + 1 + clen body + 1 in
      let env' := bind l (ls, e) env in
      compile' env' base body ++ OpIf (ENot c) e :: compile' env' (ls + 1) body ++ [OpGoto 0%N ls]
  | SLoop l body =>
      let e := base + clen body + 1 in
      compile' (bind l (base, e) env) base body ++ [OpGoto l base]
  | SIterate l => [OpGoto l (match assocE l env with Some (s, _) => s | None => -1 end)]
  | SLeave l => [OpGoto l (match assocE l env with Some (_, e) => e | None => -2 end)]
  end.

Lemma zlen_app : forall {A} (a b : list A), zlen (a ++ b) = zlen a + zlen b.
Proof. intros. unfold zlen. rewrite app_length. lia. Qed.

Lemma zlen_cons : forall {A} (x : A) l, zlen (x :: l) = 1 + zlen l.
Proof. intros. unfold zlen. cbn [length]. lia. Qed.

Lemma zlen_nil : forall {A}, zlen (@nil A) = 0.
Proof. reflexivity. Qed.

Lemma zlen_nonneg : forall {A} (l : list A), 0 <= zlen l.
Proof. intros. unfold zlen. lia. Qed.

Lemma clen_compile' : forall s env base, zlen (compile' env base s) = clen s.
Proof.
  induction s; intros env base; cbn [compile' clen]; repeat (rewrite ?zlen_app, ?zlen_cons, ?zlen_nil);
    repeat match goal with H : forall env base, zlen (compile' env base ?x) = _ |- _ => rewrite !H; clear H end; try lia.
Qed.

Lemma clen_nonneg : forall s, 0 <= clen s.
Proof. intros s. rewrite <- (clen_compile' s [] 0). apply zlen_nonneg. Qed.

(* ---------- the guard ---------- *)
Definition addl (l : label) (ls : list label) : list label := if N.eqb l 0 then ls else l :: ls.
Definition memL (l : label) (ls : list label) : bool := existsb (N.eqb l) ls.

(* the UNTIL condition cannot evaluate to NULL (the engine leaves a REPEAT whose UNTIL is NULL, see the refutation) *)
Fixpoint total (e : expr) : bool :=
  match e with
  | EConst _ => true
  | EIsNull _ => true
  | ENot a => total a
  | EBin _ a b => total a && total b
  | _ => false
  end.

(* the code of the statement ends with a ScopeEnd *)
Fixpoint ends_block (s : stmt) : bool :=
  match s with
  | SBlock _ _ => true
  | SSeq a b => if clen b =? 0 then ends_block a else ends_block b
  | _ => false
  end.

(* [it] / [lv]: labels ITERATE / LEAVE may name here (enclosing WHILE and LOOP; enclosing REPEAT for LEAVE only) *)
Fixpoint ok (it lv : list label) (s : stmt) : bool :=
  match s with
  | SHandler _ _ | SRaise _ => false
  | SSkip | SDeclare _ _ | SSet _ _ | SSetUser _ _ => true
  | SSeq a b => ok it lv a && ok it lv b
  | SBlock l body => N.eqb l 0 && ok it lv body
  | SIf _ th el => ok it lv th && ok it lv el && negb (ends_block el)
  | SWhile l _ body => ok (addl l it) (addl l lv) body
  | SRepeat l body c => total c && ok it (addl l lv) body
  | SLoop l body => (0 <? clen body) && ok (addl l it) (addl l lv) body
  | SLeave l => memL l lv
  | SIterate l => memL l it
  end.

(* ---------- scope effects of walking over code ---------- *)
Definition eff_fwd (code : list op) (st : state) : state :=
  fold_left (fun st o => scope_effect_fwd (Some o) st) code st.

(* operations are visited from the last to the first *)
Definition eff_bwd (code : list op) (st : state) : state :=
  fold_right (fun o st => scope_effect_bwd (Some o) st) st code.

Lemma eff_fwd_app : forall a b st, eff_fwd (a ++ b) st = eff_fwd b (eff_fwd a st).
Proof. intros. unfold eff_fwd. apply fold_left_app. Qed.

Lemma eff_bwd_app : forall a b st, eff_bwd (a ++ b) st = eff_bwd a (eff_bwd b st).
Proof. intros. unfold eff_bwd. apply fold_right_app. Qed.

Lemma pop_push : forall st, pop_scope (push_scope st) = st.
Proof. intros [a b c d]. reflexivity. Qed.

(* complete statements are balanced in both directions *)
Lemma balanced_fwd : forall s env base st, eff_fwd (compile' env base s) st = st.
Proof.
  induction s; intros env base st; cbn [compile']; try reflexivity.
  - rewrite eff_fwd_app, IHs1, IHs2. reflexivity.
  - change (eff_fwd (compile' env (base + 1) s ++ [OpScopeEnd l (base + 1 + clen s + 1)]) (push_scope st) = st).
    rewrite eff_fwd_app, IHs. cbn. apply pop_push.
  - change (eff_fwd (compile' env (base + 1) s1 ++ [OpGoto 0%N (base + 1 + clen s1 + 1 + clen s2)] ++ compile' env (base + 1 + clen s1 + 1) s2) st = st).
    rewrite !eff_fwd_app, IHs1, IHs2. reflexivity.
  - change (eff_fwd (compile' (bind l (base, base + 1 + clen s + 1) env) (base + 1) s ++ [OpGoto 0%N base]) st = st).
    rewrite eff_fwd_app, IHs. reflexivity.
  - rewrite eff_fwd_app, IHs.
    change (eff_fwd (compile' (bind l (base + clen s, base + clen s + 1 + clen s + 1) env) (base + clen s + 1) s ++ [OpGoto 0%N (base + clen s)]) st = st).
    rewrite eff_fwd_app, IHs. reflexivity.
  - rewrite eff_fwd_app, IHs. reflexivity.
Qed.

Lemma balanced_bwd : forall s env base st, eff_bwd (compile' env base s) st = st.
Proof.
  induction s; intros env base st; cbn [compile']; try reflexivity.
  - rewrite eff_bwd_app, IHs2, IHs1. reflexivity.
  - change (scope_effect_bwd (Some (OpScopeBegin l (base + 1))) (eff_bwd (compile' env (base + 1) s ++ [OpScopeEnd l (base + 1 + clen s + 1)]) st) = st).
    rewrite eff_bwd_app. cbn [eff_bwd fold_right scope_effect_bwd]. fold (eff_bwd (compile' env (base + 1) s) (push_scope st)).
    rewrite IHs. apply pop_push.
  - change (eff_bwd (compile' env (base + 1) s1 ++ [OpGoto 0%N (base + 1 + clen s1 + 1 + clen s2)] ++ compile' env (base + 1 + clen s1 + 1) s2) st = st).
    rewrite !eff_bwd_app, IHs2. cbn [eff_bwd fold_right scope_effect_bwd]. fold (eff_bwd (compile' env (base + 1) s1) st). apply IHs1.
  - change (eff_bwd (compile' (bind l (base, base + 1 + clen s + 1) env) (base + 1) s ++ [OpGoto 0%N base]) st = st).
    rewrite eff_bwd_app. cbn [eff_bwd fold_right scope_effect_bwd]. apply IHs.
  - rewrite eff_bwd_app.
    change (eff_bwd (compile' (bind l (base + clen s, base + clen s + 1 + clen s + 1) env) base s)
             (eff_bwd (compile' (bind l (base + clen s, base + clen s + 1 + clen s + 1) env) (base + clen s + 1) s ++ [OpGoto 0%N (base + clen s)]) st) = st).
    rewrite eff_bwd_app. cbn [eff_bwd fold_right scope_effect_bwd].
    fold (eff_bwd (compile' (bind l (base + clen s, base + clen s + 1 + clen s + 1) env) (base + clen s + 1) s) st).
    rewrite IHs. apply IHs.
  - rewrite eff_bwd_app. cbn [eff_bwd fold_right scope_effect_bwd]. apply IHs.
Qed.

(* ---------- positions in concatenated code ---------- *)
Lemma nth_op_mid : forall (A : list op) o B, nth_op (A ++ o :: B) (zlen A) = Some o.
Proof.
  intros A o B. unfold nth_op. pose proof (zlen_nonneg A) as H.
  destruct (zlen A <? 0) eqn:E; [apply Z.ltb_lt in E; lia|].
  unfold zlen. rewrite Nat2Z.id. rewrite nth_error_app2 by lia. rewrite Nat.sub_diag. reflexivity.
Qed.

Lemma nth_op_end : forall (A : list op), nth_op A (zlen A) = None.
Proof.
  intros A. unfold nth_op. pose proof (zlen_nonneg A) as H.
  destruct (zlen A <? 0) eqn:E; [apply Z.ltb_lt in E; lia|].
  unfold zlen. rewrite Nat2Z.id. apply nth_error_None. lia.
Qed.

(* walking forward over [mid] *)
Lemma walk_fwd_zip : forall mid A B n st, (length mid <= n)%nat ->
  walk_fwd (A ++ mid ++ B) n (zlen A) (zlen A + zlen mid) st = Some (zlen A + zlen mid, eff_fwd mid st).
Proof.
  induction mid as [|o m IH]; intros A B n st Hn.
  - rewrite zlen_nil, Z.add_0_r. destruct n; cbn [walk_fwd]; rewrite Z.ltb_irrefl; reflexivity.
  - destruct n as [|n]; [cbn in Hn; lia|]. cbn [walk_fwd].
    rewrite zlen_cons. pose proof (zlen_nonneg m).
    destruct (zlen A <? zlen A + (1 + zlen m)) eqn:E; [|apply Z.ltb_ge in E; lia].
    change (A ++ (o :: m) ++ B) with (A ++ o :: (m ++ B)). rewrite nth_op_mid.
    replace (A ++ o :: m ++ B) with ((A ++ [o]) ++ m ++ B) by (rewrite <- app_assoc; reflexivity).
    replace (zlen A + 1) with (zlen (A ++ [o])) by (rewrite zlen_app, zlen_cons, zlen_nil; lia).
    replace (zlen A + (1 + zlen m)) with (zlen (A ++ [o]) + zlen m) by (rewrite zlen_app, zlen_cons, zlen_nil; lia).
    rewrite IH by (cbn in Hn; lia). reflexivity.
Qed.

(* walking backward over [mid], from its last operation to its first *)
Lemma walk_bwd_zip : forall mid A B n st, (length mid <= n)%nat ->
  walk_bwd (A ++ mid ++ B) n (zlen A + zlen mid - 1) (zlen A - 1) st = Some (zlen A - 1, eff_bwd mid st).
Proof.
  induction mid as [|o m IH] using rev_ind; intros A B n st Hn.
  - rewrite zlen_nil. destruct n; cbn [walk_bwd];
      (destruct (zlen A + 0 - 1 >? zlen A - 1) eqn:E; [apply Z.gtb_lt in E; lia|]); f_equal; f_equal; lia.
  - destruct n as [|n]; [rewrite app_length in Hn; cbn in Hn; lia|]. cbn [walk_bwd].
    rewrite zlen_app, zlen_cons, zlen_nil. pose proof (zlen_nonneg m).
    destruct (zlen A + (zlen m + (1 + 0)) - 1 >? zlen A - 1) eqn:E; [|rewrite Z.gtb_ltb in E; apply Z.ltb_ge in E; lia].
    replace (A ++ (m ++ [o]) ++ B) with ((A ++ m) ++ o :: B) by (rewrite <- !app_assoc; reflexivity).
    replace (zlen A + (zlen m + (1 + 0)) - 1) with (zlen (A ++ m)) by (rewrite zlen_app; lia).
    rewrite nth_op_mid.
    replace ((A ++ m) ++ o :: B) with (A ++ m ++ (o :: B)) by (rewrite <- app_assoc; reflexivity).
    replace (zlen (A ++ m) - 1) with (zlen A + zlen m - 1) by (rewrite zlen_app; lia).
    rewrite IH by (rewrite app_length in Hn; cbn in Hn; lia).
    rewrite eff_bwd_app. reflexivity.
Qed.

(* ---------- single steps and reachability ---------- *)
Definition mstep (ops : list op) (pc : Z) (st : state) : option (Z * state) :=
  match nth_op ops pc with
  | Some o => match exec_op ops pc o st with SOk c' st' => Some (c' + 1, st') | _ => None end
  | None => None
  end.

Inductive reach (ops : list op) : Z -> state -> Z -> state -> Prop :=
| reach_refl : forall pc st, reach ops pc st pc st
| reach_step : forall pc st pc1 st1 pc2 st2,
    mstep ops pc st = Some (pc1, st1) -> reach ops pc1 st1 pc2 st2 -> reach ops pc st pc2 st2.

Lemma reach_trans : forall ops a sa b sb c sc, reach ops a sa b sb -> reach ops b sb c sc -> reach ops a sa c sc.
Proof. intros ops a sa b sb c sc H. induction H; intros H2; [exact H2 | eapply reach_step; eauto]. Qed.

Lemma reach_one : forall ops pc st pc1 st1, mstep ops pc st = Some (pc1, st1) -> reach ops pc st pc1 st1.
Proof. intros. eapply reach_step; [eassumption | apply reach_refl]. Qed.

(* reach is what [run] does *)
Lemma reach_run : forall ops a sa b sb, reach ops a sa b sb ->
  forall k, exists n, run ops (n + k) (a - 1) sa = run ops k (b - 1) sb.
Proof.
  intros ops a sa b sb H. induction H as [pc st | pc st pc1 st1 pc2 st2 Hs Hr IH]; intros k.
  - exists 0%nat. reflexivity.
  - destruct (IH k) as [n Hn]. exists (S n). cbn [Nat.add run].
    replace (pc - 1 + 1) with pc by lia. unfold mstep in Hs.
    destruct (nth_op ops pc) as [o|] eqn:Eo; [|discriminate].
    assert (Hpc : (pc <? 0) = false).
    { unfold nth_op in Eo. destruct (pc <? 0); [discriminate | reflexivity]. }
    rewrite Hpc. destruct (exec_op ops pc o st) as [c' st'| | |]; try discriminate.
    injection Hs as <- <-. replace (c' + 1 - 1) with c' in Hn by lia. exact Hn.
Qed.

(* a non-jumping operation *)
Lemma step_plain : forall A o B st st',
  exec_op (A ++ o :: B) (zlen A) o st = SOk (zlen A) st' ->
  reach (A ++ o :: B) (zlen A) st (zlen A + 1) st'.
Proof. intros A o B st st' H. apply reach_one. unfold mstep. rewrite nth_op_mid, H. reflexivity. Qed.

(* a forward Goto over [mid] and one more operation [x] (which is skipped without being looked at) *)
Lemma goto_fwd : forall A t mid x B st,
  exec_op (A ++ (OpGoto t (zlen A + 1 + zlen mid + 1) :: mid) ++ x :: B) (zlen A)
          (OpGoto t (zlen A + 1 + zlen mid + 1)) st = SOk (zlen A + 1 + zlen mid) (eff_fwd mid st).
Proof.
  intros A t mid x B st. cbn [exec_op]. pose proof (zlen_nonneg mid). pose proof (zlen_nonneg A).
  destruct (zlen A <=? zlen A + 1 + zlen mid + 1) eqn:E; [|apply Z.leb_gt in E; lia].
  replace (zlen A + 1 + zlen mid + 1 - 1) with (zlen A + zlen (OpGoto t (zlen A + 1 + zlen mid + 1) :: mid))
    by (rewrite zlen_cons; lia).
  rewrite walk_fwd_zip.
  - rewrite zlen_cons. f_equal. lia.
  - rewrite !app_length. cbn [length]. lia.
Qed.

(* a forward Goto to the next operation *)
Lemma goto_next : forall A t B st,
  exec_op (A ++ OpGoto t (zlen A + 1) :: B) (zlen A) (OpGoto t (zlen A + 1)) st = SOk (zlen A) st.
Proof.
  intros A t B st. cbn [exec_op]. pose proof (zlen_nonneg A).
  destruct (zlen A <=? zlen A + 1) eqn:E; [|apply Z.leb_gt in E; lia].
  replace (zlen A + 1 - 1) with (zlen A) by lia.
  cbn [walk_fwd]. rewrite Z.ltb_irrefl. reflexivity.
Qed.

(* a backward Goto to the first operation of the non-empty [mid] that precedes it *)
Lemma goto_bwd : forall A t mid B st, mid <> [] ->
  exec_op (A ++ (mid ++ [OpGoto t (zlen A)]) ++ B) (zlen A + zlen mid) (OpGoto t (zlen A)) st
  = SOk (zlen A - 1) (eff_bwd mid st).
Proof.
  intros A t mid B st Hne. cbn [exec_op]. pose proof (zlen_nonneg A).
  assert (0 < zlen mid) by (destruct mid; [contradiction | rewrite zlen_cons; pose proof (zlen_nonneg mid); lia]).
  destruct (zlen A + zlen mid <=? zlen A) eqn:E; [apply Z.leb_le in E; lia|].
  replace (zlen A + zlen mid) with (zlen A + zlen (mid ++ [OpGoto t (zlen A)]) - 1)
    by (rewrite zlen_app, zlen_cons, zlen_nil; lia).
  rewrite walk_bwd_zip.
  - rewrite eff_bwd_app. reflexivity.
  - rewrite !app_length. cbn [length]. lia.
Qed.

(* removing the last operation of a branch that does not end with a block leaves it balanced *)
Lemma removelast_app_ne : forall {A} (a b : list A), b <> [] -> removelast (a ++ b) = a ++ removelast b.
Proof. intros. apply removelast_app. assumption. Qed.

Lemma clen_zero_nil : forall s env base, clen s = 0 -> compile' env base s = [].
Proof.
  intros s env base H. pose proof (clen_compile' s env base) as L. rewrite H in L.
  destruct (compile' env base s); [reflexivity | rewrite zlen_cons in L; pose proof (zlen_nonneg l); lia].
Qed.

Lemma clen_pos_ne : forall s env base, clen s <> 0 -> compile' env base s <> [].
Proof. intros s env base H E. pose proof (clen_compile' s env base) as L. rewrite E, zlen_nil in L. lia. Qed.

Lemma balanced_removelast : forall s it lv env base st,
  ok it lv s = true -> ends_block s = false -> eff_fwd (removelast (compile' env base s)) st = st.
Proof.
  induction s; intros it lv env base st Hok He; cbn [compile']; try reflexivity; cbn [ok ends_block] in *; try discriminate.
  - apply andb_prop in Hok. destruct Hok as [H1 H2].
    destruct (clen s2 =? 0) eqn:E.
    + apply Z.eqb_eq in E. rewrite (clen_zero_nil s2 _ _ E), app_nil_r. eapply IHs1; eassumption.
    + apply Z.eqb_neq in E. rewrite removelast_app_ne by (apply clen_pos_ne; exact E).
      rewrite eff_fwd_app, balanced_fwd. eapply IHs2; eassumption.
  - apply andb_prop in Hok. destruct Hok as [Hok Hnb]. apply andb_prop in Hok. destruct Hok as [H1 H2].
    apply negb_true_iff in Hnb.
    change (eff_fwd (removelast ((OpIf c (base + 1 + clen s1 + 1) :: compile' env (base + 1) s1) ++
              ([OpGoto 0%N (base + 1 + clen s1 + 1 + clen s2)] ++ compile' env (base + 1 + clen s1 + 1) s2))) st = st).
    rewrite removelast_app_ne by discriminate. rewrite eff_fwd_app.
    change (eff_fwd (OpIf c (base + 1 + clen s1 + 1) :: compile' env (base + 1) s1) st) with (eff_fwd (compile' env (base + 1) s1) st).
    rewrite balanced_fwd.
    destruct (clen s2 =? 0) eqn:E.
    + apply Z.eqb_eq in E. rewrite (clen_zero_nil s2 _ _ E). reflexivity.
    + apply Z.eqb_neq in E. rewrite removelast_app_ne by (apply clen_pos_ne; exact E).
      rewrite eff_fwd_app. cbn [eff_fwd fold_left scope_effect_fwd]. eapply IHs2; eassumption.
  - change (eff_fwd (removelast ((OpIf c (base + 1 + clen s + 1) :: compile' (bind l (base, base + 1 + clen s + 1) env) (base + 1) s) ++ [OpGoto 0%N base])) st = st).
    rewrite removelast_app_ne by discriminate. rewrite eff_fwd_app. cbn [removelast eff_fwd fold_left].
    change (eff_fwd (compile' (bind l (base, base + 1 + clen s + 1) env) (base + 1) s) st = st). apply balanced_fwd.
  - rewrite removelast_app_ne by discriminate. rewrite eff_fwd_app, balanced_fwd.
    change (eff_fwd (removelast ((OpIf (ENot c) (base + clen s + 1 + clen s + 1) :: compile' (bind l (base + clen s, base + clen s + 1 + clen s + 1) env) (base + clen s + 1) s) ++ [OpGoto 0%N (base + clen s)])) st = st).
    rewrite removelast_app_ne by discriminate. rewrite eff_fwd_app. cbn [removelast eff_fwd fold_left].
    change (eff_fwd (compile' (bind l (base + clen s, base + clen s + 1 + clen s + 1) env) (base + clen s + 1) s) st = st). apply balanced_fwd.
  - rewrite removelast_app_ne by discriminate. rewrite eff_fwd_app, balanced_fwd. reflexivity.
Qed.
