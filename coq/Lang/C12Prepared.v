(* C12: a statement language with bind-variable holes, evaluated (a) with the bindings supplied at execution
   time, as Engine.QueryWithBindings / EXECUTE ... USING do, and (b) after textual substitution of the values
   as literals.  Values: NULL, integers, exact decimals, strings; MySQL three-valued logic (truth 1 / 0 / NULL). *)
From Coq Require Import List ZArith NArith Bool String Ascii.
Import ListNotations.
Open Scope Z_scope.

(* value domain: NULL, integers (signed 64-bit and unsigned 64-bit literals both denote their integer), exact
   decimals (unscaled value, scale), strings (byte strings; the default collation utf8mb4_0900_bin compares bytes) *)
Inductive val := VNull | VInt (z : Z) | VDec (u : Z) (s : N) | VStr (s : string).

(* operands of an IN list *)
Inductive atom := ALit (v : val) | ABind (k : nat).

Inductive expr :=
| Lit (v : val) | Col (i : nat) | Bind (k : nat)
| Add (a b : expr) | Sub (a b : expr)
| Eq (a b : expr) | Lt (a b : expr) | Le (a b : expr) | NsEq (a b : expr)
| And (a b : expr) | Or (a b : expr) | Not (a : expr) | IsNull (a : expr)
| InList (a : expr) (l : list atom) | Between (a lo hi : expr).

Definition row := list val.
Definition bindings := list val.

(* None = the statement fails (a bind variable without a value, a column that does not exist) or the operation
   is outside the modelled fragment (a string mixed with a number, a string used as a truth value) *)
Definition vbool (b : bool) : val := VInt (if b then 1 else 0).

Definition pow10 (n : N) : Z := Z.pow 10 (Z.of_N n).

(* numeric view: unscaled value and scale *)
Definition num_of (v : val) : option (Z * N) :=
  match v with VInt z => Some (z, 0%N) | VDec u s => Some (u, s) | _ => None end.

(* both operands rescaled to the larger scale *)
Definition align (a b : Z * N) : Z * Z * N :=
  let s := N.max (snd a) (snd b) in
  (fst a * pow10 (s - snd a), fst b * pow10 (s - snd b), s).

(* + and -: integer when both are integers, else a decimal of the larger scale *)
Definition arith (f : Z -> Z -> Z) (x y : val) : option val :=
  match x, y with
  | VNull, _ | _, VNull => Some VNull
  | VInt a, VInt b => Some (VInt (f a b))
  | _, _ =>
      match num_of x, num_of y with
      | Some a, Some b => let '(p, q, s) := align a b in Some (VDec (f p q) s)
      | _, _ => None
      end
  end.

Definition ceq (c : comparison) : bool := match c with Datatypes.Eq => true | _ => false end.
Definition clt (c : comparison) : bool := match c with Datatypes.Lt => true | _ => false end.
Definition cle (c : comparison) : bool := match c with Datatypes.Gt => false | _ => true end.

(* three-way comparison: numbers by exact value, strings bytewise; a string against a number is not modelled *)
Definition compare_val (x y : val) : option comparison :=
  match x, y with
  | VStr a, VStr b => Some (String.compare a b)
  | _, _ =>
      match num_of x, num_of y with
      | Some a, Some b => let '(p, q, _) := align a b in Some (Z.compare p q)
      | _, _ => None
      end
  end.

Definition cmp (g : comparison -> bool) (x y : val) : option val :=
  match x, y with
  | VNull, _ | _, VNull => Some VNull
  | _, _ => option_map (fun c => vbool (g c)) (compare_val x y)
  end.

Definition nseq (x y : val) : option val :=
  match x, y with
  | VNull, VNull => Some (vbool true)
  | VNull, _ | _, VNull => Some (vbool false)
  | _, _ => option_map (fun c => vbool (ceq c)) (compare_val x y)
  end.

(* truth value: Some None = NULL; strings as truth values are not modelled *)
Definition truth (x : val) : option (option bool) :=
  match x with
  | VNull => Some None
  | VInt z => Some (Some (negb (z =? 0)))
  | VDec u _ => Some (Some (negb (u =? 0)))
  | VStr _ => None
  end.

Definition and3 (x y : val) : option val :=
  match truth x, truth y with
  | Some (Some false), Some _ | Some _, Some (Some false) => Some (VInt 0)
  | Some None, Some _ | Some _, Some None => Some VNull
  | Some (Some true), Some (Some true) => Some (VInt 1)
  | _, _ => None
  end.
Definition or3 (x y : val) : option val :=
  match truth x, truth y with
  | Some (Some true), Some _ | Some _, Some (Some true) => Some (VInt 1)
  | Some None, Some _ | Some _, Some None => Some VNull
  | Some (Some false), Some (Some false) => Some (VInt 0)
  | _, _ => None
  end.
Definition not3 (x : val) : option val :=
  match truth x with
  | Some None => Some VNull
  | Some (Some b) => Some (vbool (negb b))
  | None => None
  end.
Definition is_true (x : val) : bool :=
  match truth x with Some (Some true) => true | _ => false end.

Definition eval_atom (bs : bindings) (a : atom) : option val :=
  match a with ALit v => Some v | ABind k => nth_error bs k end.

(* x IN (l): NULL if x is NULL; 1 if some element equals x; else NULL if some element is NULL; else 0 *)
Fixpoint in_list (x : val) (l : list val) (sawnull : bool) : option val :=
  match l with
  | [] => Some (if sawnull then VNull else VInt 0)
  | v :: l' =>
      match x, v with
      | VNull, _ => Some VNull
      | _, VNull => in_list x l' true
      | _, _ =>
          match compare_val x v with
          | Some Datatypes.Eq => Some (VInt 1)
          | Some _ => in_list x l' sawnull
          | None => None
          end
      end
  end.

Fixpoint eval_atoms (bs : bindings) (l : list atom) : option (list val) :=
  match l with
  | [] => Some []
  | a :: l' => match eval_atom bs a, eval_atoms bs l' with Some v, Some vs => Some (v :: vs) | _, _ => None end
  end.

Definition bin (f : val -> val -> option val) (x y : option val) : option val :=
  match x, y with Some a, Some b => f a b | _, _ => None end.

Definition bind1 (f : val -> option val) (x : option val) : option val :=
  match x with Some a => f a | None => None end.

Fixpoint eval (bs : bindings) (r : row) (e : expr) : option val :=
  match e with
  | Lit v => Some v
  | Col i => nth_error r i
  | Bind k => nth_error bs k
  | Add a b => bin (arith Z.add) (eval bs r a) (eval bs r b)
  | Sub a b => bin (arith Z.sub) (eval bs r a) (eval bs r b)
  | Eq a b => bin (cmp ceq) (eval bs r a) (eval bs r b)
  | Lt a b => bin (cmp clt) (eval bs r a) (eval bs r b)
  | Le a b => bin (cmp cle) (eval bs r a) (eval bs r b)
  | NsEq a b => bin nseq (eval bs r a) (eval bs r b)
  | And a b => bin and3 (eval bs r a) (eval bs r b)
  | Or a b => bin or3 (eval bs r a) (eval bs r b)
  | Not a => bind1 not3 (eval bs r a)
  | IsNull a => option_map (fun v => match v with VNull => vbool true | _ => vbool false end) (eval bs r a)
  | InList a l =>
      match eval bs r a, eval_atoms bs l with
      | Some x, Some vs => in_list x vs false
      | _, _ => None
      end
  | Between a lo hi =>
      match eval bs r a, eval bs r lo, eval bs r hi with
      | Some x, Some l, Some h => bin and3 (cmp cle l x) (cmp cle x h)
      | _, _, _ => None
      end
  end.

(* ---------- substitution of the bound values as literals ---------- *)
Definition subst_atom (bs : bindings) (a : atom) : atom :=
  match a with
  | ALit v => ALit v
  | ABind k => match nth_error bs k with Some v => ALit v | None => ABind k end
  end.

Fixpoint subst (bs : bindings) (e : expr) : expr :=
  match e with
  | Lit v => Lit v
  | Col i => Col i
  | Bind k => match nth_error bs k with Some v => Lit v | None => Bind k end
  | Add a b => Add (subst bs a) (subst bs b)
  | Sub a b => Sub (subst bs a) (subst bs b)
  | Eq a b => Eq (subst bs a) (subst bs b)
  | Lt a b => Lt (subst bs a) (subst bs b)
  | Le a b => Le (subst bs a) (subst bs b)
  | NsEq a b => NsEq (subst bs a) (subst bs b)
  | And a b => And (subst bs a) (subst bs b)
  | Or a b => Or (subst bs a) (subst bs b)
  | Not a => Not (subst bs a)
  | IsNull a => IsNull (subst bs a)
  | InList a l => InList (subst bs a) (map (subst_atom bs) l)
  | Between a lo hi => Between (subst bs a) (subst bs lo) (subst bs hi)
  end.

(* ---------- statements over one table ---------- *)
Inductive stmt :=
| Select (proj : list expr) (where_ : expr)
| Insert (values : list expr)
| Update (col : nat) (value : expr) (where_ : expr)
| Delete (where_ : expr).

Definition db := list row.

Fixpoint eval_list (bs : bindings) (r : row) (es : list expr) : option (list val) :=
  match es with
  | [] => Some []
  | e :: es' => match eval bs r e, eval_list bs r es' with Some v, Some vs => Some (v :: vs) | _, _ => None end
  end.

(* result rows of a SELECT, in table order *)
Fixpoint select_rows (bs : bindings) (proj : list expr) (w : expr) (d : db) : option (list row) :=
  match d with
  | [] => Some []
  | r :: d' =>
      match eval bs r w, select_rows bs proj w d' with
      | Some c, Some rest =>
          if is_true c then match eval_list bs r proj with Some out => Some (out :: rest) | None => None end
          else Some rest
      | _, _ => None
      end
  end.

Fixpoint set_nth (i : nat) (v : val) (r : row) : row :=
  match i, r with
  | _, [] => []
  | O, _ :: r' => v :: r'
  | S i', x :: r' => x :: set_nth i' v r'
  end.

Fixpoint update_rows (bs : bindings) (c : nat) (e w : expr) (d : db) : option db :=
  match d with
  | [] => Some []
  | r :: d' =>
      match eval bs r w, update_rows bs c e w d' with
      | Some b, Some rest =>
          if is_true b then match eval bs r e with Some v => Some (set_nth c v r :: rest) | None => None end
          else Some (r :: rest)
      | _, _ => None
      end
  end.

Fixpoint delete_rows (bs : bindings) (w : expr) (d : db) : option db :=
  match d with
  | [] => Some []
  | r :: d' =>
      match eval bs r w, delete_rows bs w d' with
      | Some b, Some rest => if is_true b then Some rest else Some (r :: rest)
      | _, _ => None
      end
  end.

(* result rows and the table afterwards; None = the statement fails and changes nothing *)
Definition exec (bs : bindings) (s : stmt) (d : db) : option (list row * db) :=
  match s with
  | Select proj w => option_map (fun rs => (rs, d)) (select_rows bs proj w d)
  | Insert vs => option_map (fun r => ([], d ++ [r])) (eval_list bs [] vs)
  | Update c e w => option_map (fun d' => ([], d')) (update_rows bs c e w d)
  | Delete w => option_map (fun d' => ([], d')) (delete_rows bs w d)
  end.

Definition subst_stmt (bs : bindings) (s : stmt) : stmt :=
  match s with
  | Select proj w => Select (map (subst bs) proj) (subst bs w)
  | Insert vs => Insert (map (subst bs) vs)
  | Update c e w => Update c (subst bs e) (subst bs w)
  | Delete w => Delete (subst bs w)
  end.

(* a history: the prepared statement is executed once per binding list, interleaved with arbitrary other
   statements (data changes) that carry no holes *)
Inductive step := Exec (bs : bindings) | Other (s : stmt).

Fixpoint run_prepared (q : stmt) (h : list step) (d : db) : list (option (list row)) * db :=
  match h with
  | [] => ([], d)
  | Exec bs :: h' =>
      match exec bs q d with
      | Some (rs, d') => let '(out, df) := run_prepared q h' d' in (Some rs :: out, df)
      | None => let '(out, df) := run_prepared q h' d in (None :: out, df)
      end
  | Other s :: h' =>
      match exec [] s d with
      | Some (rs, d') => let '(out, df) := run_prepared q h' d' in (Some rs :: out, df)
      | None => let '(out, df) := run_prepared q h' d in (None :: out, df)
      end
  end.

(* the same history with every execution replaced by the inlined text *)
Definition inline_step (q : stmt) (st : step) : stmt :=
  match st with Exec bs => subst_stmt bs q | Other s => s end.

Fixpoint run_text (ss : list stmt) (d : db) : list (option (list row)) * db :=
  match ss with
  | [] => ([], d)
  | s :: ss' =>
      match exec [] s d with
      | Some (rs, d') => let '(out, df) := run_text ss' d' in (Some rs :: out, df)
      | None => let '(out, df) := run_text ss' d in (None :: out, df)
      end
  end.
