(* C22 -- proofs about the SHOW CREATE TABLE model: the model parser inverts the printer. *)
From Coq Require Import List NArith Bool Arith Lia.
Import ListNotations.
From GMS Require Import Lang.ShowCreate.
Open Scope N_scope.

(* ---------- basic lemmas ---------- *)

Lemma strip_app kw r : strip kw (kw ++ r) = Some r.
Proof. induction kw as [|k kw IH]; cbn; [reflexivity|]. rewrite N.eqb_refl. exact IH. Qed.

(* the next character, if any, is not in class P *)
Definition hdnot (P : N -> bool) (r : str) : Prop := match r with c :: _ => P c = false | [] => True end.
(* the next character exists and is one of l *)
Definition hd_in (l : list N) (r : str) : Prop := match r with c :: _ => In c l | [] => False end.

Lemma span_app P w r : forallb P w = true -> hdnot P r -> span P (w ++ r) = (w, r).
Proof.
  intros Hw Hr. induction w as [|c w IH]; cbn in *.
  - destruct r as [|c r]; [reflexivity|]. cbn in *. rewrite Hr. reflexivity.
  - apply andb_prop in Hw. destruct Hw as [Hc Hw]. rewrite Hc. rewrite (IH Hw). reflexivity.
Qed.

Lemma str_eqb_refl a : str_eqb a a = true.
Proof. induction a as [|x a IH]; cbn; [reflexivity|]. rewrite N.eqb_refl. exact IH. Qed.

Lemma str_eqb_eq a b : str_eqb a b = true -> a = b.
Proof.
  revert b. induction a as [|x a IH]; intros [|y b] H; cbn in H; try discriminate; [reflexivity|].
  apply andb_prop in H. destruct H as [H1 H2]. apply N.eqb_eq in H1. apply IH in H2. congruence.
Qed.

Lemma replace1_app a r x y : replace1 a r (x ++ y) = replace1 a r x ++ replace1 a r y.
Proof. unfold replace1. apply flat_map_app. Qed.

(* ---------- quoted strings ---------- *)

Definition esc_ok (q : N) (f : option (N -> option N)) (e : N -> str) : Prop :=
  forall c, (c = q /\ e c = [q; q]) \/
            (c <> q /\ e c = [c] /\ match f with None => True | Some _ => c <> 92 end) \/
            (c <> q /\ exists g x, f = Some g /\ e c = [92; x] /\ g x = Some c).

Lemma scan_esc q f e :
  q <> 92 -> esc_ok q f e ->
  forall s rest, hdnot (N.eqb q) rest -> scan q f (flat_map e s ++ q :: rest) = Some (s, rest).
Proof.
  intros Hq He s rest Hr. induction s as [|c s IH].
  - cbn -[N.eqb]. rewrite N.eqb_refl. destruct rest as [|c2 r2]; [reflexivity|]. cbn -[N.eqb] in Hr.
    rewrite N.eqb_sym, Hr. reflexivity.
  - cbn [flat_map]. rewrite <- app_assoc. destruct (He c) as [[-> E]|[[Hc [E Hf]]|[Hc [g [x [Ef [E Hg]]]]]]]; rewrite E.
    + cbn -[N.eqb]. rewrite N.eqb_refl. rewrite IH. reflexivity.
    + cbn -[N.eqb]. apply N.eqb_neq in Hc. rewrite Hc. destruct f as [g|].
      * apply N.eqb_neq in Hf. rewrite Hf. rewrite IH. reflexivity.
      * rewrite IH. reflexivity.
    + subst f. cbn -[N.eqb]. assert (H92 : 92 =? q = false) by (apply N.eqb_neq; congruence). rewrite H92.
      rewrite Hg. rewrite IH. reflexivity.
Qed.

(* per-character forms of the escape functions *)
Definition escc_id (c : N) : str := if c =? 96 then [96; 96] else [c].
Definition escc_enum (c : N) : str := if c =? 39 then [39; 39] else [c].
Definition escc_lit (c : N) : str := if c =? 39 then [39; 39] else if c =? 92 then [92; 92] else [c].
Definition escc_comment (c : N) : str :=
  if c =? 39 then [39; 39] else if c =? 92 then [92; 92] else if c =? 34 then [92; 34]
  else if c =? 10 then [92; 110] else if c =? 13 then [92; 114] else if c =? 0 then [92; 48] else [c].

Ltac eqb_cases c :=
  repeat match goal with
         | |- context [c =? ?k] => destruct (N.eqb_spec c k); [subst c; cbn; try reflexivity|]; cbn
         end.

Lemma esc_lit_flat s : esc_lit s = flat_map escc_lit s.
Proof.
  unfold esc_lit. induction s as [|c s IH]; [reflexivity|].
  change (replace1 39 [39; 39] (c :: s)) with ((if c =? 39 then [39; 39] else [c]) ++ replace1 39 [39; 39] s).
  rewrite replace1_app, IH. cbn [flat_map]. f_equal.
  unfold escc_lit. destruct (N.eqb_spec c 39); [subst; reflexivity|]. cbn. rewrite app_nil_r. reflexivity.
Qed.

Lemma esc_comment_flat s : esc_comment s = flat_map escc_comment s.
Proof.
  unfold esc_comment. induction s as [|c s IH]; [reflexivity|].
  change (replace1 39 [39; 39] (c :: s)) with ((if c =? 39 then [39; 39] else [c]) ++ replace1 39 [39; 39] s).
  rewrite !replace1_app, IH. cbn [flat_map]. f_equal.
  unfold escc_comment. destruct (N.eqb_spec c 39); [subst; reflexivity|]. cbn.
  destruct (N.eqb_spec c 92); [subst; reflexivity|]. cbn.
  destruct (N.eqb_spec c 34); [subst; reflexivity|]. cbn.
  destruct (N.eqb_spec c 10); [subst; reflexivity|]. cbn.
  destruct (N.eqb_spec c 13); [subst; reflexivity|]. cbn.
  destruct (N.eqb_spec c 0); [subst; reflexivity|]. reflexivity.
Qed.

Lemma esc_ok_id : esc_ok 96 None escc_id.
Proof.
  intro c. unfold escc_id. destruct (N.eqb_spec c 96); [left; auto|right; left; auto].
Qed.

Lemma esc_ok_enum : esc_ok 39 None escc_enum.
Proof.
  intro c. unfold escc_enum. destruct (N.eqb_spec c 39); [left; auto|right; left; auto].
Qed.

Lemma esc_ok_lit : esc_ok 39 (Some unesc_lit) escc_lit.
Proof.
  intro c. unfold escc_lit. destruct (N.eqb_spec c 39); [left; auto|].
  destruct (N.eqb_spec c 92).
  - right; right. split; [assumption|]. exists unesc_lit, 92. subst. auto.
  - right; left. auto.
Qed.

Lemma esc_ok_comment : esc_ok 39 (Some unesc_comment) escc_comment.
Proof.
  intro c. unfold escc_comment. destruct (N.eqb_spec c 39); [left; auto|].
  destruct (N.eqb_spec c 92); [right; right; split; [assumption|]; exists unesc_comment, 92; subst; auto|].
  destruct (N.eqb_spec c 34); [right; right; split; [assumption|]; exists unesc_comment, 34; subst; auto|].
  destruct (N.eqb_spec c 10); [right; right; split; [assumption|]; exists unesc_comment, 110; subst; auto|].
  destruct (N.eqb_spec c 13); [right; right; split; [assumption|]; exists unesc_comment, 114; subst; auto|].
  destruct (N.eqb_spec c 0); [right; right; split; [assumption|]; exists unesc_comment, 48; subst; auto|].
  right; left. auto.
Qed.

Lemma p_qid_ok s rest : hdnot (N.eqb 96) rest -> p_qid (quote_id s ++ rest) = Some (s, rest).
Proof.
  intro H. unfold quote_id, p_qid. cbn. rewrite <- app_assoc. cbn.
  apply (scan_esc 96 None escc_id); [discriminate|exact esc_ok_id|exact H].
Qed.

Lemma p_qstr_enum_ok s rest :
  hdnot (N.eqb 39) rest -> p_qstr None (quote_with esc_enum s ++ rest) = Some (s, rest).
Proof.
  intro H. unfold quote_with, p_qstr. cbn. rewrite <- app_assoc. cbn.
  apply (scan_esc 39 None escc_enum); [discriminate|exact esc_ok_enum|exact H].
Qed.

Lemma p_qstr_lit_ok s rest :
  hdnot (N.eqb 39) rest -> p_qstr (Some unesc_lit) (quote_with esc_lit s ++ rest) = Some (s, rest).
Proof.
  intro H. unfold quote_with, p_qstr. cbn. rewrite <- app_assoc. cbn. rewrite esc_lit_flat.
  apply (scan_esc 39 (Some unesc_lit) escc_lit); [discriminate|exact esc_ok_lit|exact H].
Qed.

Lemma scan_comment_ok s rest :
  hdnot (N.eqb 39) rest -> scan 39 (Some unesc_comment) (esc_comment s ++ 39 :: rest) = Some (s, rest).
Proof.
  intro H. rewrite esc_comment_flat.
  apply (scan_esc 39 (Some unesc_comment) escc_comment); [discriminate|exact esc_ok_comment|exact H].
Qed.

Lemma scan_raw_ok s rest : no_quote s = true -> scan_raw (s ++ 39 :: rest) = Some (s, rest).
Proof.
  intro H. induction s as [|c s IH]; cbn in *; [reflexivity|].
  apply andb_prop in H. destruct H as [Hc Hs]. apply negb_true_iff in Hc. rewrite Hc. rewrite (IH Hs). reflexivity.
Qed.

Lemma scan_bal_app e : forall d d' rest,
  bal d e = Some d' ->
  scan_bal d (e ++ rest) = match scan_bal d' rest with Some (x, r) => Some (e ++ x, r) | None => None end.
Proof.
  induction e as [|c e IH]; intros d d' rest H; cbn [bal app] in *.
  - injection H as <-. destruct (scan_bal d rest) as [[x r]|]; reflexivity.
  - cbn [scan_bal]. destruct (c =? 41).
    + destruct d as [|d0]; [discriminate|]. rewrite (IH d0 d' rest H).
      destruct (scan_bal d' rest) as [[x r]|]; reflexivity.
    + destruct (c =? 40); rewrite (IH _ d' rest H); destruct (scan_bal d' rest) as [[x r]|]; reflexivity.
Qed.

Lemma scan_bal_ok e rest : wf_expr e = true -> scan_bal 0 (e ++ 41 :: rest) = Some (e, rest).
Proof.
  unfold wf_expr. intro H. destruct (bal 0 e) as [[|n]|] eqn:E; try discriminate.
  rewrite (scan_bal_app e 0 0 (41 :: rest) E). cbn. rewrite app_nil_r. reflexivity.
Qed.

Lemma esc_lit_id s : no_quote_bs s = true -> esc_lit s = s.
Proof.
  intro H. rewrite esc_lit_flat. unfold no_quote_bs in H. induction s as [|c s IH]; [reflexivity|].
  cbn [flat_map]. cbn [forallb] in H.
  apply andb_prop in H. destruct H as [Hc Hs]. apply andb_prop in Hc. destruct Hc as [H1 H2].
  apply negb_true_iff in H1, H2. unfold escc_lit at 1. rewrite H1, H2. cbn [app]. rewrite (IH Hs). reflexivity.
Qed.

(* ---------- numbers ---------- *)

Lemma p_digits_ok d rest : is_num d = true -> hdnot digitch rest -> p_digits (d ++ rest) = Some (d, rest).
Proof.
  intros Hd Hr. unfold p_digits. destruct d as [|c d]; [discriminate|]. cbn in Hd.
  rewrite (span_app digitch (c :: d) rest Hd Hr). reflexivity.
Qed.

Lemma p_pnum_ok d rest : is_num d = true -> p_pnum (paren d ++ rest) = Some (d, rest).
Proof.
  intro Hd. unfold p_pnum, paren. cbn. rewrite <- app_assoc. rewrite (p_digits_ok d _ Hd); [|reflexivity].
  cbn. reflexivity.
Qed.

(* ---------- separated lists ---------- *)

Section SepListOk.
  Context {A : Type} (p : str -> option (A * str)) (pr : A -> str) (sep : str) (wfx : A -> Prop) (good : str -> Prop).
  Hypothesis Hp : forall x rest, wfx x -> good rest -> p (pr x ++ rest) = Some (x, rest).
  Hypothesis Hsep : forall r, good (sep ++ r).

  Lemma sep_list_ok xs : forall fuel tail,
    Forall wfx xs -> xs <> [] -> good tail -> strip sep tail = None -> (length xs <= fuel)%nat ->
    sep_list p sep fuel (joins sep (map pr xs) ++ tail) = Some (xs, tail).
  Proof.
    induction xs as [|x xs IH]; intros fuel tail Hwf Hne Hg Hs Hf; [congruence|].
    destruct fuel as [|fuel]; [cbn in Hf; lia|].
    inversion Hwf as [|? ? Hx Hxs]; subst.
    destruct xs as [|y xs].
    - cbn. rewrite (Hp x tail Hx Hg). rewrite Hs. reflexivity.
    - change (joins sep (map pr (x :: y :: xs))) with (pr x ++ sep ++ joins sep (map pr (y :: xs))).
      rewrite <- !app_assoc. cbn [sep_list]. rewrite (Hp x _ Hx (Hsep _)). rewrite strip_app.
      rewrite (IH fuel tail Hxs); [reflexivity|discriminate|assumption|assumption|cbn in *; lia].
  Qed.
End SepListOk.

Lemma joins_len (sep : str) (l : list str) : (1 <= length sep)%nat -> (length l <= S (length (joins sep l)))%nat.
Proof.
  intro Hs. induction l as [|x l IH]; [cbn; lia|].
  destruct l as [|y l]; [cbn; lia|].
  change (joins sep (x :: y :: l)) with (x ++ sep ++ joins sep (y :: l)).
  rewrite !app_length. cbn [length] in *. lia.
Qed.

Lemma fuel_ok {A} (pr : A -> str) (sep : str) (xs : list A) (tail : str) :
  (1 <= length sep)%nat -> tail <> [] -> (length xs <= length (joins sep (map pr xs) ++ tail))%nat.
Proof.
  intros Hs Ht. pose proof (joins_len sep (map pr xs) Hs) as H. rewrite map_length in H.
  rewrite app_length. destruct tail; [congruence|]. cbn [length]. lia.
Qed.

(* ---------- collations ---------- *)

Lemma find_coll_name c : find_coll (coll_name c) = Some c.
Proof. destruct c; vm_compute; reflexivity. Qed.

Lemma coll_name_word c : forallb wordch (coll_name c) = true.
Proof. destruct c; vm_compute; reflexivity. Qed.

Lemma cs_name_word c : forallb wordch (cs_name c) = true.
Proof. destruct c; vm_compute; reflexivity. Qed.

Definition collgood (rest : str) : Prop :=
  strip kw_charset rest = None /\ strip kw_collate rest = None /\ hdnot wordch rest.

Lemma p_collsfx_ok tc oc rest :
  wf_collsfx tc oc = true -> collgood rest -> p_collsfx (print_collsfx tc oc ++ rest) = Some (oc, rest).
Proof.
  intros Hwf [H1 [H2 H3]]. unfold p_collsfx. destruct oc as [c|]; cbn [print_collsfx].
  - cbn in Hwf. apply negb_true_iff in Hwf. rewrite Hwf.
    assert (Hc : forall x, (kw_collate ++ coll_name c) ++ x = kw_collate ++ coll_name c ++ x)
      by (intro x; rewrite <- app_assoc; reflexivity).
    destruct (cs_eqb (coll_cs c) (coll_cs tc)).
    + cbn [app]. rewrite Hc. change (strip kw_charset (kw_collate ++ coll_name c ++ rest)) with (@None str).
      cbv beta iota. rewrite strip_app. rewrite (span_app wordch _ rest (coll_name_word c) H3). rewrite find_coll_name. reflexivity.
    + rewrite <- !app_assoc. rewrite strip_app.
      rewrite (span_app wordch (cs_name (coll_cs c)) _ (cs_name_word _)); [|reflexivity].
      cbn [snd]. cbv beta iota. rewrite strip_app. rewrite (span_app wordch _ rest (coll_name_word c) H3).
      rewrite find_coll_name. reflexivity.
  - cbn [app]. rewrite H1, H2. reflexivity.
Qed.

(* ---------- types ---------- *)

Definition typegood (rest : str) : Prop :=
  hd_in [32; 44; 10] rest /\ strip kw_unsigned rest = None /\ strip kw_charset rest = None /\ strip kw_collate rest = None.

Lemma hd_in_notword rest : hd_in [32; 44; 10] rest -> hdnot wordch rest.
Proof. destruct rest as [|c r]; [exact (fun _ => I)|]. cbn. intros [<-|[<-|[<-|[]]]]; reflexivity. Qed.

Lemma hd_in_notdigit rest : hd_in [32; 44; 10] rest -> hdnot digitch rest.
Proof. destruct rest as [|c r]; [exact (fun _ => I)|]. cbn. intros [<-|[<-|[<-|[]]]]; reflexivity. Qed.

Lemma hd_in_strip (k : N) kw rest : hd_in [32; 44; 10] rest -> k <> 32 -> k <> 44 -> k <> 10 -> strip (k :: kw) rest = None.
Proof.
  destruct rest as [|c r]; [intros []|]. cbn [hd_in strip]. intros H A B C.
  assert (E : k =? c = false) by (apply N.eqb_neq; destruct H as [<-|[<-|[<-|[]]]]; assumption).
  rewrite E. reflexivity.
Qed.

Lemma typegood_coll rest : typegood rest -> collgood rest.
Proof. intros [H [_ [H1 H2]]]. repeat split; try assumption. apply hd_in_notword. exact H. Qed.

Lemma p_pnum2_ok p s rest :
  is_num p = true -> is_num s = true -> p_pnum2 (paren (p ++ 44 :: s) ++ rest) = Some (p, s, rest).
Proof.
  intros Hp Hs. unfold p_pnum2, paren. cbn [app strip]. rewrite N.eqb_refl. rewrite <- !app_assoc.
  rewrite (p_digits_ok p _ Hp); [|reflexivity]. cbn [app strip]. rewrite N.eqb_refl.
  rewrite (p_digits_ok s _ Hs); [|reflexivity]. cbn [app strip]. rewrite N.eqb_refl. reflexivity.
Qed.

Lemma print_prec_nothd p rest : hdnot wordch rest -> hdnot wordch (print_prec p ++ rest).
Proof. intro H. unfold print_prec. destruct (p =? 0); [exact H|reflexivity]. Qed.

Lemma p_prec_ok p rest : prec_ok p = true -> strip [40] rest = None -> p_prec (print_prec p ++ rest) = Some (p, rest).
Proof.
  intros Hp Hr. unfold prec_ok in Hp. apply N.leb_le in Hp. unfold p_prec, print_prec.
  destruct (N.eqb_spec p 0) as [->|Hz].
  - cbn [app]. rewrite Hr. reflexivity.
  - unfold paren. cbn [app strip]. rewrite !N.eqb_refl.
    assert (E : (49 <=? 48 + p) && (48 + p <=? 54) = true)
      by (apply andb_true_intro; split; apply N.leb_le; lia).
    rewrite E. f_equal. f_equal. lia.
Qed.

Lemma p_values_ok vs rest :
  nonempty vs = true ->
  p_values (paren (joins [44] (map (quote_with esc_enum) vs)) ++ rest) = Some (vs, rest).
Proof.
  intro Hne. unfold p_values, paren. cbn [app strip]. rewrite N.eqb_refl. rewrite <- app_assoc. cbn [app].
  rewrite (sep_list_ok (p_qstr None) (quote_with esc_enum) [44] (fun _ => True) (hdnot (N.eqb 39))).
  - cbn [strip]. rewrite N.eqb_refl. reflexivity.
  - intros x r _ Hr. apply p_qstr_enum_ok. exact Hr.
  - intro r. reflexivity.
  - apply Forall_forall. intros; exact I.
  - destruct vs; [discriminate|discriminate].
  - reflexivity.
  - reflexivity.
  - apply fuel_ok; [cbn; lia|discriminate].
Qed.

Lemma p_int_ok k uns rest :
  strip kw_unsigned rest = None -> p_int k ((if uns : bool then kw_unsigned else []) ++ rest) = Some (TyInt k uns, rest).
Proof.
  intro H. unfold p_int. destruct uns; [rewrite strip_app; reflexivity|]. cbn [app]. rewrite H. reflexivity.
Qed.

Lemma p_type_ok tc t rest :
  wf_type tc t = true -> typegood rest -> p_type (print_type tc t ++ rest) = Some (t, rest).
Proof.
  intros Hwf Hg. pose proof Hg as [Hh [Hu [Hcs Hco]]]. pose proof (hd_in_notword rest Hh) as Hnw.
  pose proof (typegood_coll rest Hg) as Hcg.
  assert (H40 : strip [40] rest = None) by (apply hd_in_strip; [exact Hh|discriminate..]).
  unfold p_type. destruct t; cbn [print_type wf_type] in *.
  - (* int *)
    destruct k; cbn [ikind_name]; rewrite <- app_assoc;
      (rewrite (span_app wordch); [|reflexivity|destruct uns; [reflexivity|exact Hnw]]);
      cbn [str_eqb N.eqb Pos.eqb andb]; try (apply p_int_ok; exact Hu).
    assert (E : strip [40; 49; 41] ((if uns then kw_unsigned else []) ++ rest) = None).
    { destruct uns; [reflexivity|]. apply hd_in_strip; [exact Hh|discriminate..]. }
    rewrite E. apply p_int_ok; exact Hu.
  - (* bool *)
    change ([116; 105; 110; 121; 105; 110; 116; 40; 49; 41] ++ rest)
      with ([116; 105; 110; 121; 105; 110; 116] ++ [40; 49; 41] ++ rest).
    rewrite (span_app wordch); [|reflexivity|reflexivity].
    cbn [str_eqb N.eqb Pos.eqb andb]. rewrite strip_app. reflexivity.
  - (* decimal *)
    apply andb_prop in Hwf. destruct Hwf as [Hp Hs]. rewrite <- app_assoc.
    rewrite (span_app wordch); [|reflexivity|reflexivity].
    cbn [str_eqb N.eqb Pos.eqb andb]. rewrite (p_pnum2_ok p s rest Hp Hs). reflexivity.
  - rewrite (span_app wordch); [|reflexivity|exact Hnw]. reflexivity.
  - rewrite (span_app wordch); [|reflexivity|exact Hnw]. reflexivity.
  - (* char *)
    apply andb_prop in Hwf. destruct Hwf as [Hn Hc]. rewrite <- !app_assoc.
    rewrite (span_app wordch); [|reflexivity|reflexivity].
    cbn [str_eqb N.eqb Pos.eqb andb]. rewrite (p_pnum_ok n _ Hn). rewrite (p_collsfx_ok tc c rest Hc Hcg). reflexivity.
  - (* varchar *)
    apply andb_prop in Hwf. destruct Hwf as [Hn Hc]. rewrite <- !app_assoc.
    rewrite (span_app wordch); [|reflexivity|reflexivity].
    cbn [str_eqb N.eqb Pos.eqb andb]. rewrite (p_pnum_ok n _ Hn). rewrite (p_collsfx_ok tc c rest Hc Hcg). reflexivity.
  - (* text *)
    assert (Hx : hdnot wordch (print_collsfx tc c ++ rest)).
    { destruct c as [c|]; [|exact Hnw]. cbn [print_collsfx].
      destruct (cs_eqb (coll_cs c) (coll_cs tc)); destruct (coll_eqb c tc); try exact Hnw; reflexivity. }
    destruct k; cbn [text_name]; rewrite <- app_assoc;
      (rewrite (span_app wordch); [|reflexivity|exact Hx]);
      cbn [str_eqb N.eqb Pos.eqb andb]; rewrite (p_collsfx_ok tc c rest Hwf Hcg); reflexivity.
  - (* binary *)
    rewrite <- !app_assoc. rewrite (span_app wordch); [|reflexivity|reflexivity].
    cbn [str_eqb N.eqb Pos.eqb andb]. rewrite (p_pnum_ok n _ Hwf). reflexivity.
  - rewrite <- !app_assoc. rewrite (span_app wordch); [|reflexivity|reflexivity].
    cbn [str_eqb N.eqb Pos.eqb andb]. rewrite (p_pnum_ok n _ Hwf). reflexivity.
  - (* blob *)
    destruct k; cbn [blob_name]; (rewrite (span_app wordch); [|reflexivity|exact Hnw]); reflexivity.
  - rewrite (span_app wordch); [|reflexivity|exact Hnw]. reflexivity.
  - (* datetime *)
    rewrite <- app_assoc. rewrite (span_app wordch); [|reflexivity|apply print_prec_nothd; exact Hnw].
    cbn [str_eqb N.eqb Pos.eqb andb]. rewrite (p_prec_ok p rest Hwf H40). reflexivity.
  - rewrite <- app_assoc. rewrite (span_app wordch); [|reflexivity|apply print_prec_nothd; exact Hnw].
    cbn [str_eqb N.eqb Pos.eqb andb]. rewrite (p_prec_ok p rest Hwf H40). reflexivity.
  - (* time(6) *)
    change ([116; 105; 109; 101; 40; 54; 41] ++ rest) with ([116; 105; 109; 101] ++ [40; 54; 41] ++ rest).
    rewrite (span_app wordch); [|reflexivity|reflexivity].
    cbn [str_eqb N.eqb Pos.eqb andb]. rewrite strip_app. reflexivity.
  - rewrite (span_app wordch); [|reflexivity|exact Hnw]. reflexivity.
  - (* enum *)
    apply andb_prop in Hwf. destruct Hwf as [Hn Hc]. rewrite <- !app_assoc.
    rewrite (span_app wordch); [|reflexivity|reflexivity].
    cbn [str_eqb N.eqb Pos.eqb andb]. rewrite <- ?app_assoc. rewrite (p_values_ok vs _ Hn).
    rewrite (p_collsfx_ok tc c rest Hc Hcg). reflexivity.
  - (* set *)
    apply andb_prop in Hwf. destruct Hwf as [Hn Hc]. rewrite <- !app_assoc.
    rewrite (span_app wordch); [|reflexivity|reflexivity].
    cbn [str_eqb N.eqb Pos.eqb andb]. rewrite <- ?app_assoc. rewrite (p_values_ok vs _ Hn).
    rewrite (p_collsfx_ok tc c rest Hc Hcg). reflexivity.
  - (* bit *)
    rewrite <- !app_assoc. rewrite (span_app wordch); [|reflexivity|reflexivity].
    cbn [str_eqb N.eqb Pos.eqb andb]. rewrite (p_pnum_ok n _ Hwf). reflexivity.
  - rewrite (span_app wordch); [|reflexivity|exact Hnw]. reflexivity.
Qed.

(* ---------- what can follow a column segment ---------- *)

Inductive shape (kws : list str) (X : str) : Prop :=
| sh_kw kw r : In kw kws -> X = kw ++ r -> shape kws X
| sh_tail : hd_in [44; 10] X -> shape kws X.

Fixpoint mism (k kw : str) : bool :=
  match k, kw with
  | a :: k', b :: kw' => if a =? b then mism k' kw' else true
  | _, _ => false
  end.

Lemma mism_strip k kw r : mism k kw = true -> strip k (kw ++ r) = None.
Proof.
  revert kw. induction k as [|a k IH]; intros [|b kw] H; cbn in *; try discriminate.
  destruct (a =? b); [apply IH; exact H|reflexivity].
Qed.

Lemma shape_strip a k kws X :
  forallb (mism (a :: k)) kws = true -> a <> 44 -> a <> 10 -> shape kws X -> strip (a :: k) X = None.
Proof.
  intros Hm A B [kw r Hin ->|Ht].
  - apply mism_strip. rewrite forallb_forall in Hm. apply Hm. exact Hin.
  - destruct X as [|c r]; [destruct Ht|]. cbn [hd_in] in Ht. cbn [strip].
    assert (E : a =? c = false) by (apply N.eqb_neq; destruct Ht as [<-|[<-|[]]]; assumption).
    rewrite E. reflexivity.
Qed.

Lemma shape_seg kw kws seg X :
  (seg = [] \/ exists r, seg = kw ++ r) -> shape kws X -> shape (kw :: kws) (seg ++ X).
Proof.
  intros [->|[r ->]] H.
  - cbn [app]. destruct H as [kw' r' Hin E|Ht]; [apply (sh_kw _ _ kw' r'); [right; exact Hin|exact E]|apply sh_tail; exact Ht].
  - apply (sh_kw _ _ kw (r ++ X)); [left; reflexivity|rewrite app_assoc; reflexivity].
Qed.

Lemma shape_hd kws X : Forall (fun kw => exists r, kw = 32 :: r) kws -> shape kws X -> hd_in [32; 44; 10] X.
Proof.
  intros Hk [kw r Hin ->|Ht].
  - rewrite Forall_forall in Hk. destruct (Hk kw Hin) as [r' ->]. cbn. left. reflexivity.
  - destruct X; [destruct Ht|]. cbn in *. right. exact Ht.
Qed.

Lemma hd3_notquote rest : hd_in [32; 44; 10] rest -> hdnot (N.eqb 39) rest.
Proof. destruct rest as [|c r]; [exact (fun _ => I)|]. cbn. intros [<-|[<-|[<-|[]]]]; reflexivity. Qed.

Lemma hd3_strip40 rest : hd_in [32; 44; 10] rest -> strip [40] rest = None.
Proof. intro H. apply hd_in_strip; [exact H|discriminate..]. Qed.

Lemma hd2_hd3 rest : hd_in [44; 10] rest -> hd_in [32; 44; 10] rest.
Proof. destruct rest; [exact (fun x => x)|]. cbn. intro H. right. exact H. Qed.

(* ---------- defaults ---------- *)

Lemma p_now_ok p X : prec_ok p = true -> strip [40] X = None -> p_now (print_now p ++ X) = Some (p, X).
Proof.
  intros Hp HX. unfold p_now, print_now. rewrite <- app_assoc. rewrite strip_app. apply p_prec_ok; assumption.
Qed.

Lemma print_def_quoted t s :
  wf_def t (DQuoted s) = true -> print_def t (DQuoted s) = quote_with esc_lit s.
Proof.
  cbn [wf_def print_def]. intro H. apply andb_prop in H. destruct H as [H1 H2].
  apply andb_prop in H1. destruct H1 as [H1 _].
  assert (E : (if lit_is_escaped t then quote_with esc_lit s else quote_with (fun x => x) s) = quote_with esc_lit s).
  { destruct (lit_is_escaped t); [reflexivity|]. cbn in H2. unfold quote_with. rewrite (esc_lit_id s H2). reflexivity. }
  destruct t; try exact E; discriminate.
Qed.

Lemma hd3_nothex rest : hd_in [32; 44; 10] rest -> hdnot hexch rest.
Proof. destruct rest as [|c r]; [exact (fun _ => I)|]. cbn. intros [<-|[<-|[<-|[]]]]; reflexivity. Qed.

Lemma p_def_ok t d X : wf_def t d = true -> hd_in [32; 44; 10] X -> p_def (print_def t d ++ X) = Some (d, X).
Proof.
  intros Hwf HX. destruct d as [|s|p|e|b|h].
  - unfold p_def. cbn [print_def]. rewrite strip_app. reflexivity.
  - rewrite (print_def_quoted t s Hwf). unfold p_def.
    change (strip kw_null (quote_with esc_lit s ++ X)) with (@None str).
    change (p_now (quote_with esc_lit s ++ X)) with (@None (N * str)).
    cbv beta iota. rewrite (p_qstr_lit_ok s X (hd3_notquote X HX)). reflexivity.
  - unfold p_def. cbn [print_def].
    assert (E : strip kw_null (print_now p ++ X) = None) by (unfold print_now; rewrite <- app_assoc; reflexivity).
    rewrite E. cbn [wf_def] in Hwf. rewrite (p_now_ok p X Hwf (hd3_strip40 X HX)). reflexivity.
  - unfold p_def. cbn [print_def wf_def] in *. unfold paren. cbn [app]. rewrite <- app_assoc. cbn [app].
    change (strip kw_null (40 :: ?x)) with (@None str).
    change (p_now (40 :: ?x)) with (@None (N * str)).
    change (p_qstr (Some unesc_lit) (40 :: ?x)) with (@None (str * str)).
    cbv beta iota. cbn [strip]. rewrite N.eqb_refl. rewrite (scan_bal_ok e X Hwf). reflexivity.
  - unfold p_def. cbn [print_def wf_def] in *. apply andb_prop in Hwf. destruct Hwf as [_ Hb].
    rewrite <- !app_assoc.
    change (strip kw_null (kw_bit ++ ?x)) with (@None str).
    change (p_now (kw_bit ++ ?x)) with (@None (N * str)).
    change (p_qstr (Some unesc_lit) (kw_bit ++ ?x)) with (@None (str * str)).
    change (strip [40] (kw_bit ++ ?x)) with (@None str).
    cbv beta iota. rewrite strip_app. rewrite (span_app bitch b _ Hb); [|reflexivity].
    cbn [app strip]. rewrite N.eqb_refl. reflexivity.
  - unfold p_def. cbn [print_def wf_def] in *. rewrite <- !app_assoc.
    change (strip kw_null (kw_hex ++ ?x)) with (@None str).
    change (p_now (kw_hex ++ ?x)) with (@None (N * str)).
    change (p_qstr (Some unesc_lit) (kw_hex ++ ?x)) with (@None (str * str)).
    change (strip [40] (kw_hex ++ ?x)) with (@None str).
    change (strip kw_bit (kw_hex ++ ?x)) with (@None str).
    cbv beta iota. rewrite strip_app. rewrite (span_app hexch h X Hwf (hd3_nothex X HX)). reflexivity.
Qed.

(* ---------- columns ---------- *)

Definition seg_nn (c : column) : str := if cnull c then [] else kw_notnull.
Definition seg_ai (c : column) : str := if cauto c then kw_autoinc else [].
Definition seg_gen (c : column) : str :=
  match cgen c with None => [] | Some (e, st) => kw_generated ++ e ++ [41] ++ (if st then kw_stored else []) end.
Definition seg_def (c : column) : str :=
  match cgen c, cdef c with None, Some d => kw_default ++ print_def (cty c) d | _, _ => [] end.
Definition seg_upd (c : column) : str := match conupd c with None => [] | Some p => kw_onupdate ++ print_now p end.
Definition seg_cm (c : column) : str := match ccomment c with [] => [] | cm => kw_comment ++ esc_comment cm ++ [39] end.

Lemma print_col_segs tc c :
  print_col tc c = [32; 32] ++ quote_id (cname c) ++ [32] ++ print_type tc (cty c) ++
                   seg_nn c ++ seg_ai c ++ seg_gen c ++ seg_def c ++ seg_upd c ++ seg_cm c.
Proof. unfold print_col, seg_gen, seg_def. destruct (cgen c) as [[e st]|]; reflexivity. Qed.

Lemma seg_nn_form c : seg_nn c = [] \/ exists r, seg_nn c = kw_notnull ++ r.
Proof. unfold seg_nn. destruct (cnull c); [left; reflexivity|right; exists []; rewrite app_nil_r; reflexivity]. Qed.
Lemma seg_ai_form c : seg_ai c = [] \/ exists r, seg_ai c = kw_autoinc ++ r.
Proof. unfold seg_ai. destruct (cauto c); [right; exists []; rewrite app_nil_r; reflexivity|left; reflexivity]. Qed.
Lemma seg_gen_form c : seg_gen c = [] \/ exists r, seg_gen c = kw_generated ++ r.
Proof. unfold seg_gen. destruct (cgen c) as [[e st]|]; [right; eexists; reflexivity|left; reflexivity]. Qed.
Lemma seg_def_form c : seg_def c = [] \/ exists r, seg_def c = kw_default ++ r.
Proof. unfold seg_def. destruct (cgen c); destruct (cdef c); try (left; reflexivity); right; eexists; reflexivity. Qed.
Lemma seg_upd_form c : seg_upd c = [] \/ exists r, seg_upd c = kw_onupdate ++ r.
Proof. unfold seg_upd. destruct (conupd c); [right; eexists; reflexivity|left; reflexivity]. Qed.
Lemma seg_cm_form c : seg_cm c = [] \/ exists r, seg_cm c = kw_comment ++ r.
Proof. unfold seg_cm. destruct (ccomment c); [left; reflexivity|right; eexists; reflexivity]. Qed.

Ltac shape_none S := eapply shape_strip; [| | |exact S]; [reflexivity|discriminate|discriminate].
Ltac strip_none S :=
  match goal with
  | |- context [strip ?kw ?X] =>
    let E := fresh "E" in assert (E : strip kw X = None) by shape_none S; rewrite E; clear E
  end.
Ltac all32 := repeat (apply Forall_cons; [eexists; reflexivity|]); apply Forall_nil.

Lemma p_col_ok tc c rest :
  wf_col tc c = true -> hd_in [44; 10] rest ->
  p_col (quote_id (cname c) ++ [32] ++ print_type tc (cty c) ++
         seg_nn c ++ seg_ai c ++ seg_gen c ++ seg_def c ++ seg_upd c ++ seg_cm c ++ rest) = Some (c, rest).
Proof.
  intros Hwf Hr. unfold wf_col in Hwf. apply andb_prop in Hwf. destruct Hwf as [Hwf Hwu].
  apply andb_prop in Hwf. destruct Hwf as [Hwf Hwg].
  apply andb_prop in Hwf. destruct Hwf as [Hwt Hwd].
  assert (S6 : shape [] rest) by (apply sh_tail; exact Hr).
  pose proof (shape_seg kw_comment _ _ _ (seg_cm_form c) S6) as S5.
  pose proof (shape_seg kw_onupdate _ _ _ (seg_upd_form c) S5) as S4.
  pose proof (shape_seg kw_default _ _ _ (seg_def_form c) S4) as S3.
  pose proof (shape_seg kw_generated _ _ _ (seg_gen_form c) S3) as S3g.
  pose proof (shape_seg kw_autoinc _ _ _ (seg_ai_form c) S3g) as S2.
  pose proof (shape_seg kw_notnull _ _ _ (seg_nn_form c) S2) as S1.
  set (X5 := seg_cm c ++ rest) in *. set (X4 := seg_upd c ++ X5) in *. set (X3 := seg_def c ++ X4) in *.
  set (X3g := seg_gen c ++ X3) in *.
  set (X2 := seg_ai c ++ X3g) in *. set (X1 := seg_nn c ++ X2) in *.
  assert (H1 : hd_in [32; 44; 10] X1) by (eapply shape_hd; [|exact S1]; all32).
  assert (H4 : hd_in [32; 44; 10] X4) by (eapply shape_hd; [|exact S4]; all32).
  assert (H5 : hd_in [32; 44; 10] X5) by (eapply shape_hd; [|exact S5]; all32).
  unfold p_col. rewrite p_qid_ok; [|reflexivity]. cbn [app strip]. rewrite N.eqb_refl.
  rewrite (p_type_ok tc (cty c) X1 Hwt).
  2:{ split; [exact H1|]. split; [|split]; shape_none S1. }
  (* NOT NULL *)
  assert (E1 : p_flag kw_notnull X1 = (negb (cnull c), X2)).
  { unfold p_flag, X1, seg_nn. destruct (cnull c).
    - cbn [app]. strip_none S2. reflexivity.
    - rewrite strip_app. reflexivity. }
  rewrite E1. cbv beta iota zeta.
  assert (E2 : p_flag kw_autoinc X2 = (cauto c, X3g)).
  { unfold p_flag, X2, seg_ai. destruct (cauto c).
    - rewrite strip_app. reflexivity.
    - cbn [app]. strip_none S3g. reflexivity. }
  rewrite E2. cbv beta iota zeta.
  assert (E2g : p_optgen X3g = Some (cgen c, X3)).
  { unfold p_optgen, X3g, seg_gen. destruct (cgen c) as [[e st]|].
    - apply andb_prop in Hwg. destruct Hwg as [Hwe _].
      rewrite <- !app_assoc. rewrite strip_app. cbn [app]. rewrite (scan_bal_ok e _ Hwe).
      unfold p_flag. destruct st.
      + rewrite strip_app. reflexivity.
      + cbn [app]. strip_none S3. reflexivity.
    - cbn [app]. strip_none S3. reflexivity. }
  rewrite E2g.
  assert (E3 : p_optdef X3 = Some (cdef c, X4)).
  { unfold p_optdef, X3, seg_def. destruct (cgen c) as [[e st]|]; destruct (cdef c) as [d|].
    - apply andb_prop in Hwg. destruct Hwg as [_ Hf]. discriminate.
    - cbn [app]. strip_none S4. reflexivity.
    - rewrite <- app_assoc. rewrite strip_app. rewrite (p_def_ok (cty c) d X4 Hwd H4). reflexivity.
    - cbn [app]. strip_none S4. reflexivity. }
  rewrite E3.
  assert (E4 : p_optupd X4 = Some (conupd c, X5)).
  { unfold p_optupd, X4, seg_upd. destruct (conupd c) as [p|].
    - rewrite <- app_assoc. rewrite strip_app. rewrite (p_now_ok p X5 Hwu (hd3_strip40 X5 H5)). reflexivity.
    - cbn [app]. strip_none S5. reflexivity. }
  rewrite E4. rewrite negb_involutive.
  assert (E5 : p_optcomment X5 = Some (ccomment c, rest)).
  { unfold p_optcomment, X5, seg_cm. destruct (ccomment c) as [|c0 cm].
    - cbn [app]. strip_none S6. reflexivity.
    - rewrite <- !app_assoc. rewrite strip_app. cbn [app].
      apply (scan_comment_ok (c0 :: cm) rest (hd3_notquote rest (hd2_hd3 rest Hr))). }
  rewrite E5. destruct c; reflexivity.
Qed.

(* ---------- identifier lists, indexes, foreign keys ---------- *)

Lemma hd_in_strip_gen l (k : N) kw rest : hd_in l rest -> ~ In k l -> strip (k :: kw) rest = None.
Proof.
  destruct rest as [|c r]; [intros []|]. cbn [hd_in strip]. intros H A.
  assert (E : k =? c = false) by (apply N.eqb_neq; intros ->; exact (A H)).
  rewrite E. reflexivity.
Qed.

Lemma sep_qid_ok ids tail fuel :
  ids <> [] -> hd_in [41] tail -> (length ids <= fuel)%nat ->
  sep_list p_qid [44] fuel (joins [44] (map quote_id ids) ++ tail) = Some (ids, tail).
Proof.
  intros Hne Ht Hf.
  apply (sep_list_ok p_qid quote_id [44] (fun _ => True) (hdnot (N.eqb 96))).
  - intros x r _ Hr. apply p_qid_ok. exact Hr.
  - intro r. reflexivity.
  - apply Forall_forall. intros; exact I.
  - exact Hne.
  - destruct tail; [destruct Ht|]. cbn in *. destruct Ht as [<-|[]]. reflexivity.
  - apply (hd_in_strip_gen [41]); [exact Ht|]. intros [H|[]]. discriminate.
  - exact Hf.
Qed.

Lemma p_idlist_ok ids rest :
  ids <> [] -> p_idlist (joins [44] (map quote_id ids) ++ 41 :: rest) = Some (ids, rest).
Proof.
  intro Hne. unfold p_idlist. rewrite (sep_qid_ok ids (41 :: rest)).
  - cbn [strip]. rewrite N.eqb_refl. reflexivity.
  - exact Hne.
  - cbn. left. reflexivity.
  - apply fuel_ok; [cbn; lia|discriminate].
Qed.

Lemma p_icol_ok c r : wf_icol c = true -> hd_in [44; 41] r -> p_icol (print_icol c ++ r) = Some (c, r).
Proof.
  intros Hwf Hr. destruct c as [name [n|]]; unfold p_icol, print_icol; cbn [fst snd] in *.
  - rewrite <- app_assoc. rewrite p_qid_ok; [|reflexivity].
    change (strip [40] (paren n ++ r)) with (Some ((n ++ [41]) ++ r)). cbv beta iota.
    rewrite (p_pnum_ok n r Hwf). reflexivity.
  - rewrite app_nil_r. rewrite p_qid_ok.
    + rewrite (hd_in_strip_gen [44; 41] 40 [] r Hr); [reflexivity|]. intros [H|[H|[]]]; discriminate.
    + destruct r; [destruct Hr|]. cbn in *. destruct Hr as [<-|[<-|[]]]; reflexivity.
Qed.

Definition seg_icm (i : index) : str := match icomment i with [] => [] | cm => kw_comment ++ cm ++ [39] end.

Lemma p_idx_ok i rest :
  wf_idx i = true -> hd_in [44; 10] rest ->
  p_idx (iuniq i) (quote_id (iname i) ++ [32] ++ paren (joins [44] (map print_icol (icols i))) ++ seg_icm i ++ rest)
  = Some (i, rest).
Proof.
  intros Hwf Hr. unfold wf_idx in Hwf. apply andb_prop in Hwf. destruct Hwf as [Hwf Hcm].
  apply andb_prop in Hwf. destruct Hwf as [Hne Hcols].
  unfold p_idx. rewrite p_qid_ok; [|reflexivity]. unfold paren. cbn [app strip]. rewrite !N.eqb_refl.
  rewrite <- app_assoc. cbn [app].
  rewrite (sep_list_ok p_icol print_icol [44] (fun c => wf_icol c = true) (hd_in [44; 41])).
  - cbn [strip]. rewrite N.eqb_refl. unfold seg_icm. destruct i as [u name cols cm]. cbn [icomment iuniq iname icols] in *.
    destruct cm as [|c0 cm].
    + cbn [app]. unfold kw_comment. rewrite (hd_in_strip_gen [44; 10] 32 _ rest Hr); [reflexivity|]. intros [H|[H|[]]]; discriminate.
    + rewrite <- !app_assoc. rewrite strip_app. change ([39] ++ rest) with (39 :: rest).
      rewrite (scan_raw_ok (c0 :: cm) rest Hcm). reflexivity.
  - intros x r Hx Hg. apply p_icol_ok; assumption.
  - intro r. cbn. left. reflexivity.
  - rewrite forallb_forall in Hcols. apply Forall_forall. exact Hcols.
  - destruct (icols i); [discriminate|discriminate].
  - cbn. right. left. reflexivity.
  - reflexivity.
  - apply fuel_ok; [cbn; lia|discriminate].
Qed.

Lemma p_action_ok a X : p_action (action_name a ++ X) = Some (a, X).
Proof. destruct a; reflexivity. Qed.

Definition seg_del (f : fkey) : str := match fondel f with None => [] | Some a => kw_ondelete ++ action_name a end.
Definition seg_fupd (f : fkey) : str := match fonupd f with None => [] | Some a => kw_onupdate ++ action_name a end.

Lemma p_fk_ok f rest :
  wf_fk f = true -> hd_in [44; 10] rest ->
  p_fk (quote_id (fname f) ++ kw_fk ++ joins [44] (map quote_id (fcols f)) ++ kw_references ++
        quote_id (fptable f) ++ [32] ++ paren (joins [44] (map quote_id (fpcols f))) ++ seg_del f ++ seg_fupd f ++ rest)
  = Some (f, rest).
Proof.
  intros Hwf Hr. unfold wf_fk in Hwf. apply andb_prop in Hwf. destruct Hwf as [Hc Hp].
  assert (H32 : forall kw, strip (32 :: kw) rest = None).
  { intro kw. apply (hd_in_strip_gen [44; 10]); [exact Hr|]. intros [H|[H|[]]]; discriminate. }
  unfold p_fk. rewrite p_qid_ok; [|reflexivity]. rewrite strip_app.
  rewrite (sep_qid_ok (fcols f)).
  2:{ destruct (fcols f); discriminate. }
  2:{ cbn. left. reflexivity. }
  2:{ apply fuel_ok; [cbn; lia|discriminate]. }
  rewrite strip_app. rewrite p_qid_ok; [|reflexivity]. unfold paren. cbn [app strip]. rewrite !N.eqb_refl.
  rewrite <- app_assoc. cbn [app]. rewrite p_idlist_ok.
  2:{ destruct (fpcols f); discriminate. }
  destruct f as [name cols pt pcols od ou]. unfold seg_del, seg_fupd, p_optaction. cbn [fondel fonupd].
  destruct od as [a|]; destruct ou as [b|]; rewrite <- ?app_assoc; cbn [app].
  - rewrite strip_app, p_action_ok, strip_app, p_action_ok. reflexivity.
  - rewrite strip_app, p_action_ok. unfold kw_onupdate. rewrite H32. reflexivity.
  - change (strip kw_ondelete (kw_onupdate ++ action_name b ++ rest)) with (@None str). cbv beta iota.
    rewrite strip_app, p_action_ok. reflexivity.
  - unfold kw_ondelete, kw_onupdate. rewrite !H32. reflexivity.
Qed.

(* ---------- items ---------- *)

Definition wf_item (tc : coll) (it : item) : Prop :=
  match it with
  | ICol c => wf_col tc c = true
  | IPk cols => cols <> []
  | IIdx i => wf_idx i = true
  | IFk f => wf_fk f = true
  | ICheck k => wf_check k = true
  end.

Lemma p_check_ok k rest :
  wf_check k = true -> hd_in [44; 10] rest ->
  p_check (quote_id (kname k) ++ kw_check ++ kexpr k ++ [41] ++ (if kenforced k then [] else kw_notenforced) ++ rest)
  = Some (k, rest).
Proof.
  intros Hwf Hr. unfold p_check. rewrite p_qid_ok; [|reflexivity]. rewrite strip_app. cbn [app].
  rewrite (scan_bal_ok (kexpr k) _ Hwf). unfold p_flag. destruct k as [name e enf]. cbn [kenforced kname kexpr].
  destruct enf.
  - cbn [app]. unfold kw_notenforced. rewrite (hd_in_strip_gen [44; 10] 32 _ rest Hr); [reflexivity|].
    intros [H|[H|[]]]; discriminate.
  - rewrite strip_app. reflexivity.
Qed.

Lemma p_fk_not_check name x : p_fk (quote_id name ++ kw_check ++ x) = None.
Proof. unfold p_fk. rewrite p_qid_ok; [|reflexivity]. reflexivity. Qed.

Lemma p_item_ok tc it rest :
  wf_item tc it -> hd_in [44; 10] rest -> p_item (print_item tc it ++ rest) = Some (it, rest).
Proof.
  intros Hwf Hr. unfold p_item. destruct it as [c|cols|i|f|k]; cbn [print_item wf_item] in *.
  - rewrite print_col_segs. rewrite <- !app_assoc. rewrite strip_app.
    match goal with |- context [strip [96] (quote_id ?s ++ ?x)] =>
      change (strip [96] (quote_id s ++ x)) with (Some ((replace1 96 [96; 96] s ++ [96]) ++ x)) end.
    cbv beta iota. rewrite (p_col_ok tc c rest Hwf Hr). reflexivity.
  - unfold print_pk. rewrite <- !app_assoc. rewrite strip_app.
    change (strip [96] (kw_pk ++ ?x)) with (@None str). cbv beta iota. rewrite strip_app.
    cbn [app]. rewrite (p_idlist_ok cols rest Hwf). reflexivity.
  - unfold print_idx. fold (seg_icm i). rewrite <- !app_assoc. rewrite strip_app.
    destruct i as [u name cols cm]. cbn [iuniq iname icols] in *. destruct u.
    + change (strip [96] (kw_unique ++ ?x)) with (@None str). cbv beta iota.
      change (strip kw_pk (kw_unique ++ ?x)) with (@None str). cbv beta iota.
      rewrite strip_app. rewrite strip_app.
      pose proof (p_idx_ok (mkidx true name cols cm) rest Hwf Hr) as E. unfold seg_icm in E.
      destruct cm; cbn [iuniq iname icols icomment] in E |- *; rewrite E; reflexivity.
    + rewrite app_nil_l.
      change (strip [96] (kw_key ++ ?x)) with (@None str). cbv beta iota.
      change (strip kw_pk (kw_key ++ ?x)) with (@None str). cbv beta iota.
      change (strip kw_unique (kw_key ++ ?x)) with (@None str). cbv beta iota.
      rewrite strip_app.
      pose proof (p_idx_ok (mkidx false name cols cm) rest Hwf Hr) as E. unfold seg_icm in E.
      destruct cm; cbn [iuniq iname icols icomment] in E |- *; rewrite E; reflexivity.
  - destruct f as [name cols pt pcols od ou].
    pose proof (p_fk_ok (mkfk name cols pt pcols od ou) rest Hwf Hr) as E. unfold seg_del, seg_fupd in E.
    unfold print_fk.
    destruct od; destruct ou; cbn [fname fcols fptable fpcols fondel fonupd] in E |- *;
      rewrite <- ?app_assoc in E; rewrite <- ?app_assoc; rewrite strip_app;
      change (strip [96] (kw_constraint ++ ?x)) with (@None str); cbv beta iota;
      change (strip kw_pk (kw_constraint ++ ?x)) with (@None str); cbv beta iota;
      change (strip kw_unique (kw_constraint ++ ?x)) with (@None str); cbv beta iota;
      change (strip kw_key (kw_constraint ++ ?x)) with (@None str); cbv beta iota;
      rewrite strip_app; rewrite E; reflexivity.
  - unfold print_check. rewrite <- !app_assoc. rewrite strip_app.
    change (strip [96] (kw_constraint ++ ?x)) with (@None str); cbv beta iota.
    change (strip kw_pk (kw_constraint ++ ?x)) with (@None str); cbv beta iota.
    change (strip kw_unique (kw_constraint ++ ?x)) with (@None str); cbv beta iota.
    change (strip kw_key (kw_constraint ++ ?x)) with (@None str); cbv beta iota.
    rewrite strip_app. rewrite p_fk_not_check. rewrite (p_check_ok k rest Hwf Hr). reflexivity.
Qed.

(* ---------- the whole statement ---------- *)

Lemma fm_nil {A B C} (f : B -> list C) (g : A -> B) l : (forall x, f (g x) = []) -> flat_map f (map g l) = [].
Proof. intro H. induction l as [|x l IH]; cbn; [reflexivity|]. rewrite H. exact IH. Qed.

Lemma fm_id {A B} (f : B -> list A) (g : A -> B) l : (forall x, f (g x) = [x]) -> flat_map f (map g l) = l.
Proof. intro H. induction l as [|x l IH]; cbn; [reflexivity|]. rewrite H, IH. reflexivity. Qed.

Lemma cols_of_items t : cols_of (items_of t) = tcols t.
Proof.
  unfold cols_of, items_of. rewrite !flat_map_app.
  rewrite (fm_id _ ICol) by reflexivity. rewrite (fm_nil _ IIdx), (fm_nil _ IFk), (fm_nil _ ICheck) by reflexivity.
  destruct (shown_pk t); cbn; rewrite ?app_nil_r; reflexivity.
Qed.

Lemma pk_of_items t : pk_of (items_of t) = shown_pk t.
Proof.
  unfold pk_of, items_of. rewrite !flat_map_app.
  rewrite (fm_nil _ ICol), (fm_nil _ IIdx), (fm_nil _ IFk), (fm_nil _ ICheck) by reflexivity.
  destruct (shown_pk t); cbn; rewrite ?app_nil_r; reflexivity.
Qed.

Lemma idx_of_items t : idx_of (items_of t) = tidx t.
Proof.
  unfold idx_of, items_of. rewrite !flat_map_app.
  rewrite (fm_id _ IIdx) by reflexivity. rewrite (fm_nil _ ICol), (fm_nil _ IFk), (fm_nil _ ICheck) by reflexivity.
  destruct (shown_pk t); cbn; rewrite ?app_nil_r; reflexivity.
Qed.

Lemma fks_of_items t : fks_of (items_of t) = tfks t.
Proof.
  unfold fks_of, items_of. rewrite !flat_map_app.
  rewrite (fm_id _ IFk) by reflexivity. rewrite (fm_nil _ ICol), (fm_nil _ IIdx), (fm_nil _ ICheck) by reflexivity.
  destruct (shown_pk t); cbn; rewrite ?app_nil_r; reflexivity.
Qed.

Lemma checks_of_items t : checks_of (items_of t) = shown_checks t.
Proof.
  unfold checks_of, items_of. rewrite !flat_map_app.
  rewrite (fm_id _ ICheck) by reflexivity. rewrite (fm_nil _ ICol), (fm_nil _ IIdx), (fm_nil _ IFk) by reflexivity.
  destruct (shown_pk t); cbn; reflexivity.
Qed.

Lemma strs_eqb_eq a b : strs_eqb a b = true -> a = b.
Proof.
  revert b. induction a as [|x a IH]; intros [|y b] H; cbn in H; try discriminate; [reflexivity|].
  apply andb_prop in H. destruct H as [H1 H2]. apply str_eqb_eq in H1. apply IH in H2. congruence.
Qed.

Lemma shown_pk_wf t : wf_table t = true -> shown_pk t = tpk t.
Proof.
  unfold wf_table. intro H. apply andb_prop in H. destruct H as [H _].
  apply andb_prop in H. destruct H as [_ H]. apply strs_eqb_eq. exact H.
Qed.

Lemma shown_comment_wf t : wf_table t = true -> shown_comment t = tcomment t.
Proof.
  unfold wf_table, shown_comment. intro H. apply andb_prop in H. destruct H as [H _].
  apply andb_prop in H. destruct H as [H _].
  apply andb_prop in H. destruct H as [_ H]. destruct (existsb is_virtual (tcols t)); [|reflexivity].
  cbn in H. destruct (tcomment t); [reflexivity|discriminate].
Qed.

Lemma shown_checks_wf t : wf_table t = true -> shown_checks t = tchecks t.
Proof.
  unfold wf_table, shown_checks. intro H. apply andb_prop in H. destruct H as [H _].
  apply andb_prop in H. destruct H as [H _].
  apply andb_prop in H. destruct H as [H _].
  apply andb_prop in H. destruct H as [_ H]. destruct (existsb is_virtual (tcols t)); [|reflexivity].
  cbn in H. destruct (tchecks t); [reflexivity|discriminate].
Qed.

Lemma items_wf t : wf_table t = true -> Forall (wf_item (tcoll t)) (items_of t) /\ items_of t <> [].
Proof.
  intro Hwf. pose proof (shown_checks_wf t Hwf) as Hsc. unfold wf_table in Hwf.
  apply andb_prop in Hwf. destruct Hwf as [H Hai]. apply andb_prop in H. destruct H as [H _].
  apply andb_prop in H. destruct H as [H _].
  apply andb_prop in H. destruct H as [H _].
  apply andb_prop in H. destruct H as [H Hck].
  apply andb_prop in H. destruct H as [H Hfk]. apply andb_prop in H. destruct H as [H Hix].
  apply andb_prop in H. destruct H as [Hne Hcols].
  rewrite forallb_forall in Hcols, Hix, Hfk, Hck. split.
  - unfold items_of. rewrite Hsc. rewrite !Forall_app. repeat split.
    + apply Forall_forall. intros it Hin. apply in_map_iff in Hin. destruct Hin as [c [<- Hc]]. exact (Hcols c Hc).
    + destruct (shown_pk t) eqn:E; [apply Forall_nil|]. apply Forall_cons; [cbn; discriminate|apply Forall_nil].
    + apply Forall_forall. intros it Hin. apply in_map_iff in Hin. destruct Hin as [c [<- Hc]]. exact (Hix c Hc).
    + apply Forall_forall. intros it Hin. apply in_map_iff in Hin. destruct Hin as [c [<- Hc]]. exact (Hfk c Hc).
    + apply Forall_forall. intros it Hin. apply in_map_iff in Hin. destruct Hin as [c [<- Hc]]. exact (Hck c Hc).
  - unfold items_of. destruct (tcols t); [discriminate|]. cbn. discriminate.
Qed.

Definition seg_tai (t : table) : str := match tautoinc t with None => [] | Some n => kw_tautoinc ++ n end.
Definition seg_tcm (t : table) : str := match tcomment t with [] => [] | cm => kw_tcomment ++ esc_comment cm ++ [39] end.

Lemma p_flag_if (b : bool) kw X : strip kw X = None -> p_flag kw ((if b then kw else []) ++ X) = (b, X).
Proof. intro H. unfold p_flag. destruct b; [rewrite strip_app; reflexivity|cbn [app]; rewrite H; reflexivity]. Qed.

Theorem parse_print t : wf_table t = true -> parse_table (print_table t) = Some t.
Proof.
  intro Hwf. destruct (items_wf t Hwf) as [Hits Hne].
  assert (Hai : match tautoinc t with None => true | Some n => is_num n end = true).
  { unfold wf_table in Hwf. apply andb_prop in Hwf. destruct Hwf as [_ H]. exact H. }
  pose proof (cols_of_items t) as Ec. pose proof (pk_of_items t) as Ep. rewrite (shown_pk_wf t Hwf) in Ep.
  pose proof (idx_of_items t) as Ei. pose proof (fks_of_items t) as Ef.
  pose proof (checks_of_items t) as Ek. rewrite (shown_checks_wf t Hwf) in Ek.
  unfold parse_table, print_table. rewrite (shown_comment_wf t Hwf).
  rewrite strip_app.
  rewrite p_flag_if; [|reflexivity]. cbv beta iota. rewrite strip_app.
  rewrite p_qid_ok; [|reflexivity]. rewrite strip_app.
  rewrite (sep_list_ok p_item (print_item (tcoll t)) kw_itemsep (wf_item (tcoll t)) (hd_in [44; 10])).
  - rewrite strip_app. rewrite Ec, Ep, Ei, Ef, Ek. clear Ec Ep Ei Ef Ek Hits Hne Hwf.
    destruct t as [tmp name cols pk idx fks cks ai tc cm]. cbn [ttemp tcomment tname tcols tpk tidx tfks tchecks tcoll tautoinc] in *.
    destruct ai as [n|]; destruct cm as [|c0 cm].
    + rewrite <- ?app_assoc. rewrite strip_app. rewrite (p_digits_ok n _ Hai); [|reflexivity].
      rewrite strip_app. rewrite (span_app wordch _ _ (cs_name_word _)); [|reflexivity]. cbn [snd].
      rewrite strip_app. rewrite (span_app wordch _ _ (coll_name_word _)); [|exact I]. rewrite find_coll_name.
      reflexivity.
    + rewrite <- ?app_assoc. rewrite strip_app. rewrite (p_digits_ok n _ Hai); [|reflexivity].
      rewrite strip_app. rewrite (span_app wordch _ _ (cs_name_word _)); [|reflexivity]. cbn [snd].
      rewrite strip_app. rewrite (span_app wordch _ _ (coll_name_word _)); [|reflexivity]. rewrite find_coll_name.
      rewrite strip_app. change ([39]) with (39 :: []). rewrite (scan_comment_ok (c0 :: cm) [] I). reflexivity.
    + cbn [app].
      change (strip kw_tautoinc (kw_tcharset ++ ?x)) with (@None str). cbv beta iota.
      rewrite strip_app. rewrite (span_app wordch _ _ (cs_name_word _)); [|reflexivity]. cbn [snd].
      rewrite strip_app. rewrite (span_app wordch _ _ (coll_name_word _)); [|exact I]. rewrite find_coll_name.
      reflexivity.
    + cbn [app].
      change (strip kw_tautoinc (kw_tcharset ++ ?x)) with (@None str). cbv beta iota.
      rewrite strip_app. rewrite (span_app wordch _ _ (cs_name_word _)); [|reflexivity]. cbn [snd].
      rewrite strip_app. rewrite (span_app wordch _ _ (coll_name_word _)); [|reflexivity]. rewrite find_coll_name.
      rewrite strip_app. change ([39]) with (39 :: []). rewrite (scan_comment_ok (c0 :: cm) [] I). reflexivity.
  - intros x r Hx Hr. apply p_item_ok; assumption.
  - intro r. cbn. left. reflexivity.
  - exact Hits.
  - exact Hne.
  - cbn. right. left. reflexivity.
  - reflexivity.
  - apply fuel_ok; [cbn; lia|discriminate].
Qed.

Corollary print_injective t1 t2 :
  wf_table t1 = true -> wf_table t2 = true -> print_table t1 = print_table t2 -> t1 = t2.
Proof.
  intros H1 H2 E. pose proof (parse_print t1 H1) as P1. rewrite E in P1. rewrite (parse_print t2 H2) in P1.
  congruence.
Qed.

Corollary print_parse_print t :
  wf_table t = true -> option_map print_table (parse_table (print_table t)) = Some (print_table t).
Proof. intro H. rewrite (parse_print t H). reflexivity. Qed.
