(* C24 -- guarded compiler correctness, part 2: for programs whose loop labels are pairwise distinct and whose REPEAT
   bodies contain no labelled LOOP / REPEAT, the two-phase compiler [compile] (placeholders -1 / -2 patched by
   resolveGoToIndexes, compile-time label stack that is never popped) produces exactly the code of the one-pass
   compiler [compile'] of C24Sim.v. *)
From Coq Require Import List ZArith NArith Bool Lia.
Import ListNotations.
From GMS Require Import Lang.C24Proc Lang.C24Sim.
Open Scope Z_scope.

(* ---------- labels declared / registered (NewLabel) by a statement ---------- *)
Fixpoint declared (s : stmt) : list label :=
  match s with
  | SSeq a b => declared a ++ declared b
  | SBlock _ b => declared b
  | SIf _ t e => declared t ++ declared e
  | SWhile l _ b => addl l (declared b)
  | SRepeat l b _ => addl l (declared b)
  | SLoop l b => addl l (declared b)
  | _ => []
  end.

Fixpoint registered (s : stmt) : list label :=
  match s with
  | SSeq a b => registered a ++ registered b
  | SBlock _ b => registered b
  | SIf _ t e => registered t ++ registered e
  | SWhile _ _ b => registered b
  | SRepeat l b _ => addl l (registered b)
  | SLoop l b => addl l (registered b)
  | _ => []
  end.

(* REPEAT bodies are compiled twice: they must not register labels *)
Fixpoint ok2 (s : stmt) : bool :=
  match s with
  | SSeq a b => ok2 a && ok2 b
  | SBlock _ b => ok2 b
  | SIf _ t e => ok2 t && ok2 e
  | SWhile _ _ b => ok2 b
  | SRepeat _ b _ => (match registered b with [] => true | _ => false end) && ok2 b
  | SLoop _ b => ok2 b
  | _ => true
  end.

Lemma in_addl : forall l x ls, In x (addl l ls) -> x = l \/ In x ls.
Proof. intros l x ls H. unfold addl in H. destruct (N.eqb l 0); [right; exact H|]. destruct H as [->|H]; auto. Qed.

Lemma in_addl_r : forall l x ls, In x ls -> In x (addl l ls).
Proof. intros l x ls H. unfold addl. destruct (N.eqb l 0); [exact H | right; exact H]. Qed.

Lemma registered_declared : forall s lab, In lab (registered s) -> In lab (declared s).
Proof.
  induction s; intros lab H; cbn [registered declared] in *; try contradiction.
  - apply in_app_or in H. apply in_or_app. destruct H; [left | right]; auto.
  - auto.
  - apply in_app_or in H. apply in_or_app. destruct H; [left | right]; auto.
  - apply in_addl_r. auto.
  - unfold addl in *. destruct (N.eqb l 0); [auto|]. destruct H as [->|H]; [left; reflexivity | right; auto].
  - unfold addl in *. destruct (N.eqb l 0); [auto|]. destruct H as [->|H]; [left; reflexivity | right; auto].
Qed.

(* ---------- resolving placeholders through an environment ---------- *)
Definition res_op (env : lenv) (o : op) : op :=
  match o with
  | OpGoto t idx =>
      if idx =? -1 then match assocE t env with Some (s, _) => OpGoto t s | None => o end
      else if idx =? -2 then match assocE t env with Some (_, e) => OpGoto t e | None => o end
      else o
  | _ => o
  end.

Definition resolve_env (env : lenv) (code : list op) : list op := map (res_op env) code.

Lemma resolve_env_app : forall env a b, resolve_env env (a ++ b) = resolve_env env a ++ resolve_env env b.
Proof. intros. apply map_app. Qed.

Lemma res_goto_nonneg : forall env t i, 0 <= i -> res_op env (OpGoto t i) = OpGoto t i.
Proof.
  intros env t i H. cbn [res_op]. destruct (i =? -1) eqn:E1; [apply Z.eqb_eq in E1; lia|].
  destruct (i =? -2) eqn:E2; [apply Z.eqb_eq in E2; lia|]. reflexivity.
Qed.

Lemma resolve_bind : forall l s e env code, 0 <= s -> 0 <= e ->
  resolve_env env (resolve l s e code) = resolve_env (bind l (s, e) env) code.
Proof.
  intros l s e env code Hs He. unfold resolve, bind. destruct (N.eqb l 0) eqn:E0; [reflexivity|].
  unfold resolve_env. rewrite map_map. apply map_ext. intros o.
  destruct o as [k h|d|x ex|u eu|x v|cnd idx|t idx|l0 idx|l0 idx]; try reflexivity.
  cbn [res_op assocE]. destruct (N.eqb t l) eqn:Et.
  - destruct (idx =? -1) eqn:E1; [apply res_goto_nonneg; exact Hs|].
    destruct (idx =? -2) eqn:E2; [apply res_goto_nonneg; exact He|].
    cbn [res_op]. rewrite E1, E2. reflexivity.
  - reflexivity.
Qed.

(* ---------- the compile-time label stack ---------- *)
Lemma get_label_push : forall l ls, get_label l ([] :: ls) = get_label l ls.
Proof. reflexivity. Qed.

Lemma get_label_new_same : forall l i ls, ls <> [] -> get_label l (new_label l i ls) = i.
Proof.
  intros l i [|s r] H; [contradiction|]. cbn [new_label get_label assocL]. rewrite N.eqb_refl. reflexivity.
Qed.

Lemma get_label_new_other : forall l l' i ls, l' <> l -> get_label l' (new_label l i ls) = get_label l' ls.
Proof.
  intros l l' i [|s r] H; [reflexivity|]. cbn [new_label get_label assocL].
  apply N.eqb_neq in H. rewrite H. reflexivity.
Qed.

Lemma new_label_ne : forall l i ls, ls <> [] -> new_label l i ls <> [].
Proof. intros l i [|s r] H; [contradiction | discriminate]. Qed.

Lemma zlen_resolve : forall l s e code, zlen (resolve l s e code) = zlen code.
Proof. intros. unfold resolve. destruct (N.eqb l 0); [reflexivity|]. unfold zlen. rewrite map_length. reflexivity. Qed.

Lemma clen_compile : forall s ls base, zlen (fst (compile ls base s)) = clen s.
Proof.
  induction s; intros ls base; cbn [compile clen]; try reflexivity.
  - destruct (compile ls base s1) as [ca ls1] eqn:Ea. destruct (compile ls1 (base + zlen ca) s2) as [cb ls2] eqn:Eb.
    cbn [fst]. rewrite zlen_app. pose proof (IHs1 ls base) as H1. rewrite Ea in H1. pose proof (IHs2 ls1 (base + zlen ca)) as H2.
    rewrite Eb in H2. cbn [fst] in *. lia.
  - destruct (compile ([] :: ls) (base + 1) s) as [cb ls1] eqn:Eb. cbn [fst].
    rewrite zlen_cons, zlen_resolve, zlen_app, zlen_cons, zlen_nil.
    pose proof (IHs ([] :: ls) (base + 1)) as H. rewrite Eb in H. cbn [fst] in H. lia.
  - destruct (compile ls (base + 1) s1) as [ct ls1] eqn:Et.
    destruct (compile ls1 (base + 1 + zlen ct + 1) s2) as [ce ls2] eqn:Ee. cbn [fst].
    rewrite zlen_cons, !zlen_app, zlen_cons, zlen_nil.
    pose proof (IHs1 ls (base + 1)) as H1. rewrite Et in H1. pose proof (IHs2 ls1 (base + 1 + zlen ct + 1)) as H2. rewrite Ee in H2.
    cbn [fst] in *. lia.
  - destruct (compile ls (base + 1) s) as [cb ls1] eqn:Eb. cbn [fst].
    rewrite zlen_resolve, zlen_cons, zlen_app, zlen_cons, zlen_nil.
    pose proof (IHs ls (base + 1)) as H. rewrite Eb in H. cbn [fst] in H. lia.
  - destruct (compile ls base s) as [c1 ls1] eqn:E1.
    destruct (compile (if N.eqb l 0 then ls1 else new_label l (base + zlen c1) ls1) (base + zlen c1 + 1) s) as [c2 ls3] eqn:E2.
    cbn [fst]. rewrite zlen_resolve, zlen_app, zlen_cons, zlen_app, zlen_cons, zlen_nil.
    pose proof (IHs ls base) as H1. rewrite E1 in H1.
    pose proof (IHs (if N.eqb l 0 then ls1 else new_label l (base + zlen c1) ls1) (base + zlen c1 + 1)) as H2. rewrite E2 in H2.
    cbn [fst] in *. lia.
  - destruct (compile (if N.eqb l 0 then ls else new_label l base ls) base s) as [cb ls2] eqn:Eb. cbn [fst].
    rewrite zlen_resolve, zlen_app, zlen_cons, zlen_nil.
    pose proof (IHs (if N.eqb l 0 then ls else new_label l base ls) base) as H. rewrite Eb in H. cbn [fst] in H. lia.
Qed.

(* ---------- compile = compile' under the guard ---------- *)
Definition inv (ls : lstack) (env : lenv) (s : stmt) (base : Z) : Prop :=
  ls <> [] /\ 0 <= base /\
  (forall l sl e, assocE l env = Some (sl, e) -> 0 <= sl /\ 0 <= e /\ (get_label l ls = -1 \/ get_label l ls = sl)) /\
  (forall l, In l (declared s) -> get_label l ls = -1 /\ assocE l env = None).

Lemma nodup_app_l : forall {A} (a b : list A), NoDup (a ++ b) -> NoDup a.
Proof. intros A a b H. induction a; [constructor|]. inversion H; subst. constructor; [intros Hi; apply H2; apply in_or_app; left; exact Hi | auto]. Qed.

Lemma nodup_app_r : forall {A} (a b : list A), NoDup (a ++ b) -> NoDup b.
Proof. intros A a b H. induction a; [exact H|]. inversion H; subst. auto. Qed.

Lemma nodup_app_disj : forall {A} (a b : list A) x, NoDup (a ++ b) -> In x a -> In x b -> False.
Proof.
  intros A a b x H. induction a; intros Ha Hb; [contradiction|]. inversion H; subst.
  destruct Ha as [->|Ha]; [apply H2; apply in_or_app; right; exact Hb | auto].
Qed.

Lemma nodup_addl : forall l ls, NoDup (addl l ls) -> NoDup ls /\ (l <> 0%N -> ~ In l ls).
Proof.
  intros l ls H. unfold addl in H. destruct (N.eqb l 0) eqn:E.
  - split; [exact H|]. intros Hl. apply N.eqb_eq in E. contradiction.
  - inversion H; subst. split; [assumption | intros _; assumption].
Qed.

Lemma inv_bind_unreg : forall ls env l sl e body base',
  ls <> [] -> 0 <= base' -> 0 <= sl -> 0 <= e ->
  (forall l0 s0 e0, assocE l0 env = Some (s0, e0) -> 0 <= s0 /\ 0 <= e0 /\ (get_label l0 ls = -1 \/ get_label l0 ls = s0)) ->
  (forall l0, In l0 (addl l (declared body)) -> get_label l0 ls = -1 /\ assocE l0 env = None) ->
  NoDup (addl l (declared body)) ->
  inv ls (bind l (sl, e) env) body base'.
Proof.
  intros ls env l sl e body base' Hne Hb Hsl He Henv Hdecl Hnd.
  destruct (nodup_addl _ _ Hnd) as [_ Hnot].
  split; [exact Hne|]. split; [exact Hb|]. unfold bind. destruct (N.eqb l 0) eqn:E0.
  - split; [exact Henv|]. intros l0 Hin. apply Hdecl. apply in_addl_r. exact Hin.
  - apply N.eqb_neq in E0. split.
    + intros l0 s0 e0 Ha. cbn [assocE] in Ha. destruct (N.eqb l0 l) eqn:El.
      * apply N.eqb_eq in El. subst l0. injection Ha as <- <-. split; [exact Hsl|]. split; [exact He|]. left.
        apply (Hdecl l). unfold addl. apply N.eqb_neq in E0. rewrite E0. left. reflexivity.
      * exact (Henv l0 s0 e0 Ha).
    + intros l0 Hin. destruct (Hdecl l0 (in_addl_r _ _ _ Hin)) as [Hg Hn]. split; [exact Hg|].
      cbn [assocE]. destruct (N.eqb l0 l) eqn:El; [|exact Hn].
      apply N.eqb_eq in El. subst l0. exfalso. exact (Hnot E0 Hin).
Qed.

Lemma inv_bind_reg : forall ls0 ls env l sl e body base',
  ls0 <> [] -> (forall l0, get_label l0 ls0 = get_label l0 ls) -> 0 <= base' -> 0 <= sl -> 0 <= e ->
  (forall l0 s0 e0, assocE l0 env = Some (s0, e0) -> 0 <= s0 /\ 0 <= e0 /\ (get_label l0 ls = -1 \/ get_label l0 ls = s0)) ->
  (forall l0, In l0 (addl l (declared body)) -> get_label l0 ls = -1 /\ assocE l0 env = None) ->
  NoDup (addl l (declared body)) ->
  inv (if N.eqb l 0 then ls0 else new_label l sl ls0) (bind l (sl, e) env) body base'.
Proof.
  intros ls0 ls env l sl e body base' Hne Hsame Hb Hsl He Henv Hdecl Hnd.
  destruct (nodup_addl _ _ Hnd) as [_ Hnot].
  unfold bind. destruct (N.eqb l 0) eqn:E0.
  - split; [exact Hne|]. split; [exact Hb|]. split.
    + intros l0 s0 e0 Ha. rewrite Hsame. exact (Henv l0 s0 e0 Ha).
    + intros l0 Hin. rewrite Hsame. apply Hdecl. apply in_addl_r. exact Hin.
  - apply N.eqb_neq in E0. split; [apply new_label_ne; exact Hne|]. split; [exact Hb|]. split.
    + intros l0 s0 e0 Ha. cbn [assocE] in Ha. destruct (N.eqb l0 l) eqn:El.
      * apply N.eqb_eq in El. subst l0. injection Ha as <- <-. split; [exact Hsl|]. split; [exact He|]. right.
        apply get_label_new_same. exact Hne.
      * apply N.eqb_neq in El. rewrite get_label_new_other by exact El. rewrite Hsame. exact (Henv l0 s0 e0 Ha).
    + intros l0 Hin. destruct (Hdecl l0 (in_addl_r _ _ _ Hin)) as [Hg Hn].
      assert (Hneq : l0 <> l) by (intros ->; exact (Hnot E0 Hin)).
      split; [rewrite get_label_new_other by exact Hneq; rewrite Hsame; exact Hg|].
      cbn [assocE]. apply N.eqb_neq in Hneq. rewrite Hneq. exact Hn.
Qed.

Lemma dom_add : forall ls env l v,
  (forall l', memL l' ls = true -> exists w, assocE l' env = Some w) ->
  forall l', memL l' (addl l ls) = true -> exists w, assocE l' (bind l v env) = Some w.
Proof. exact dom_bind_add. Qed.

Lemma equiv : forall s it lv ls env base,
  ok it lv s = true -> ok2 s = true -> NoDup (declared s) -> inv ls env s base ->
  (forall l, memL l lv = true -> exists v, assocE l env = Some v) ->
  (forall l, memL l it = true -> exists v, assocE l env = Some v) ->
  resolve_env env (fst (compile ls base s)) = compile' env base s
  /\ (forall l, ~ In l (registered s) -> get_label l (snd (compile ls base s)) = get_label l ls)
  /\ snd (compile ls base s) <> [].
Proof.
  induction s; intros it lv ls env base Hok Hok2 Hnd Hinv Hlv Hit; cbn [ok] in Hok; try discriminate Hok;
    destruct Hinv as [Hne [Hb [Henv Hdecl]]].
  - (* SSkip *) cbn. repeat split; auto.
  - (* SSeq *)
    apply andb_prop in Hok. destruct Hok as [Hk1 Hk2]. cbn [ok2] in Hok2. apply andb_prop in Hok2. destruct Hok2 as [Hq1 Hq2].
    cbn [declared] in Hnd, Hdecl.
    assert (I1 : inv ls env s1 base).
    { split; [exact Hne|]. split; [exact Hb|]. split; [exact Henv|]. intros l Hin. apply Hdecl. apply in_or_app. left. exact Hin. }
    destruct (IHs1 it lv ls env base Hk1 Hq1 (nodup_app_l _ _ Hnd) I1 Hlv Hit) as [E1 [G1 N1]].
    pose proof (clen_compile s1 ls base) as L1.
    cbn [compile compile']. destruct (compile ls base s1) as [ca ls1] eqn:Ea. cbn [fst snd] in *.
    assert (I2 : inv ls1 env s2 (base + zlen ca)).
    { split; [exact N1|]. split; [pose proof (zlen_nonneg ca); lia|]. split.
      - intros l sl e Ha. destruct (Henv l sl e Ha) as [H1 [H2 H3]]. split; [exact H1|]. split; [exact H2|].
        rewrite G1; [exact H3|]. intros Hin. apply registered_declared in Hin.
        destruct (Hdecl l (in_or_app _ _ _ (or_introl Hin))) as [_ Hn]. congruence.
      - intros l Hin. destruct (Hdecl l (in_or_app _ _ _ (or_intror Hin))) as [Hg Hn]. split; [|exact Hn].
        rewrite G1; [exact Hg|]. intros Hr. apply registered_declared in Hr. exact (nodup_app_disj _ _ _ Hnd Hr Hin). }
    destruct (IHs2 it lv ls1 env (base + zlen ca) Hk2 Hq2 (nodup_app_r _ _ Hnd) I2 Hlv Hit) as [E2 [G2 N2]].
    destruct (compile ls1 (base + zlen ca) s2) as [cb ls2] eqn:Eb. cbn [fst snd] in *.
    split; [rewrite resolve_env_app, E1, E2, L1; reflexivity|]. split; [|exact N2].
    intros l Hl. cbn [registered] in Hl. rewrite G2, G1; [reflexivity | |]; intros Hin; apply Hl; apply in_or_app; [left | right]; exact Hin.
  - (* SDeclare *) cbn. repeat split; auto.
  - (* SSet *) cbn. repeat split; auto.
  - (* SSetUser *) cbn. repeat split; auto.
  - (* SBlock *)
    apply andb_prop in Hok. destruct Hok as [Hl Hk]. apply N.eqb_eq in Hl. subst l. cbn [ok2] in Hok2. cbn [declared] in Hnd, Hdecl.
    assert (I1 : inv ([] :: ls) env s (base + 1)).
    { split; [discriminate|]. split; [lia|]. split; [exact Henv | exact Hdecl]. }
    destruct (IHs it lv ([] :: ls) env (base + 1) Hk Hok2 Hnd I1 Hlv Hit) as [E1 [G1 N1]].
    pose proof (clen_compile s ([] :: ls) (base + 1)) as L1.
    cbn [compile compile']. destruct (compile ([] :: ls) (base + 1) s) as [cb ls1] eqn:Eb. cbn [fst snd] in *.
    split; [|split; [exact G1 | exact N1]].
    unfold resolve. cbn [N.eqb]. cbn [resolve_env map res_op]. fold (resolve_env env (cb ++ [OpScopeEnd 0%N (base + 1 + zlen cb + 1)])).
    rewrite resolve_env_app, E1, L1. reflexivity.
  - (* SIf *)
    apply andb_prop in Hok. destruct Hok as [Hok _]. apply andb_prop in Hok. destruct Hok as [Hk1 Hk2].
    cbn [ok2] in Hok2. apply andb_prop in Hok2. destruct Hok2 as [Hq1 Hq2]. cbn [declared] in Hnd, Hdecl.
    assert (I1 : inv ls env s1 (base + 1)).
    { split; [exact Hne|]. split; [lia|]. split; [exact Henv|]. intros l Hin. apply Hdecl. apply in_or_app. left. exact Hin. }
    destruct (IHs1 it lv ls env (base + 1) Hk1 Hq1 (nodup_app_l _ _ Hnd) I1 Hlv Hit) as [E1 [G1 N1]].
    pose proof (clen_compile s1 ls (base + 1)) as L1.
    cbn [compile compile']. destruct (compile ls (base + 1) s1) as [ct ls1] eqn:Et. cbn [fst snd] in *.
    assert (I2 : inv ls1 env s2 (base + 1 + zlen ct + 1)).
    { split; [exact N1|]. split; [pose proof (zlen_nonneg ct); lia|]. split.
      - intros l sl e Ha. destruct (Henv l sl e Ha) as [H1 [H2 H3]]. split; [exact H1|]. split; [exact H2|].
        rewrite G1; [exact H3|]. intros Hin. apply registered_declared in Hin.
        destruct (Hdecl l (in_or_app _ _ _ (or_introl Hin))) as [_ Hn]. congruence.
      - intros l Hin. destruct (Hdecl l (in_or_app _ _ _ (or_intror Hin))) as [Hg Hn]. split; [|exact Hn].
        rewrite G1; [exact Hg|]. intros Hr. apply registered_declared in Hr. exact (nodup_app_disj _ _ _ Hnd Hr Hin). }
    destruct (IHs2 it lv ls1 env (base + 1 + zlen ct + 1) Hk2 Hq2 (nodup_app_r _ _ Hnd) I2 Hlv Hit) as [E2 [G2 N2]].
    pose proof (clen_compile s2 ls1 (base + 1 + zlen ct + 1)) as L2.
    destruct (compile ls1 (base + 1 + zlen ct + 1) s2) as [ce ls2] eqn:Ee. cbn [fst snd] in *.
    split; [|split; [|exact N2]].
    + cbn [resolve_env map res_op]. fold (resolve_env env (ct ++ [OpGoto 0%N (base + 1 + zlen ct + 1 + zlen ce)] ++ ce)).
      rewrite !resolve_env_app, E1, E2. cbn [resolve_env map]. rewrite res_goto_nonneg by (pose proof (zlen_nonneg ct); pose proof (zlen_nonneg ce); lia).
      rewrite L1, L2. reflexivity.
    + intros l Hl. cbn [registered] in Hl. rewrite G2, G1; [reflexivity | |]; intros Hin; apply Hl; apply in_or_app; [left | right]; exact Hin.
  - (* SWhile *)
    cbn [ok2] in Hok2. cbn [declared] in Hnd, Hdecl.
    pose proof (clen_nonneg s) as Hcl.
    set (e := base + 1 + clen s + 1).
    assert (I1 : inv ls (bind l (base, e) env) s (base + 1)).
    { apply inv_bind_unreg; try assumption; unfold e; lia. }
    destruct (IHs (addl l it) (addl l lv) ls (bind l (base, e) env) (base + 1) Hok Hok2 (proj1 (nodup_addl _ _ Hnd)) I1
                (dom_bind_add _ _ _ _ Hlv) (dom_bind_add _ _ _ _ Hit)) as [E1 [G1 N1]].
    pose proof (clen_compile s ls (base + 1)) as L1.
    cbn [compile compile']. destruct (compile ls (base + 1) s) as [cb ls1] eqn:Eb. cbn [fst snd] in *.
    split; [|split; [exact G1 | exact N1]].
    rewrite L1. fold e. rewrite resolve_bind by (unfold e; lia).
    cbn [resolve_env map res_op]. fold (resolve_env (bind l (base, e) env) (cb ++ [OpGoto 0%N base])).
    rewrite resolve_env_app, E1. cbn [resolve_env map]. rewrite res_goto_nonneg by exact Hb. reflexivity.
  - (* SRepeat *)
    apply andb_prop in Hok. destruct Hok as [Hok Hk]. cbn [ok2] in Hok2. apply andb_prop in Hok2. destruct Hok2 as [Hreg Hq].
    assert (Er : registered s = []) by (destruct (registered s); [reflexivity | discriminate Hreg]). cbn [declared] in Hnd, Hdecl.
    pose proof (clen_nonneg s) as Hcl.
    set (lst := base + clen s). set (e := lst + 1 + clen s + 1). set (env' := bind l (lst, e) env).
    assert (Hdl : forall l', memL l' (addl l lv) = true -> exists w, assocE l' env' = Some w) by (apply dom_bind_add; exact Hlv).
    assert (Hdi : forall l', memL l' it = true -> exists w, assocE l' env' = Some w) by (apply dom_bind_keep; exact Hit).
    assert (I1 : inv ls env' s base).
    { apply inv_bind_unreg; try assumption; unfold e, lst; lia. }
    destruct (IHs it (addl l lv) ls env' base Hk Hq (proj1 (nodup_addl _ _ Hnd)) I1 Hdl Hdi) as [E1 [G1 N1]].
    pose proof (clen_compile s ls base) as L1.
    cbn [compile compile']. destruct (compile ls base s) as [c1 ls1] eqn:Ec1. cbn [fst snd] in *.
    rewrite L1. fold lst.
    assert (Hsame : forall l0, get_label l0 ls1 = get_label l0 ls).
    { intros l0. apply G1. rewrite Er. intros []. }
    assert (I2 : inv (if N.eqb l 0 then ls1 else new_label l lst ls1) env' s (lst + 1)).
    { apply (inv_bind_reg ls1 ls); try assumption; unfold e, lst; lia. }
    destruct (IHs it (addl l lv) _ env' (lst + 1) Hk Hq (proj1 (nodup_addl _ _ Hnd)) I2 Hdl Hdi) as [E2 [G2 N2]].
    pose proof (clen_compile s (if N.eqb l 0 then ls1 else new_label l lst ls1) (lst + 1)) as L2.
    destruct (compile (if N.eqb l 0 then ls1 else new_label l lst ls1) (lst + 1) s) as [c2 ls3] eqn:Ec2. cbn [fst snd] in *.
    split; [|split; [|exact N2]].
    + rewrite L2. fold e. rewrite resolve_bind by (unfold e, lst; lia). fold env'.
      rewrite resolve_env_app, E1. cbn [resolve_env map res_op]. fold (resolve_env env' (c2 ++ [OpGoto 0%N lst])).
      rewrite resolve_env_app, E2. cbn [resolve_env map]. rewrite res_goto_nonneg by (unfold lst; lia). reflexivity.
    + intros l0 Hl0. cbn [registered] in Hl0. rewrite Er in Hl0. rewrite G2 by (rewrite Er; intros []).
      unfold addl in Hl0. destruct (N.eqb l 0) eqn:E0; [apply Hsame|].
      rewrite get_label_new_other; [apply Hsame|]. intros ->. apply Hl0. left. reflexivity.
  - (* SLoop *)
    apply andb_prop in Hok. destruct Hok as [_ Hk]. cbn [ok2] in Hok2. cbn [declared] in Hnd, Hdecl.
    pose proof (clen_nonneg s) as Hcl.
    set (e := base + clen s + 1). set (env' := bind l (base, e) env).
    assert (I1 : inv (if N.eqb l 0 then ls else new_label l base ls) env' s base).
    { apply (inv_bind_reg ls ls); try assumption; try reflexivity; unfold e; lia. }
    destruct (IHs (addl l it) (addl l lv) _ env' base Hk Hok2 (proj1 (nodup_addl _ _ Hnd)) I1
                (dom_bind_add _ _ _ _ Hlv) (dom_bind_add _ _ _ _ Hit)) as [E1 [G1 N1]].
    pose proof (clen_compile s (if N.eqb l 0 then ls else new_label l base ls) base) as L1.
    cbn [compile compile']. destruct (compile (if N.eqb l 0 then ls else new_label l base ls) base s) as [cb ls2] eqn:Eb.
    cbn [fst snd] in *.
    split; [|split; [|exact N1]].
    + rewrite L1. fold e. rewrite resolve_bind by (unfold e; lia). fold env'.
      rewrite resolve_env_app, E1. cbn [resolve_env map]. rewrite res_goto_nonneg by exact Hb. reflexivity.
    + intros l0 Hl0. cbn [registered] in Hl0.
      rewrite G1 by (intros Hin; apply Hl0; apply in_addl_r; exact Hin).
      unfold addl in Hl0. destruct (N.eqb l 0) eqn:E0; [reflexivity|].
      apply get_label_new_other. intros ->. apply Hl0. left. reflexivity.
  - (* SLeave *)
    destruct (Hlv l Hok) as [[sl e] Ha]. cbn [compile compile' fst snd resolve_env map res_op]. rewrite Ha.
    cbn. repeat split; auto.
  - (* SIterate *)
    destruct (Hit l Hok) as [[sl e] Ha]. cbn [compile compile' fst snd resolve_env map]. rewrite Ha.
    destruct (Henv l sl e Ha) as [Hs [He [Hg|Hg]]]; rewrite Hg.
    + cbn [res_op]. rewrite Ha. cbn. repeat split; auto.
    + rewrite res_goto_nonneg by exact Hs. repeat split; auto.
Qed.

(* ---------- the guarded theorem ---------- *)
Definition guard (p : stmt) : Prop := ok [] [] p = true /\ ok2 p = true /\ NoDup (declared p).

Lemma resolve_env_nil : forall code, resolve_env [] code = code.
Proof.
  intros code. unfold resolve_env. rewrite <- (map_id code) at 2. apply map_ext. intros o.
  destruct o; try reflexivity. cbn [res_op assocE]. destruct (idx =? -1); [reflexivity|]. destruct (idx =? -2); reflexivity.
Qed.

Lemma parse_compile' : forall p, guard p -> parse p = compile' [] 0 p.
Proof.
  intros p [Hok [Hok2 Hnd]]. unfold parse.
  assert (I : inv [[]] [] p 0).
  { split; [discriminate|]. split; [lia|]. split; [intros l sl e Ha; discriminate Ha|]. intros l _. split; reflexivity. }
  destruct (equiv p [] [] [[]] [] 0 Hok Hok2 Hnd I) as [E _].
  - intros l H. discriminate H.
  - intros l H. discriminate H.
  - rewrite resolve_env_nil in E. exact E.
Qed.

Lemma run_mono : forall ops fuel c st r, run ops fuel c st = MDone r -> forall k, run ops (fuel + k) c st = MDone r.
Proof.
  induction fuel as [|f IH]; intros c st r H k; [discriminate|].
  cbn [Nat.add run] in *. destruct (c + 1 <? 0); [discriminate|].
  destruct (nth_op ops (c + 1)) as [o|]; [|exact H].
  destruct (exec_op ops (c + 1) o st) as [c' st'| | |]; try discriminate.
  - exact (IH _ _ _ H k).
  - destruct (handle_error ops (c + 1) st) as [| | |c' st']; try discriminate. exact (IH _ _ _ H k).
Qed.

Lemma run_deterministic : forall ops f1 f2 c st r1 r2,
  run ops f1 c st = MDone r1 -> run ops f2 c st = MDone r2 -> r1 = r2.
Proof.
  intros ops f1 f2 c st r1 r2 H1 H2. pose proof (run_mono _ _ _ _ _ H1 f2) as A1. pose proof (run_mono _ _ _ _ _ H2 f1) as A2.
  rewrite Nat.add_comm in A2. rewrite A1 in A2. injection A2 as ->. reflexivity.
Qed.

(* compiler correctness under the guard: whenever the definition terminates normally, so does the compiled procedure, with
   exactly the same final state (scopes, handler table, parameters, user variables) -- for every amount of fuel that
   lets the machine finish *)
Theorem guarded_compiler_correct : forall p, guard p ->
  forall ps us f st', exec f p (init_state ps us) = (ONormal, st') ->
  (exists fuel, call p fuel ps us = MDone st') /\ (forall fuel r, call p fuel ps us = MDone r -> r = st').
Proof.
  intros p Hg ps us f st' Hex. destruct Hg as [Hok [Hok2 Hnd]].
  assert (Hrun : exists fuel, call p fuel ps us = MDone st').
  { destruct (sim_all f) as [H1 _].
    assert (Hn : forall l : label, memL l [] = true -> exists v, assocE l [] = Some v) by (intros l H; discriminate H).
    pose proof (H1 p [] [] [] (init_state ps us) ONormal st' Hok Hn Hn Hex [] [] (compile' [] 0 p)) as S.
    rewrite app_nil_r in S. specialize (S eq_refl). cbn [sim_post sim_post_from] in S.
    change (zlen (@nil op)) with 0 in S. rewrite Z.add_0_l in S.
    destruct (reach_run _ _ _ _ _ S 1%nat) as [n Hn2]. exists (n + 1)%nat.
    unfold call. rewrite (parse_compile' p (conj Hok (conj Hok2 Hnd))).
    change (0 - 1) with (-1) in Hn2. rewrite Hn2. cbn [run].
    replace (zlen (compile' [] 0 p) - 1 + 1) with (zlen (compile' [] 0 p)) by lia.
    pose proof (zlen_nonneg (compile' [] 0 p)) as Hz.
    destruct (zlen (compile' [] 0 p) <? 0) eqn:E; [apply Z.ltb_lt in E; lia|].
    rewrite nth_op_end. reflexivity. }
  split; [exact Hrun|]. intros fuel r Hr. destruct Hrun as [fuel' Hr']. unfold call in *.
  exact (run_deterministic _ _ _ _ _ _ _ Hr Hr').
Qed.

(* ---------- scope balance of the definition ---------- *)
Lemma set_scopes_length : forall x v ss ss', set_scopes x v ss = Some ss' -> length ss' = length ss.
Proof.
  intros x v ss. induction ss as [|s r IH]; intros ss' H; cbn [set_scopes] in H; [discriminate|].
  destruct (assocN x s); [injection H as <-; reflexivity|].
  destruct (set_scopes x v r) as [r'|]; [|discriminate]. injection H as <-. cbn [length]. rewrite (IH r' eq_refl). reflexivity.
Qed.

Lemma set_var_scopes : forall st x v st', set_var st x v = Some st' -> length (scopes st') = length (scopes st).
Proof.
  intros st x v st' H. unfold set_var in H. destruct (set_scopes x v (scopes st)) as [ss|] eqn:E.
  - injection H as <-. cbn. exact (set_scopes_length _ _ _ _ E).
  - destruct (assocN x (params st)); [injection H as <-; reflexivity | discriminate].
Qed.

Lemma raise_scopes : forall st o st', raise st = (o, st') -> length (scopes st') = length (scopes st).
Proof.
  intros st o st' H. unfold raise in H. destruct (nearest_handler (hscopes st)) as [[[k h] d]|]; [|injection H as <- <-; reflexivity].
  destruct (run_hstmt st h) as [st2|] eqn:E; [|injection H as <- <-; reflexivity].
  assert (L : length (scopes st2) = length (scopes st)).
  { destruct h as [x e|u e]; cbn [run_hstmt] in E; destruct (eval st e) as [v|]; try discriminate.
    - exact (set_var_scopes _ _ _ _ E).
    - injection E as <-. reflexivity. }
  destruct k; injection H as <- <-; exact L.
Qed.

(* every outcome of the definition leaves as many scopes as it found (blocks pop what they push, whatever happens) *)
Lemma exec_scopes : forall f s st o st', exec f s st = (o, st') -> length (scopes st') = length (scopes st).
Proof.
  induction f as [|f IH]; intros s st o st' H; [cbn in H; injection H as <- <-; reflexivity|].
  destruct s; cbn [exec] in H.
  - injection H as <- <-. unfold declare_handler. destruct (hscopes st); reflexivity.
  - exact (raise_scopes _ _ _ H).
  - injection H as <- <-. reflexivity.
  - destruct (exec f s1 st) as [oa st1] eqn:Ea. pose proof (IH _ _ _ _ Ea) as L1.
    destruct oa; try (injection H as <- <-; exact L1). rewrite (IH _ _ _ _ H). exact L1.
  - injection H as <- <-. unfold declare_var. destruct (scopes st) eqn:E; [rewrite E; reflexivity | reflexivity].
  - destruct (eval st e) as [v|]; [|injection H as <- <-; reflexivity].
    destruct (set_var st x v) as [st2|] eqn:E; injection H as <- <-; [exact (set_var_scopes _ _ _ _ E) | reflexivity].
  - destruct (eval st e); injection H as <- <-; reflexivity.
  - destruct (exec f s (push_scope st)) as [ob st1] eqn:Eb. pose proof (IH _ _ _ _ Eb) as L1. cbn [push_scope scopes length] in L1.
    assert (Lp : length (scopes (pop_scope st1)) = length (scopes st)).
    { cbn [pop_scope scopes]. destruct (scopes st1); cbn [length tl] in *; lia. }
    destruct ob; try (injection H as <- <-; exact Lp).
    + destruct (lbl_match l l0); injection H as <- <-; exact Lp.
    + destruct (depth =? depth_of (push_scope st)); injection H as <- <-; exact Lp.
  - destruct (eval st c) as [v|]; [|injection H as <- <-; reflexivity]. destruct (truthy v); exact (IH _ _ _ _ H).
  - destruct (eval st c) as [v|]; [|injection H as <- <-; reflexivity]. destruct (truthy v); [|injection H as <- <-; reflexivity].
    destruct (exec f s st) as [ob st1] eqn:Eb. pose proof (IH _ _ _ _ Eb) as L1.
    destruct ob; try (injection H as <- <-; exact L1).
    + rewrite (IH _ _ _ _ H). exact L1.
    + destruct (lbl_match l l0); [injection H as <- <-; exact L1 | injection H as <- <-; exact L1].
    + destruct (lbl_match l l0); [rewrite (IH _ _ _ _ H); exact L1 | injection H as <- <-; exact L1].
  - destruct (exec f s st) as [ob st1] eqn:Eb. pose proof (IH _ _ _ _ Eb) as L1.
    assert (After : match eval st1 c with
                    | Some v => if truthy v then (ONormal, st1) else exec f (SRepeat l s c) st1
                    | None => (OErr, st1) end = (o, st') -> length (scopes st') = length (scopes st)).
    { intros Hx. destruct (eval st1 c) as [v|]; [|injection Hx as <- <-; exact L1].
      destruct (truthy v); [injection Hx as <- <-; exact L1 | rewrite (IH _ _ _ _ Hx); exact L1]. }
    destruct ob; try (injection H as <- <-; exact L1).
    + exact (After H).
    + destruct (lbl_match l l0); injection H as <- <-; exact L1.
    + destruct (lbl_match l l0); [exact (After H) | injection H as <- <-; exact L1].
  - destruct (exec f s st) as [ob st1] eqn:Eb. pose proof (IH _ _ _ _ Eb) as L1.
    destruct ob; try (injection H as <- <-; exact L1).
    + rewrite (IH _ _ _ _ H). exact L1.
    + destruct (lbl_match l l0); injection H as <- <-; exact L1.
    + destruct (lbl_match l l0); [rewrite (IH _ _ _ _ H); exact L1 | injection H as <- <-; exact L1].
  - injection H as <- <-. reflexivity.
  - injection H as <- <-. reflexivity.
Qed.

(* scope_balance under the guard: the compiled procedure ends with exactly the scope it started with *)
Theorem guarded_scope_balance : forall p, guard p ->
  forall ps us f st', exec f p (init_state ps us) = (ONormal, st') ->
  forall fuel r, call p fuel ps us = MDone r -> length (scopes r) = 1%nat.
Proof.
  intros p Hg ps us f st' Hex fuel r Hr.
  destruct (guarded_compiler_correct p Hg ps us f st' Hex) as [_ Hu]. rewrite (Hu fuel r Hr).
  rewrite (exec_scopes _ _ _ _ _ Hex). reflexivity.
Qed.

(* ---------- the guard is satisfiable ---------- *)
From GMS Require Import Lang.C24ProcProofs.

(* BEGIN DECLARE v0 INT DEFAULT 0; DECLARE v1 INT DEFAULT 0;
     l1: LOOP BEGIN DECLARE v1 INT DEFAULT 9; SET v0 = v0 + 1; IF 3 <= v0 THEN LEAVE l1; END IF;
                    IF v0 = 1 THEN ITERATE l1; END IF; SET v1 = v1 + 1; END; END LOOP;
     l2: REPEAT SET v1 = v1 + 1; SET v0 = v0 + 1; UNTIL (v1 IS NULL) = 0 END REPEAT;
     WHILE v0 < 6 DO SET v0 = v0 + 1; SET v1 = v1 + 1; END WHILE;
     SET @u0 = v0; SET @u1 = v1; END *)
Definition guard_prog2 : stmt :=
  blk 0 (SSeq (dcl 0 0) (SSeq (dcl 1 0)
        (SSeq (lop 1 (blk 0 (SSeq (dcl 1 9) (SSeq (set_ 0 (EBin Add (var 0) (EConst 1)))
                            (SSeq (SIf (EBin Le (EConst 3) (var 0)) (lv 1) SSkip)
                            (SSeq (SIf (EBin Eq (var 0) (EConst 1)) (itr 1) SSkip)
                                  (set_ 1 (EBin Add (var 1) (EConst 1)))))))))
        (SSeq (SRepeat 2%N (SSeq (set_ 1 (EBin Add (var 1) (EConst 1))) (set_ 0 (EBin Add (var 0) (EConst 1))))
                       (EBin Eq (EIsNull (var 1)) (EConst 0)))
        (SSeq (whl 0 (EBin Lt (var 0) (EConst 6)) (SSeq (set_ 0 (EBin Add (var 0) (EConst 1))) (set_ 1 (EBin Add (var 1) (EConst 1)))))
        (SSeq (setu 0 (var 0)) (setu 1 (var 1)))))))).

Lemma guard_examples : guard good_prog /\ guard guard_prog2 /\
  exists st, exec 80 guard_prog2 (init_state [] []) = (ONormal, st) /\ users st = [(0%N, Some 6); (1%N, Some 3)].
Proof.
  split; [|split].
  - split; [vm_compute; reflexivity|]. split; [vm_compute; reflexivity|]. vm_compute. repeat constructor; cbn; intuition discriminate.
  - split; [vm_compute; reflexivity|]. split; [vm_compute; reflexivity|]. vm_compute. repeat constructor; cbn; intuition discriminate.
  - eexists. vm_compute. split; reflexivity.
Qed.
