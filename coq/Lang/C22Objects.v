(* C22 -- SHOW CREATE VIEW / TRIGGER / PROCEDURE.

   sql/rowexec/show_iters.go produceCreateViewStatement: fmt.Sprintf("CREATE VIEW `%s` AS %s", name, TextDefinition)
   (the name is NOT passed through QuoteIdentifier); SHOW CREATE TRIGGER / PROCEDURE return the CREATE statement
   stored when the object was created (sql/rowexec/show.go buildShowCreateTrigger / buildShowCreateProcedure).
   The catalog of stored programs is modelled as an association list name -> original statement text. *)
From Coq Require Import List NArith Bool.
Import ListNotations.
From GMS Require Import Lang.ShowCreate Lang.ShowCreateProofs.
Open Scope N_scope.

Definition kw_cview : str := [67; 82; 69; 65; 84; 69; 32; 86; 73; 69; 87; 32].   (* "CREATE VIEW " *)
Definition kw_as : str := [32; 65; 83; 32].   (* " AS " *)

Definition print_view (name text : str) : str := kw_cview ++ [96] ++ name ++ [96] ++ kw_as ++ text.

(* the reader of the printed sublanguage: CREATE VIEW `quoted name` AS <rest> *)
Definition parse_view (inp : str) : option (str * str) :=
  match strip kw_cview inp with
  | Some r0 => match p_qid r0 with
               | Some (name, r1) => match strip kw_as r1 with Some text => Some (name, text) | None => None end
               | None => None
               end
  | None => None
  end.

Definition no_backtick (s : str) : bool := forallb (fun c => negb (c =? 96)) s.

Lemma replace1_id a r s : forallb (fun c => negb (c =? a)) s = true -> replace1 a r s = s.
Proof.
  intro H. induction s as [|c s IH]; [reflexivity|]. cbn [forallb] in H. apply andb_prop in H. destruct H as [Hc Hs].
  apply negb_true_iff in Hc. unfold replace1 in *. cbn [flat_map]. rewrite Hc. cbn [app]. rewrite (IH Hs). reflexivity.
Qed.

Theorem view_roundtrip name text : no_backtick name = true -> parse_view (print_view name text) = Some (name, text).
Proof.
  intro H. unfold parse_view, print_view. rewrite strip_app.
  assert (E : [96] ++ name ++ [96] ++ kw_as ++ text = quote_id name ++ kw_as ++ text).
  { unfold quote_id. rewrite (replace1_id 96 [96; 96] name H). cbn [app]. rewrite <- app_assoc. reflexivity. }
  rewrite E. rewrite p_qid_ok; [|reflexivity]. rewrite strip_app. reflexivity.
Qed.

(* ---- stored programs: the original statement is kept and echoed ---- *)
Definition catalog := list (str * str).

Fixpoint show_obj (c : catalog) (n : str) : option str :=
  match c with
  | [] => None
  | (k, s) :: c' => if str_eqb k n then Some s else show_obj c' n
  end.

Definition drop_obj (c : catalog) (n : str) : catalog := filter (fun kv => negb (str_eqb (fst kv) n)) c.

(* CREATE fails when the name is taken *)
Definition create_obj (c : catalog) (n stmt : str) : option catalog :=
  match show_obj c n with Some _ => None | None => Some ((n, stmt) :: c) end.

Lemma show_drop_same c n : show_obj (drop_obj c n) n = None.
Proof.
  induction c as [|[k s] c IH]; [reflexivity|]. unfold drop_obj in *. cbn [filter fst].
  destruct (str_eqb k n) eqn:E; cbn [negb]; [exact IH|]. cbn [show_obj]. rewrite E. exact IH.
Qed.

Lemma str_eqb_trans_false k n m : str_eqb k n = true -> str_eqb n m = false -> str_eqb k m = false.
Proof. intros H1 H2. apply str_eqb_eq in H1. subst. exact H2. Qed.

Lemma show_drop_other c n m : str_eqb n m = false -> show_obj (drop_obj c n) m = show_obj c m.
Proof.
  intro H. induction c as [|[k s] c IH]; [reflexivity|]. unfold drop_obj in *. cbn [filter fst].
  destruct (str_eqb k n) eqn:E; cbn [negb show_obj].
  - rewrite (str_eqb_trans_false k n m E H). exact IH.
  - rewrite IH. reflexivity.
Qed.

(* drop + re-run of the echoed statement: the object shows the same text again, other objects are untouched *)
Theorem recreate_echo c n s :
  show_obj c n = Some s ->
  exists c', create_obj (drop_obj c n) n s = Some c' /\ show_obj c' n = Some s /\
             forall m, str_eqb n m = false -> show_obj c' m = show_obj c m.
Proof.
  intro H. unfold create_obj. rewrite show_drop_same. eexists. split; [reflexivity|]. split.
  - cbn. rewrite str_eqb_refl. reflexivity.
  - intros m Hm. cbn. rewrite Hm. apply show_drop_other. exact Hm.
Qed.

Theorem create_then_show c n s c' : create_obj c n s = Some c' -> show_obj c' n = Some s.
Proof.
  unfold create_obj. destruct (show_obj c n); [discriminate|]. intro H. injection H as <-. cbn. rewrite str_eqb_refl. reflexivity.
Qed.
