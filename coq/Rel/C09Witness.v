(* C09 — witnesses: inputs on which the type / nullability rules of the code (mirrored in Expr/C09Typing and
   Rel/C09Rel) report a schema the produced value does not conform to; and the integer generalisation lemma. *)
From Coq Require Import List ZArith Bool Lia.
Import ListNotations.
From GMS Require Import Expr.C09Typing Expr.C09TypingProofs Rel.C09Rel.
Open Scope Z_scope.

(* generalizeNumberTypes on two integer kinds: the generalised type holds every value of both operands *)
Lemma generalize_integers_sound ka kb :
  holds (TInt ka) (generalize (TInt ka) (TInt kb)) = true /\ holds (TInt kb) (generalize (TInt ka) (TInt kb)) = true.
Proof. destruct ka, kb; vm_compute; split; reflexivity. Qed.
Lemma generalize_bool_sound k :
  holds TBool (generalize TBool (TInt k)) = true /\ holds (TInt k) (generalize TBool (TInt k)) = true /\
  holds TBool (generalize (TInt k) TBool) = true /\ holds (TInt k) (generalize (TInt k) TBool) = true.
Proof. destruct k; vm_compute; repeat split; reflexivity. Qed.

Definition violates (s : schema) (r : row) (e : expr) : Prop :=
  conforms s r = true /\ exists x, eval s r e = Ok x /\ conforms_col (Col (type_of s e) (nullable s e)) x = false.

(* (a * (4 % a)) with a = 6: typed DECIMAL(1,0), value 24 *)
Lemma times_mod_refuted : violates [Col (TInt I64) false] [VInt 6]
  (EArith Mul (EField 0) (EMod (ELit (VInt 4)) (EField 0))).
Proof. split; [reflexivity|]. eexists. split; [vm_compute; reflexivity|vm_compute; reflexivity]. Qed.
(* ((a + 100) % b) with a = 5000, b = 10000: typed DECIMAL(3,0) by the digits of the literal, value 5100 *)
Lemma mod_digits_refuted : violates [Col (TInt I64) false; Col (TInt I64) true] [VInt 5000; VInt 10000]
  (EMod (EArith Add (EField 0) (ELit (VInt 100))) (EField 1)).
Proof. split; [reflexivity|]. eexists. split; [vm_compute; reflexivity|vm_compute; reflexivity]. Qed.
(* d + a with d DECIMAL(4,2) = 1.50 and a BIGINT = 1000: typed DECIMAL(4,2), value 1001.50 *)
Lemma decimal_plus_int_refuted : violates [Col (TDec 4 2) false; Col (TInt I64) false] [VDec 150 2; VInt 1000]
  (EArith Add (EField 0) (EField 1)).
Proof. split; [reflexivity|]. eexists. split; [vm_compute; reflexivity|vm_compute; reflexivity]. Qed.
(* -t for a TINYINT UNSIGNED column holding 5: typed TINYINT UNSIGNED, value -5 *)
Lemma neg_unsigned_refuted : violates [Col (TInt U8) false] [VInt 5] (ENeg (EField 0)).
Proof. split; [reflexivity|]. eexists. split; [vm_compute; reflexivity|vm_compute; reflexivity]. Qed.
(* -500 DIV 128: the literal 128 is TINYINT UNSIGNED, so the result is typed BIGINT UNSIGNED; value -3 *)
Lemma intdiv_mixed_refuted : violates [] [] (EIntDiv (ELit (VInt (-500))) (ELit (VInt 128))).
Proof. split; [reflexivity|]. eexists. split; [vm_compute; reflexivity|vm_compute; reflexivity]. Qed.
(* CASE WHEN a > 1 THEN d ELSE a END with d DECIMAL(50,0) = 10^40: typed DECIMAL(65,30) (35 integer digits) *)
Lemma generalize_decimal_refuted : violates [Col (TDec 50 0) false; Col (TInt I64) false] [VDec (10 ^ 40) 0; VInt 3]
  (ECase [(ECmp Gt (EField 1) (ELit (VInt 1)), EField 0)] (Some (EField 1))).
Proof. split; [reflexivity|]. eexists. split; [vm_compute; reflexivity|vm_compute; reflexivity]. Qed.

(* relational layer under the rules of the code *)
Definition rel_violates (q : rel) : Prop :=
  wf_rel q = true /\ exists rows r, eval_rel q = Some rows /\ In r rows /\ conforms (schema_of false q) r = false.
(* t(a BIGINT NOT NULL) = {1}, u(a BIGINT NOT NULL) = {2}:  t LEFT JOIN u ON t.a = u.a  pads u.a, reported NOT NULL *)
Lemma left_join_code_rule_refuted : rel_violates
  (RJoin JLeft (ECmp Eq (EField 0) (EField 1)) (RTable [Col (TInt I64) false] [[VInt 1]]) (RTable [Col (TInt I64) false] [[VInt 2]])).
Proof. split; [reflexivity|]. eexists. eexists. split; [vm_compute; reflexivity|]. split; [left; reflexivity|reflexivity]. Qed.
Lemma right_join_code_rule_refuted : rel_violates
  (RJoin JRight (ECmp Eq (EField 0) (EField 1)) (RTable [Col (TInt I64) false] [[VInt 1]]) (RTable [Col (TInt I64) false] [[VInt 2]])).
Proof. split; [reflexivity|]. eexists. eexists. split; [vm_compute; reflexivity|]. split; [left; reflexivity|reflexivity]. Qed.
(* SELECT SUM(x), MIN(x), MAX(x) FROM t over an empty t: one row of NULLs in columns reported NOT NULL *)
Lemma aggregate_code_rule_refuted : rel_violates
  (RGroup [] [(ASum, 0%nat); (AMin, 0%nat); (AMax, 0%nat)] (RTable [Col (TInt I64) true] [])).
Proof. split; [reflexivity|]. eexists. eexists. split; [vm_compute; reflexivity|]. split; [left; reflexivity|reflexivity]. Qed.
(* a group whose values are all NULL *)
Lemma aggregate_all_null_group_refuted : rel_violates
  (RGroup [0%nat] [(AMax, 1%nat)] (RTable [Col (TInt I64) false; Col (TInt I64) true] [[VInt 1; VNull]; [VInt 2; VInt 5]])).
Proof. split; [reflexivity|]. eexists. eexists. split; [vm_compute; reflexivity|]. split; [left; reflexivity|reflexivity]. Qed.
(* a derived column of such an aggregate: SELECT m FROM (SELECT MAX(x) AS m FROM t) q *)
Lemma derived_aggregate_code_rule_refuted : rel_violates
  (RProject [EField 0] (RGroup [] [(AMax, 0%nat)] (RTable [Col (TInt I64) true] []))).
Proof. split; [reflexivity|]. eexists. eexists. split; [vm_compute; reflexivity|]. split; [left; reflexivity|reflexivity]. Qed.

(* the two rules never differ in the types, only in nullability *)
Lemma rules_same_types : forall q, map c_ty (schema_of false q) = map c_ty (schema_of true q).
Proof.
  assert (PT : forall s1 s2 e, map c_ty s1 = map c_ty s2 -> type_of s1 e = type_of s2 e /\ mod_digits s1 e = mod_digits s2 e).
  { intros s1 s2 e HS.
    assert (N : forall i, c_ty (nth i s1 dflt) = c_ty (nth i s2 dflt)).
    { intros i. rewrite <- (map_nth c_ty s1), <- (map_nth c_ty s2), HS. reflexivity. }
    induction e using expr_rect'; cbn [type_of mod_digits];
      repeat match goal with H : _ /\ _ |- _ => destruct H end;
      repeat match goal with H : type_of s1 _ = type_of s2 _ |- _ => rewrite H; clear H end;
      repeat match goal with H : mod_digits s1 _ = mod_digits s2 _ |- _ => rewrite H; clear H end;
      rewrite ?N; try (split; reflexivity).
    - (* IN *) split; [reflexivity|]. revert H. generalize (mod_digits s2 e). induction l as [|y l IHl]; intros d F; [reflexivity|].
      inversion F as [|? ? Fy Fl]; subst. cbn [fold_left]. destruct Fy as [_ ->]. apply IHl. exact Fl.
    - (* CASE *)
      assert (A : forall t0, fold_left (fun acc p => generalize acc (type_of s1 (snd p))) bs t0 = fold_left (fun acc p => generalize acc (type_of s2 (snd p))) bs t0).
      { induction bs as [|p bs IHb]; intros t0; [reflexivity|]. inversion H as [|? ? Hp Hr]; subst. cbn [fold_left].
        destruct Hp as [_ [-> _]]. apply IHb. exact Hr. }
      assert (B : forall d0, fold_left (fun acc p => dmax acc (dmax (mod_digits s1 (fst p)) (mod_digits s1 (snd p)))) bs d0 = fold_left (fun acc p => dmax acc (dmax (mod_digits s2 (fst p)) (mod_digits s2 (snd p)))) bs d0).
      { clear A. induction bs as [|p bs IHb]; intros d0; [reflexivity|]. inversion H as [|? ? Hp Hr]; subst. cbn [fold_left].
        destruct Hp as [[_ ->] [_ ->]]. apply IHb. exact Hr. }
      rewrite A, B. destruct els as [x|]; [|split; reflexivity]. cbn [opt_P] in H0. destruct H0 as [-> ->]. split; reflexivity. }
  induction q as [s rows0|es q IH|c q IH|k c l IHl r IHr|a IHa b IHb|keys aggs q IH|q IH|n q IH]; cbn [schema_of]; auto.
  - unfold project_schema. rewrite !map_map. cbn [c_ty]. apply map_ext. intros e. apply PT. exact IH.
  - destruct k; rewrite !map_app; unfold make_nullable; rewrite ?map_map; cbn [c_ty]; rewrite IHl, IHr; reflexivity.
  - unfold union_schema. rewrite !map_map. revert IHa IHb. generalize (schema_of false a) (schema_of true a) (schema_of false b) (schema_of true b).
    intros la. induction la as [|x la IH0]; intros [|y la'] lb lb' Ha Hb; cbn [map] in Ha; try discriminate; [reflexivity|].
    destruct lb as [|z lb], lb' as [|w lb']; cbn [map] in Hb; try discriminate; [reflexivity|].
    injection Ha as Ha1 Ha2. injection Hb as Hb1 Hb2. cbn [combine map union_col c_ty fst snd]. rewrite Ha1, Hb1. f_equal. apply IH0; assumption.
  - unfold group_schema. rewrite !map_app, !map_map. cbn [c_ty].
    assert (N : forall i, c_ty (nth i (schema_of false q) dflt) = c_ty (nth i (schema_of true q) dflt)).
    { intros i. rewrite <- (map_nth c_ty (schema_of false q)), <- (map_nth c_ty (schema_of true q)), IH. reflexivity. }
    f_equal; apply map_ext; intros x; rewrite N; reflexivity.
Qed.
