(* C09 — relational layer: result schema and evaluation of projection, filter, inner/left/right join, UNION, GROUP BY
   with COUNT/SUM/MIN/MAX/AVG, DISTINCT and LIMIT over the typed expressions of Expr/C09Typing.

   Two schema rules: [schema_of false] is the rule of the code — plan/join.go keeps the nullability of the NULL-padded
   side of an outer join, the generated aggregates of unary_aggs.og.go report IsNullable() = false for SUM/MIN/MAX
   (true for AVG, false for COUNT), planbuilder/set_op.go mergeSetOpScopeColumns takes types.GeneralizeTypes of the two
   column types and nullable = left || right — and [schema_of true] is the rule under which the property holds (padded
   side nullable, SUM/MIN/MAX nullable).  The two rules differ in nullability only, never in types. *)
From Coq Require Import List ZArith Bool Lia.
Import ListNotations.
From GMS Require Import Expr.C09Typing Expr.C09TypingProofs.
Open Scope Z_scope.

Inductive agg := ACount | ASum | AMin | AMax | AAvg.
Inductive jkind := JInner | JLeft | JRight.
Inductive rel :=
| RTable (s : schema) (rows : list row)
| RProject (es : list expr) (q : rel)
| RFilter (c : expr) (q : rel)
| RJoin (k : jkind) (c : expr) (l r : rel)
| RUnion (a b : rel)
| RGroup (keys : list nat) (aggs : list (agg * nat)) (q : rel)
| RDistinct (q : rel)
| RLimit (n : nat) (q : rel).

Definition make_nullable (s : schema) : schema := map (fun c => Col (c_ty c) true) s.
Definition agg_ty (a : agg) (t : ty) : ty := match a with ACount => TInt I64 | ASum | AAvg => TDbl | AMin | AMax => t end.
Definition agg_nullable (correct : bool) (a : agg) : bool := match a with ACount => false | AAvg => true | _ => correct end.
Definition union_col (p : col * col) : col :=
  Col (generalize (c_ty (fst p)) (c_ty (snd p))) (c_nullable (fst p) || c_nullable (snd p)).
Definition union_schema (a b : schema) : schema := map union_col (combine a b).
Definition group_schema (correct : bool) (s : schema) (keys : list nat) (aggs : list (agg * nat)) : schema :=
  map (fun i => nth i s dflt) keys ++ map (fun p => Col (agg_ty (fst p) (c_ty (nth (snd p) s dflt))) (agg_nullable correct (fst p))) aggs.

Fixpoint schema_of (correct : bool) (q : rel) : schema :=
  match q with
  | RTable s _ => s
  | RProject es q => project_schema (schema_of correct q) es
  | RFilter _ q | RDistinct q | RLimit _ q => schema_of correct q
  | RJoin k _ l r =>
    let sl := schema_of correct l in let sr := schema_of correct r in
    match k with
    | JInner => sl ++ sr
    | JLeft => sl ++ (if correct then make_nullable sr else sr)
    | JRight => (if correct then make_nullable sl else sl) ++ sr
    end
  | RUnion a b => union_schema (schema_of correct a) (schema_of correct b)
  | RGroup keys aggs q => group_schema correct (schema_of correct q) keys aggs
  end.

(* ---------------- evaluation (None: an expression error or a situation outside the model) ---------------- *)
Fixpoint project_rows (s : schema) (es : list expr) (rows : list row) : option (list row) :=
  match rows with
  | [] => Some []
  | r :: t => match eval_all s r es, project_rows s es t with Some x, Some xs => Some (x :: xs) | _, _ => None end
  end.
Fixpoint filter_rows (s : schema) (c : expr) (rows : list row) : option (list row) :=
  match rows with
  | [] => Some []
  | r :: t =>
    match eval s r c, filter_rows s c t with
    | Ok v, Some t' => match truth v with Some (Some true) => Some (r :: t') | Some _ => Some t' | None => None end
    | _, _ => None
    end
  end.
Definition nulls (n : nat) : row := repeat VNull n.
Fixpoint left_join (s : schema) (c : expr) (nr : nat) (ls rs : list row) : option (list row) :=
  match ls with
  | [] => Some []
  | l :: t =>
    match filter_rows s c (map (fun r => l ++ r) rs), left_join s c nr t rs with
    | Some [], Some t' => Some ((l ++ nulls nr) :: t')
    | Some m, Some t' => Some (m ++ t')
    | _, _ => None
    end
  end.
Fixpoint right_join (s : schema) (c : expr) (nl : nat) (ls rs : list row) : option (list row) :=
  match rs with
  | [] => Some []
  | r :: t =>
    match filter_rows s c (map (fun l => l ++ r) ls), right_join s c nl ls t with
    | Some [], Some t' => Some ((nulls nl ++ r) :: t')
    | Some m, Some t' => Some (m ++ t')
    | _, _ => None
    end
  end.
Definition conv_row (u : schema) (r : row) : row := map (fun p => conv_to (c_ty (fst p)) (snd p)) (combine u r).

Definition val_eqb (a b : val) : bool :=
  match a, b with
  | VNull, VNull => true
  | VNull, _ | _, VNull => false
  | _, _ => match cmp_vals a b with Some Datatypes.Eq => true | _ => false end
  end.
Fixpoint row_eqb (a b : row) : bool :=
  match a, b with [], [] => true | x :: a', y :: b' => val_eqb x y && row_eqb a' b' | _, _ => false end.
Fixpoint dedupe (l : list row) : list row :=
  match l with [] => [] | x :: t => x :: filter (fun y => negb (row_eqb x y)) (dedupe t) end.

Definition col_vals (i : nat) (rows : list row) : list val := filter notnull (map (fun r => nth i r VNull) rows).
Fixpoint sum_ints (vs : list val) : option Z :=
  match vs with [] => Some 0 | VInt z :: t => option_map (Z.add z) (sum_ints t) | _ => None end.
Definition better (want : comparison) (v m : val) : option val :=
  match m with
  | VNull => Some v
  | _ => match cmp_vals v m with Some c => Some (if match c, want with Datatypes.Lt, Datatypes.Lt | Datatypes.Gt, Datatypes.Gt => true | _, _ => false end then v else m) | None => None end
  end.
Fixpoint extremum (want : comparison) (vs : list val) (acc : val) : option val :=
  match vs with [] => Some acc | v :: t => match better want v acc with Some a => extremum want t a | None => None end end.
Definition agg_val (a : agg) (vs : list val) : option val :=
  match a with
  | ACount => match fit I64 (Z.of_nat (length vs)) with Ok v => Some v | Err => None end
  | ASum => match vs with [] => Some VNull | _ => option_map VInt (sum_ints vs) end
  | AAvg => match vs with [] => Some VNull | _ => option_map (fun z => VDbl z (Z.of_nat (length vs))) (sum_ints vs) end
  | AMin => extremum Datatypes.Lt vs VNull
  | AMax => extremum Datatypes.Gt vs VNull
  end.
Fixpoint agg_row (aggs : list (agg * nat)) (rows : list row) : option row :=
  match aggs with
  | [] => Some []
  | p :: t => match agg_val (fst p) (col_vals (snd p) rows), agg_row t rows with Some v, Some vs => Some (v :: vs) | _, _ => None end
  end.
Definition key_of (keys : list nat) (r : row) : row := map (fun i => nth i r VNull) keys.
Fixpoint group_rows (keys : list nat) (aggs : list (agg * nat)) (rows : list row) (ks : list row) : option (list row) :=
  match ks with
  | [] => Some []
  | k :: t =>
    match agg_row aggs (filter (fun r => row_eqb (key_of keys r) k) rows), group_rows keys aggs rows t with
    | Some a, Some t' => Some ((k ++ a) :: t')
    | _, _ => None
    end
  end.

Fixpoint eval_rel (q : rel) : option (list row) :=
  match q with
  | RTable _ rows => Some rows
  | RProject es q => match eval_rel q with Some rows => project_rows (schema_of true q) es rows | None => None end
  | RFilter c q => match eval_rel q with Some rows => filter_rows (schema_of true q) c rows | None => None end
  | RJoin k c l r =>
    match eval_rel l, eval_rel r with
    | Some ls, Some rs =>
      let s := schema_of true l ++ schema_of true r in
      match k with
      | JInner => filter_rows s c (flat_map (fun x => map (fun y => x ++ y) rs) ls)
      | JLeft => left_join s c (length (schema_of true r)) ls rs
      | JRight => right_join s c (length (schema_of true l)) ls rs
      end
    | _, _ => None
    end
  | RUnion a b =>
    match eval_rel a, eval_rel b with
    | Some ra, Some rb => let u := schema_of true q in Some (map (conv_row u) ra ++ map (conv_row u) rb)
    | _, _ => None
    end
  | RGroup keys aggs q =>
    match eval_rel q with
    | Some rows =>
      match keys with
      | [] => match agg_row aggs rows with Some a => Some [a] | None => None end    (* one row even for an empty input *)
      | _ => group_rows keys aggs rows (dedupe (map (key_of keys) rows))
      end
    | None => None
    end
  | RDistinct q => option_map dedupe (eval_rel q)
  | RLimit n q => option_map (firstn n) (eval_rel q)
  end.

(* well-formed statements: tables hold conforming rows, expressions are well typed, UNION sides can be held by the merged types *)
Fixpoint wf_rel (q : rel) : bool :=
  match q with
  | RTable s rows => forallb (conforms s) rows
  | RProject es q => wf_rel q && forallb (well_typed (schema_of true q)) es
  | RFilter c q => wf_rel q
  | RJoin _ c l r => wf_rel l && wf_rel r
  | RUnion a b =>
    wf_rel a && wf_rel b && Nat.eqb (length (schema_of true a)) (length (schema_of true b)) &&
    forallb (fun p => holds (c_ty (fst p)) (c_ty (union_col p)) && holds (c_ty (snd p)) (c_ty (union_col p)))
            (combine (schema_of true a) (schema_of true b))
  | RGroup keys aggs q => wf_rel q
  | RDistinct q | RLimit _ q => wf_rel q
  end.

(* ---------------- conformance lemmas ---------------- *)
Lemma conforms_app a : forall b ra rb, conforms a ra = true -> conforms b rb = true -> conforms (a ++ b) (ra ++ rb) = true.
Proof.
  induction a as [|c a IH]; intros b [|x ra] rb HA HB; cbn [conforms app] in *; try discriminate; [exact HB|].
  apply andb_prop in HA. destruct HA as [H1 H2]. rewrite H1. cbn [andb]. apply IH; assumption.
Qed.
Lemma make_nullable_conforms s : forall r, conforms s r = true -> conforms (make_nullable s) r = true.
Proof.
  unfold make_nullable. induction s as [|c s IH]; intros [|x r] H; cbn [map conforms] in *; try discriminate; [reflexivity|].
  apply andb_prop in H. destruct H as [H1 H2]. rewrite (IH r H2), andb_true_r.
  unfold conforms_col in *. cbn [c_ty c_nullable]. apply andb_prop in H1. destruct H1 as [T _]. rewrite T. reflexivity.
Qed.
Lemma nulls_conform s : conforms (make_nullable s) (nulls (length s)) = true.
Proof. unfold make_nullable, nulls. induction s as [|c s IH]; cbn [map length repeat conforms]; [reflexivity|]. rewrite IH. reflexivity. Qed.

Definition all_conform (s : schema) (rows : list row) : Prop := Forall (fun r => conforms s r = true) rows.

Lemma project_rows_conform s es : forallb (well_typed s) es = true -> forall rows out, all_conform s rows ->
  project_rows s es rows = Some out -> all_conform (project_schema s es) out.
Proof.
  intros W. induction rows as [|r t IH]; intros out A E; cbn [project_rows] in E.
  - injection E as <-. constructor.
  - inversion A as [|? ? Ar At]; subst. destruct (eval_all s r es) as [x|] eqn:Ex; [|discriminate].
    destruct (project_rows s es t) as [xs|]; [|discriminate]. injection E as <-.
    constructor; [eapply project_conforms; eauto|apply IH; auto].
Qed.
Lemma filter_rows_forall (P : row -> Prop) s c : forall rows out, Forall P rows -> filter_rows s c rows = Some out -> Forall P out.
Proof.
  induction rows as [|r t IH]; intros out A E; cbn [filter_rows] in E.
  - injection E as <-. constructor.
  - inversion A as [|? ? Ar At]; subst. destruct (eval s r c) as [v|]; [|discriminate].
    destruct (filter_rows s c t) as [t'|]; [|discriminate]. specialize (IH t' At eq_refl).
    destruct (truth v) as [[[|]|]|]; try discriminate; injection E as <-; auto.
Qed.
Lemma Forall_map_app (P : row -> Prop) (f : row -> row) l : (forall x, In x l -> P (f x)) -> Forall P (map f l).
Proof. intros H. apply Forall_forall. intros y Hy. apply in_map_iff in Hy. destruct Hy as [x [<- Hx]]. auto. Qed.

Lemma left_join_conform sl sr s c : forall ls rs out, all_conform sl ls -> all_conform sr rs ->
  left_join s c (length sr) ls rs = Some out -> all_conform (sl ++ make_nullable sr) out.
Proof.
  induction ls as [|l t IH]; intros rs out AL AR E; cbn [left_join] in E.
  - injection E as <-. constructor.
  - inversion AL as [|? ? Al At]; subst.
    destruct (filter_rows s c (map (fun r => l ++ r) rs)) as [m|] eqn:F; [|discriminate].
    destruct (left_join s c (length sr) t rs) as [t'|] eqn:J; [|destruct m; discriminate].
    specialize (IH rs t' At AR J).
    assert (M : all_conform (sl ++ make_nullable sr) m).
    { eapply filter_rows_forall; [|exact F]. apply Forall_map_app. intros x Hx.
      apply conforms_app; [exact Al|]. apply make_nullable_conforms. unfold all_conform in AR. rewrite Forall_forall in AR. auto. }
    destruct m as [|m0 m]; injection E as <-.
    + constructor; [|exact IH]. apply conforms_app; [exact Al|apply nulls_conform].
    + apply (proj2 (Forall_app _ (m0 :: m) t')). split; assumption.
Qed.
Lemma right_join_conform sl sr s c : forall rs ls out, all_conform sl ls -> all_conform sr rs ->
  right_join s c (length sl) ls rs = Some out -> all_conform (make_nullable sl ++ sr) out.
Proof.
  induction rs as [|r t IH]; intros ls out AL AR E; cbn [right_join] in E.
  - injection E as <-. constructor.
  - inversion AR as [|? ? Ar At]; subst.
    destruct (filter_rows s c (map (fun l => l ++ r) ls)) as [m|] eqn:F; [|discriminate].
    destruct (right_join s c (length sl) ls t) as [t'|] eqn:J; [|destruct m; discriminate].
    specialize (IH ls t' AL At J).
    assert (M : all_conform (make_nullable sl ++ sr) m).
    { eapply filter_rows_forall; [|exact F]. apply Forall_map_app. intros x Hx.
      apply conforms_app; [|exact Ar]. apply make_nullable_conforms. unfold all_conform in AL. rewrite Forall_forall in AL. auto. }
    destruct m as [|m0 m]; injection E as <-.
    + constructor; [|exact IH]. apply conforms_app; [apply nulls_conform|exact Ar].
    + apply (proj2 (Forall_app _ (m0 :: m) t')). split; assumption.
Qed.
Lemma inner_join_conform sl sr ls rs : all_conform sl ls -> all_conform sr rs ->
  all_conform (sl ++ sr) (flat_map (fun x => map (fun y => x ++ y) rs) ls).
Proof.
  intros AL AR. apply Forall_forall. intros z Hz. apply in_flat_map in Hz. destruct Hz as [x [Hx Hz]].
  apply in_map_iff in Hz. destruct Hz as [y [<- Hy]]. unfold all_conform in *. rewrite Forall_forall in AL, AR.
  apply conforms_app; auto.
Qed.

(* UNION: a row of either side, converted, conforms to the merged schema *)
Lemma union_left_conform : forall a b r, length a = length b ->
  forallb (fun p => holds (c_ty (fst p)) (c_ty (union_col p)) && holds (c_ty (snd p)) (c_ty (union_col p))) (combine a b) = true ->
  conforms a r = true -> conforms (union_schema a b) (conv_row (union_schema a b) r) = true.
Proof.
  induction a as [|ca a IH]; intros [|cb b] r L H C; cbn [length] in L; try discriminate.
  - destruct r; [reflexivity|discriminate].
  - destruct r as [|x r]; [discriminate|]. cbn [conforms] in C. apply andb_prop in C. destruct C as [C1 C2].
    cbn [combine forallb] in H. apply andb_prop in H. destruct H as [H1 H2]. apply andb_prop in H1. destruct H1 as [Ha Hb].
    unfold union_schema, conv_row in *. cbn [combine map conforms fst snd].
    rewrite (IH b r ltac:(lia) H2 C2), andb_true_r.
    unfold conforms_col in *. apply andb_prop in C1. destruct C1 as [T N]. cbn [union_col c_ty c_nullable fst snd] in *.
    rewrite (holds_sound _ _ _ Ha T), conv_notnull. cbn [andb]. destruct (c_nullable ca), (c_nullable cb); cbn in *; try reflexivity; exact N.
Qed.
Lemma union_right_conform : forall a b r, length a = length b ->
  forallb (fun p => holds (c_ty (fst p)) (c_ty (union_col p)) && holds (c_ty (snd p)) (c_ty (union_col p))) (combine a b) = true ->
  conforms b r = true -> conforms (union_schema a b) (conv_row (union_schema a b) r) = true.
Proof.
  induction a as [|ca a IH]; intros [|cb b] r L H C; cbn [length] in L; try discriminate.
  - destruct r; [reflexivity|discriminate].
  - destruct r as [|x r]; [discriminate|]. cbn [conforms] in C. apply andb_prop in C. destruct C as [C1 C2].
    cbn [combine forallb] in H. apply andb_prop in H. destruct H as [H1 H2]. apply andb_prop in H1. destruct H1 as [Ha Hb].
    unfold union_schema, conv_row in *. cbn [combine map conforms fst snd].
    rewrite (IH b r ltac:(lia) H2 C2), andb_true_r.
    unfold conforms_col in *. apply andb_prop in C1. destruct C1 as [T N]. cbn [union_col c_ty c_nullable fst snd] in *.
    rewrite (holds_sound _ _ _ Hb T), conv_notnull. cbn [andb]. destruct (c_nullable ca), (c_nullable cb); cbn in *; try reflexivity; exact N.
Qed.

(* aggregates under the correct rule *)
Lemma extremum_typed want t : forall vs acc v, Forall (fun x => has_type t x = true) vs -> has_type t acc = true ->
  extremum want vs acc = Some v -> has_type t v = true.
Proof.
  induction vs as [|x vs IH]; intros acc v F A E; cbn [extremum] in E; [injection E as <-; exact A|].
  inversion F as [|? ? Fx Fr]; subst. destruct (better want x acc) as [a|] eqn:B; [|discriminate].
  apply (IH a v Fr); [|exact E]. unfold better in B. destruct acc; try (injection B as <-; exact Fx);
  (destruct (cmp_vals x _) as [c|]; [|discriminate]); injection B as <-;
  match goal with |- has_type t (if ?c then _ else _) = true => destruct c end; assumption.
Qed.
Lemma col_vals_typed s i rows : all_conform s rows -> Forall (fun x => has_type (c_ty (nth i s dflt)) x = true) (col_vals i rows).
Proof.
  intros A. unfold col_vals. apply Forall_forall. intros x Hx. apply filter_In in Hx. destruct Hx as [Hx _].
  apply in_map_iff in Hx. destruct Hx as [r [<- Hr]]. unfold all_conform in A. rewrite Forall_forall in A.
  pose proof (conforms_nth s r i (A r Hr)) as C. unfold conforms_col in C. apply andb_prop in C. tauto.
Qed.
Lemma agg_val_conform s a i rows v : all_conform s rows -> agg_val a (col_vals i rows) = Some v ->
  conforms_col (Col (agg_ty a (c_ty (nth i s dflt))) (agg_nullable true a)) v = true.
Proof.
  intros A E. unfold conforms_col. cbn [c_ty c_nullable]. destruct a; cbn [agg_val agg_ty agg_nullable] in *.
  - destruct (fit I64 _) as [w|] eqn:F; [|discriminate]. injection E as <-. apply fit_typed in F. destruct F as [T N]. rewrite T, N. reflexivity.
  - destruct (col_vals i rows); [injection E as <-; reflexivity|]. destruct (sum_ints _); [|discriminate]. injection E as <-. reflexivity.
  - rewrite (extremum_typed _ (c_ty (nth i s dflt)) _ VNull v (col_vals_typed s i rows A) ltac:(destruct (c_ty (nth i s dflt)); reflexivity) E). reflexivity.
  - rewrite (extremum_typed _ (c_ty (nth i s dflt)) _ VNull v (col_vals_typed s i rows A) ltac:(destruct (c_ty (nth i s dflt)); reflexivity) E). reflexivity.
  - destruct (col_vals i rows); [injection E as <-; reflexivity|]. destruct (sum_ints _); [|discriminate]. injection E as <-. reflexivity.
Qed.
Lemma agg_row_conform s rows : all_conform s rows -> forall aggs out, agg_row aggs rows = Some out ->
  conforms (map (fun p => Col (agg_ty (fst p) (c_ty (nth (snd p) s dflt))) (agg_nullable true (fst p))) aggs) out = true.
Proof.
  intros A. induction aggs as [|p t IH]; intros out E; cbn [agg_row] in E; [injection E as <-; reflexivity|].
  destruct (agg_val (fst p) (col_vals (snd p) rows)) as [v|] eqn:V; [|discriminate].
  destruct (agg_row t rows) as [vs|]; [|discriminate]. injection E as <-. cbn [map conforms].
  rewrite (agg_val_conform s _ _ rows v A V), (IH vs eq_refl). reflexivity.
Qed.
Lemma key_conform s r keys : conforms s r = true -> conforms (map (fun i => nth i s dflt) keys) (key_of keys r) = true.
Proof.
  intros C. unfold key_of. induction keys as [|i t IH]; cbn [map conforms]; [reflexivity|]. rewrite (conforms_nth s r i C), IH. reflexivity.
Qed.
Lemma filter_conform s f rows : all_conform s rows -> all_conform s (filter f rows).
Proof. intros A. apply Forall_forall. intros x Hx. apply filter_In in Hx. unfold all_conform in A. rewrite Forall_forall in A. apply A. tauto. Qed.
Lemma dedupe_incl : forall l x, In x (dedupe l) -> In x l.
Proof.
  induction l as [|y t IH]; intros x Hx; cbn [dedupe] in Hx; [contradiction|]. destruct Hx as [->|Hx]; [left; reflexivity|].
  right. apply IH. apply filter_In in Hx. tauto.
Qed.
Lemma group_rows_conform s keys aggs rows : all_conform s rows -> forall ks out,
  (forall k, In k ks -> exists r, In r rows /\ k = key_of keys r) ->
  group_rows keys aggs rows ks = Some out -> all_conform (group_schema true s keys aggs) out.
Proof.
  intros A. induction ks as [|k t IH]; intros out K E; cbn [group_rows] in E; [injection E as <-; constructor|].
  destruct (agg_row aggs _) as [a|] eqn:G; [|discriminate]. destruct (group_rows keys aggs rows t) as [t'|]; [|discriminate].
  injection E as <-. constructor; [|apply IH; [intros k' Hk'; apply K; right; exact Hk'|reflexivity]].
  destruct (K k (or_introl eq_refl)) as [r [Hr ->]]. unfold group_schema. apply conforms_app.
  - apply key_conform. unfold all_conform in A. rewrite Forall_forall in A. auto.
  - eapply agg_row_conform; [|exact G]. apply filter_conform. exact A.
Qed.

(* ---------------- the relational theorem ---------------- *)
Theorem rel_conforms : forall q rows, wf_rel q = true -> eval_rel q = Some rows -> all_conform (schema_of true q) rows.
Proof.
  induction q as [s rows0|es q IH|c q IH|k c l IHl r IHr|a IHa b IHb|keys aggs q IH|q IH|n q IH]; intros rows W E; cbn [wf_rel eval_rel schema_of] in *.
  - injection E as <-. apply Forall_forall. intros x Hx. rewrite forallb_forall in W. auto.
  - apply andb_prop in W. destruct W as [Wq We]. destruct (eval_rel q) as [rs|]; [|discriminate].
    eapply project_rows_conform; eauto.
  - destruct (eval_rel q) as [rs|]; [|discriminate]. eapply filter_rows_forall; [|exact E]. apply IH; auto.
  - apply andb_prop in W. destruct W as [Wl Wr]. destruct (eval_rel l) as [ls|]; [|discriminate]. destruct (eval_rel r) as [rs|]; [|discriminate].
    specialize (IHl ls Wl eq_refl). specialize (IHr rs Wr eq_refl). destruct k.
    + eapply filter_rows_forall; [|exact E]. apply inner_join_conform; assumption.
    + eapply left_join_conform; eauto.
    + eapply right_join_conform; eauto.
  - apply andb_prop in W. destruct W as [W H]. apply andb_prop in W. destruct W as [W L]. apply andb_prop in W. destruct W as [Wa Wb].
    apply Nat.eqb_eq in L. destruct (eval_rel a) as [ra|]; [|discriminate]. destruct (eval_rel b) as [rb|]; [|discriminate]. injection E as <-.
    specialize (IHa ra Wa eq_refl). specialize (IHb rb Wb eq_refl). apply Forall_app. split; apply Forall_map_app; intros x Hx.
    + apply union_left_conform; auto. unfold all_conform in IHa. rewrite Forall_forall in IHa. auto.
    + apply union_right_conform; auto. unfold all_conform in IHb. rewrite Forall_forall in IHb. auto.
  - destruct (eval_rel q) as [rs|]; [|discriminate]. specialize (IH rs W eq_refl). destruct keys as [|k0 keys].
    + destruct (agg_row aggs rs) as [a|] eqn:G; [|discriminate]. injection E as <-. constructor; [|constructor].
      unfold group_schema. cbn [map app]. eapply agg_row_conform; eauto.
    + eapply group_rows_conform; [exact IH| |exact E]. intros k Hk. apply dedupe_incl in Hk. apply in_map_iff in Hk.
      destruct Hk as [r [<- Hr]]. eauto.
  - destruct (eval_rel q) as [rs|]; [|discriminate]. injection E as <-. specialize (IH rs W eq_refl).
    apply Forall_forall. intros x Hx. apply dedupe_incl in Hx. unfold all_conform in IH. rewrite Forall_forall in IH. auto.
  - destruct (eval_rel q) as [rs|]; [|discriminate]. injection E as <-. specialize (IH rs W eq_refl).
    unfold all_conform in *. rewrite <- (firstn_skipn n rs) in IH. apply Forall_app in IH. tauto.
Qed.
