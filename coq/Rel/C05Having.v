(* C05: GROUP BY + HAVING over the C05 expression model.  plan.Having is a filter over the rows produced by the
   grouping node (one row per group), evaluated like plan.Filter (sql.EvaluateCondition). *)
From Coq Require Import List ZArith Bool Permutation.
Import ListNotations.
From GMS Require Import Expr.C05Expr Expr.C05ExprProofs.

Definition key_eqb : list val -> list val -> bool := list_eqb val_eqb.

Fixpoint add_group (k : list val) (r : row) (gs : list (list val * list row)) : list (list val * list row) :=
  match gs with
  | [] => [(k, [r])]
  | (k', rs) :: gs' => if key_eqb k k' then (k', rs ++ [r]) :: gs' else (k', rs) :: add_group k r gs'
  end.

(* groups in first-seen order, keyed by the values of the grouping expressions *)
Definition groups (keys : list expr) (rows : list row) : list (list val * list row) :=
  fold_left (fun gs r => add_group (map (eval r) keys) r gs) rows [].

(* one output row per group, computed by [agg] (grouping columns and aggregates) *)
Definition group_by (keys : list expr) (agg : list row -> row) (rows : list row) : list row :=
  map (fun g => agg (snd g)) (groups keys rows).

Definition having (p : expr) (keys : list expr) (agg : list row -> row) (rows : list row) : list row :=
  sigma p (group_by keys agg rows).

Theorem having_keeps_true p keys agg rows g :
  List.In g (having p keys agg rows) <-> List.In g (group_by keys agg rows) /\ is_true (eval g p) = true.
Proof. unfold having. apply sigma_In. Qed.

Theorem having_partition p keys agg rows :
  Permutation (group_by keys agg rows)
    (having p keys agg rows ++ having (Not p) keys agg rows ++ having (IsNull p) keys agg rows).
Proof. unfold having. apply tlp_perm. Qed.

(* HAVING without GROUP BY and without aggregates filters the rows themselves, as WHERE does *)
Theorem having_plain_is_where p rows : sigma p rows = filter (fun r => is_true (eval r p)) rows.
Proof. reflexivity. Qed.
