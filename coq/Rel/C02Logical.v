(* C02 — the SQL definition of the query fragment (denotational, executable).
   Values: NULL, INT, DECIMAL (mantissa * 10^-scale), VARCHAR (byte list, binary collation).
   Expressions are evaluated in an environment of rows (de Bruijn: depth 0 = the row of the innermost
   query block, depth k = the k-th enclosing block).  Queries denote lists of rows (bags; sequences
   under ORDER BY).  Name resolution is not modelled: the generator emits resolved ASTs.
   Definitions only; proofs live in C02LogicalProofs.v. *)
From Coq Require Import List ZArith NArith Bool.
Import ListNotations.
Open Scope Z_scope.

Definition str := list N.

Inductive val :=
| VNull
| VInt (z : Z)
| VDec (m : Z) (s : nat)       (* m * 10^-s *)
| VStr (b : str).

Definition row := list val.

Inductive err := ErrCard | ErrType | ErrShape.

Inductive res (A : Type) :=
| Ok (a : A)
| Err (e : err).
Arguments Ok {A} a.
Arguments Err {A} e.

Definition bind {A B} (x : res A) (f : A -> res B) : res B :=
  match x with Ok a => f a | Err e => Err e end.

Notation "'do' x <- e ; f" := (bind e (fun x => f)) (at level 200, x name, e at level 100, f at level 200).
Notation "'do' ' p <- e ; f" := (bind e (fun x => let p := x in f))
  (at level 200, p pattern, e at level 100, f at level 200).

Section Monadic.
  Context {A B : Type}.
  Variable f : A -> res B.
  Fixpoint mapM (l : list A) : res (list B) :=
    match l with
    | [] => Ok []
    | x :: t => do y <- f x; do ys <- mapM t; Ok (y :: ys)
    end.
End Monadic.

Section MonadicFilter.
  Context {A : Type}.
  Variable p : A -> res bool.
  Fixpoint filterM (l : list A) : res (list A) :=
    match l with
    | [] => Ok []
    | x :: t => do b <- p x; do ys <- filterM t; Ok (if b then x :: ys else ys)
    end.
End MonadicFilter.

(* ---------- three-valued logic ---------- *)
Inductive tri := TT | TF | TN.

Definition and3 (a b : tri) : tri :=
  match a, b with
  | TF, _ | _, TF => TF
  | TT, TT => TT
  | _, _ => TN
  end.
Definition or3 (a b : tri) : tri :=
  match a, b with
  | TT, _ | _, TT => TT
  | TF, TF => TF
  | _, _ => TN
  end.
Definition not3 (a : tri) : tri := match a with TT => TF | TF => TT | TN => TN end.
Definition is_true (a : tri) : bool := match a with TT => true | _ => false end.

Definition val_of_tri (t : tri) : val :=
  match t with TT => VInt 1 | TF => VInt 0 | TN => VNull end.

(* truth value of a value used as a condition (numbers: non-zero is true) *)
Definition tri_of_val (v : val) : res tri :=
  match v with
  | VNull => Ok TN
  | VInt z => Ok (if Z.eqb z 0 then TF else TT)
  | VDec m _ => Ok (if Z.eqb m 0 then TF else TT)
  | VStr _ => Err ErrType
  end.

(* ---------- numbers ---------- *)
Definition pow10 (n : nat) : Z := Z.pow 10 (Z.of_nat n).

Definition num_of (v : val) : option (Z * nat) :=
  match v with
  | VInt z => Some (z, O)
  | VDec m s => Some (m, s)
  | _ => None
  end.

Definition num_cmp (a b : Z * nat) : comparison :=
  let '(m1, s1) := a in let '(m2, s2) := b in Z.compare (m1 * pow10 s2) (m2 * pow10 s1).

Definition mk_num (m : Z) (s : nat) : val := match s with O => VInt m | _ => VDec m s end.

Definition num_add (a b : Z * nat) : Z * nat :=
  let '(m1, s1) := a in let '(m2, s2) := b in
  let s := Nat.max s1 s2 in
  (m1 * pow10 (s - s1) + m2 * pow10 (s - s2), s).
Definition num_neg (a : Z * nat) : Z * nat := (- fst a, snd a).
Definition num_mul (a b : Z * nat) : Z * nat := (fst a * fst b, (snd a + snd b)%nat).

(* n / d rounded to the nearest integer, halves away from zero (d > 0) *)
Definition div_round (n d : Z) : Z :=
  if Z.ltb n 0 then - ((2 * (- n) + d) / (2 * d)) else (2 * n + d) / (2 * d).

Fixpoint str_cmp (a b : str) : comparison :=
  match a, b with
  | [], [] => Eq
  | [], _ => Lt
  | _, [] => Gt
  | x :: a', y :: b' => match N.compare x y with Eq => str_cmp a' b' | c => c end
  end.

(* comparison of two non-NULL values of compatible types *)
Definition cmp_nn (x y : val) : res comparison :=
  match x, y with
  | VStr a, VStr b => Ok (str_cmp a b)
  | _, _ =>
      match num_of x, num_of y with
      | Some a, Some b => Ok (num_cmp a b)
      | _, _ => Err ErrType
      end
  end.

Inductive cmpop := OEq | ONe | OLt | OLe | OGt | OGe.

Definition cmp_holds (o : cmpop) (c : comparison) : bool :=
  match o, c with
  | OEq, Eq => true
  | ONe, Lt | ONe, Gt => true
  | OLt, Lt => true
  | OLe, Lt | OLe, Eq => true
  | OGt, Gt => true
  | OGe, Gt | OGe, Eq => true
  | _, _ => false
  end.

Definition cmp3 (o : cmpop) (x y : val) : res tri :=
  match x, y with
  | VNull, _ | _, VNull => Ok TN
  | _, _ => do c <- cmp_nn x y; Ok (if cmp_holds o c then TT else TF)
  end.

Inductive arop := APlus | AMinus | AMult.

Definition arith (o : arop) (x y : val) : res val :=
  match x, y with
  | VNull, VStr _ | VStr _, VNull => Err ErrType
  | VNull, _ | _, VNull => Ok VNull
  | _, _ =>
      match num_of x, num_of y with
      | Some a, Some b =>
          let '(m, s) := match o with
                         | APlus => num_add a b
                         | AMinus => num_add a (num_neg b)
                         | AMult => num_mul a b
                         end in
          Ok (mk_num m s)
      | _, _ => Err ErrType
      end
  end.

(* x IN (ys): OR of the equalities; FALSE on the empty list *)
Definition in3 (x : val) (ys : list val) : res tri :=
  do ts <- mapM (cmp3 OEq x) ys; Ok (fold_right or3 TF ts).

(* ---------- value identity (GROUP BY, DISTINCT, set operations): NULL = NULL, 1 = 1.00 ---------- *)
Fixpoint norm_dec (m : Z) (s : nat) : val :=
  match s with
  | O => VInt m
  | S s' => if Z.eqb (m mod 10) 0 then norm_dec (m / 10) s' else VDec m s
  end.
Definition norm (v : val) : val := match v with VDec m s => norm_dec m s | _ => v end.

Fixpoint str_eqb (a b : str) : bool :=
  match a, b with
  | [], [] => true
  | x :: a', y :: b' => N.eqb x y && str_eqb a' b'
  | _, _ => false
  end.

Definition val_beq (a b : val) : bool :=
  match a, b with
  | VNull, VNull => true
  | VInt x, VInt y => Z.eqb x y
  | VDec m s, VDec m' s' => Z.eqb m m' && Nat.eqb s s'
  | VStr x, VStr y => str_eqb x y
  | _, _ => false
  end.

Fixpoint row_beq (a b : row) : bool :=
  match a, b with
  | [], [] => true
  | x :: a', y :: b' => val_beq x y && row_beq a' b'
  | _, _ => false
  end.

Definition nrow (r : row) : row := map norm r.
Definition row_eqb (a b : row) : bool := row_beq (nrow a) (nrow b).
Definition val_eqb (a b : val) : bool := val_beq (norm a) (norm b).

(* generic bag operations over an equality test *)
Section Bags.
  Context {A : Type}.
  Variable eqb : A -> A -> bool.

  Definition mem (x : A) (l : list A) : bool := existsb (eqb x) l.

  Fixpoint remove_one (x : A) (l : list A) : list A :=
    match l with
    | [] => []
    | y :: t => if eqb x y then t else y :: remove_one x t
    end.

  (* keep first occurrences *)
  Fixpoint dedup_acc (seen : list A) (l : list A) : list A :=
    match l with
    | [] => []
    | x :: t => if mem x seen then dedup_acc seen t else x :: dedup_acc (x :: seen) t
    end.
  Definition dedup (l : list A) : list A := dedup_acc [] l.

  Fixpoint inter_all (l r : list A) : list A :=
    match l with
    | [] => []
    | x :: t => if mem x r then x :: inter_all t (remove_one x r) else inter_all t r
    end.

  Fixpoint except_all (l r : list A) : list A :=
    match l with
    | [] => []
    | x :: t => if mem x r then except_all t (remove_one x r) else x :: except_all t r
    end.

  Definition count (x : A) (l : list A) : nat := length (filter (eqb x) l).
End Bags.

Inductive setop := SUnion | SIntersect | SExcept.

Definition set_op (o : setop) (all : bool) (l r : list row) : list row :=
  match o, all with
  | SUnion, true => l ++ r
  | SUnion, false => dedup row_eqb (l ++ r)
  | SIntersect, true => inter_all row_eqb l r
  | SIntersect, false => dedup row_eqb (filter (fun x => mem row_eqb x r) l)
  | SExcept, true => except_all row_eqb l r
  | SExcept, false => dedup row_eqb (filter (fun x => negb (mem row_eqb x r)) l)
  end.

(* ---------- joins ---------- *)
Inductive jkind := JInner | JLeft | JRight | JCross.

Definition nulls (n : nat) : row := repeat VNull n.

Section Joins.
  Variable onf : row -> res bool.      (* ON condition on the combined row: is it TRUE? *)

  Definition inner_join (L R : list row) : res (list row) :=
    do parts <- mapM (fun l => do ms <- filterM (fun r => onf (l ++ r)) R; Ok (map (app l) ms)) L;
    Ok (concat parts).

  (* outer join seen from the preserved side: [comb o i] builds the combined row, [pad o] pads *)
  Definition outer_join {O I : Type} (comb : O -> I -> row) (pad : O -> row) (outer : list O) (inner : list I)
    : res (list row) :=
    do parts <- mapM (fun o => do ms <- filterM (fun i => onf (comb o i)) inner;
                               Ok (match ms with [] => [pad o] | _ => map (comb o) ms end)) outer;
    Ok (concat parts).

  Definition join_rows (k : jkind) (wl wr : nat) (L R : list row) : res (list row) :=
    match k with
    | JInner | JCross => inner_join L R
    | JLeft => outer_join (fun l r => l ++ r) (fun l => l ++ nulls wr) L R
    | JRight => outer_join (fun r l => l ++ r) (fun r => nulls wl ++ r) R L
    end.
End Joins.

(* ---------- aggregates ---------- *)
Inductive aggfn := ACountStar | ACount | ACountDistinct | ASum | AMin | AMax | AAvg.

Definition non_null (vs : list val) : list val :=
  filter (fun v => match v with VNull => false | _ => true end) vs.

Definition sum_vals (vs : list val) : res (Z * nat) :=
  fold_left (fun acc v => do a <- acc; match num_of v with Some b => Ok (num_add a b) | None => Err ErrType end)
            vs (Ok (0, O)).

Definition comp_eqb (a b : comparison) : bool :=
  match a, b with Eq, Eq | Lt, Lt | Gt, Gt => true | _, _ => false end.

(* MIN (want = Lt) / MAX (want = Gt): keep the first extreme value *)
Definition pick (want : comparison) (vs : list val) (v0 : val) : res val :=
  fold_left (fun acc v => do a <- acc; do c <- cmp_nn v a; Ok (if comp_eqb c want then v else a)) vs (Ok v0).

Definition agg (f : aggfn) (args : list val) : res val :=
  let nn := non_null args in
  match f with
  | ACountStar => Ok (VInt (Z.of_nat (length args)))
  | ACount => Ok (VInt (Z.of_nat (length nn)))
  | ACountDistinct => Ok (VInt (Z.of_nat (length (dedup val_eqb nn))))
  | ASum => match nn with
            | [] => Ok VNull
            | _ => do '(m, s) <- sum_vals nn; Ok (mk_num m s)
            end
  | AMin => match nn with [] => Ok VNull | v :: t => pick Lt t v end
  | AMax => match nn with [] => Ok VNull | v :: t => pick Gt t v end
  | AAvg => match nn with
            | [] => Ok VNull
            | _ => do '(m, s) <- sum_vals nn;
                   (* scale + 4, rounded half away from zero *)
                   Ok (VDec (div_round (m * 10000) (Z.of_nat (length nn))) (s + 4))
            end
  end.

(* grouping: groups in order of first occurrence, members in input order *)
Fixpoint group_insert (k r : row) (gs : list (row * list row)) : list (row * list row) :=
  match gs with
  | [] => [(k, [r])]
  | (k', ms) :: t => if row_eqb k k' then (k', ms ++ [r]) :: t else (k', ms) :: group_insert k r t
  end.

Definition groups_of (nkeys : nat) (keyed : list (row * row)) : list (row * list row) :=
  let gs := fold_left (fun gs kr => group_insert (fst kr) (snd kr) gs) keyed [] in
  match nkeys, gs with
  | O, [] => [([], [])]          (* no GROUP BY: one group even over no rows *)
  | _, _ => gs
  end.

(* ---------- ORDER BY ---------- *)
(* NULL first, then numbers, then strings (columns are homogeneous; the cross-type order is unused) *)
Definition val_cmp (x y : val) : comparison :=
  match x, y with
  | VNull, VNull => Eq
  | VNull, _ => Lt
  | _, VNull => Gt
  | VStr a, VStr b => str_cmp a b
  | VStr _, _ => Gt
  | _, VStr _ => Lt
  | _, _ => match num_of x, num_of y with Some a, Some b => num_cmp a b | _, _ => Eq end
  end.

Fixpoint keys_cmp (keys : list (nat * bool)) (a b : row) : comparison :=
  match keys with
  | [] => Eq
  | (i, desc) :: t =>
      let c := val_cmp (nth i a VNull) (nth i b VNull) in
      match (if desc then CompOpp c else c) with
      | Eq => keys_cmp t a b
      | c' => c'
      end
  end.

Section Sort.
  Context {A : Type}.
  Variable leb : A -> A -> bool.
  Fixpoint insert (x : A) (l : list A) : list A :=
    match l with
    | [] => [x]
    | y :: t => if leb x y then x :: l else y :: insert x t
    end.
  Definition isort (l : list A) : list A := fold_right insert [] l.
End Sort.

Definition row_leb (keys : list (nat * bool)) (a b : row) : bool :=
  match keys_cmp keys a b with Gt => false | _ => true end.

Definition order_limit (keys : list (nat * bool)) (lim : option (nat * nat)) (rows : list row) : list row :=
  let sorted := isort (row_leb keys) rows in
  match lim with
  | None => sorted
  | Some (n, off) => firstn n (skipn off sorted)
  end.

(* ---------- syntax ---------- *)
Inductive expr :=
| EConst (v : val)
| ECol (d i : nat)
| ECmp (o : cmpop) (a b : expr)
| EArith (o : arop) (a b : expr)
| EAnd (a b : expr)
| EOr (a b : expr)
| ENot (a : expr)
| EIsNull (a : expr)
| EIn (a : expr) (l : list expr)
| EExists (q : query)
| EInQ (a : expr) (q : query)
| EScalar (q : query)
with query :=
| QTable (t : nat)
| QJoin (k : jkind) (l r : query) (on : expr)
| QSelect (src : query) (wh : expr) (proj : list expr) (dist : bool)
| QGroup (src : query) (wh : expr) (keys : list expr) (aggs : list (aggfn * expr)) (hav : expr)
         (proj : list expr) (dist : bool)
| QSetOp (o : setop) (all : bool) (l r : query)
| QOrder (q : query) (keys : list (nat * bool)) (lim : option (nat * nat)).

Definition table := (nat * list row)%type.       (* number of columns, rows *)
Definition db := list table.
Definition env := list row.

Fixpoint qwidth (d : db) (q : query) : nat :=
  match q with
  | QTable t => match nth_error d t with Some (w, _) => w | None => O end
  | QJoin _ l r _ => (qwidth d l + qwidth d r)%nat
  | QSelect _ _ proj _ => length proj
  | QGroup _ _ _ _ _ proj _ => length proj
  | QSetOp _ _ l _ => qwidth d l
  | QOrder q _ _ => qwidth d q
  end.

Definition first_col (r : row) : res val :=
  match r with v :: _ => Ok v | [] => Err ErrShape end.

Definition holds (v : res val) : res bool := do x <- v; do t <- tri_of_val x; Ok (is_true t).

Definition distinct_if (b : bool) (rows : list row) : list row := if b then dedup row_eqb rows else rows.

Fixpoint eval_expr (d : db) (en : env) (e : expr) {struct e} : res val :=
  match e with
  | EConst v => Ok v
  | ECol k i =>
      match nth_error en k with
      | Some r => match nth_error r i with Some v => Ok v | None => Err ErrShape end
      | None => Err ErrShape
      end
  | ECmp o a b =>
      do x <- eval_expr d en a; do y <- eval_expr d en b; do t <- cmp3 o x y; Ok (val_of_tri t)
  | EArith o a b =>
      do x <- eval_expr d en a; do y <- eval_expr d en b; arith o x y
  | EAnd a b =>
      do x <- eval_expr d en a; do y <- eval_expr d en b;
      do tx <- tri_of_val x; do ty <- tri_of_val y; Ok (val_of_tri (and3 tx ty))
  | EOr a b =>
      do x <- eval_expr d en a; do y <- eval_expr d en b;
      do tx <- tri_of_val x; do ty <- tri_of_val y; Ok (val_of_tri (or3 tx ty))
  | ENot a =>
      do x <- eval_expr d en a; do tx <- tri_of_val x; Ok (val_of_tri (not3 tx))
  | EIsNull a =>
      do x <- eval_expr d en a; Ok (match x with VNull => VInt 1 | _ => VInt 0 end)
  | EIn a l =>
      do x <- eval_expr d en a; do ys <- mapM (eval_expr d en) l; do t <- in3 x ys; Ok (val_of_tri t)
  | EExists q =>
      do rs <- eval_query d en q; Ok (match rs with [] => VInt 0 | _ => VInt 1 end)
  | EInQ a q =>
      do x <- eval_expr d en a; do rs <- eval_query d en q; do ys <- mapM first_col rs;
      do t <- in3 x ys; Ok (val_of_tri t)
  | EScalar q =>
      do rs <- eval_query d en q;
      match rs with
      | [] => Ok VNull
      | [r] => first_col r
      | _ => Err ErrCard
      end
  end
with eval_query (d : db) (en : env) (q : query) {struct q} : res (list row) :=
  match q with
  | QTable t => match nth_error d t with Some (_, rows) => Ok rows | None => Err ErrShape end
  | QJoin k l r on =>
      do L <- eval_query d en l; do R <- eval_query d en r;
      join_rows (fun rw => match k with JCross => Ok true | _ => holds (eval_expr d (rw :: en) on) end)
                k (qwidth d l) (qwidth d r) L R
  | QSelect src wh proj dist =>
      do rows <- eval_query d en src;
      do kept <- filterM (fun rw => holds (eval_expr d (rw :: en) wh)) rows;
      do out <- mapM (fun rw => mapM (eval_expr d (rw :: en)) proj) kept;
      Ok (distinct_if dist out)
  | QGroup src wh keys aggs hav proj dist =>
      do rows <- eval_query d en src;
      do kept <- filterM (fun rw => holds (eval_expr d (rw :: en) wh)) rows;
      do keyed <- mapM (fun rw => do k <- mapM (eval_expr d (rw :: en)) keys; Ok (k, rw)) kept;
      do grows <- mapM (fun g : row * list row =>
                          do avs <- mapM (fun fe : aggfn * expr =>
                                            do args <- mapM (fun rw => eval_expr d (rw :: en) (snd fe)) (snd g);
                                            agg (fst fe) args) aggs;
                          Ok (fst g ++ avs))
                       (groups_of (length keys) keyed);
      do gkept <- filterM (fun g => holds (eval_expr d (g :: en) hav)) grows;
      do out <- mapM (fun g => mapM (eval_expr d (g :: en)) proj) gkept;
      Ok (distinct_if dist out)
  | QSetOp o all l r =>
      do L <- eval_query d en l; do R <- eval_query d en r; Ok (set_op o all L R)
  | QOrder q keys lim =>
      do rows <- eval_query d en q; Ok (order_limit keys lim rows)
  end.
