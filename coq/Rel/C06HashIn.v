(* C06: HashInTuple (sql/expression/in.go NewHashInTuple / newInMap / HashInTuple.Eval, built by applyHashIn for static
   lists in filters) against InTuple.  The hash key is modelled by its canonical form: hash.HashOfSimple converts the
   value to the comparison type and writes its decimal text with trailing fraction zeros removed (C07 shows the texts are
   injective).  The comparison type is GetCompareType(left type, type of the FIRST element) -- the defect mirrored here:
   with an integer left operand and an integer first element every later decimal element is rounded to an integer. *)
From Coq Require Import List ZArith NArith Bool Lia.
Import ListNotations.
From GMS Require Import Expr.C05Expr Expr.C05ExprProofs Rel.C06Equiv.
Open Scope Z_scope.

Inductive cty := CTInt | CTDec | CTStr.

(* types.GetCompareType on the classes of [ty]; None = outside the model (first element NULL with an integer left
   operand gives Float64; string/number mixtures) *)
Definition cmp_type (lt ft : ty) : option cty :=
  match lt, ft with
  | TyStr, TyStr => Some CTStr
  | TyDec, TyStr | TyStr, _ | _, TyStr => None
  | TyDec, _ => Some CTDec
  | (TyInt | TyBool), TyDec => Some CTDec
  | (TyInt | TyBool), (TyInt | TyBool) => Some CTInt
  | _, _ => None
  end.

Inductive hkey := KInt (z : Z) | KDec (m : Z) (s : N) | KStr (b : list N) | KBad.

Definition hkey_eqb (a b : hkey) : bool :=
  match a, b with
  | KInt x, KInt y => Z.eqb x y
  | KDec m s, KDec m' s' => Z.eqb m m' && N.eqb s s'
  | KStr x, KStr y => list_eqb N.eqb x y
  | _, _ => false
  end.

(* conversion of a decimal to BIGINT: round half away from zero *)
Definition round_half_away (m : Z) (s : N) : Z :=
  let p := 10 ^ Z.of_N s in
  let a := Z.abs m in
  let q := a / p in
  let q' := if 2 * (a mod p) >=? p then q + 1 else q in
  if m <? 0 then - q' else q'.

(* "remove trailing 0s after '.'" *)
Fixpoint strip (fuel : nat) (m : Z) (s : N) : Z * N :=
  match fuel with
  | O => (m, s)
  | S f => if N.eqb s 0 then (m, s) else if Z.eqb (m mod 10) 0 then strip f (m / 10) (s - 1)%N else (m, s)
  end.

Definition dec_of (v : val) : Z * N := match v with VInt z => (z, 0%N) | VDec m s => (m, s) | _ => (0, 0%N) end.

Definition key_of (c : cty) (v : val) : hkey :=
  match c, v with
  | CTInt, VInt z => KInt z
  | CTInt, VDec m s => KInt (round_half_away m s)
  | CTDec, (VInt _ | VDec _ _) => let '(m, s) := dec_of v in let '(m', s') := strip (N.to_nat s) m s in KDec m' s'
  | CTStr, VStr b => KStr b
  | _, _ => KBad
  end.

Definition is_null (v : val) : bool := match v with VNull => true | _ => false end.

(* HashInTuple.Eval with the map built by newInMap; [es] = the literal elements with their static types *)
Definition hash_in (lt : ty) (a : val) (es : list (val * ty)) : tri :=
  match a with
  | VNull => TN
  | _ =>
      match es with
      | [] => TF
      | (_, ft) :: _ =>
          match cmp_type lt ft with
          | None => TN
          | Some c =>
              let vs := map fst es in
              let keys := map (key_of c) (filter (fun v => negb (is_null v)) vs) in
              if existsb (hkey_eqb (key_of c a)) keys then TT
              else if existsb is_null vs then TN else TF
          end
      end
  end.

(* ---------- InTuple in the same shape ---------- *)
Definition eqv (a v : val) : bool := match cmp_val a v with Eq => true | _ => false end.

Lemma cmp3_eq_eqv a v : a <> VNull -> v <> VNull -> cmp3 CEq a v = if eqv a v then TT else TF.
Proof. intros Ha Hv. unfold cmp3, eqv. destruct a, v; try congruence; destruct (cmp_val _ _); reflexivity. Qed.

Lemma in_list_char a vs hn :
  a <> VNull ->
  in_list a vs hn =
  if existsb (eqv a) (filter (fun v => negb (is_null v)) vs) then TT
  else if (hn || existsb is_null vs)%bool then TN else TF.
Proof.
  intros Ha. revert hn. induction vs as [|v vs IH]; intros hn.
  - cbn. destruct hn; reflexivity.
  - rewrite (in_list_cons a v vs hn Ha). destruct v as [|z|m s|b].
    + cbn [filter is_null negb existsb]. replace (cmp3 CEq a VNull) with TN by (destruct a; reflexivity).
      rewrite IH. cbn. rewrite orb_true_r. destruct (existsb _ _); reflexivity.
    + rewrite cmp3_eq_eqv by (auto; discriminate). cbn [filter is_null negb existsb orb].
      destruct (eqv a (VInt z)); cbn [orb]; [reflexivity|apply IH].
    + rewrite cmp3_eq_eqv by (auto; discriminate). cbn [filter is_null negb existsb orb].
      destruct (eqv a (VDec m s)); cbn [orb]; [reflexivity|apply IH].
    + rewrite cmp3_eq_eqv by (auto; discriminate). cbn [filter is_null negb existsb orb].
      destruct (eqv a (VStr b)); cbn [orb]; [reflexivity|apply IH].
Qed.

(* ---------- canonical decimal keys ---------- *)
Definition pw (s : N) : Z := 10 ^ Z.of_N s.
Lemma pw_pos s : 0 < pw s. Proof. unfold pw. apply Z.pow_pos_nonneg; lia. Qed.
Lemma pw_succ s : pw (N.succ s) = 10 * pw s.
Proof. unfold pw. rewrite N2Z.inj_succ, Z.pow_succ_r by lia. reflexivity. Qed.

Definition normal (m : Z) (s : N) : Prop := s = 0%N \/ m mod 10 <> 0.

Lemma strip_spec fuel : forall m s, (N.to_nat s <= fuel)%nat ->
  let '(m', s') := strip fuel m s in m * pw s' = m' * pw s /\ normal m' s'.
Proof.
  induction fuel as [|f IH]; intros m s Hf.
  - cbn. assert (s = 0%N) by lia. subst. split; [reflexivity|left; reflexivity].
  - cbn [strip]. destruct (N.eqb_spec s 0) as [->|Hs].
    + split; [reflexivity|left; reflexivity].
    + destruct (Z.eqb_spec (m mod 10) 0) as [Hm|Hm].
      * specialize (IH (m / 10) (s - 1)%N ltac:(lia)).
        destruct (strip f (m / 10) (s - 1)%N) as [m' s']. destruct IH as [IH1 IH2]. split; [|exact IH2].
        assert (Hs' : pw s = 10 * pw (s - 1)) by (rewrite <- pw_succ; f_equal; lia). rewrite Hs'.
        assert (Hd : m = 10 * (m / 10)) by (pose proof (Z.div_mod m 10 ltac:(lia)); lia).
        rewrite Hd at 1. nia.
      * split; [reflexivity|right; exact Hm].
Qed.

Lemma pw_add a b : pw (a + b) = pw a * pw b.
Proof. unfold pw. rewrite N2Z.inj_add, Z.pow_add_r by lia. reflexivity. Qed.

Lemma normal_canonical m1 s1 m2 s2 :
  normal m1 s1 -> normal m2 s2 -> m1 * pw s2 = m2 * pw s1 -> m1 = m2 /\ s1 = s2.
Proof.
  intros N1 N2 H.
  destruct (N.lt_trichotomy s1 s2) as [L|[E|L]].
  - exfalso. replace s2 with (s1 + N.succ (s2 - s1 - 1))%N in H by lia.
    rewrite pw_add, pw_succ in H. pose proof (pw_pos s1).
    assert (Hm : m2 = m1 * (10 * pw (s2 - s1 - 1))) by nia.
    destruct N2 as [->|N2]; [lia|]. apply N2. rewrite Hm.
    replace (m1 * (10 * pw (s2 - s1 - 1))) with ((m1 * pw (s2 - s1 - 1)) * 10) by ring. apply Z.mod_mul. lia.
  - subst. pose proof (pw_pos s2). split; [nia|reflexivity].
  - exfalso. replace s1 with (s2 + N.succ (s1 - s2 - 1))%N in H by lia.
    rewrite pw_add, pw_succ in H. pose proof (pw_pos s2).
    assert (Hm : m1 = m2 * (10 * pw (s1 - s2 - 1))) by nia.
    destruct N1 as [->|N1]; [lia|]. apply N1. rewrite Hm.
    replace (m2 * (10 * pw (s1 - s2 - 1))) with ((m2 * pw (s1 - s2 - 1)) * 10) by ring. apply Z.mod_mul. lia.
Qed.

Lemma dec_key_eq m1 s1 m2 s2 :
  (let '(a, b) := strip (N.to_nat s1) m1 s1 in let '(c, d) := strip (N.to_nat s2) m2 s2 in (Z.eqb a c && N.eqb b d)%bool)
  = match cmp_num m1 s1 m2 s2 with Eq => true | _ => false end.
Proof.
  pose proof (strip_spec (N.to_nat s1) m1 s1 ltac:(lia)) as H1.
  pose proof (strip_spec (N.to_nat s2) m2 s2 ltac:(lia)) as H2.
  destruct (strip (N.to_nat s1) m1 s1) as [a b]. destruct (strip (N.to_nat s2) m2 s2) as [c d].
  destruct H1 as [V1 N1]. destruct H2 as [V2 N2].
  unfold cmp_num. fold (pw s2). fold (pw s1). unfold pow10. fold (pw s2). fold (pw s1).
  pose proof (pw_pos s1). pose proof (pw_pos s2). pose proof (pw_pos b). pose proof (pw_pos d).
  destruct (Z.compare_spec (m1 * pw s2) (m2 * pw s1)) as [E|L|L].
  - assert (Hv : a * pw d = c * pw b).
    { apply (Z.mul_reg_r _ _ (pw s1 * pw s2)); [nia|].
      transitivity ((a * pw s1) * (pw d * pw s2)); [ring|]. rewrite <- V1.
      transitivity (m1 * pw s2 * (pw b * pw d)); [ring|]. rewrite E.
      transitivity ((m2 * pw d) * (pw s1 * pw b)); [ring|]. rewrite V2. ring. }
    destruct (normal_canonical a b c d N1 N2 Hv) as [-> ->]. rewrite Z.eqb_refl, N.eqb_refl. reflexivity.
  - destruct (Z.eqb_spec a c) as [->|]; [|reflexivity]. destruct (N.eqb_spec b d) as [->|]; [|reflexivity].
    exfalso. assert (m1 * pw s2 * pw d = m2 * pw s1 * pw d); [|nia].
    transitivity ((m1 * pw d) * pw s2); [ring|]. rewrite V1. transitivity ((c * pw s2) * pw s1); [ring|]. rewrite <- V2. ring.
  - destruct (Z.eqb_spec a c) as [->|]; [|reflexivity]. destruct (N.eqb_spec b d) as [->|]; [|reflexivity].
    exfalso. assert (m1 * pw s2 * pw d = m2 * pw s1 * pw d); [|nia].
    transitivity ((m1 * pw d) * pw s2); [ring|]. rewrite V1. transitivity ((c * pw s2) * pw s1); [ring|]. rewrite <- V2. ring.
Qed.

Lemma kdec_eq m1 s1 m2 s2 :
  hkey_eqb (let '(a, b) := strip (N.to_nat s1) m1 s1 in KDec a b) (let '(c, d) := strip (N.to_nat s2) m2 s2 in KDec c d)
  = match cmp_num m1 s1 m2 s2 with Eq => true | _ => false end.
Proof. rewrite <- dec_key_eq. destruct (strip (N.to_nat s1) m1 s1), (strip (N.to_nat s2) m2 s2). reflexivity. Qed.

Lemma cmp_num_int x y : cmp_num x 0 y 0 = (x ?= y).
Proof. unfold cmp_num, pow10. cbn. rewrite !Z.mul_1_r. reflexivity. Qed.

Lemma cmp_bytes_eq a : forall b, list_eqb N.eqb a b = match cmp_bytes a b with Eq => true | _ => false end.
Proof.
  induction a as [|x a IH]; intros [|y b]; cbn; try reflexivity.
  destruct (N.compare_spec x y) as [->|L|L].
  - rewrite N.eqb_refl. apply IH.
  - destruct (N.eqb_spec x y); [lia|reflexivity].
  - destruct (N.eqb_spec x y); [lia|reflexivity].
Qed.

(* ---------- the guard: every non-NULL operand lies in the class of the comparison type ---------- *)
Definition in_class (c : cty) (v : val) : bool :=
  match c, v with
  | _, VNull => true
  | CTInt, VInt _ => true
  | CTDec, (VInt _ | VDec _ _) => true
  | CTStr, VStr _ => true
  | _, _ => false
  end.

Lemma key_eq c a v :
  a <> VNull -> v <> VNull -> in_class c a = true -> in_class c v = true ->
  hkey_eqb (key_of c a) (key_of c v) = eqv a v.
Proof.
  intros Ha Hv Ca Cv. unfold eqv.
  destruct c, a as [|x|m s|x], v as [|y|m' s'|y]; try congruence; try discriminate; cbn [key_of dec_of cmp_val].
  - cbn. destruct (Z.compare_spec x y); destruct (Z.eqb_spec x y); try reflexivity; lia.
  - rewrite <- cmp_num_int. apply (kdec_eq x 0 y 0).
  - apply (kdec_eq x 0 m' s').
  - apply (kdec_eq m s y 0).
  - apply (kdec_eq m s m' s').
  - cbn. apply cmp_bytes_eq.
Qed.

Theorem hash_in_eq_in lt a es c ft v0 rest :
  es = (v0, ft) :: rest -> cmp_type lt ft = Some c ->
  forallb (in_class c) (a :: map fst es) = true ->
  hash_in lt a es = match a with VNull => TN | _ => in_list a (map fst es) false end.
Proof.
  intros He Hc Hcl. destruct a as [|z|m s|b] eqn:Ea; [reflexivity| | |];
    (rewrite in_list_char by discriminate; unfold hash_in; rewrite He at 1; rewrite Hc; cbn [orb];
     cbn [forallb] in Hcl; apply andb_prop in Hcl; destruct Hcl as [Ca Hvs];
     match goal with |- (if existsb ?f (map ?k ?l) then _ else _) = (if existsb ?g ?l then _ else _) =>
       assert (Hx : existsb f (map k l) = existsb g l) end;
     [rewrite existsb_map; clear He; induction (map fst es) as [|v vs IH]; [reflexivity|];
      cbn [forallb] in Hvs; apply andb_prop in Hvs; destruct Hvs as [Cv Hvs]; cbn [filter];
      destruct v; cbn [is_null negb]; try (apply IH; exact Hvs);
      cbn [existsb]; rewrite (IH Hvs); f_equal; apply key_eq; try discriminate; assumption
     | rewrite Hx; reflexivity]).
Qed.

(* without the guard: INT left operand, first element INT, then 1.500: the hashed IN says TRUE for 2, IN says FALSE *)
Lemma hash_in_refuted :
  exists lt a es, hash_in lt a es = TT /\ in_list a (map fst es) false = TF.
Proof. exists TyInt, (VInt 2), [(VInt 0, TyInt); (VDec 1500 3, TyDec)]. split; vm_compute; reflexivity. Qed.
