(* C06: equivalent formulations over the C05 expression model and a small relational layer. *)
From Coq Require Import List ZArith NArith Bool Lia.
Import ListNotations.
From GMS Require Import Expr.C05Expr Expr.C05ExprProofs.
Open Scope Z_scope.

(* ---------- x IN (e1, ..., en)  vs  x = e1 OR ... OR x = en ---------- *)
Fixpoint or_chain (a x : expr) (l : list expr) : expr :=
  match l with
  | [] => Cmp CEq a x
  | y :: l' => Or (Cmp CEq a x) (or_chain a y l')
  end.

Fixpoint or_fold (a : val) (x : val) (l : list val) : tri :=
  match l with
  | [] => cmp3 CEq a x
  | y :: l' => or3 (cmp3 CEq a x) (or_fold a y l')
  end.

Lemma or_chain_eval r a x l :
  to_tri (eval r (or_chain a x l)) = or_fold (eval r a) (eval r x) (map (eval r) l).
Proof.
  revert x. induction l as [|y l IH]; intros x; cbn [or_chain map or_fold eval].
  - apply to_tri_of_tri.
  - rewrite !to_tri_of_tri, IH. reflexivity.
Qed.

Lemma in_list_cons a x rest hn :
  a <> VNull ->
  in_list a (x :: rest) hn =
  match cmp3 CEq a x with TT => TT | TN => in_list a rest true | TF => in_list a rest hn end.
Proof.
  intros Ha. destruct a; try congruence; destruct x; cbn [in_list]; try reflexivity;
    unfold cmp3; match goal with |- context [cmp_val ?p ?q] => destruct (cmp_val p q) end; reflexivity.
Qed.

Lemma in_list_or_fold a x l hn :
  a <> VNull ->
  in_list a (x :: l) hn = or3 (if hn then TN else TF) (or_fold a x l).
Proof.
  intros Ha. revert x hn. induction l as [|y l IH]; intros x hn; rewrite (in_list_cons a x _ hn Ha); cbn [or_fold].
  - cbn [in_list]. destruct (cmp3 CEq a x), hn; reflexivity.
  - rewrite !IH. destruct (cmp3 CEq a x), hn, (or_fold a y l); reflexivity.
Qed.

Lemma or_fold_null x l : or_fold VNull x l = TN.
Proof. revert x. induction l as [|y l IH]; intros x; cbn [or_fold]; [reflexivity|]. rewrite IH. reflexivity. Qed.

Theorem in_as_or r a x l : eval r (In a (x :: l)) = eval r (or_chain a x l).
Proof.
  assert (H : eval r (or_chain a x l) = of_tri (to_tri (eval r (or_chain a x l)))).
  { destruct l; cbn [or_chain eval]; rewrite !to_tri_of_tri; reflexivity. }
  rewrite H, or_chain_eval. cbn [eval map].
  destruct (eval r a) eqn:Ea.
  - rewrite or_fold_null. reflexivity.
  - rewrite in_list_or_fold by discriminate. cbn. destruct (or_fold _ _ _); reflexivity.
  - rewrite in_list_or_fold by discriminate. cbn. destruct (or_fold _ _ _); reflexivity.
  - rewrite in_list_or_fold by discriminate. cbn. destruct (or_fold _ _ _); reflexivity.
Qed.

(* ---------- BETWEEN vs the pair of comparisons ---------- *)
Theorem between_as_pair r v lo hi :
  eval r (Between v lo hi) = eval r (And (Cmp CGe v lo) (Cmp CLe v hi)).
Proof.
  cbn [eval]. rewrite !to_tri_of_tri.
  rewrite (cmp3_flip CLe (eval r lo) (eval r v)), (cmp3_flip CGe (eval r hi) (eval r v)). reflexivity.
Qed.

(* ---------- constants: folding, and literals vs columns holding the same values ---------- *)
Theorem const_fold r e t : closed e = true -> eval r (Lit (eval [] e) t) = eval r e.
Proof. intros H. cbn [eval]. symmetry. apply eval_closed. exact H. Qed.

Fixpoint inline (r : row) (e : expr) : expr :=
  match e with
  | Lit _ _ => e
  | Col i t => Lit (nth i r VNull) t
  | Cmp op a b => Cmp op (inline r a) (inline r b)
  | NsEq a b => NsEq (inline r a) (inline r b)
  | Arith op a b => Arith op (inline r a) (inline r b)
  | Neg a => Neg (inline r a)
  | And a b => And (inline r a) (inline r b)
  | Or a b => Or (inline r a) (inline r b)
  | Xor a b => Xor (inline r a) (inline r b)
  | Not a => Not (inline r a)
  | IsNull a => IsNull (inline r a)
  | IsTrue i a => IsTrue i (inline r a)
  | In a l => In (inline r a) (map (inline r) l)
  | Between a b c => Between (inline r a) (inline r b) (inline r c)
  | Case a b c => Case (inline r a) (inline r b) (inline r c)
  end.

Theorem literal_vs_column r r' e : eval r' (inline r e) = eval r e.
Proof.
  induction e using expr_ind'; cbn [inline eval];
    repeat match goal with IH : eval r' (inline r ?a) = _ |- _ => rewrite IH; clear IH end; try reflexivity.
  assert (Hl : map (eval r') (map (inline r) l) = map (eval r) l).
  { induction H as [|x l Hx Hl IH]; [reflexivity|]. cbn. rewrite Hx, IH. reflexivity. }
  rewrite Hl. reflexivity.
Qed.

(* ---------- inner join: ON vs WHERE ---------- *)
Lemma is_true_and r p q : is_true (eval r (And p q)) = (is_true (eval r p) && is_true (eval r q))%bool.
Proof. cbn [eval]. unfold is_true. rewrite to_tri_of_tri. destruct (to_tri (eval r p)), (to_tri (eval r q)); reflexivity. Qed.

Lemma sigma_and p q l : sigma (And p q) l = sigma q (sigma p l).
Proof.
  unfold sigma. induction l as [|r l IH]; [reflexivity|]. cbn [filter]. rewrite is_true_and.
  destruct (is_true (eval r p)); cbn [andb filter]; [destruct (is_true (eval r q))|]; rewrite IH; reflexivity.
Qed.

(* JOIN .. ON p WHERE q  =  cross join WHERE p AND q  =  JOIN .. ON (p AND q) *)
Theorem on_vs_where_inner p q A B :
  sigma q (nlj p A B) = sigma (And p q) (cross A B) /\ nlj (And p q) A B = sigma (And p q) (cross A B).
Proof. rewrite !nlj_eq, sigma_and. split; reflexivity. Qed.

(* ---------- x IN (subquery) vs the semi-join formulation ---------- *)
Definition in_subquery (x y : expr) (R S : list row) : list row :=
  filter (fun r => is_true (eval r (In x (map (fun s => Lit (eval s y) TyNull) S)))) R.
Definition semi_join (x y : expr) (R S : list row) : list row :=
  filter (fun r => existsb (fun s => is_true (of_tri (cmp3 CEq (eval r x) (eval s y)))) S) R.

Lemma in_list_is_true a vs hn : a <> VNull ->
  is_true (of_tri (in_list a vs hn)) = existsb (fun v => is_true (of_tri (cmp3 CEq a v))) vs.
Proof.
  intros Ha. revert hn. induction vs as [|v vs IH]; intros hn.
  - cbn. destruct hn; reflexivity.
  - rewrite (in_list_cons a v vs hn Ha). cbn [existsb]. destruct (cmp3 CEq a v); cbn [orb of_tri]; try reflexivity; apply IH.
Qed.

Lemma existsb_map {X Y} (f : Y -> bool) (g : X -> Y) l : existsb f (map g l) = existsb (fun x => f (g x)) l.
Proof. induction l as [|x l IH]; [reflexivity|]. cbn. rewrite IH. reflexivity. Qed.

Theorem semi_as_in x y R S : in_subquery x y R S = semi_join x y R S.
Proof.
  unfold in_subquery, semi_join. apply filter_ext. intros r. cbn [eval].
  rewrite map_map. cbn [eval].
  destruct (eval r x) eqn:Ex.
  - cbn. symmetry. induction S as [|s S IH]; [reflexivity|]. cbn. exact IH.
  - rewrite in_list_is_true by discriminate. exact (existsb_map (fun v => is_true (of_tri (cmp3 CEq (VInt z) v))) (fun s => eval s y) S).
  - rewrite in_list_is_true by discriminate. exact (existsb_map (fun v => is_true (of_tri (cmp3 CEq (VDec m s) v))) (fun s => eval s y) S).
  - rewrite in_list_is_true by discriminate. exact (existsb_map (fun v => is_true (of_tri (cmp3 CEq (VStr b) v))) (fun s => eval s y) S).
Qed.

(* ---------- CTE / derived table vs the inlined body ---------- *)
Inductive query :=
| QTable (t : nat)
| QRef (n : nat)                          (* reference to a CTE / derived-table name *)
| QFilter (p : expr) (q : query)
| QProject (es : list expr) (q : query)
| QJoin (p : expr) (a b : query)
| QUnionAll (a b : query)
| QWith (n : nat) (body main : query).    (* WITH n AS (body) main *)

Definition upd (env : nat -> list row) (n : nat) (v : list row) : nat -> list row :=
  fun k => if Nat.eqb k n then v else env k.

Fixpoint qeval (db env : nat -> list row) (q : query) : list row :=
  match q with
  | QTable t => db t
  | QRef n => env n
  | QFilter p q => sigma p (qeval db env q)
  | QProject es q => map (fun r => map (eval r) es) (qeval db env q)
  | QJoin p a b => nlj p (qeval db env a) (qeval db env b)
  | QUnionAll a b => qeval db env a ++ qeval db env b
  | QWith n body main => qeval db (upd env n (qeval db env body)) main
  end.

(* replace every reference to n by the body (main must not itself bind names: non-nested WITH) *)
Fixpoint qsubst (n : nat) (body q : query) : query :=
  match q with
  | QTable t => q
  | QRef k => if Nat.eqb k n then body else q
  | QFilter p q' => QFilter p (qsubst n body q')
  | QProject es q' => QProject es (qsubst n body q')
  | QJoin p a b => QJoin p (qsubst n body a) (qsubst n body b)
  | QUnionAll a b => QUnionAll (qsubst n body a) (qsubst n body b)
  | QWith k b' m' => q
  end.

Fixpoint with_free (q : query) : bool :=
  match q with
  | QTable _ | QRef _ => true
  | QFilter _ q' | QProject _ q' => with_free q'
  | QJoin _ a b | QUnionAll a b => with_free a && with_free b
  | QWith _ _ _ => false
  end.

Theorem cte_inline db env n body main :
  with_free main = true ->
  qeval db env (QWith n body main) = qeval db env (qsubst n body main).
Proof.
  intros H. cbn [qeval]. induction main; cbn [with_free] in H; cbn [qsubst qeval]; try discriminate.
  - reflexivity.
  - unfold upd. destruct (Nat.eqb n0 n); reflexivity.
  - rewrite IHmain by exact H. reflexivity.
  - rewrite IHmain by exact H. reflexivity.
  - apply andb_prop in H. destruct H as [H1 H2]. rewrite IHmain1, IHmain2 by assumption. reflexivity.
  - apply andb_prop in H. destruct H as [H1 H2]. rewrite IHmain1, IHmain2 by assumption. reflexivity.
Qed.


(* the two spellings keep the same rows also after the analyzer's filter rewrites (uses C05's guarded soundness) *)
Lemma in_as_or_after_rewrite a x l q :
  Forall (fun r => bool_ok r (In a (x :: l)) = true) q -> Forall (fun r => bool_ok r (or_chain a x l) = true) q ->
  sigma (push_not (simplify (In a (x :: l)))) q = sigma (push_not (simplify (or_chain a x l))) q.
Proof.
  intros H1 H2. rewrite (rewrite_sigma _ _ H1), (rewrite_sigma _ _ H2).
  apply sigma_ext. intros r _. apply in_as_or.
Qed.
