(* C02 — theorems about the SQL definition in C02Logical.v (so that it is the right oracle). *)
From Coq Require Import List ZArith NArith Bool Lia Permutation Sorted Arith.
Import ListNotations.
From GMS Require Import Rel.C02Logical.
Open Scope Z_scope.

(* ---------- monad plumbing ---------- *)
Lemma bind_ok {A B} (x : res A) (f : A -> res B) (v : B) :
  bind x f = Ok v -> exists a, x = Ok a /\ f a = Ok v.
Proof. destruct x as [a|e]; cbn; intros H; [exists a; auto | discriminate]. Qed.

Ltac inv_bind H :=
  let a := fresh "a" in let Ha := fresh "Ha" in
  apply bind_ok in H; destruct H as [a [Ha H]].

Lemma mapM_Forall2 {A B} (f : A -> res B) l l' :
  mapM f l = Ok l' -> Forall2 (fun x y => f x = Ok y) l l'.
Proof.
  revert l'. induction l as [|x t IH]; cbn; intros l' H.
  - injection H as <-. constructor.
  - inv_bind H. inv_bind H. injection H as <-. constructor; auto.
Qed.

Lemma mapM_length {A B} (f : A -> res B) l l' : mapM f l = Ok l' -> length l' = length l.
Proof. intros H. apply mapM_Forall2 in H. induction H; cbn; congruence. Qed.

Lemma mapM_pure {A B} (f : A -> res B) (g : A -> B) l :
  (forall x, In x l -> f x = Ok (g x)) -> mapM f l = Ok (map g l).
Proof.
  induction l as [|x t IH]; cbn; intros H; [reflexivity|].
  rewrite H by auto. cbn. rewrite IH by auto. reflexivity.
Qed.

Lemma filterM_In {A} (p : A -> res bool) l l' :
  filterM p l = Ok l' -> forall x, In x l' <-> (In x l /\ p x = Ok true).
Proof.
  revert l'. induction l as [|y t IH]; cbn; intros l' H x.
  - injection H as <-. cbn. tauto.
  - inv_bind H. inv_bind H. injection H as <-. specialize (IH _ Ha0 x).
    destruct a; cbn; rewrite IH; split.
    + intros [->|[? ?]]; auto.
    + intros [[->|?] ?]; auto.
    + intros [? ?]; auto.
    + intros [[->|?] E]; auto. rewrite Ha in E. discriminate.
Qed.

Lemma filterM_pure {A} (p : A -> res bool) (g : A -> bool) l :
  (forall x, In x l -> p x = Ok (g x)) -> filterM p l = Ok (filter g l).
Proof.
  induction l as [|x t IH]; cbn; intros H; [reflexivity|].
  rewrite H by auto. cbn. rewrite IH by auto. cbn. reflexivity.
Qed.

Lemma filterM_total {A} (p : A -> res bool) l l' :
  filterM p l = Ok l' -> forall x, In x l -> exists b, p x = Ok b.
Proof.
  revert l'. induction l as [|y t IH]; cbn; intros l' H x Hx; [contradiction|].
  inv_bind H. inv_bind H. destruct Hx as [->|Hx]; eauto.
Qed.

(* ---------- three-valued logic ---------- *)
Lemma tri_of_val_of_tri t : tri_of_val (val_of_tri t) = Ok t.
Proof. destruct t; reflexivity. Qed.

Lemma cmp3_null_l o y : cmp3 o VNull y = Ok TN.
Proof. reflexivity. Qed.
Lemma cmp3_null_r o x : cmp3 o x VNull = Ok TN.
Proof. destruct x; reflexivity. Qed.

Lemma fold_or3_TF ts : fold_right or3 TF ts = TF <-> Forall (fun t => t = TF) ts.
Proof.
  induction ts as [|t ts IH]; cbn; split; intros H; auto.
  - destruct t, (fold_right or3 TF ts) eqn:E; cbn in H; try discriminate.
    constructor; [reflexivity| apply IH; reflexivity].
  - inversion H as [|? ? -> Hts]; subst. apply IH in Hts. rewrite Hts. reflexivity.
Qed.

Lemma fold_or3_TT ts : fold_right or3 TF ts = TT <-> Exists (fun t => t = TT) ts.
Proof.
  induction ts as [|t ts IH]; cbn; split; intros H.
  - discriminate.
  - inversion H.
  - destruct t; [left; reflexivity| |]; right; apply IH;
      destruct (fold_right or3 TF ts); cbn in H; try discriminate; reflexivity.
  - inversion H as [? ? ->|? ? Hts]; subst; [destruct (fold_right or3 TF ts); reflexivity|].
    apply IH in Hts. rewrite Hts. destruct t; reflexivity.
Qed.

(* IN is TRUE exactly when some element is definitely equal *)
Lemma in3_true_iff x ys t :
  in3 x ys = Ok t -> (t = TT <-> exists y, In y ys /\ cmp3 OEq x y = Ok TT).
Proof.
  unfold in3. intros H. inv_bind H. injection H as <-. apply mapM_Forall2 in Ha.
  rewrite fold_or3_TT. split.
  - intros E. induction Ha as [|y t ys ts Hy Hrest IH]; [inversion E|].
    inversion E as [? ? ->|? ? E']; subst.
    + exists y. split; [left; reflexivity|assumption].
    + destruct (IH E') as [y' [Hin Hc]]. exists y'. split; [right|]; assumption.
  - intros [y [Hin Hc]]. induction Ha as [|y0 t ys ts Hy Hrest IH]; [contradiction|].
    destruct Hin as [->|Hin].
    + left. congruence.
    + right. auto.
Qed.

(* IN is FALSE (so NOT IN is TRUE) exactly when every element is definitely different:
   the null-aware anti-join condition *)
Lemma in3_false_iff x ys t :
  in3 x ys = Ok t -> (t = TF <-> forall y, In y ys -> cmp3 OEq x y = Ok TF).
Proof.
  unfold in3. intros H. inv_bind H. injection H as <-. apply mapM_Forall2 in Ha.
  rewrite fold_or3_TF. split.
  - intros E. induction Ha as [|y t ys ts Hy Hrest IH]; intros y' Hin; [contradiction|].
    inversion E as [|? ? -> E']; subst. destruct Hin as [<-|Hin]; auto.
  - intros E. induction Ha as [|y t ys ts Hy Hrest IH]; constructor.
    + specialize (E y (or_introl eq_refl)). congruence.
    + apply IH. intros y' Hin. apply E. right. assumption.
Qed.

(* a NULL among the elements: IN is never FALSE, hence NOT IN is never TRUE *)
Lemma in3_null_elem x ys t : in3 x ys = Ok t -> In VNull ys -> t <> TF.
Proof.
  intros H Hin E. subst t. pose proof (proj1 (in3_false_iff _ _ _ H) eq_refl _ Hin) as C.
  rewrite cmp3_null_r in C. discriminate.
Qed.

(* NULL IN (non-empty list) is NULL; anything IN (empty) is FALSE *)
Lemma fold_or3_all_TN {A} (l : list A) : fold_right or3 TF (map (fun _ => TN) l) = match l with [] => TF | _ => TN end.
Proof.
  induction l as [|z zs IH]; [reflexivity|]. cbn [map fold_right]. rewrite IH. destruct zs; reflexivity.
Qed.

Lemma in3_null_lhs ys : in3 VNull ys = Ok (match ys with [] => TF | _ => TN end).
Proof.
  unfold in3. assert (E : mapM (cmp3 OEq VNull) ys = Ok (map (fun _ => TN) ys)).
  { apply mapM_pure. intros; reflexivity. }
  rewrite E. cbn [bind]. rewrite fold_or3_all_TN. reflexivity.
Qed.

Lemma in3_empty x : in3 x [] = Ok TF.
Proof. reflexivity. Qed.

(* ---------- expression-level statements ---------- *)
Lemma eval_not_in_list d en a l v :
  eval_expr d en (ENot (EIn a l)) = Ok v ->
  exists x ys t, eval_expr d en a = Ok x /\ mapM (eval_expr d en) l = Ok ys /\ in3 x ys = Ok t /\ v = val_of_tri (not3 t).
Proof.
  cbn [eval_expr]. intros H. inv_bind H. inv_bind H. injection H as <-.
  inv_bind Ha. inv_bind Ha. inv_bind Ha. injection Ha as <-.
  rewrite tri_of_val_of_tri in Ha0. injection Ha0 as <-.
  eauto 10.
Qed.

Theorem not_in_null_never_true d en a l v :
  eval_expr d en (ENot (EIn a l)) = Ok v ->
  (exists e, In e l /\ eval_expr d en e = Ok VNull) ->
  v <> VInt 1.
Proof.
  intros H [e [Hin He]]. apply eval_not_in_list in H. destruct H as (x & ys & t & Hx & Hys & Ht & ->).
  assert (Hn : In VNull ys).
  { apply mapM_Forall2 in Hys. clear -Hys Hin He. induction Hys as [|e0 y l ys H0 Hr IH]; [contradiction|].
    destruct Hin as [->|Hin]; [left; congruence|right; auto]. }
  pose proof (in3_null_elem _ _ _ Ht Hn). destruct t; cbn; congruence.
Qed.

Lemma eval_inq d en a q v :
  eval_expr d en (EInQ a q) = Ok v ->
  exists x rs ys t, eval_expr d en a = Ok x /\ eval_query d en q = Ok rs /\ mapM first_col rs = Ok ys /\
                    in3 x ys = Ok t /\ v = val_of_tri t.
Proof.
  cbn [eval_expr]. intros H. inv_bind H. inv_bind H. inv_bind H. inv_bind H. injection H as <-. eauto 10.
Qed.

Theorem not_in_subquery_null_never_true d en a q v rs r :
  eval_expr d en (ENot (EInQ a q)) = Ok v ->
  eval_query d en q = Ok rs -> In (VNull :: r) rs ->
  v <> VInt 1.
Proof.
  cbn [eval_expr]. intros H Hq Hin. inv_bind H. inv_bind H. injection H as <-.
  apply eval_inq in Ha. destruct Ha as (x & rs' & ys & t & Hx & Hq' & Hys & Ht & ->).
  rewrite Hq in Hq'. injection Hq' as <-.
  rewrite tri_of_val_of_tri in Ha0. injection Ha0 as <-.
  assert (Hn : In VNull ys).
  { apply mapM_Forall2 in Hys. clear -Hys Hin. induction Hys as [|r0 y l ys H0 Hr IH]; [contradiction|].
    destruct Hin as [->|Hin]; [left; cbn in H0; congruence|right; auto]. }
  pose proof (in3_null_elem _ _ _ Ht Hn). destruct t; cbn; congruence.
Qed.

Theorem exists_iff_nonempty d en q v :
  eval_expr d en (EExists q) = Ok v ->
  exists rs, eval_query d en q = Ok rs /\ (v = VInt 1 <-> rs <> []) /\ (v = VInt 0 <-> rs = []).
Proof.
  cbn [eval_expr]. intros H. inv_bind H. injection H as <-. exists a. split; [assumption|].
  destruct a; split; split; intros; try congruence; try discriminate.
Qed.

Theorem scalar_subquery_cardinality d en q rs :
  eval_query d en q = Ok rs ->
  eval_expr d en (EScalar q) =
    match rs with [] => Ok VNull | [r] => first_col r | _ => Err ErrCard end.
Proof. intros H. cbn [eval_expr]. rewrite H. reflexivity. Qed.

(* ---------- IN / NOT IN subquery filters are semi / null-aware anti joins ---------- *)
Definition sub_col (d : db) (en : env) (a : expr) (q : query) (rw : row) (x : val) (ys : list val) : Prop :=
  exists S, eval_expr d (rw :: en) a = Ok x /\ eval_query d (rw :: en) q = Ok S /\ mapM first_col S = Ok ys.

Theorem in_subquery_is_semijoin d en src a q proj out rows :
  eval_query d en (QSelect src (EInQ a q) proj false) = Ok out ->
  eval_query d en src = Ok rows ->
  exists kept,
    mapM (fun rw => mapM (eval_expr d (rw :: en)) proj) kept = Ok out /\
    forall rw, In rw kept <->
      (In rw rows /\ exists x ys, sub_col d en a q rw x ys /\ exists y, In y ys /\ cmp3 OEq x y = Ok TT).
Proof.
  cbn [eval_query]. intros H Hsrc. rewrite Hsrc in H. cbn [bind] in H.
  inv_bind H. inv_bind H. injection H as <-. exists a0. split; [assumption|].
  intros rw. rewrite (filterM_In _ _ _ Ha rw). split.
  - intros [Hin Hh]. split; [assumption|]. unfold holds in Hh. inv_bind Hh. inv_bind Hh.
    injection Hh as Hh. apply eval_inq in Ha1. destruct Ha1 as (x & S & ys & t & Hx & HS & Hys & Ht & ->).
    rewrite tri_of_val_of_tri in Ha2. injection Ha2 as <-.
    exists x, ys. split; [exists S; auto|]. apply (in3_true_iff _ _ _ Ht). destruct t; cbn in Hh; congruence.
  - intros [Hin (x & ys & (S & Hx & HS & Hys) & Hy)]. split; [assumption|].
    pose proof (filterM_total _ _ _ Ha rw Hin) as [b Hb]. rewrite Hb. f_equal.
    unfold holds in Hb. inv_bind Hb. inv_bind Hb. injection Hb as <-.
    apply eval_inq in Ha1. destruct Ha1 as (x' & S' & ys' & t & Hx' & HS' & Hys' & Ht & ->).
    rewrite tri_of_val_of_tri in Ha2. injection Ha2 as <-.
    rewrite Hx in Hx'. injection Hx' as <-. rewrite HS in HS'. injection HS' as <-.
    rewrite Hys in Hys'. injection Hys' as <-.
    apply (in3_true_iff _ _ _ Ht) in Hy. subst t. reflexivity.
Qed.

Theorem not_in_subquery_is_null_aware_antijoin d en src a q proj out rows :
  eval_query d en (QSelect src (ENot (EInQ a q)) proj false) = Ok out ->
  eval_query d en src = Ok rows ->
  exists kept,
    mapM (fun rw => mapM (eval_expr d (rw :: en)) proj) kept = Ok out /\
    forall rw, In rw kept <->
      (In rw rows /\ exists x ys, sub_col d en a q rw x ys /\ forall y, In y ys -> cmp3 OEq x y = Ok TF).
Proof.
  cbn [eval_query]. intros H Hsrc. rewrite Hsrc in H. cbn [bind] in H.
  inv_bind H. inv_bind H. injection H as <-. exists a0. split; [assumption|].
  assert (Hnot : forall rw b, holds (eval_expr d (rw :: en) (ENot (EInQ a q))) = Ok b ->
            exists x S ys t, eval_expr d (rw :: en) a = Ok x /\ eval_query d (rw :: en) q = Ok S /\
                             mapM first_col S = Ok ys /\ in3 x ys = Ok t /\ b = is_true (not3 t)).
  { intros rw b Hb. unfold holds in Hb. inv_bind Hb. inv_bind Hb. injection Hb as <-.
    cbn [eval_expr] in Ha1. inv_bind Ha1. inv_bind Ha1. injection Ha1 as <-.
    apply eval_inq in Ha3. destruct Ha3 as (x & S & ys & t & Hx & HS & Hys & Ht & ->).
    rewrite tri_of_val_of_tri in Ha4. injection Ha4 as <-.
    rewrite tri_of_val_of_tri in Ha2. injection Ha2 as <-. eauto 10. }
  intros rw. rewrite (filterM_In _ _ _ Ha rw). split.
  - intros [Hin Hh]. split; [assumption|]. apply Hnot in Hh.
    destruct Hh as (x & S & ys & t & Hx & HS & Hys & Ht & Hb).
    exists x, ys. split; [exists S; auto|]. apply (in3_false_iff _ _ _ Ht). destruct t; cbn in Hb; congruence.
  - intros [Hin (x & ys & (S & Hx & HS & Hys) & Hy)]. split; [assumption|].
    pose proof (filterM_total _ _ _ Ha rw Hin) as [b Hb]. rewrite Hb. f_equal.
    apply Hnot in Hb. destruct Hb as (x' & S' & ys' & t & Hx' & HS' & Hys' & Ht & ->).
    rewrite Hx in Hx'. injection Hx' as <-. rewrite HS in HS'. injection HS' as <-.
    rewrite Hys in Hys'. injection Hys' as <-.
    apply (in3_false_iff _ _ _ Ht) in Hy. subst t. reflexivity.
Qed.

(* ---------- outer joins ---------- *)
Section OuterJoin.
  Context {O I : Type}.
  Variables (onf : row -> res bool) (comb : O -> I -> row) (pad : O -> row).

  Lemma in_concat_mapM {A} (f : A -> res (list row)) l parts :
    mapM f l = Ok parts ->
    forall r, In r (concat parts) <-> exists o part, In o l /\ f o = Ok part /\ In r part.
  Proof.
    intros H. apply mapM_Forall2 in H. induction H as [|o part l parts Ho Hr IH]; intros r; cbn.
    - split; [contradiction|intros (? & ? & [] & _)].
    - rewrite in_app_iff, IH. split.
      + intros [Hin|(o' & p' & Hin & Hf & Hp)]; [exists o, part; auto|exists o', p'; auto].
      + intros (o' & p' & [<-|Hin] & Hf & Hp); [left; congruence|right; eauto].
  Qed.

  Definition oj_row (inner : list I) (o : O) : res (list row) :=
    do ms <- filterM (fun i => onf (comb o i)) inner;
    Ok (match ms with [] => [pad o] | _ => map (comb o) ms end).

  (* every output row is a matching pair, or the padding of an outer row without any match *)
  Lemma outer_join_sound outer inner rows :
    outer_join onf comb pad outer inner = Ok rows ->
    forall r, In r rows -> exists o, In o outer /\
      ((exists i, In i inner /\ onf (comb o i) = Ok true /\ r = comb o i) \/
       ((forall i, In i inner -> onf (comb o i) = Ok false) /\ r = pad o)).
  Proof.
    unfold outer_join. intros H r Hr. inv_bind H. injection H as <-.
    apply (in_concat_mapM _ _ _ Ha) in Hr. destruct Hr as (o & part & Ho & Hf & Hp).
    exists o. split; [assumption|]. inv_bind Hf. injection Hf as <-.
    destruct a0 as [|m ms] eqn:E.
    - right. destruct Hp as [<-|[]]. split; [|reflexivity]. intros i Hi.
      destruct (filterM_total _ _ _ Ha0 i Hi) as [b Hb]. destruct b; [|assumption].
      exfalso. assert (Hnil : In i []) by (apply (filterM_In _ _ _ Ha0 i); auto). contradiction.
    - left. rewrite <- E in *. apply in_map_iff in Hp. destruct Hp as (i & <- & Hi).
      apply (filterM_In _ _ _ Ha0) in Hi. destruct Hi. eauto.
  Qed.

  (* every outer row is kept: with each of its matches, or padded when it has none *)
  Lemma outer_join_complete outer inner rows :
    outer_join onf comb pad outer inner = Ok rows ->
    forall o, In o outer ->
      (forall i, In i inner -> onf (comb o i) = Ok true -> In (comb o i) rows) /\
      ((forall i, In i inner -> onf (comb o i) = Ok false) -> In (pad o) rows).
  Proof.
    unfold outer_join. intros H o Ho. inv_bind H. injection H as <-.
    pose proof (mapM_Forall2 _ _ _ Ha) as F.
    assert (exists part, (do ms <- filterM (fun i => onf (comb o i)) inner;
                          Ok (match ms with [] => [pad o] | _ => map (comb o) ms end)) = Ok part /\
                         forall r, In r part -> In r (concat a)) as (part & Hf & Hsub).
    { clear -F Ho. induction F as [|o' p l ps H0 Hr IH]; [contradiction|]. destruct Ho as [->|Ho].
      - exists p. split; [assumption|]. intros r Hr'. cbn. apply in_app_iff. auto.
      - destruct (IH Ho) as (p' & ? & Hs). exists p'. split; [assumption|]. intros r Hr'. cbn. apply in_app_iff. auto. }
    inv_bind Hf. injection Hf as <-. split.
    - intros i Hi Hon. apply Hsub. assert (Hm : In i a0) by (apply (filterM_In _ _ _ Ha0); auto).
      destruct a0 as [|m ms]; [contradiction|]. apply in_map. assumption.
    - intros Hnone. apply Hsub. destruct a0 as [|m ms]; [left; reflexivity|].
      exfalso. assert (Hm : In m (m :: ms)) by (left; reflexivity).
      apply (filterM_In _ _ _ Ha0) in Hm. destruct Hm as [Hi Ht]. rewrite (Hnone _ Hi) in Ht. discriminate.
  Qed.
End OuterJoin.

Definition on_true (d : db) (en : env) (on : expr) (rw : row) : res bool := holds (eval_expr d (rw :: en) on).

(* LEFT JOIN: every left row is kept; unmatched ones are padded with [qwidth r] NULLs *)
Theorem left_join_pads_null d en l r on L R rows :
  eval_query d en l = Ok L -> eval_query d en r = Ok R ->
  eval_query d en (QJoin JLeft l r on) = Ok rows ->
  (forall lr, In lr L ->
     (forall rr, In rr R -> on_true d en on (lr ++ rr) = Ok true -> In (lr ++ rr) rows) /\
     ((forall rr, In rr R -> on_true d en on (lr ++ rr) = Ok false) -> In (lr ++ nulls (qwidth d r)) rows)) /\
  (forall rw, In rw rows -> exists lr, In lr L /\
     ((exists rr, In rr R /\ on_true d en on (lr ++ rr) = Ok true /\ rw = lr ++ rr) \/
      ((forall rr, In rr R -> on_true d en on (lr ++ rr) = Ok false) /\ rw = lr ++ nulls (qwidth d r)))).
Proof.
  intros HL HR H. cbn [eval_query] in H. rewrite HL, HR in H. cbn [bind join_rows] in H. split.
  - intros lr Hlr. exact (outer_join_complete _ _ _ _ _ _ H lr Hlr).
  - intros rw Hrw. exact (outer_join_sound _ _ _ _ _ _ H rw Hrw).
Qed.

(* RIGHT JOIN is the mirror image: every right row is kept, the left side is padded *)
Theorem right_join_mirror d en l r on L R rows :
  eval_query d en l = Ok L -> eval_query d en r = Ok R ->
  eval_query d en (QJoin JRight l r on) = Ok rows ->
  (forall rr, In rr R ->
     (forall lr, In lr L -> on_true d en on (lr ++ rr) = Ok true -> In (lr ++ rr) rows) /\
     ((forall lr, In lr L -> on_true d en on (lr ++ rr) = Ok false) -> In (nulls (qwidth d l) ++ rr) rows)) /\
  (forall rw, In rw rows -> exists rr, In rr R /\
     ((exists lr, In lr L /\ on_true d en on (lr ++ rr) = Ok true /\ rw = lr ++ rr) \/
      ((forall lr, In lr L -> on_true d en on (lr ++ rr) = Ok false) /\ rw = nulls (qwidth d l) ++ rr))).
Proof.
  intros HL HR H. cbn [eval_query] in H. rewrite HL, HR in H. cbn [bind join_rows] in H. split.
  - intros rr Hrr. exact (outer_join_complete _ _ _ _ _ _ H rr Hrr).
  - intros rw Hrw. exact (outer_join_sound _ _ _ _ _ _ H rw Hrw).
Qed.

(* ---------- HAVING is WHERE after grouping; LIMIT/OFFSET is a slice ---------- *)
(* the rows a grouped block produces before HAVING: one row (keys ++ aggregate values) per group *)
Definition group_rows (d : db) (en : env) (src : query) (wh : expr) (keys : list expr) (aggs : list (aggfn * expr))
  : res (list row) :=
  do rows <- eval_query d en src;
  do kept <- filterM (fun rw => holds (eval_expr d (rw :: en) wh)) rows;
  do keyed <- mapM (fun rw => do k <- mapM (eval_expr d (rw :: en)) keys; Ok (k, rw)) kept;
  mapM (fun g : row * list row =>
          do avs <- mapM (fun fe : aggfn * expr =>
                            do args <- mapM (fun rw => eval_expr d (rw :: en) (snd fe)) (snd g);
                            agg (fst fe) args) aggs;
          Ok (fst g ++ avs))
       (groups_of (length keys) keyed).

(* filter, project, de-duplicate: the part of a block after its row source *)
Definition select_tail (d : db) (en : env) (cond : expr) (proj : list expr) (dist : bool) (rows : list row)
  : res (list row) :=
  do kept <- filterM (fun rw => holds (eval_expr d (rw :: en) cond)) rows;
  do out <- mapM (fun rw => mapM (eval_expr d (rw :: en)) proj) kept;
  Ok (distinct_if dist out).

Lemma select_is_tail d en src wh proj dist :
  eval_query d en (QSelect src wh proj dist) = do rows <- eval_query d en src; select_tail d en wh proj dist rows.
Proof. reflexivity. Qed.

Theorem having_is_filter_after_group d en src wh keys aggs hav proj dist :
  eval_query d en (QGroup src wh keys aggs hav proj dist) =
  do grows <- group_rows d en src wh keys aggs; select_tail d en hav proj dist grows.
Proof.
  cbn [eval_query]. unfold group_rows, select_tail.
  destruct (eval_query d en src) as [rows|e]; [|reflexivity]. cbn [bind].
  destruct (filterM _ rows) as [kept|e]; [|reflexivity]. cbn [bind].
  destruct (mapM _ kept) as [keyed|e]; [|reflexivity]. cbn [bind].
  reflexivity.
Qed.

Theorem limit_offset_slice d en q keys n off :
  eval_query d en (QOrder q keys (Some (n, off))) =
  do rows <- eval_query d en (QOrder q keys None); Ok (firstn n (skipn off rows)).
Proof.
  cbn [eval_query]. destruct (eval_query d en q) as [rows|e]; reflexivity.
Qed.

(* ORDER BY returns the same bag, sorted on the keys *)
Section SortFacts.
  Context {A : Type} (leb : A -> A -> bool).
  Hypothesis leb_total : forall a b, leb a b = false -> leb b a = true.

  Lemma insert_perm x l : Permutation (insert leb x l) (x :: l).
  Proof.
    induction l as [|y t IH]; cbn; [reflexivity|].
    destruct (leb x y); [reflexivity|]. rewrite IH. apply perm_swap.
  Qed.

  Lemma isort_perm l : Permutation (isort leb l) l.
  Proof.
    induction l as [|x t IH]; cbn; [reflexivity|]. rewrite insert_perm. constructor. assumption.
  Qed.

  Lemma insert_sorted x l :
    Sorted (fun a b => leb a b = true) l -> Sorted (fun a b => leb a b = true) (insert leb x l).
  Proof.
    induction l as [|y t IH]; cbn; intros H.
    - constructor; constructor.
    - destruct (leb x y) eqn:E.
      + constructor; [assumption|constructor; assumption].
      + inversion H as [|? ? Ht Hhd]; subst. constructor; [auto|].
        destruct t as [|z t']; cbn.
        * constructor. auto.
        * destruct (leb x z); constructor; auto. inversion Hhd; assumption.
  Qed.

  Lemma isort_sorted l : Sorted (fun a b => leb a b = true) (isort leb l).
  Proof. induction l as [|x t IH]; cbn; [constructor|apply insert_sorted; assumption]. Qed.
End SortFacts.

Lemma str_cmp_antisym a b : str_cmp b a = CompOpp (str_cmp a b).
Proof.
  revert b. induction a as [|x a IH]; intros [|y b]; cbn; try reflexivity.
  rewrite (N.compare_antisym x y). destruct (N.compare x y); cbn; auto.
Qed.

Lemma num_cmp_antisym a b : num_cmp b a = CompOpp (num_cmp a b).
Proof. destruct a as [m1 s1], b as [m2 s2]. unfold num_cmp. apply Z.compare_antisym. Qed.

Lemma val_cmp_antisym x y : val_cmp y x = CompOpp (val_cmp x y).
Proof.
  destruct x, y; cbn [val_cmp num_of CompOpp]; try reflexivity; try apply num_cmp_antisym; apply str_cmp_antisym.
Qed.

Lemma keys_cmp_antisym keys a b : keys_cmp keys b a = CompOpp (keys_cmp keys a b).
Proof.
  induction keys as [|[i desc] t IH]; cbn; [reflexivity|].
  rewrite (val_cmp_antisym (nth i a VNull) (nth i b VNull)).
  destruct desc, (val_cmp (nth i a VNull) (nth i b VNull)); cbn; auto.
Qed.

Lemma row_leb_total keys a b : row_leb keys a b = false -> row_leb keys b a = true.
Proof.
  unfold row_leb. rewrite (keys_cmp_antisym keys a b). destruct (keys_cmp keys a b); cbn; congruence.
Qed.

Theorem order_by_sorts d en q keys rows :
  eval_query d en q = Ok rows ->
  exists sorted, eval_query d en (QOrder q keys None) = Ok sorted /\
    Permutation sorted rows /\ Sorted (fun a b => row_leb keys a b = true) sorted.
Proof.
  intros H. cbn [eval_query]. rewrite H. cbn. eexists. split; [reflexivity|]. split.
  - apply isort_perm.
  - apply isort_sorted. apply row_leb_total.
Qed.

(* ---------- set operations: multiplicities ---------- *)
Section BagFacts.
  Context {A : Type} (eqb : A -> A -> bool).
  Hypothesis eqb_refl : forall a, eqb a a = true.
  Hypothesis eqb_sym : forall a b, eqb a b = eqb b a.
  Hypothesis eqb_trans : forall a b c, eqb a b = true -> eqb b c = true -> eqb a c = true.

  Lemma eqb_congr x y z : eqb x y = true -> eqb x z = eqb y z.
  Proof.
    intros H. destruct (eqb y z) eqn:E.
    - eapply eqb_trans; eauto.
    - destruct (eqb x z) eqn:E'; [|reflexivity]. rewrite eqb_sym in H.
      rewrite (eqb_trans _ _ _ H E') in E. discriminate.
  Qed.

  Notation count := (count eqb).

  Lemma count_cons x y l : count x (y :: l) = ((if eqb x y then 1 else 0) + count x l)%nat.
  Proof. unfold C02Logical.count. cbn. destruct (eqb x y); reflexivity. Qed.

  Lemma count_app x l r : count x (l ++ r) = (count x l + count x r)%nat.
  Proof. unfold C02Logical.count. rewrite filter_app, app_length. reflexivity. Qed.

  Lemma mem_cons x y l : mem eqb x (y :: l) = eqb x y || mem eqb x l.
  Proof. reflexivity. Qed.

  Lemma mem_count x l : mem eqb x l = negb (Nat.eqb (count x l) 0).
  Proof.
    induction l as [|y t IH]; [reflexivity|]. rewrite count_cons, mem_cons, IH.
    destruct (eqb x y); reflexivity.
  Qed.

  Lemma count_remove_one x y l :
    count x (remove_one eqb y l) = (count x l - (if eqb x y && mem eqb y l then 1 else 0))%nat.
  Proof.
    induction l as [|z t IH]; cbn [remove_one].
    - destruct (eqb x y); reflexivity.
    - rewrite mem_cons. destruct (eqb y z) eqn:E.
      + rewrite count_cons. cbn [orb]. rewrite andb_true_r. destruct (eqb x y) eqn:E2.
        * rewrite (eqb_congr _ _ _ E2), E. lia.
        * assert (eqb x z = false) as ->.
          { destruct (eqb x z) eqn:E3; [|reflexivity]. rewrite eqb_sym in E.
            rewrite (eqb_trans _ _ _ E3 E) in E2. discriminate. }
          lia.
      + rewrite !count_cons, IH. cbn [orb].
        destruct (eqb x y && mem eqb y t) eqn:E2; [|lia].
        apply andb_prop in E2. destruct E2 as [E2 E3]. rewrite mem_count in E3.
        assert (count x t = count y t) as Hc.
        { unfold C02Logical.count. f_equal. apply filter_ext. intros w. apply eqb_congr. assumption. }
        destruct (Nat.eqb (count y t) 0) eqn:E4; [discriminate|]. apply Nat.eqb_neq in E4.
        destruct (eqb x z); lia.
  Qed.

  Theorem union_all_adds x l r : count x (l ++ r) = (count x l + count x r)%nat.
  Proof. apply count_app. Qed.

  Theorem intersect_all_min x l r : count x (inter_all eqb l r) = Nat.min (count x l) (count x r).
  Proof.
    revert r. induction l as [|y t IH]; intros r; [reflexivity|]. cbn [inter_all].
    destruct (mem eqb y r) eqn:M.
    - rewrite !count_cons, IH, count_remove_one, M, andb_true_r.
      destruct (eqb x y) eqn:E; [|lia].
      rewrite mem_count in M. assert (count x r = count y r) as Hc.
      { unfold C02Logical.count. f_equal. apply filter_ext. intros w. apply eqb_congr. assumption. }
      destruct (Nat.eqb (count y r) 0) eqn:E4; [discriminate|]. apply Nat.eqb_neq in E4. lia.
    - rewrite IH, count_cons. destruct (eqb x y) eqn:E; [|lia].
      rewrite mem_count in M. assert (count x r = count y r) as Hc.
      { unfold C02Logical.count. f_equal. apply filter_ext. intros w. apply eqb_congr. assumption. }
      destruct (Nat.eqb (count y r) 0) eqn:E4; [|discriminate]. apply Nat.eqb_eq in E4. lia.
  Qed.

  Theorem except_all_monus x l r : count x (except_all eqb l r) = (count x l - count x r)%nat.
  Proof.
    revert r. induction l as [|y t IH]; intros r; [reflexivity|]. cbn [except_all].
    destruct (mem eqb y r) eqn:M.
    - rewrite IH, count_remove_one, M, andb_true_r, count_cons.
      destruct (eqb x y) eqn:E; [|lia].
      rewrite mem_count in M. assert (count x r = count y r) as Hc.
      { unfold C02Logical.count. f_equal. apply filter_ext. intros w. apply eqb_congr. assumption. }
      destruct (Nat.eqb (count y r) 0) eqn:E4; [discriminate|]. apply Nat.eqb_neq in E4. lia.
    - rewrite !count_cons, IH. destruct (eqb x y) eqn:E; [|lia].
      rewrite mem_count in M. assert (count x r = count y r) as Hc.
      { unfold C02Logical.count. f_equal. apply filter_ext. intros w. apply eqb_congr. assumption. }
      destruct (Nat.eqb (count y r) 0) eqn:E4; [|discriminate]. apply Nat.eqb_eq in E4. lia.
  Qed.

  Lemma count_dedup_acc x seen l :
    count x (dedup_acc eqb seen l) = if mem eqb x seen then 0%nat else if mem eqb x l then 1%nat else 0%nat.
  Proof.
    revert seen. induction l as [|y t IH]; intros seen; cbn [dedup_acc].
    - cbn. destruct (mem eqb x seen); reflexivity.
    - rewrite (mem_cons x y t). destruct (mem eqb y seen) eqn:M.
      + rewrite IH. destruct (mem eqb x seen) eqn:M2; [reflexivity|].
        destruct (eqb x y) eqn:E; [|reflexivity]. exfalso.
        assert (mem eqb x seen = mem eqb y seen) as Hm.
        { unfold mem. clear -E eqb_sym eqb_trans. induction seen as [|s ss IHs]; [reflexivity|]. cbn.
          rewrite IHs. f_equal. apply eqb_congr. assumption. }
        congruence.
      + rewrite count_cons, IH, (mem_cons x y seen).
        destruct (eqb x y) eqn:E; cbn [orb].
        * assert (mem eqb x seen = mem eqb y seen) as Hm.
          { unfold mem. clear -E eqb_sym eqb_trans. induction seen as [|s ss IHs]; [reflexivity|]. cbn.
            rewrite IHs. f_equal. apply eqb_congr. assumption. }
          rewrite Hm, M. reflexivity.
        * destruct (mem eqb x seen); reflexivity.
  Qed.

  Theorem distinct_keeps_one x l : count x (dedup eqb l) = if mem eqb x l then 1%nat else 0%nat.
  Proof. unfold dedup. rewrite count_dedup_acc. reflexivity. Qed.

  Lemma count_filter_mem x l (f : A -> bool) :
    (forall a b, eqb a b = true -> f a = f b) ->
    count x (filter f l) = if f x then count x l else 0%nat.
  Proof.
    intros Hf. induction l as [|y t IH]; cbn [filter].
    - destruct (f x); reflexivity.
    - destruct (f y) eqn:Fy.
      + rewrite !count_cons, IH. destruct (f x) eqn:Fx; [reflexivity|].
        destruct (eqb x y) eqn:E; [|reflexivity]. rewrite (Hf _ _ E) in Fx. congruence.
      + rewrite IH, count_cons. destruct (f x) eqn:Fx; [|reflexivity].
        destruct (eqb x y) eqn:E; [|reflexivity]. rewrite (Hf _ _ E) in Fx. congruence.
  Qed.

  Lemma mem_congr a b l : eqb a b = true -> mem eqb a l = mem eqb b l.
  Proof.
    intros E. unfold mem. induction l as [|s ss IHs]; [reflexivity|]. cbn. rewrite IHs. f_equal.
    apply eqb_congr. assumption.
  Qed.

  Lemma mem_filter x l (f : A -> bool) :
    (forall a b, eqb a b = true -> f a = f b) -> mem eqb x (filter f l) = f x && mem eqb x l.
  Proof.
    intros Hf. rewrite !mem_count, (count_filter_mem x l f Hf). destruct (f x); reflexivity.
  Qed.
End BagFacts.

(* row identity is an equivalence: equality of normalised rows *)
Lemma str_eqb_spec a b : str_eqb a b = true <-> a = b.
Proof.
  revert b. induction a as [|x a IH]; intros [|y b]; cbn; split; intros H; try reflexivity; try discriminate.
  - apply andb_prop in H. destruct H as [H1 H2]. apply N.eqb_eq in H1. apply IH in H2. congruence.
  - injection H as -> ->. rewrite N.eqb_refl. apply IH. reflexivity.
Qed.

Lemma val_beq_spec a b : val_beq a b = true <-> a = b.
Proof.
  destruct a, b; cbn; split; intros H; try reflexivity; try discriminate.
  - apply Z.eqb_eq in H. congruence.
  - injection H as ->. apply Z.eqb_refl.
  - apply andb_prop in H. destruct H as [H1 H2]. apply Z.eqb_eq in H1. apply Nat.eqb_eq in H2. congruence.
  - injection H as -> ->. rewrite Z.eqb_refl, Nat.eqb_refl. reflexivity.
  - apply str_eqb_spec in H. congruence.
  - injection H as ->. apply str_eqb_spec. reflexivity.
Qed.

Lemma row_beq_spec a b : row_beq a b = true <-> a = b.
Proof.
  revert b. induction a as [|x a IH]; intros [|y b]; cbn; split; intros H; try reflexivity; try discriminate.
  - apply andb_prop in H. destruct H as [H1 H2]. apply val_beq_spec in H1. apply IH in H2. congruence.
  - injection H as -> ->. apply andb_true_intro. split; [apply val_beq_spec|apply IH]; reflexivity.
Qed.

Lemma row_eqb_spec a b : row_eqb a b = true <-> nrow a = nrow b.
Proof. apply row_beq_spec. Qed.

Lemma row_eqb_refl a : row_eqb a a = true.
Proof. apply row_eqb_spec. reflexivity. Qed.
Lemma row_eqb_sym a b : row_eqb a b = row_eqb b a.
Proof.
  destruct (row_eqb a b) eqn:E1, (row_eqb b a) eqn:E2; try reflexivity.
  - apply row_eqb_spec in E1. symmetry in E1. apply row_eqb_spec in E1. congruence.
  - apply row_eqb_spec in E2. symmetry in E2. apply row_eqb_spec in E2. congruence.
Qed.
Lemma row_eqb_trans a b c : row_eqb a b = true -> row_eqb b c = true -> row_eqb a c = true.
Proof. rewrite !row_eqb_spec. congruence. Qed.

Notation rcount := (count row_eqb).

Theorem set_op_multiplicities x l r :
  rcount x (set_op SUnion true l r) = (rcount x l + rcount x r)%nat /\
  rcount x (set_op SIntersect true l r) = Nat.min (rcount x l) (rcount x r) /\
  rcount x (set_op SExcept true l r) = (rcount x l - rcount x r)%nat /\
  rcount x (set_op SUnion false l r) = (if mem row_eqb x l || mem row_eqb x r then 1 else 0)%nat /\
  rcount x (set_op SIntersect false l r) = (if mem row_eqb x l && mem row_eqb x r then 1 else 0)%nat /\
  rcount x (set_op SExcept false l r) = (if mem row_eqb x l && negb (mem row_eqb x r) then 1 else 0)%nat.
Proof.
  pose proof row_eqb_refl as R. pose proof row_eqb_sym as S. pose proof row_eqb_trans as T.
  cbn [set_op]. repeat split.
  - apply count_app.
  - apply intersect_all_min; assumption.
  - apply except_all_monus; assumption.
  - rewrite (distinct_keeps_one row_eqb S T). unfold mem. rewrite existsb_app. reflexivity.
  - rewrite (distinct_keeps_one row_eqb S T).
    rewrite (mem_filter row_eqb x l (fun y => mem row_eqb y r)).
    + rewrite andb_comm. reflexivity.
    + intros a b E. apply (mem_congr row_eqb S T). assumption.
  - rewrite (distinct_keeps_one row_eqb S T).
    rewrite (mem_filter row_eqb x l (fun y => negb (mem row_eqb y r))).
    + rewrite andb_comm. reflexivity.
    + intros a b E. f_equal. apply (mem_congr row_eqb S T). assumption.
Qed.

(* DISTINCT keeps exactly one representative of every row *)
Theorem distinct_multiplicity x rows :
  rcount x (distinct_if true rows) = (if mem row_eqb x rows then 1 else 0)%nat.
Proof. apply (distinct_keeps_one row_eqb row_eqb_sym row_eqb_trans). Qed.
