(* C46 model, part 1: range cuts (sql/range_cut.go) and single-column range expressions
   (sql/range_column_expr.go).  Keys are integers (the driver uses an Int64 column type, whose Compare is
   the integer order); NULL is its own lowest point.  Every function mirrors the Go function of the same
   name; the Go [error] results cannot occur for Int64 keys and are not modelled. *)
From Coq Require Import List ZArith Bool Lia.
Import ListNotations.
Open Scope Z_scope.

Inductive cut : Type := BelowNull | AboveNull | Below (k : Z) | Above (k : Z) | AboveAll.

(* a.Compare(b): the five Compare methods of range_cut.go, case by case *)
Definition cut_cmp (a b : cut) : comparison :=
  match a, b with
  | Above _, AboveAll => Lt
  | Above _, AboveNull => Gt
  | Above x, Above y => x ?= y
  | Above x, Below y => match x ?= y with Lt => Lt | _ => Gt end
  | Above _, BelowNull => Gt
  | AboveAll, AboveAll => Eq
  | AboveAll, _ => Gt
  | Below _, AboveAll => Lt
  | Below _, AboveNull => Gt
  | Below x, Below y => x ?= y
  | Below x, Above y => match y ?= x with Lt => Gt | _ => Lt end
  | Below _, BelowNull => Gt
  | AboveNull, AboveNull => Eq
  | AboveNull, BelowNull => Gt
  | AboveNull, _ => Lt
  | BelowNull, BelowNull => Eq
  | BelowNull, _ => Lt
  end.

Definition cmp_le (c : comparison) : bool := match c with Gt => false | _ => true end.   (* comp <= 0 *)
Definition cmp_lt (c : comparison) : bool := match c with Lt => true | _ => false end.   (* comp < 0 *)
Definition cmp_ge (c : comparison) : bool := match c with Lt => false | _ => true end.   (* comp >= 0 *)
Definition cmp_eq (c : comparison) : bool := match c with Eq => true | _ => false end.
Definition cmp_gt (c : comparison) : bool := match c with Gt => true | _ => false end.

(* GetMySQLRangeCutMax(a, b) / GetMySQLRangeCutMin(a, b) for two non-nil cuts *)
Definition cut_max (a b : cut) : cut := if cmp_lt (cut_cmp a b) then b else a.
Definition cut_min (a b : cut) : cut := if cmp_gt (cut_cmp a b) then b else a.
(* OrderedCuts(l, r) *)
Definition ordered_cuts (l r : cut) : cut * cut := if cmp_le (cut_cmp l r) then (l, r) else (r, l).

(* keys: None is NULL *)
Definition key := option Z.

(* [below c v]: the cut lies below the value (the value is on the upper side of the cut) *)
Definition below (c : cut) (v : key) : bool :=
  match c, v with
  | BelowNull, _ => true
  | AboveNull, None => false
  | AboveNull, Some _ => true
  | Below k, Some x => k <=? x
  | Above k, Some x => k <? x
  | AboveAll, _ => false
  | _, None => false
  end.

(* ---- single-column range expressions ---- *)
Record rce : Type := mkR { lo : cut; hi : cut }.

Definition contains (r : rce) (v : key) : bool := below (lo r) v && negb (below (hi r) v).

Definition empty_rce : rce := mkR AboveAll AboveAll.
Definition all_rce : rce := mkR BelowNull AboveAll.
Definition null_rce : rce := mkR BelowNull AboveNull.
Definition notnull_rce : rce := mkR AboveNull AboveAll.
Definition open_rce (l u : Z) := mkR (Above l) (Below u).
Definition closed_rce (l u : Z) := mkR (Below l) (Above u).
Definition lt_rce (u : Z) := mkR AboveNull (Below u).
Definition le_rce (u : Z) := mkR AboveNull (Above u).
Definition gt_rce (l : Z) := mkR (Above l) AboveAll.
Definition ge_rce (l : Z) := mkR (Below l) AboveAll.

Definition rce_equals (r o : rce) : bool :=
  cmp_eq (cut_cmp (lo r) (lo o)) && cmp_eq (cut_cmp (hi r) (hi o)).
Definition is_empty (r : rce) : bool := cmp_ge (cut_cmp (lo r) (hi r)).
Definition is_connected (r o : rce) : bool :=
  if cmp_gt (cut_cmp (lo r) (hi o)) then false else cmp_le (cut_cmp (lo o) (hi r)).
Definition overlaps (r o : rce) : rce * bool :=
  if cmp_ge (cut_cmp (lo r) (hi o)) then (empty_rce, false)
  else if cmp_ge (cut_cmp (lo o) (hi r)) then (empty_rce, false)
  else (mkR (cut_max (lo r) (lo o)) (cut_min (hi r) (hi o)), true).

Definition subtract (r o : rce) : list rce :=
  if negb (snd (overlaps r o)) then [r] else
  match cut_cmp (lo r) (lo o), cut_cmp (hi r) (hi o) with
  | Lt, Lt => [mkR (lo r) (lo o)]
  | Lt, Eq => [mkR (lo r) (lo o)]
  | Lt, Gt => [mkR (lo r) (lo o); mkR (hi o) (hi r)]
  | Eq, Lt => []
  | Eq, Eq => []
  | Eq, Gt => [mkR (hi o) (hi r)]
  | Gt, Lt => []
  | Gt, Eq => []
  | Gt, Gt => [mkR (hi o) (hi r)]
  end.

Definition is_subset_of (r o : rce) : bool :=
  if cmp_lt (cut_cmp (lo r) (lo o)) then false
  else if cmp_gt (cut_cmp (hi r) (hi o)) then false else true.
Definition is_superset_of (r o : rce) : bool := is_subset_of o r.

Definition try_intersect (r o : rce) : rce * bool :=
  let l := snd (ordered_cuts (lo r) (lo o)) in
  let u := fst (ordered_cuts (hi r) (hi o)) in
  if cmp_lt (cut_cmp l u) then (mkR l u, true) else (empty_rce, false).

(* TryUnion: None models (zero value, false) *)
Definition try_union (r o : rce) : option rce :=
  if is_empty o then Some r
  else if is_empty r then Some o
  else if negb (is_connected r o) then None
  else Some (mkR (fst (ordered_cuts (lo r) (lo o))) (snd (ordered_cuts (hi r) (hi o)))).

(* RangeType enumeration, by its iota value *)
Definition rtype (r : rce) : N :=
  match lo r, hi r with
  | Above _, Above _ => 9 | Above _, AboveAll => 3 | Above _, Below _ => 8
  | AboveAll, AboveAll => 1
  | Below _, Above _ => 7 | Below _, AboveAll => 4 | Below _, Below _ => 10
  | AboveNull, Above _ => 9 | AboveNull, AboveAll => 3 | AboveNull, Below _ => 8 | AboveNull, AboveNull => 1
  | BelowNull, Above _ => 6 | BelowNull, AboveAll => 2 | BelowNull, Below _ => 5
  | BelowNull, AboveNull => 11 | BelowNull, BelowNull => 1
  | _, _ => 0
  end%N.

(* rangeColumnExprSlice.Less and sort.Sort: the order is total and ties are identical elements, so
   any sorting algorithm yields the same list; insertion sort here *)
Definition rce_less (a b : rce) : bool :=
  match cut_cmp (lo a) (lo b) with
  | Lt => true | Gt => false
  | Eq => cmp_lt (cut_cmp (hi a) (hi b))
  end.
Fixpoint rce_insert (x : rce) (l : list rce) : list rce :=
  match l with
  | [] => [x]
  | y :: l' => if rce_less y x then y :: rce_insert x l' else x :: l
  end.
Definition rce_sort (l : list rce) : list rce := fold_right rce_insert [] l.

(* the loop of SimplifyRangeColumn over the sorted slice: (res reversed, cur) *)
Definition simplify_step (st : list rce * rce) (r : rce) : list rce * rce :=
  let '(res, cur) := st in
  match try_union cur r with
  | Some m => (res, m)
  | None => if negb (is_empty cur) then (cur :: res, r) else (res, cur)
  end.
Definition simplify_range_column (rces : list rce) : list rce :=
  match rces with
  | [] => []
  | _ =>
    let '(res, cur) := fold_left simplify_step (rce_sort rces) ([], empty_rce) in
    rev (if negb (is_empty cur) then cur :: res else res)
  end.
