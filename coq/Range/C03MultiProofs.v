(* C03 proofs, part 2: completeness and precision of the builder's ranges for conjunctions over k index columns
   with In / NotIn, and for disjunctions of such conjunctions after RemoveOverlappingRanges. *)
From Coq Require Import List ZArith Bool Lia PeanoNat.
Import ListNotations.
From GMS Require Import Range.Cut Range.CutProofs Range.MRange Range.MRangeProofs
  Range.C03IndexBuilder Range.C03IndexBuilderProofs Range.C03Multi.
Open Scope nat_scope.

Fixpoint cols_has (cols : list (list rce)) (t : tuple) : bool :=
  match cols, t with
  | [], [] => true
  | c :: cs, v :: t' => lookup_has c v && cols_has cs t'
  | _, _ => false
  end.

Lemma existsb_flat_map {A B} (f : B -> bool) (g : A -> list B) l :
  existsb f (flat_map g l) = existsb (fun x => existsb f (g x)) l.
Proof. induction l as [|x l IH]; cbn; [reflexivity|]. rewrite existsb_app, IH. reflexivity. Qed.
Lemma existsb_map' {A B} (f : B -> bool) (g : A -> B) l : existsb f (map g l) = existsb (fun x => f (g x)) l.
Proof. induction l as [|x l IH]; cbn; [reflexivity|]. rewrite IH. reflexivity. Qed.
Lemma existsb_ext' {A} (f g : A -> bool) l : (forall x, f x = g x) -> existsb f l = existsb g l.
Proof. intros H. induction l as [|x l IH]; cbn; [reflexivity|]. rewrite H, IH. reflexivity. Qed.
Lemma existsb_andb_l {A} (b : bool) (f : A -> bool) l : existsb (fun x => b && f x) l = b && existsb f l.
Proof. induction l as [|x l IH]; cbn; [rewrite andb_false_r; reflexivity|]. rewrite IH. destruct b, (f x); reflexivity. Qed.
Lemma existsb_andb_r {A} (b : bool) (f : A -> bool) l : existsb (fun x => f x && b) l = existsb f l && b.
Proof. induction l as [|x l IH]; cbn; [reflexivity|]. rewrite IH. destruct b, (f x), (existsb f l); reflexivity. Qed.

Lemma product_exact cols t : ucontains (product cols) t = cols_has cols t.
Proof.
  revert t. induction cols as [|c cs IH]; intros t; cbn [product cols_has].
  - destruct t; reflexivity.
  - unfold ucontains. rewrite existsb_flat_map. destruct t as [|v t'].
    + transitivity (existsb (fun _ : range => false) (product cs)).
      * apply existsb_ext'. intros tail. rewrite existsb_map'. clear. induction c; cbn; auto.
      * clear. induction (product cs); cbn; auto.
    + rewrite <- IH. unfold ucontains, lookup_has.
      rewrite <- existsb_andb_l. apply existsb_ext'. intros tail. rewrite existsb_map'. cbn [rcontains].
      apply existsb_andb_r.
Qed.
Lemma rotate_ranges_exact l t : ucontains (rotate_ranges l) t = ucontains l t.
Proof. destruct l as [|h tl]; [reflexivity|]. cbn [rotate_ranges]. rewrite ucontains_app. cbn. rewrite orb_false_r. apply orb_comm. Qed.
Lemma filter_nonempty_exact l t : t <> [] -> ucontains (filter (fun r => negb (r_is_empty r)) l) t = ucontains l t.
Proof.
  intros NE. induction l as [|r l IH]; cbn; [reflexivity|]. destruct (r_is_empty r) eqn:E; cbn.
  - rewrite (r_is_empty_sound r t NE E). exact IH.
  - unfold ucontains in IH. rewrite IH. reflexivity.
Qed.
Lemma empty_row_has_nothing (cols : list (list rce)) t : cols <> [] -> rcontains (map (fun _ => empty_rce) cols) t = false.
Proof. destruct cols; [congruence|]. intros _. destruct t; reflexivity. Qed.
Lemma cols_has_length cols t : cols_has cols t = true -> length cols = length t.
Proof. revert t. induction cols as [|c cs IH]; intros [|v t]; cbn; try discriminate; auto. intros H. apply andb_prop in H. f_equal. apply IH. tauto. Qed.

Lemma mresult_exact cols inv t : t <> [] -> length cols = length t ->
  ucontains (mresult (cols, inv)) t = if inv then false else cols_has cols t.
Proof.
  intros NE L. assert (NC : cols <> []) by (destruct cols, t; cbn in *; congruence).
  unfold mresult. destruct inv.
  - cbn. rewrite (empty_row_has_nothing cols t NC). reflexivity.
  - pose proof (filter_nonempty_exact (rotate_ranges (product cols)) t NE) as F.
    rewrite rotate_ranges_exact, product_exact in F.
    destruct (filter _ (rotate_ranges (product cols))); [|exact F]. cbn in F. rewrite <- F. cbn.
    rewrite (empty_row_has_nothing cols t NC). reflexivity.
Qed.

(* ---- one column at a time ---- *)
Lemma lookup_all v : lookup_has [all_rce] v = true.
Proof. reflexivity. Qed.
Lemma cols_has_set c new cols t : c < length cols ->
  cols_has (set_nth c new cols) t = lookup_has new (nth c t None) && cols_has (set_nth c [all_rce] cols) t.
Proof.
  revert c t. induction cols as [|x cols IH]; intros c t L; cbn in L; [lia|].
  destruct c as [|c]; destruct t as [|v t]; cbn [set_nth cols_has nth]; try (symmetry; apply andb_false_r).
  - rewrite lookup_all. reflexivity.
  - rewrite (IH c t) by lia. destruct (lookup_has x v), (lookup_has new (nth c t None)); reflexivity.
Qed.
Lemma cols_has_nth c cols t : c < length cols ->
  cols_has cols t = lookup_has (nth c cols []) (nth c t None) && cols_has (set_nth c [all_rce] cols) t.
Proof.
  revert c t. induction cols as [|x cols IH]; intros c t L; cbn in L; [lia|].
  destruct c as [|c]; destruct t as [|v t]; cbn [set_nth cols_has nth]; try (symmetry; apply andb_false_r).
  - rewrite lookup_all. reflexivity.
  - rewrite (IH c t) by lia. destruct (lookup_has x v), (lookup_has (nth c cols []) (nth c t None)); reflexivity.
Qed.
Lemma set_nth_length {A} c (x : A) l : length (set_nth c x l) = length l.
Proof. revert c. induction l; intros [|c]; cbn; auto. Qed.

(* what a per-column step must satisfy: it narrows the column by the predicate p, or reports invalid when
   nothing of the column satisfies p *)
Definition col_spec (f : list rce -> bstate) (p : key -> bool) : Prop :=
  forall cur v, in_i32 v ->
    (snd (f cur) = false -> lookup_has (fst (f cur)) v = lookup_has cur v && p v) /\
    (snd (f cur) = true -> lookup_has cur v && p v = false).

Lemma op_spec o : col_spec (fun cur => apply_op (cur, false) o) (op_true o).
Proof.
  intros cur v R. destruct (apply_op_inv v (cur, false) o R) as [_ [A B]]. cbn [fst snd] in *. split; auto.
Qed.
Lemma potential_in_exact ls v : in_i32 v -> lookup_has (potential_in ls) v = existsb (fun l => op_true (OEq l) v) ls.
Proof.
  intros R. unfold potential_in, lookup_has. rewrite existsb_flat_map. apply existsb_ext'. intros l.
  exact (potential_exact (OEq l) v R).
Qed.
Lemma in_spec ls : ls <> [] -> col_spec (in_step ls) (fun v => existsb (fun l => op_true (OEq l) v) ls).
Proof.
  intros NE cur v R. unfold in_step. destruct ls as [|l0 ls']; [congruence|]. set (ls := l0 :: ls') in *.
  pose proof (update_col_exact cur (potential_in ls) v) as U. rewrite (potential_in_exact ls v R) in U.
  destruct (update_col cur (potential_in ls)); cbn [fst snd]; split; intros; try discriminate; auto.
Qed.

Section OneTuple.
Variable t : tuple.
Hypothesis t_ok : Forall in_i32 t.
Let k := length t.

Lemma nth_in_i32 c : in_i32 (nth c t None).
Proof.
  destruct (Nat.lt_ge_cases c (length t)) as [L|L].
  - rewrite Forall_forall in t_ok. apply t_ok. apply nth_In. exact L.
  - rewrite nth_overflow by exact L. exact I.
Qed.

(* the state agrees with the boolean b = "all calls so far are TRUE of t" *)
Definition good (st : mstate) (b : bool) : Prop :=
  length (fst st) = k /\ (snd st = false -> cols_has (fst st) t = b) /\ (snd st = true -> b = false).

Lemma apply_col_good st b c f p : c < k -> col_spec f p -> good st b -> good (apply_col st c f) (b && p (nth c t None)).
Proof.
  intros Lc SP [Ln [G1 G2]]. destruct st as [cols inv]. cbn [fst snd] in *. unfold apply_col. destruct inv.
  - rewrite (G2 eq_refl). repeat split; cbn [fst snd andb]; auto; intros; discriminate.
  - specialize (G1 eq_refl). destruct (SP (nth c cols []) (nth c t None) (nth_in_i32 c)) as [S1 S2].
    destruct (f (nth c cols [])) as [cur' inv'] eqn:E. cbn [fst snd] in *.
    assert (Lc' : c < length cols) by lia.
    repeat split; cbn [fst snd].
    + rewrite set_nth_length. exact Ln.
    + intros ->. rewrite (cols_has_set c cur' cols t Lc'), (S1 eq_refl), <- G1, (cols_has_nth c cols t Lc').
      set (A := lookup_has (nth c cols []) (nth c t None)). set (X := cols_has (set_nth c [all_rce] cols) t).
      set (P := p (nth c t None)). destruct A, X, P; reflexivity.
    + intros ->. rewrite <- G1, (cols_has_nth c cols t Lc'). specialize (S2 eq_refl). revert S2.
      set (A := lookup_has (nth c cols []) (nth c t None)). set (X := cols_has (set_nth c [all_rce] cols) t).
      set (P := p (nth c t None)). destruct A, X, P; cbn; congruence.
Qed.

Definition wf_bop (b : bop) : Prop :=
  bop_col b < k /\ match b with BIn _ ls => ls <> [] | _ => True end.

Lemma apply_bop_good st b o : wf_bop o -> good st b -> good (apply_bop st o) (b && bop_true o t).
Proof.
  intros [Lc W] G. destruct o as [c o|c ls|c ls]; cbn [apply_bop bop_true bop_col] in *.
  - apply apply_col_good; auto. apply op_spec.
  - apply (apply_col_good st b c (in_step ls) (fun v => existsb (fun l => op_true (OEq l) v) ls)); auto. apply in_spec. exact W.
  - revert st b G. induction ls as [|l ls IH]; intros st b G; cbn [fold_left forallb].
    + rewrite andb_true_r. exact G.
    + rewrite andb_assoc. apply IH.
      apply (apply_col_good st b c (fun cur => apply_op (cur, false) (ONe l)) (op_true (ONe l))); auto. apply op_spec.
Qed.
Lemma fold_good ops : Forall wf_bop ops -> forall st b, good st b -> good (fold_left apply_bop ops st) (b && conj_true ops t).
Proof.
  induction 1 as [|o ops W F IH]; intros st b G; cbn [fold_left conj_true forallb].
  - rewrite andb_true_r. exact G.
  - fold (conj_true ops t). rewrite andb_assoc. apply IH. apply apply_bop_good; assumption.
Qed.
Lemma init_good : good (minit k) true.
Proof.
  unfold minit, good. cbn [fst snd]. split; [apply repeat_length|]. split; [|discriminate]. intros _.
  unfold k. clear. induction t as [|v t' IH]; cbn; [reflexivity|]. rewrite IH. reflexivity.
Qed.

(* completeness and precision for a conjunction of calls over the k columns *)
Theorem mlookup_exact ops : t <> [] -> Forall wf_bop ops ->
  ucontains (mresult (mrun k ops)) t = conj_true ops t.
Proof.
  intros NE W. destruct (fold_good ops W (minit k) true init_good) as [Ln [G1 G2]]. cbn [andb] in *.
  unfold mrun. destruct (fold_left apply_bop ops (minit k)) as [cols inv]. cbn [fst snd] in *.
  rewrite (mresult_exact cols inv t NE Ln). destruct inv; [symmetry; auto|auto].
Qed.

Lemma or_ranges_exact fs : t <> [] -> Forall (Forall wf_bop) fs -> ucontains (or_ranges k fs) t = or_true fs t.
Proof.
  intros NE W. unfold or_ranges, or_true, ucontains. rewrite existsb_flat_map.
  induction W as [|ops fs' Wo Wf IH]; cbn [existsb]; [reflexivity|]. rewrite IH.
  fold (ucontains (mresult (mrun k ops)) t). rewrite (mlookup_exact ops NE Wo). reflexivity.
Qed.
(* ... and for a disjunction of conjunctions: the children's collections are concatenated and the result goes
   through RemoveOverlappingRanges (any step bound, any admissible FindConnections observations) *)
Theorem or_lookup_exact fs fuel finds out c : t <> [] -> Forall (Forall wf_bop) fs ->
  remove_overlapping_ranges fuel finds (or_ranges k fs) = (ROk out, c) ->
  ucontains out t = or_true fs t.
Proof.
  intros NE W H. destruct (remove_overlapping_ranges_exact _ _ _ _ _ t NE H) as [E _]. rewrite E.
  apply or_ranges_exact; assumption.
Qed.
End OneTuple.

(* ---- the fast path of a lone IN filter ---- *)
Lemma zinsert_in z x l : In z (zinsert x l) <-> z = x \/ In z l.
Proof.
  induction l as [|y l IH]; cbn; [intuition congruence|]. destruct (Z.ltb x y); cbn; [intuition congruence|].
  destruct (Z.eqb_spec x y) as [->|N]; cbn; [intuition congruence|]. rewrite IH. intuition congruence.
Qed.
Lemma zsort_in z l : In z (zsort_dedupe l) <-> In z l.
Proof. induction l as [|x l IH]; cbn; [tauto|]. rewrite zinsert_in, IH. intuition congruence. Qed.
Lemma existsb_same_elements {A} (f : A -> bool) l l' : (forall z, In z l <-> In z l') -> existsb f l = existsb f l'.
Proof.
  intros H. destruct (existsb f l) eqn:E.
  - apply existsb_exists in E. destruct E as [z [I F]]. symmetry. apply existsb_exists. exists z. split; [apply H; exact I|exact F].
  - destruct (existsb f l') eqn:E'; [|reflexivity]. apply existsb_exists in E'. destruct E' as [z [I F]].
    rewrite <- E. apply existsb_exists. exists z. split; [apply H; exact I|exact F].
Qed.
Definition lit_keys (l : lit) : list Z :=
  if lit_integral l then match conv (lit_floor l) with (z, InRange) => [z] | _ => [] end else [].
Lemma potential_eq_keys l v : lookup_has (potential (OEq l)) v = existsb (fun z => contains (closed_rce z z) v) (lit_keys l).
Proof.
  unfold potential, lit_keys. destruct (lit_integral l); cbn [negb]; [|reflexivity].
  destruct (conv (lit_floor l)) as [z r]. destruct r; reflexivity.
Qed.
Lemma in_fast_keys_exact ls v : in_i32 v ->
  existsb (fun z => contains (closed_rce z z) v) (zsort_dedupe (in_fast_keys ls)) = existsb (fun l => op_true (OEq l) v) ls.
Proof.
  intros R. rewrite (existsb_same_elements _ _ (in_fast_keys ls)) by (intros z; apply zsort_in).
  unfold in_fast_keys. rewrite existsb_flat_map. apply existsb_ext'. intros l.
  fold (lit_keys l). rewrite <- potential_eq_keys. apply potential_exact. exact R.
Qed.
Theorem in_fast_exact ls rs v : in_i32 v -> in_fast ls = Some rs ->
  ucontains rs [v] = existsb (fun l => op_true (OEq l) v) ls.
Proof.
  intros R. unfold in_fast. rewrite <- (in_fast_keys_exact ls v R).
  destruct (zsort_dedupe (in_fast_keys ls)) as [|k ks]; [discriminate|]. intros [= <-].
  unfold ucontains. change ([closed_rce k k] :: map (fun z : Z => [closed_rce z z]) ks) with (map (fun z : Z => [closed_rce z z]) (k :: ks)).
  rewrite existsb_map'. apply existsb_ext'. intros z. cbn [rcontains]. apply andb_true_r.
Qed.
(* nil comes back exactly when the list can match no column value at all — and nil, unlike the empty range, is not
   read as "no rows" by the callers (finding: all rows through a primary key, a nil dereference through a secondary key) *)
Theorem in_fast_nil_iff ls : in_fast ls = None <-> forall v, in_i32 v -> existsb (fun l => op_true (OEq l) v) ls = false.
Proof.
  unfold in_fast. split.
  - destruct (zsort_dedupe (in_fast_keys ls)) eqn:E; [|discriminate]. intros _ v R.
    rewrite <- (in_fast_keys_exact ls v R), E. reflexivity.
  - intros H. destruct (zsort_dedupe (in_fast_keys ls)) as [|k ks] eqn:E; [reflexivity|exfalso].
    assert (Ik : In k (in_fast_keys ls)) by (apply zsort_in; rewrite E; left; reflexivity).
    assert (R : in_i32 (Some k)).
    { unfold in_fast_keys in Ik. apply in_flat_map in Ik. destruct Ik as [l [_ Il]].
      destruct (lit_integral l); [|destruct Il]. unfold conv in Il.
      destruct (Z.gtb_spec (lit_floor l) i32max); [destruct Il|]. destruct (Z.ltb_spec (lit_floor l) i32min); [destruct Il|].
      destruct Il as [<-|[]]. cbn. lia. }
    specialize (H (Some k) R). rewrite <- (in_fast_keys_exact ls (Some k) R), E in H. cbn in H.
    unfold contains, closed_rce in H. cbn in H. rewrite Z.leb_refl, Z.ltb_irrefl in H. discriminate.
Qed.
