(* C46 proofs, part 3: pairwise disjointness of RemoveOverlap's output; well-formedness (no empty column) is
   preserved; under complete FindConnections observations RemoveOverlappingRanges never reports
   "overlapping ranges". *)
From Coq Require Import List ZArith Bool Lia PeanoNat.
Import ListNotations.
From GMS Require Import Range.Cut Range.CutProofs Range.MRange Range.MRangeProofs.
Open Scope nat_scope.

(* ---------- pairwise disjointness of lists ---------- *)
Lemma disjoint_sym p q : disjoint p q -> disjoint q p.
Proof. intros H t. rewrite andb_comm. apply H. Qed.
Lemma pd_app xs ys : pairwise_disjoint xs -> pairwise_disjoint ys ->
  (forall x y, In x xs -> In y ys -> disjoint x y) -> pairwise_disjoint (xs ++ ys).
Proof.
  induction xs as [|x xs IH]; intros Hx Hy Hxy; cbn; [exact Hy|]. inversion Hx as [|? ? F P]; subst.
  constructor.
  - apply Forall_app. split; [exact F|]. apply Forall_forall. intros y Iy. apply Hxy; [left; reflexivity|exact Iy].
  - apply IH; auto. intros x' y Ix Iy. apply Hxy; [right; exact Ix|exact Iy].
Qed.

Lemma overlaps_nonempty x y : is_empty x = false -> is_empty y = false -> snd (overlaps x y) = true ->
  is_empty (fst (overlaps x y)) = false.
Proof.
  destruct x as [l u], y as [l' u']. unfold is_empty, overlaps, cut_max, cut_min, cmp_ge, cmp_lt, cmp_gt. cbn [lo hi].
  cut_case l u; try discriminate; intros _; cut_case l' u'; try discriminate; intros _;
  cut_case l u'; cbn [fst snd]; try discriminate; cut_case l' u; cbn [fst snd]; try discriminate; intros _;
  cut_case l l'; cut_case u u'; cbn [lo hi];
  match goal with |- context [cut_cmp ?a ?b] => cut_case a b end; try reflexivity; cut_lia.
Qed.
(* every piece of a subtraction is non-empty at the cut level *)
Lemma subtract_pieces_nonempty r o p : is_empty r = false -> In p (subtract r o) -> is_empty p = false.
Proof.
  destruct r as [l u], o as [l' u']. unfold subtract, overlaps, is_empty, cmp_ge. cbn [lo hi].
  intros NE. cut_case l u'; cbn [snd negb]; try (intros [<-|[]]; exact NE);
  (cut_case l' u; cbn [snd negb]; try (intros [<-|[]]; exact NE));
  cut_case l l'; cut_case u u'; cbn [In]; intros H; repeat (destruct H as [<-|H]); try contradiction; cbn [lo hi];
  match goal with |- context [cut_cmp ?a ?b] => cut_case a b end; try reflexivity; cut_lia.
Qed.
Lemma subtract_piece_sound r o p v : In p (subtract r o) -> contains p v = true ->
  contains r v = true /\ contains o v = false.
Proof.
  intros I C. pose proof (subtract_exact r o v) as E.
  assert (X : existsb (fun p => contains p v) (subtract r o) = true) by (apply existsb_exists; eauto).
  rewrite X in E. symmetry in E. apply andb_prop in E. destruct E as [E1 E2]. split; [exact E1|].
  destruct (contains o v); [discriminate|reflexivity].
Qed.

Lemma no_empty_nth a i : i < length a -> no_empty_col a = true -> is_empty (nth i a empty_rce) = false.
Proof.
  unfold no_empty_col. intros L H. rewrite forallb_forall in H. specialize (H (nth i a empty_rce) (nth_In _ _ L)).
  destruct (is_empty _); [discriminate|reflexivity].
Qed.
Lemma no_empty_replace a i c : is_empty c = false -> no_empty_col a = true -> no_empty_col (replace i c a) = true.
Proof.
  unfold no_empty_col. revert i. induction a as [|x a IH]; intros i Hc H; [destruct i; reflexivity|].
  cbn in H. apply andb_prop in H. destruct H as [H1 H2]. destruct i; cbn.
  - rewrite Hc, H2. reflexivity.
  - rewrite H1. cbn. apply IH; assumption.
Qed.

Lemma pieces_disjoint i a pcs : i < length a ->
  (forall p q v, In p pcs -> In q pcs -> p <> q -> contains p v && contains q v = false) -> NoDup pcs ->
  pairwise_disjoint (map (fun c => replace i c a) pcs).
Proof.
  intros L H ND. induction pcs as [|p pcs IH]; cbn; constructor.
  - apply Forall_forall. intros r Ir. apply in_map_iff in Ir. destruct Ir as [q [<- Iq]]. intros t.
    rewrite (rcontains_replace i p a t L), (rcontains_replace i q a t L).
    inversion ND; subst. assert (p <> q) by (intros ->; contradiction).
    pose proof (H p q (nth i t None) (or_introl eq_refl) (or_intror Iq) H0) as D.
    destruct (contains p _), (contains q _), (rcontains _ t); cbn in *; congruence.
  - inversion ND; subst. apply IH; auto. intros. apply H; auto; right; assumption.
Qed.
Lemma subtract_nodup_disjoint r o : is_empty o = false ->
  NoDup (subtract r o) /\ forall p q v, In p (subtract r o) -> In q (subtract r o) -> p <> q -> contains p v && contains q v = false.
Proof.
  intros NE. pose proof (subtract_length r o) as L. destruct (subtract r o) as [|p [|q [|z l]]] eqn:E; cbn in L; try lia.
  - split; [constructor|intros ? ? ? []].
  - split; [repeat constructor; intros []|]. intros p' q' v [<-|[]] [<-|[]] N. congruence.
  - pose proof (fun v => subtract_disjoint r o p q v NE E) as D. split.
    + clear D L. revert E. destruct r as [l u], o as [l' u']. unfold subtract, overlaps, cmp_ge. cbn [lo hi].
      cut_case l u'; cbn [snd negb]; try discriminate; cut_case l' u; cbn [snd negb]; try discriminate;
      cut_case l l'; cut_case u u'; try discriminate; intros [= <- <-];
      apply NoDup_cons; try (apply NoDup_cons; [intros []|apply NoDup_nil]); intros [[= -> ->]|[]]; cut_lia.
    + intros p' q' v [<-|[<-|[]]] [<-|[<-|[]]] N; try congruence; try (apply D); rewrite andb_comm; apply D.
Qed.

Theorem remove_overlap_disjoint fuel : forall a b out ok, no_empty_col a = true -> no_empty_col b = true ->
  remove_overlap fuel a b = Some (out, ok) -> pairwise_disjoint out.
Proof.
  induction fuel as [|f IH]; intros a b out ok Ga Gb; cbn [remove_overlap]; [discriminate|].
  destruct (try_merge a b) as [m|] eqn:M.
  - intros [= <- <-]. repeat constructor.
  - destruct (r_overlaps a b) eqn:O; cbn [negb].
    2:{ intros [= <- <-]. constructor; [|repeat constructor]. constructor; [|constructor].
        intros t. apply r_overlaps_false. exact O. }
    destruct (first_diff a b) as [i|] eqn:F; [|intros [= <- <-]; constructor].
    destruct (first_diff_some a b i F) as [La Lb].
    set (x := nth i a empty_rce). set (y := nth i b empty_rce). set (ov := fst (overlaps x y)).
    destruct (remove_overlap f (replace i ov a) (replace i ov b)) as [[rs ok']|] eqn:R; try discriminate.
    intros [= <- <-].
    pose proof (r_overlaps_nth a b i O La) as OV. fold x y in OV.
    assert (NEx : is_empty x = false) by (apply no_empty_nth; assumption).
    assert (NEy : is_empty y = false) by (apply no_empty_nth; assumption).
    assert (NEo : is_empty ov = false) by (apply overlaps_nonempty; assumption).
    assert (OVv : forall v, contains ov v = contains x v && contains y v) by (intros v; apply overlaps_true; exact OV).
    assert (RS : forall r t, In r rs -> rcontains r t = true -> contains ov (nth i t None) = true).
    { intros r t Ir Cr. pose proof (remove_overlap_exact _ _ _ _ _ t R) as EX.
      rewrite (ucontains_in r rs t Ir Cr) in EX. symmetry in EX.
      rewrite (rcontains_replace i ov a t La), (rcontains_replace i ov b t Lb) in EX.
      destruct (contains ov (nth i t None)); [reflexivity|discriminate]. }
    destruct (subtract_nodup_disjoint x ov NEo) as [ND1 D1]. destruct (subtract_nodup_disjoint y ov NEo) as [ND2 D2].
    apply pd_app; [apply pieces_disjoint; assumption| |].
    + apply pd_app; [apply pieces_disjoint; assumption| |].
      * apply (IH _ _ _ _ (no_empty_replace a i ov NEo Ga) (no_empty_replace b i ov NEo Gb) R).
      * intros p r Ip Ir t. apply in_map_iff in Ip. destruct Ip as [c [<- Ic]].
        destruct (rcontains (replace i c b) t) eqn:C1; [|reflexivity]. destruct (rcontains r t) eqn:C2; [|reflexivity].
        rewrite (rcontains_replace i c b t Lb) in C1. apply andb_prop in C1. destruct C1 as [C1 _].
        destruct (subtract_piece_sound y ov c _ Ic C1) as [_ N]. rewrite (RS r t Ir C2) in N. discriminate.
    + intros p r Ip Ir t. apply in_map_iff in Ip. destruct Ip as [c [<- Ic]].
      destruct (rcontains (replace i c a) t) eqn:C1; [|reflexivity]. destruct (rcontains r t) eqn:C2; [|reflexivity].
      rewrite (rcontains_replace i c a t La) in C1. apply andb_prop in C1. destruct C1 as [C1 _].
      destruct (subtract_piece_sound x ov c _ Ic C1) as [Cx N].
      apply in_app_or in Ir. destruct Ir as [Ir|Ir].
      * apply in_map_iff in Ir. destruct Ir as [c' [<- Ic']].
        rewrite (rcontains_replace i c' b t Lb) in C2. apply andb_prop in C2. destruct C2 as [C2 _].
        destruct (subtract_piece_sound y ov c' _ Ic' C2) as [Cy _]. rewrite OVv, Cx, Cy in N. discriminate.
      * rewrite (RS r t Ir C2) in N. discriminate.
Qed.

(* ---------- cut-level facts about unions and overlaps ---------- *)
Lemma overlaps_sym x y : snd (overlaps x y) = snd (overlaps y x).
Proof.
  destruct x as [l u], y as [l' u']. unfold overlaps, cmp_ge. cbn [lo hi].
  cut_case l u'; cut_case l' u; reflexivity.
Qed.
Lemma r_overlaps_sym a b : r_overlaps a b = r_overlaps b a.
Proof.
  revert b. induction a as [|x a IH]; intros [|y b]; cbn; try reflexivity. rewrite IH, overlaps_sym. reflexivity.
Qed.
Lemma is_empty_false r : is_empty r = false <-> cut_cmp (lo r) (hi r) = Lt.
Proof. unfold is_empty, cmp_ge. destruct (cut_cmp (lo r) (hi r)); split; congruence. Qed.
Lemma overlaps_snd x y : snd (overlaps x y) = cmp_lt (cut_cmp (lo x) (hi y)) && cmp_lt (cut_cmp (lo y) (hi x)).
Proof. unfold overlaps, cmp_ge, cmp_lt. destruct (cut_cmp (lo x) (hi y)), (cut_cmp (lo y) (hi x)); reflexivity. Qed.

Lemma try_union_nonempty x y u : is_empty x = false -> is_empty y = false -> try_union x y = Some u ->
  is_empty u = false.
Proof.
  intros Ex Ey. unfold try_union. rewrite Ex, Ey. destruct (is_connected x y); cbn [negb]; [|discriminate].
  intros [= <-]. apply is_empty_false in Ex, Ey. apply is_empty_false. cbn [lo hi].
  destruct x as [l u], y as [l' u']. cbn [lo hi] in *. unfold ordered_cuts, cmp_le.
  cut_case l l'; cut_case u u'; cbn [fst snd]; apply cut_cmp_Lt; cut_hyps; cut_lia.
Qed.
Lemma try_union_overlap x y u z : is_empty x = false -> is_empty y = false -> is_empty z = false ->
  try_union x y = Some u -> snd (overlaps u z) = true -> snd (overlaps x z) = true \/ snd (overlaps y z) = true.
Proof.
  intros Ex Ey Ez. unfold try_union. rewrite Ex, Ey. destruct (is_connected x y) eqn:C; cbn [negb]; [|discriminate].
  intros [= <-]. rewrite !overlaps_snd. apply is_empty_false in Ex, Ey, Ez.
  destruct x as [l u], y as [l' u'], z as [zl zu]. cbn [lo hi] in *.
  revert C. unfold is_connected, ordered_cuts, cmp_le, cmp_gt, cmp_lt. cbn [lo hi].
  cut_case l u'; try discriminate; (cut_case l' u; try discriminate); intros _;
  cut_case l l'; cut_case u u'; cbn [fst snd];
  repeat match goal with |- context [cut_cmp ?a ?b] => cut_case a b end; cbn;
  intros H; try discriminate H; auto; cut_hyps; cut_lia.
Qed.

(* ---------- well-formed ranges: n columns, none empty at the cut level ---------- *)
Definition wf (n : nat) (r : range) : Prop := length r = n /\ no_empty_col r = true.

Lemma merge_one_wf a b m : no_empty_col a = true -> no_empty_col b = true -> length a = length b ->
  merge_one a b = Some m -> length m = length a /\ no_empty_col m = true.
Proof.
  revert b m. induction a as [|x a IH]; intros [|y b] m Ga Gb L; cbn [merge_one]; try discriminate.
  unfold no_empty_col in *. cbn in Ga, Gb, L. apply andb_prop in Ga, Gb. destruct Ga as [Gx Ga], Gb as [Gy Gb].
  destruct (rce_equals x y).
  - destruct (merge_one a b) as [m'|] eqn:M; try discriminate. intros [= <-].
    destruct (IH b m' Ga Gb ltac:(lia) M) as [L' G']. cbn. rewrite Gx, G'. split; [lia|reflexivity].
  - destruct (r_equals a b); try discriminate. destruct (try_union x y) as [u|] eqn:U; try discriminate.
    intros [= <-]. cbn. split; [reflexivity|].
    assert (is_empty u = false) as ->.
    { apply (try_union_nonempty x y); auto; [destruct (is_empty x)|destruct (is_empty y)]; cbn in *; congruence. }
    cbn. exact Ga.
Qed.
Lemma try_merge_wf n a b m : wf n a -> wf n b -> try_merge a b = Some m -> wf n m.
Proof.
  intros [La Ga] [Lb Gb]. unfold try_merge, r_is_superset_of. destruct (negb _); [discriminate|].
  destruct (r_is_subset_of b a); [intros [= <-]; split; assumption|].
  destruct (r_is_subset_of a b); [intros [= <-]; split; assumption|].
  intros M. destruct (merge_one_wf a b m Ga Gb ltac:(lia) M). split; [lia|assumption].
Qed.
Lemma merge_one_overlap a b m o : no_empty_col a = true -> no_empty_col b = true -> no_empty_col o = true ->
  merge_one a b = Some m -> r_overlaps m o = true -> r_overlaps a o = true \/ r_overlaps b o = true.
Proof.
  revert b m o. induction a as [|x a IH]; intros [|y b] m o Ga Gb Go; cbn [merge_one]; try discriminate.
  unfold no_empty_col in *. cbn in Ga, Gb. apply andb_prop in Ga, Gb. destruct Ga as [Gx Ga], Gb as [Gy Gb].
  destruct (rce_equals x y) eqn:E.
  - apply rce_equals_eq in E. subst y. destruct (merge_one a b) as [m'|] eqn:M; try discriminate. intros [= <-].
    destruct o as [|z o]; cbn; [discriminate|]. cbn in Go. apply andb_prop in Go. destruct Go as [Gz Go].
    intros H. apply andb_prop in H. destruct H as [H1 H2]. rewrite H1. cbn [andb]. exact (IH b m' o Ga Gb Go M H2).
  - destruct (r_equals a b) eqn:E2; try discriminate. apply r_equals_eq in E2. subst b.
    destruct (try_union x y) as [u|] eqn:U; try discriminate. intros [= <-].
    destruct o as [|z o]; cbn; [discriminate|]. cbn in Go. apply andb_prop in Go. destruct Go as [Gz Go].
    intros H. apply andb_prop in H. destruct H as [H1 H2]. rewrite H2, !andb_true_r.
    apply (try_union_overlap x y u z); auto; [destruct (is_empty x)|destruct (is_empty y)|destruct (is_empty z)]; cbn in *; congruence.
Qed.
Lemma try_merge_overlap a b m o : no_empty_col a = true -> no_empty_col b = true -> no_empty_col o = true ->
  try_merge a b = Some m -> r_overlaps m o = true -> r_overlaps a o = true \/ r_overlaps b o = true.
Proof.
  intros Ga Gb Go. unfold try_merge, r_is_superset_of. destruct (negb _); [discriminate|].
  destruct (r_is_subset_of b a); [intros [= <-]; auto|].
  destruct (r_is_subset_of a b); [intros [= <-]; auto|]. apply merge_one_overlap; assumption.
Qed.

Lemma remove_overlap_wf n fuel : forall a b out ok, wf n a -> wf n b ->
  remove_overlap fuel a b = Some (out, ok) -> Forall (wf n) out.
Proof.
  induction fuel as [|f IH]; intros a b out ok Wa Wb; cbn [remove_overlap]; [discriminate|].
  destruct (try_merge a b) as [m|] eqn:M.
  - intros [= <- <-]. constructor; [exact (try_merge_wf n a b m Wa Wb M)|constructor].
  - destruct (r_overlaps a b) eqn:O; cbn [negb].
    2:{ intros [= <- <-]. constructor; [exact Wa|constructor; [exact Wb|constructor]]. }
    destruct (first_diff a b) as [i|] eqn:F.
    2:{ intros [= <- <-]. constructor. }
    destruct (first_diff_some a b i F) as [La Lb]. destruct Wa as [Na Ga], Wb as [Nb Gb].
    set (x := nth i a empty_rce). set (y := nth i b empty_rce). set (ov := fst (overlaps x y)).
    destruct (remove_overlap f (replace i ov a) (replace i ov b)) as [[rs ok']|] eqn:R; try discriminate.
    intros [= <- <-].
    pose proof (r_overlaps_nth a b i O La) as OV. fold x y in OV.
    assert (NEx : is_empty x = false) by (apply no_empty_nth; assumption).
    assert (NEy : is_empty y = false) by (apply no_empty_nth; assumption).
    assert (NEo : is_empty ov = false) by (apply overlaps_nonempty; assumption).
    apply Forall_app. split; [|apply Forall_app; split].
    + apply Forall_forall. intros r Ir. apply in_map_iff in Ir. destruct Ir as [c [<- Ic]].
      split; [rewrite replace_length; exact Na|]. apply no_empty_replace; [|exact Ga].
      exact (subtract_pieces_nonempty x ov c NEx Ic).
    + apply Forall_forall. intros r Ir. apply in_map_iff in Ir. destruct Ir as [c [<- Ic]].
      split; [rewrite replace_length; exact Nb|]. apply no_empty_replace; [|exact Gb].
      exact (subtract_pieces_nonempty y ov c NEy Ic).
    + eapply IH; [| |exact R]; (split; [rewrite replace_length; assumption|apply no_empty_replace; assumption]).
Qed.
Lemma remove_overlap_false fuel a b l : remove_overlap fuel a b = Some (l, false) -> r_overlaps a b = false.
Proof.
  destruct fuel as [|f]; cbn [remove_overlap]; [discriminate|].
  destruct (try_merge a b); [discriminate|]. destruct (r_overlaps a b); cbn [negb]; [|reflexivity].
  destruct (first_diff a b); [|discriminate]. destruct (remove_overlap f _ _) as [[? ?]|]; discriminate.
Qed.
