(* C46 proofs, part 2: set laws of the multi-column operations and of RemoveOverlappingRanges. *)
From Coq Require Import List ZArith Bool Lia PeanoNat.
Import ListNotations.
From GMS Require Import Range.Cut Range.CutProofs Range.MRange.
Open Scope nat_scope.

Lemma contains_all v : contains all_rce v = true.
Proof. reflexivity. Qed.

Lemma all2_length f a b : all2 f a b = true -> length a = length b.
Proof.
  revert b. induction a as [|x a IH]; intros [|y b]; cbn; try discriminate; auto.
  intros H. apply andb_prop in H. destruct H as [_ H]. f_equal. auto.
Qed.
Lemma r_equals_eq a b : r_equals a b = true <-> a = b.
Proof.
  revert b. induction a as [|x a IH]; intros [|y b]; cbn; split; intros H; try discriminate; try reflexivity.
  - apply andb_prop in H. destruct H as [H1 H2]. apply rce_equals_eq in H1. apply IH in H2. congruence.
  - injection H as -> ->. apply andb_true_intro. split; [apply rce_equals_eq|apply IH]; reflexivity.
Qed.
Lemma r_subset_sound a b t : r_is_subset_of a b = true -> rcontains a t = true -> rcontains b t = true.
Proof.
  revert b t. induction a as [|x a IH]; intros [|y b] [|v t]; cbn; try discriminate; auto.
  intros H C. apply andb_prop in H. apply andb_prop in C. destruct H as [H1 H2], C as [C1 C2].
  rewrite (is_subset_sound x y v H1 C1). cbn. eauto.
Qed.
Lemma r_overlaps_false a b t : r_overlaps a b = false -> rcontains a t && rcontains b t = false.
Proof.
  revert b t. induction a as [|x a IH]; intros [|y b] [|v t]; cbn; try discriminate; auto;
    try (intros; apply andb_false_r).
  intros H. apply andb_false_iff in H. destruct H as [H|H].
  - pose proof (overlaps_false x y v H) as D.
    destruct (contains x v), (contains y v); cbn in *; try discriminate; auto using andb_false_r.
  - pose proof (IH b t H) as D.
    destruct (contains x v), (contains y v), (rcontains a t), (rcontains b t); cbn in *; try discriminate; auto.
Qed.

(* ---- Intersect ---- *)
Lemma intersect_cols_exact a b t : length a = length b ->
  match intersect_cols a b with
  | Some r => rcontains r t = rcontains a t && rcontains b t
  | None => rcontains a t && rcontains b t = false /\ a <> []
  end.
Proof.
  revert b t. induction a as [|x a IH]; intros [|y b] t L; cbn in L; try discriminate.
  - cbn. destruct t; reflexivity.
  - injection L as L. cbn [intersect_cols].
    pose proof (try_intersect_exact x y) as TE. pose proof (try_intersect_ok x y) as TO.
    destruct (try_intersect x y) as [i ok]. cbn [fst snd] in *. destruct ok.
    + destruct t as [|v t].
      * destruct (intersect_cols a b); cbn; [reflexivity|split; [reflexivity|discriminate]].
      * specialize (IH b t L). destruct (intersect_cols a b); cbn.
        -- rewrite IH, TE. destruct (contains x v), (contains y v), (rcontains a t), (rcontains b t); reflexivity.
        -- destruct IH as [IH _]. split; [|discriminate].
           destruct (contains x v), (contains y v), (rcontains a t), (rcontains b t); cbn in *; congruence.
    + split; [|discriminate]. destruct t as [|v t]; [reflexivity|]. cbn.
      specialize (TE v). rewrite (TO eq_refl) in TE. cbn in TE.
      destruct (contains x v), (contains y v); cbn in *; try discriminate; auto using andb_false_r.
Qed.
Lemma as_empty_contains a t : a <> [] -> rcontains (as_empty a) t = false.
Proof. destruct a; [congruence|]. intros _. destruct t; reflexivity. Qed.
Theorem r_intersect_exact a b t : length a = length b ->
  rcontains (r_intersect a b) t = rcontains a t && rcontains b t.
Proof.
  intros L. unfold r_intersect. rewrite L, Nat.eqb_refl. cbn.
  pose proof (intersect_cols_exact a b t L) as H. destruct (intersect_cols a b); [exact H|].
  destruct H as [H NE]. rewrite H. apply as_empty_contains. exact NE.
Qed.

(* ---- TryMerge ---- *)
Lemma merge_one_exact a b m t : merge_one a b = Some m -> rcontains m t = rcontains a t || rcontains b t.
Proof.
  revert b m t. induction a as [|x a IH]; intros [|y b] m t; cbn [merge_one]; try discriminate.
  destruct (rce_equals x y) eqn:E.
  - apply rce_equals_eq in E. subst y. destruct (merge_one a b) as [m'|] eqn:M; try discriminate.
    intros [= <-]. destruct t as [|v t]; [reflexivity|]. cbn. rewrite (IH b m' t M).
    destruct (contains x v); reflexivity.
  - destruct (r_equals a b) eqn:E2; try discriminate. apply r_equals_eq in E2. subst b.
    destruct (try_union x y) as [u|] eqn:U; try discriminate. intros [= <-].
    destruct t as [|v t]; [reflexivity|]. cbn. rewrite (try_union_exact x y u v U).
    destruct (contains x v), (contains y v), (rcontains a t); reflexivity.
Qed.
Theorem try_merge_exact a b m t : try_merge a b = Some m -> rcontains m t = rcontains a t || rcontains b t.
Proof.
  unfold try_merge, r_is_superset_of. destruct (negb _); try discriminate.
  destruct (r_is_subset_of b a) eqn:S1.
  - intros [= <-]. pose proof (r_subset_sound b a t S1). destruct (rcontains a t), (rcontains b t); cbn; auto;
    symmetry; auto.
  - destruct (r_is_subset_of a b) eqn:S2.
    + intros [= <-]. pose proof (r_subset_sound a b t S2). destruct (rcontains a t), (rcontains b t); cbn; auto;
      symmetry; auto.
    + apply merge_one_exact.
Qed.
(* the "invalid index to merge" error of TryMerge cannot occur: with no differing column the first superset
   test already succeeds *)
Lemma r_subset_refl a : r_is_subset_of a a = true.
Proof.
  induction a as [|x a IH]; cbn; [reflexivity|]. rewrite IH, andb_true_r.
  unfold is_subset_of. rewrite !cut_cmp_refl. reflexivity.
Qed.
Lemma first_diff_none a b : length a = length b -> first_diff a b = None -> a = b.
Proof.
  revert b. induction a as [|x a IH]; intros [|y b] L; cbn in *; try discriminate; auto.
  destruct (rce_equals x y) eqn:E; try discriminate. apply rce_equals_eq in E. subst.
  destruct (first_diff a b) eqn:F; try discriminate. intros _. f_equal. apply IH; [lia|assumption].
Qed.
Theorem merge_error_unreachable a b : length a = length b -> first_diff a b = None -> try_merge a b = Some a.
Proof.
  intros L F. rewrite (first_diff_none a b L F). unfold try_merge, r_is_superset_of.
  rewrite Nat.eqb_refl, r_subset_refl. reflexivity.
Qed.

(* ---- replace ---- *)
Lemma replace_length i c a : length (replace i c a) = length a.
Proof. revert i. induction a as [|x a IH]; intros [|i]; cbn; auto. Qed.
Lemma rcontains_replace i c a t : i < length a ->
  rcontains (replace i c a) t = contains c (nth i t None) && rcontains (replace i all_rce a) t.
Proof.
  revert i t. induction a as [|x a IH]; intros i t L; cbn in L; [lia|].
  destruct i as [|i]; destruct t as [|v t]; cbn [replace rcontains nth].
  - apply eq_sym, andb_false_r.
  - rewrite contains_all. reflexivity.
  - apply eq_sym, andb_false_r.
  - rewrite (IH i t) by lia. destruct (contains x v), (contains c (nth i t None)); reflexivity.
Qed.
Lemma rcontains_nth i a t : i < length a ->
  rcontains a t = contains (nth i a empty_rce) (nth i t None) && rcontains (replace i all_rce a) t.
Proof.
  revert i t. induction a as [|x a IH]; intros i t L; cbn in L; [lia|].
  destruct i as [|i]; destruct t as [|v t]; cbn [replace rcontains nth].
  - apply eq_sym, andb_false_r.
  - rewrite contains_all. reflexivity.
  - apply eq_sym, andb_false_r.
  - rewrite (IH i t) by lia. destruct (contains x v), (contains (nth i a empty_rce) (nth i t None)); reflexivity.
Qed.
Lemma first_diff_some a b i : first_diff a b = Some i -> i < length a /\ i < length b.
Proof.
  revert b i. induction a as [|x a IH]; intros [|y b] i; cbn; try discriminate.
  destruct (rce_equals x y).
  - destruct (first_diff a b) eqn:F; try discriminate. intros [= <-]. destruct (IH b n F). lia.
  - intros [= <-]. lia.
Qed.
Lemma first_diff_neq a b i : first_diff a b = Some i -> rce_equals (nth i a empty_rce) (nth i b empty_rce) = false.
Proof.
  revert b i. induction a as [|x a IH]; intros [|y b] i; cbn [first_diff]; try discriminate.
  destruct (rce_equals x y) eqn:E.
  - destruct (first_diff a b) eqn:F; try discriminate. intros [= <-]. cbn. eauto.
  - intros [= <-]. exact E.
Qed.
Lemma r_overlaps_nth a b i : r_overlaps a b = true -> i < length a ->
  snd (overlaps (nth i a empty_rce) (nth i b empty_rce)) = true.
Proof.
  revert b i. induction a as [|x a IH]; intros [|y b] i; cbn; try discriminate; try lia.
  intros H L. apply andb_prop in H. destruct H as [H1 H2]. destruct i; [exact H1|]. apply IH; [exact H2|lia].
Qed.
Lemma ucontains_app xs ys t : ucontains (xs ++ ys) t = ucontains xs t || ucontains ys t.
Proof. apply existsb_app. Qed.
Lemma ucontains_pieces i a pcs t : i < length a ->
  ucontains (map (fun c => replace i c a) pcs) t =
  existsb (fun p => contains p (nth i t None)) pcs && rcontains (replace i all_rce a) t.
Proof.
  intros L. induction pcs as [|p pcs IH]; [reflexivity|]. cbn. unfold ucontains in IH. rewrite IH.
  rewrite (rcontains_replace i p a t L).
  destruct (contains p (nth i t None)), (existsb _ pcs), (rcontains _ t); reflexivity.
Qed.

(* ---- RemoveOverlap: the result covers exactly a ∪ b, for every fuel that suffices ---- *)
Theorem remove_overlap_exact fuel a b out ok t :
  remove_overlap fuel a b = Some (out, ok) -> ucontains out t = rcontains a t || rcontains b t.
Proof.
  revert a b out ok. induction fuel as [|f IH]; intros a b out ok; cbn [remove_overlap]; [discriminate|].
  destruct (try_merge a b) as [m|] eqn:M.
  - intros [= <- <-]. cbn. rewrite orb_false_r. eapply try_merge_exact; eauto.
  - destruct (r_overlaps a b) eqn:O; cbn [negb].
    2:{ intros [= <- <-]. cbn. rewrite orb_false_r. reflexivity. }
    pose proof (all2_length _ a b O) as L.
    destruct (first_diff a b) as [i|] eqn:F.
    2:{ rewrite (merge_error_unreachable a b L F) in M. discriminate. }
    destruct (first_diff_some a b i F) as [La Lb].
    set (x := nth i a empty_rce). set (y := nth i b empty_rce). set (ov := fst (overlaps x y)).
    destruct (remove_overlap f (replace i ov a) (replace i ov b)) as [[rs ok']|] eqn:R; try discriminate.
    intros [= <- <-].
    rewrite !ucontains_app, (IH _ _ _ _ R), !ucontains_pieces by assumption.
    rewrite !subtract_exact, (rcontains_replace i ov a t La), (rcontains_replace i ov b t Lb).
    rewrite (rcontains_nth i a t La), (rcontains_nth i b t Lb). fold x y.
    pose proof (overlaps_true x y (nth i t None) (r_overlaps_nth a b i O La)) as OV. fold ov in OV. rewrite OV.
    destruct (contains x _), (contains y _), (rcontains (replace i all_rce a) t), (rcontains (replace i all_rce b) t); reflexivity.
Qed.

(* ---- RemoveOverlap's recursion terminates: columns + 1 levels suffice ---- *)
Fixpoint ndiff (a b : range) : nat :=
  match a, b with
  | x :: a', y :: b' => (if rce_equals x y then 0 else 1) + ndiff a' b'
  | _, _ => 0
  end.
Lemma ndiff_le a b : ndiff a b <= length a.
Proof. revert b. induction a as [|x a IH]; intros [|y b]; cbn; try lia. specialize (IH b). destruct (rce_equals x y); lia. Qed.
Lemma ndiff_replace a b i c : first_diff a b = Some i -> S (ndiff (replace i c a) (replace i c b)) = ndiff a b.
Proof.
  revert b i. induction a as [|x a IH]; intros [|y b] i; cbn [first_diff]; try discriminate.
  destruct (rce_equals x y) eqn:E.
  - destruct (first_diff a b) as [j|] eqn:F; try discriminate. intros [= <-]. cbn [replace ndiff]. rewrite E.
    cbn. f_equal. rewrite <- (IH b j F). reflexivity.
  - intros [= <-]. cbn [replace ndiff]. rewrite E, (proj2 (rce_equals_eq c c) eq_refl). reflexivity.
Qed.
Lemma remove_overlap_fuel fuel : forall a b, ndiff a b < fuel -> remove_overlap fuel a b <> None.
Proof.
  induction fuel as [|f IH]; intros a b L; [lia|]. cbn [remove_overlap].
  destruct (try_merge a b); [discriminate|]. destruct (negb (r_overlaps a b)); [discriminate|].
  destruct (first_diff a b) as [i|] eqn:F; [|discriminate].
  set (ov := fst (overlaps (nth i a empty_rce) (nth i b empty_rce))).
  pose proof (ndiff_replace a b i ov F) as D.
  specialize (IH (replace i ov a) (replace i ov b) ltac:(lia)).
  destruct (remove_overlap f (replace i ov a) (replace i ov b)) as [[rs ok]|]; [discriminate|congruence].
Qed.
Theorem remove_overlap_terminates a b : exists out ok, remove_overlap_top a b = Some (out, ok).
Proof.
  unfold remove_overlap_top. pose proof (remove_overlap_fuel (S (length a)) a b) as H.
  pose proof (ndiff_le a b). destruct (remove_overlap (S (length a)) a b) as [[out ok]|]; [eauto|].
  exfalso. apply H; [lia|reflexivity].
Qed.

(* the pieces are pairwise disjoint when no column of a or b is empty at the cut level *)
Definition no_empty_col (a : range) : bool := forallb (fun c => negb (is_empty c)) a.
Definition disjoint (p q : range) : Prop := forall t, rcontains p t && rcontains q t = false.
Inductive pairwise_disjoint : list range -> Prop :=
| pd_nil : pairwise_disjoint []
| pd_cons r rs : Forall (disjoint r) rs -> pairwise_disjoint rs -> pairwise_disjoint (r :: rs).

Lemma any_overlap_false_disjoint rs : any_overlap rs = false -> pairwise_disjoint rs.
Proof.
  induction rs as [|r rs IH]; cbn; intros H; constructor.
  - apply orb_false_iff in H. destruct H as [H _]. apply Forall_forall. intros q Hq t.
    apply r_overlaps_false. destruct (r_overlaps r q) eqn:E; [|reflexivity].
    rewrite <- H. symmetry. apply existsb_exists. eauto.
  - apply IH. apply orb_false_iff in H. tauto.
Qed.

(* ---- IntersectRanges ---- *)
Lemma intersect_cols_length a b r : length a = length b -> intersect_cols a b = Some r -> length r = length a.
Proof.
  revert b r. induction a as [|x a IH]; intros [|y b] r L; cbn in L; try discriminate; cbn [intersect_cols].
  - intros [= <-]. reflexivity.
  - destruct (try_intersect x y) as [i [|]]; try discriminate.
    destruct (intersect_cols a b) as [r'|] eqn:E; try discriminate. intros [= <-]. cbn. f_equal. apply (IH b); [lia|exact E].
Qed.
Lemma r_intersect_length a b : length a = length b -> length (r_intersect a b) = length a.
Proof.
  intros L. unfold r_intersect. rewrite L, Nat.eqb_refl. cbn [negb]. rewrite <- L.
  destruct (intersect_cols a b) eqn:E; [eapply intersect_cols_length; eauto|]. unfold as_empty. apply map_length.
Qed.
(* the arguments that take part: those of non-zero length *)
Definition all_contain (rs : list range) (t : tuple) : bool :=
  forallb (fun x => Nat.eqb (length x) 0 || rcontains x t) rs.
Definition lens_ok (n : nat) (rs : list range) : Prop := Forall (fun x => length x = 0 \/ length x = n) rs.
Lemma intersect_ranges_rest_exact n : n <> 0 -> forall rest rang, length rang = n -> lens_ok n rest ->
  exists r, intersect_ranges_rest rang rest = Some r /\ length r = n /\
            forall t, rcontains r t = rcontains rang t && all_contain rest t.
Proof.
  intros NZ. induction rest as [|rc rest IH]; intros rang L OK; cbn [intersect_ranges_rest].
  - rewrite L. destruct (Nat.eqb_spec n 0); [congruence|]. exists rang. repeat split; auto. intros t. cbn. rewrite andb_true_r. reflexivity.
  - inversion OK as [|? ? H1 H2]; subst. destruct H1 as [H1|H1].
    + rewrite H1. cbn [Nat.eqb]. destruct (IH rang eq_refl H2) as [r [E [Lr Hr]]]. exists r. repeat split; auto.
      intros t. rewrite Hr. cbn. rewrite H1. reflexivity.
    + destruct (Nat.eqb_spec (length rc) 0) as [Z|_]; [lia|].
      assert (LL : length rang = length rc) by lia.
      rewrite (r_intersect_length rang rc LL). destruct (Nat.eqb_spec (length rang) 0) as [Z|_]; [lia|].
      destruct (IH (r_intersect rang rc) (r_intersect_length rang rc LL) H2) as [r [E [Lr Hr]]].
      exists r. repeat split; auto. intros t. rewrite Hr, (r_intersect_exact rang rc t LL). cbn.
      destruct (Nat.eqb_spec (length rc) 0); [lia|]. cbn. rewrite andb_assoc. reflexivity.
Qed.
Theorem intersect_ranges_exact n rs : n <> 0 -> lens_ok n rs -> Exists (fun x => length x = n) rs ->
  exists r, intersect_ranges rs = Some r /\ length r = n /\ forall t, rcontains r t = all_contain rs t.
Proof.
  intros NZ. induction rs as [|rc rs IH]; intros OK EX; [inversion EX|]. cbn [intersect_ranges].
  inversion OK as [|? ? H1 H2]; subst. destruct (Nat.eqb_spec (length rc) 0) as [Z|NZ'].
  - assert (EX' : Exists (fun x => length x = n) rs) by (inversion EX; subst; [lia|assumption]).
    destruct (IH H2 EX') as [r [E [Lr Hr]]]. exists r. repeat split; auto. intros t. rewrite Hr. cbn.
    rewrite Z. reflexivity.
  - assert (L : length rc = n) by (destruct H1; [lia|assumption]).
    destruct (intersect_ranges_rest_exact n NZ rs rc L H2) as [r [E [Lr Hr]]]. exists r. repeat split; auto.
    intros t. rewrite Hr. cbn. destruct (Nat.eqb_spec (length rc) 0); [lia|]. reflexivity.
Qed.
Theorem intersect_ranges_none_when_all_zero rs : Forall (fun x => length x = 0) rs -> intersect_ranges rs = None.
Proof.
  induction rs as [|rc rs IH]; intros H; [reflexivity|]. inversion H; subst. cbn [intersect_ranges].
  replace (length rc) with 0 by auto. cbn. auto.
Qed.

(* ---- RemoveOverlappingRanges ---- *)
Lemma r_is_empty_sound r t : t <> [] -> r_is_empty r = true -> rcontains r t = false.
Proof.
  intros NE. destruct r as [|x r]; [destruct t; [congruence|reflexivity]|]. unfold r_is_empty.
  generalize (x :: r). clear x r. intros r. revert t NE. induction r as [|x r IH]; intros t NE; cbn; [discriminate|].
  intros H. destruct t as [|v t]; [reflexivity|]. cbn. apply orb_prop in H. destruct H as [H|H].
  - rewrite (is_empty_sound x v H). reflexivity.
  - destruct t as [|v' t'].
    + destruct r; [discriminate|]. apply andb_false_r.
    + rewrite (IH (v' :: t')) by (congruence || assumption). apply andb_false_r.
Qed.
Lemma tree_mem_in x tr : tree_mem x tr = true -> In x tr.
Proof.
  unfold tree_mem. intros H. apply existsb_exists in H. destruct H as [y [Hy E]]. apply r_equals_eq in E. congruence.
Qed.
Lemma ucontains_in x tr t : In x tr -> rcontains x t = true -> ucontains tr t = true.
Proof. intros. apply existsb_exists. eauto. Qed.
Lemma tree_insert_exact x tr t : ucontains (tree_insert x tr) t = rcontains x t || ucontains tr t.
Proof.
  induction tr as [|y tr IH]; cbn; [reflexivity|]. destruct (r_equals x y) eqn:E.
  - apply r_equals_eq in E. subst. cbn. destruct (rcontains y t); reflexivity.
  - destruct (r_lt x y); cbn; [reflexivity|]. unfold ucontains in IH. rewrite IH.
    destruct (rcontains x t), (rcontains y t); reflexivity.
Qed.
Lemma tree_remove_exact x tr t : In x tr -> ucontains tr t = rcontains x t || ucontains (tree_remove x tr) t.
Proof.
  induction tr as [|y tr IH]; cbn; [tauto|]. intros H. destruct (r_equals x y) eqn:E.
  - apply r_equals_eq in E. subst. reflexivity.
  - destruct H as [H|H]; [subst; rewrite (proj2 (r_equals_eq x x) eq_refl) in E; discriminate|].
    cbn. unfold ucontains in IH. rewrite (IH H). destruct (rcontains x t), (rcontains y t); reflexivity.
Qed.
Lemma first_ok_some found rang c news : first_ok found rang = Some (Some (c, news)) ->
  In c found /\ remove_overlap_top c rang = Some (news, true).
Proof.
  induction found as [|y found IH]; cbn [first_ok In]; [discriminate|].
  destruct (remove_overlap_top y rang) as [[l [|]]|] eqn:R; try discriminate.
  - intros H. inversion H; subst. auto.
  - intros H. destruct (IH H). auto.
Qed.
Lemma collect_exact t : t <> [] -> forall tr acc emp res emp',
  rcontains emp t = false -> collect tr acc emp = (res, emp') ->
  ucontains res t = ucontains (rev acc) t || ucontains tr t /\ rcontains emp' t = false.
Proof.
  intros NE. induction tr as [|r tr IH]; intros acc emp res emp' He; cbn [collect].
  - intros [= <- <-]. cbn. rewrite orb_false_r. auto.
  - destruct (r_is_empty r) eqn:E.
    + intros H. pose proof (r_is_empty_sound r t NE E) as Hr. destruct (IH _ _ _ _ Hr H) as [H1 H2].
      split; [|exact H2]. rewrite H1. cbn. rewrite Hr. reflexivity.
    + destruct acc as [|last acc'].
      * intros H. destruct (IH _ _ _ _ He H) as [H1 H2]. split; [|exact H2]. rewrite H1. cbn.
        rewrite orb_false_r. reflexivity.
      * destruct (try_merge last r) as [m|] eqn:M; intros H; destruct (IH _ _ _ _ He H) as [H1 H2];
          (split; [|exact H2]); rewrite H1; cbn; unfold ucontains; rewrite !existsb_app; cbn.
        -- rewrite (try_merge_exact last r m t M).
           destruct (existsb _ (rev acc')), (rcontains last t), (rcontains r t); reflexivity.
        -- destruct (existsb _ (rev acc')), (rcontains last t), (rcontains r t); reflexivity.
Qed.
Lemma get_range_collection_exact tr t : t <> [] -> ucontains (get_range_collection tr) t = ucontains tr t.
Proof.
  intros NE. unfold get_range_collection. destruct (collect tr [] []) as [res emp] eqn:C.
  assert (He : rcontains [] t = false) by (destruct t; [congruence|reflexivity]).
  destruct (collect_exact t NE tr [] [] res emp He C) as [H1 H2]. cbn in H1.
  destruct res; [|exact H1]. cbn. rewrite H2, <- H1. reflexivity.
Qed.

Theorem ror_loop_exact t : t <> [] -> forall fuel finds tr work c out c',
  ror_loop fuel finds tr work c = (ROk out, c') ->
  ucontains out t = ucontains tr t || ucontains work t /\ pairwise_disjoint out.
Proof.
  intros NE. induction fuel as [|f IH]; intros finds tr work c out c'.
  - destruct work as [|rang work]; cbn.
    + destruct (any_overlap _) eqn:A; [discriminate|]. intros [= <- <-]. rewrite orb_false_r.
      split; [apply get_range_collection_exact; exact NE|apply any_overlap_false_disjoint; exact A].
    + discriminate.
  - destruct work as [|rang work]; cbn [ror_loop].
    + destruct (any_overlap _) eqn:A; [discriminate|]. intros [= <- <-]. rewrite orb_false_r.
      split; [apply get_range_collection_exact; exact NE|apply any_overlap_false_disjoint; exact A].
    + destruct finds as [|found finds]; [discriminate|].
      destruct (find_sound tr rang found) eqn:FS; cbn [negb]; [|discriminate].
      destruct (first_ok found rang) as [[[cn news]|]|] eqn:FO; try discriminate.
      * intros H. destruct (IH _ _ _ _ _ _ H) as [H1 H2]. split; [|exact H2]. rewrite H1.
        destruct (first_ok_some _ _ _ _ FO) as [Hin RO].
        assert (In cn tr) as Hc.
        { unfold find_sound in FS. rewrite forallb_forall in FS. specialize (FS cn Hin).
          apply andb_prop in FS. apply tree_mem_in. tauto. }
        rewrite (tree_remove_exact cn tr t Hc), ucontains_app.
        unfold remove_overlap_top in RO. rewrite (remove_overlap_exact _ _ _ _ _ t RO).
        change (ucontains (rang :: work) t) with (rcontains rang t || ucontains work t).
        destruct (rcontains cn t), (rcontains rang t), (ucontains (tree_remove cn tr) t), (ucontains work t); reflexivity.
      * intros H. destruct (IH _ _ _ _ _ _ H) as [H1 H2]. split; [|exact H2]. rewrite H1, tree_insert_exact.
        change (ucontains (rang :: work) t) with (rcontains rang t || ucontains work t).
        destruct (rcontains rang t), (ucontains tr t), (ucontains work t); reflexivity.
Qed.
Theorem remove_overlapping_ranges_exact fuel finds rs out c t : t <> [] ->
  remove_overlapping_ranges fuel finds rs = (ROk out, c) ->
  ucontains out t = ucontains rs t /\ pairwise_disjoint out.
Proof.
  intros NE. destruct rs as [|r0 rest]; cbn [remove_overlapping_ranges].
  - intros [= <- <-]. split; [reflexivity|constructor].
  - intros H. destruct (ror_loop_exact t NE _ _ _ _ _ _ _ H) as [H1 H2]. split; [|exact H2].
    rewrite H1. cbn. rewrite orb_false_r. reflexivity.
Qed.
