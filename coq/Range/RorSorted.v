(* C46 proofs, part 5: the collection returned by RemoveOverlappingRanges is strictly sorted by MySQLRange.Compare. *)
From Coq Require Import List ZArith Bool Lia PeanoNat Sorted.
Import ListNotations.
From GMS Require Import Range.Cut Range.CutProofs Range.MRange Range.MRangeProofs Range.MRangeMore Range.RorNoError.
Open Scope nat_scope.

(* one column of MySQLRange.Compare: lower bounds, then upper bounds *)
Definition pcmp (x y : rce) : comparison :=
  match cut_cmp (lo x) (lo y) with Eq => cut_cmp (hi x) (hi y) | c => c end.
Lemma r_compare_cons x a y b : length a = length b ->
  r_compare (x :: a) (y :: b) = match pcmp x y with Eq => r_compare a b | c => Some c end.
Proof.
  intros L. cbn [r_compare]. rewrite L, Nat.eqb_refl. cbn [negb]. unfold pcmp.
  destruct (cut_cmp (lo x) (lo y)); try reflexivity; destruct (cut_cmp (hi x) (hi y)); reflexivity.
Qed.
Lemma r_compare_len a b c : r_compare a b = Some c -> length a = length b.
Proof.
  revert b c. induction a as [|x a IH]; intros [|y b] c; cbn [r_compare]; try discriminate; [reflexivity|].
  destruct (Nat.eqb_spec (length a) (length b)) as [E|E]; cbn [negb]; [|discriminate]. intros _. cbn. f_equal. exact E.
Qed.
Lemma pcmp_eq x y : pcmp x y = Eq <-> x = y.
Proof.
  destruct x as [l u], y as [l' u']. unfold pcmp. cbn [lo hi]. split.
  - destruct (cut_cmp l l') eqn:E1; try discriminate. intros E2. apply cut_cmp_Eq_eq in E1, E2. congruence.
  - intros [= -> ->]. rewrite !cut_cmp_refl. reflexivity.
Qed.
Lemma pcmp_trans x y z : pcmp x y = Lt -> pcmp y z = Lt -> pcmp x z = Lt.
Proof.
  destruct x as [l u], y as [l' u'], z as [l'' u'']. unfold pcmp. cbn [lo hi].
  cut_case l l'; try discriminate; cut_case l' l''; try discriminate; cut_case l l''; intros H1 H2; cut_hyps; try reflexivity; try (apply cut_cmp_Lt); cut_lia.
Qed.
Lemma pcmp_antisym x y : pcmp y x = CompOpp (pcmp x y).
Proof.
  destruct x as [l u], y as [l' u']. unfold pcmp. cbn [lo hi]. rewrite (cut_cmp_antisym l l'), (cut_cmp_antisym u u').
  destruct (cut_cmp l l'); reflexivity.
Qed.

Definition rlt (a b : range) : Prop := r_compare a b = Some Lt.
Definition rle (a b : range) : Prop := rlt a b \/ a = b.

Lemma rlt_trans a b c : rlt a b -> rlt b c -> rlt a c.
Proof.
  unfold rlt. revert b c. induction a as [|x a IH]; intros [|y b] [|z c] H1 H2; try discriminate.
  pose proof (r_compare_len _ _ _ H1) as L1. pose proof (r_compare_len _ _ _ H2) as L2. cbn in L1, L2.
  rewrite r_compare_cons in * by lia.
  destruct (pcmp x y) eqn:P1; try discriminate; destruct (pcmp y z) eqn:P2; try discriminate.
  - apply pcmp_eq in P1, P2. subst. rewrite (proj2 (pcmp_eq z z) eq_refl). eauto.
  - apply pcmp_eq in P1. subst. rewrite P2. reflexivity.
  - apply pcmp_eq in P2. subst. rewrite P1. reflexivity.
  - rewrite (pcmp_trans x y z P1 P2). reflexivity.
Qed.
Lemma rle_lt_trans a b c : rle a b -> rlt b c -> rlt a c.
Proof. intros [H| ->] H2; [eapply rlt_trans; eauto|exact H2]. Qed.
Lemma rlt_le_trans a b c : rlt a b -> rle b c -> rlt a c.
Proof. intros H1 [H| <-]; [eapply rlt_trans; eauto|exact H1]. Qed.
Lemma r_compare_eq a b : r_compare a b = Some Eq -> a = b.
Proof.
  revert b. induction a as [|x a IH]; intros [|y b] H; try discriminate; [reflexivity|].
  pose proof (r_compare_len _ _ _ H) as L. cbn in L. rewrite r_compare_cons in H by lia.
  destruct (pcmp x y) eqn:P; try discriminate. apply pcmp_eq in P. subst. f_equal. auto.
Qed.
Lemma r_compare_antisym a b : length a = length b -> r_compare b a = option_map CompOpp (r_compare a b).
Proof.
  revert b. induction a as [|x a IH]; intros [|y b] L; cbn in L; try discriminate; [reflexivity|].
  rewrite !r_compare_cons by lia. rewrite (pcmp_antisym x y). destruct (pcmp x y); cbn; try reflexivity. apply IH. lia.
Qed.
Lemma r_compare_total a b : length a = length b -> exists c, r_compare a b = Some c.
Proof.
  revert b. induction a as [|x a IH]; intros [|y b] L; cbn in L; try discriminate; [eexists; reflexivity|].
  rewrite r_compare_cons by lia. destruct (pcmp x y); eauto.
Qed.
Lemma rlt_total a b : length a = length b -> r_equals a b = false -> r_lt a b = false -> rlt b a.
Proof.
  intros L E NL. unfold rlt. rewrite (r_compare_antisym a b L). destruct (r_compare_total a b L) as [c Hc].
  unfold r_lt in NL. rewrite Hc in *. destruct c; cbn; try reflexivity; try discriminate.
  apply r_compare_eq in Hc. subst. rewrite (proj2 (r_equals_eq b b) eq_refl) in E. discriminate.
Qed.
Lemma r_lt_rlt a b : r_lt a b = true -> rlt a b.
Proof. unfold r_lt, rlt. destruct (r_compare a b) as [[]|]; congruence. Qed.

Definition ssorted := StronglySorted rlt.

Lemma ssorted_app_inv xs ys : ssorted (xs ++ ys) -> ssorted xs /\ ssorted ys /\ forall x y, In x xs -> In y ys -> rlt x y.
Proof.
  induction xs as [|x xs IH]; cbn; intros H.
  - repeat split; [constructor|exact H|intros ? ? []].
  - inversion H as [|? ? S F]; subst. destruct (IH S) as [S1 [S2 C]]. apply Forall_app in F. destruct F as [F1 F2].
    repeat split; [constructor; assumption|exact S2|]. intros a b [<-|Ia] Ib; [|auto]. rewrite Forall_forall in F2. auto.
Qed.
Lemma ssorted_app xs ys : ssorted xs -> ssorted ys -> (forall x y, In x xs -> In y ys -> rlt x y) -> ssorted (xs ++ ys).
Proof.
  induction 1 as [|x xs S IH F]; intros Sy C; cbn; [exact Sy|]. constructor.
  - apply IH; [exact Sy|]. intros a b Ia Ib. apply C; [right; exact Ia|exact Ib].
  - apply Forall_app. split; [exact F|]. apply Forall_forall. intros y Iy. apply C; [left; reflexivity|exact Iy].
Qed.
Lemma ssorted_drop xs r ys : ssorted (xs ++ r :: ys) -> ssorted (xs ++ ys).
Proof.
  intros H. destruct (ssorted_app_inv _ _ H) as [S1 [S2 C]]. inversion S2; subst.
  apply ssorted_app; auto. intros x y Ix Iy. apply C; [exact Ix|right; exact Iy].
Qed.
Lemma ssorted_merge xs a b m ys : ssorted (xs ++ a :: b :: ys) -> rle a m -> rle m b -> ssorted (xs ++ m :: ys).
Proof.
  intros H A B. destruct (ssorted_app_inv _ _ H) as [S1 [S2 C]].
  inversion S2 as [|? ? S3 F2]; subst. inversion S3 as [|? ? S4 F3]; subst.
  apply ssorted_app; [exact S1| |].
  - constructor; [exact S4|]. apply Forall_forall. intros y Iy. rewrite Forall_forall in F3. eapply rle_lt_trans; eauto.
  - intros x y Ix [<-|Iy].
    + eapply rlt_le_trans; [|exact A]. apply C; [exact Ix|left; reflexivity].
    + apply C; [exact Ix|right; right; exact Iy].
Qed.

(* TryMerge yields a range between its two arguments in the order *)
Lemma rle_cons x y a b : length a = length b -> (pcmp x y = Lt \/ (x = y /\ rle a b)) -> rle (x :: a) (y :: b).
Proof.
  intros L [P|[-> [H| ->]]]; unfold rle, rlt.
  - left. rewrite r_compare_cons by exact L. rewrite P. reflexivity.
  - left. rewrite r_compare_cons by exact L. rewrite (proj2 (pcmp_eq y y) eq_refl). exact H.
  - right. reflexivity.
Qed.
Lemma try_union_between x y u : pcmp x y = Lt -> try_union x y = Some u ->
  (pcmp x u = Lt \/ x = u) /\ (pcmp u y = Lt \/ u = y).
Proof.
  intros P. unfold try_union. destruct (is_empty y); [intros [= <-]; auto|]. destruct (is_empty x); [intros [= <-]; auto|].
  destruct (negb (is_connected x y)); [discriminate|]. intros [= <-]. revert P.
  destruct x as [l u], y as [l' u']. unfold pcmp, ordered_cuts, cmp_le. cbn [lo hi].
  cut_case l l'; try discriminate; cut_case u u'; try discriminate; cbn [fst snd lo hi]; intros _;
  (split; [try (right; f_equal; apply cpos_inj; lia); left | try (right; f_equal; apply cpos_inj; lia); left]);
  repeat match goal with |- context [cut_cmp ?a ?b] => cut_case a b end; try reflexivity; cut_lia.
Qed.
Lemma merge_one_between a b m : rlt a b -> merge_one a b = Some m -> rle a m /\ rle m b.
Proof.
  unfold rlt. revert b m. induction a as [|x a IH]; intros [|y b] m H; cbn [merge_one]; try discriminate.
  pose proof (r_compare_len _ _ _ H) as L. cbn in L. rewrite r_compare_cons in H by lia.
  destruct (rce_equals x y) eqn:E.
  - apply rce_equals_eq in E. subst y. rewrite (proj2 (pcmp_eq x x) eq_refl) in H.
    destruct (merge_one a b) as [m'|] eqn:M; try discriminate. intros [= <-].
    destruct (IH b m' H M) as [A B].
    assert (L1 : length a = length m') by (destruct A as [A| ->]; [exact (r_compare_len _ _ _ A)|reflexivity]).
    split; apply rle_cons; auto; lia.
  - destruct (r_equals a b) eqn:E2; try discriminate. apply r_equals_eq in E2. subst b.
    destruct (try_union x y) as [u|] eqn:U; try discriminate. intros [= <-].
    assert (P : pcmp x y = Lt).
    { destruct (pcmp x y) eqn:P; try reflexivity.
      - apply pcmp_eq in P. subst. rewrite (proj2 (rce_equals_eq y y) eq_refl) in E. discriminate.
      - discriminate. }
    destruct (try_union_between x y u P U) as [[A|A] [B|B]]; split; apply rle_cons; auto;
      try (right; split; [assumption|right; reflexivity]).
Qed.
Lemma try_merge_between a b m : rlt a b -> try_merge a b = Some m -> rle a m /\ rle m b.
Proof.
  intros H. unfold try_merge, r_is_superset_of. destruct (negb _); [discriminate|].
  destruct (r_is_subset_of b a); [intros [= <-]; split; [right; reflexivity|left; exact H]|].
  destruct (r_is_subset_of a b); [intros [= <-]; split; [left; exact H|right; reflexivity]|].
  apply merge_one_between. exact H.
Qed.

Lemma collect_sorted : forall tr acc emp res emp',
  ssorted (rev acc ++ tr) -> collect tr acc emp = (res, emp') -> ssorted res.
Proof.
  induction tr as [|r tr IH]; intros acc emp res emp' S; cbn [collect].
  - intros [= <- _]. rewrite app_nil_r in S. exact S.
  - destruct (r_is_empty r).
    + apply IH. eapply ssorted_drop; eauto.
    + destruct acc as [|last acc'].
      * apply IH. exact S.
      * cbn [rev] in S. rewrite <- app_assoc in S. cbn [app] in S.
        destruct (try_merge last r) as [m|] eqn:M.
        -- apply IH. cbn [rev]. rewrite <- app_assoc. cbn [app].
           assert (LR : rlt last r).
           { destruct (ssorted_app_inv _ _ S) as [_ [S2 _]]. inversion S2 as [|? ? _ F]; subst.
             rewrite Forall_forall in F. apply F. left. reflexivity. }
           destruct (try_merge_between last r m LR M) as [A B]. eapply ssorted_merge; eauto.
        -- apply IH. cbn [rev]. rewrite <- !app_assoc. cbn [app]. exact S.
Qed.
Lemma get_range_collection_sorted tr : ssorted tr -> ssorted (get_range_collection tr).
Proof.
  intros S. unfold get_range_collection. destruct (collect tr [] []) as [res emp] eqn:E.
  pose proof (collect_sorted tr [] [] res emp S E) as R. destruct res; [repeat constructor|exact R].
Qed.

Lemma tree_insert_sorted n r tr : length r = n -> Forall (fun t => length t = n) tr -> ssorted tr -> ssorted (tree_insert r tr).
Proof.
  intros Lr. induction tr as [|y tr IH]; intros W S; cbn [tree_insert]; [repeat constructor|].
  inversion W as [|? ? Ly W']; subst. inversion S as [|? ? S' F]; subst.
  destruct (r_equals r y) eqn:E; [exact S|]. destruct (r_lt r y) eqn:LT.
  - apply r_lt_rlt in LT. constructor; [exact S|]. constructor; [exact LT|].
    apply Forall_forall. intros q Iq. rewrite Forall_forall in F. eapply rlt_trans; eauto.
  - constructor; [apply IH; assumption|]. apply Forall_forall. intros q Iq.
    destruct (tree_insert_in _ _ _ Iq) as [->|Iq']; [apply rlt_total; auto|]. rewrite Forall_forall in F. auto.
Qed.
Lemma tree_remove_sorted c tr : ssorted tr -> ssorted (tree_remove c tr).
Proof.
  induction 1 as [|y tr S IH F]; cbn; [constructor|]. destruct (r_equals c y); [exact S|].
  constructor; [exact IH|]. apply Forall_forall. intros q Iq. rewrite Forall_forall in F. apply F. eapply tree_remove_in; eauto.
Qed.

Theorem ror_loop_sorted n fuel : forall finds tr work c out c',
  Forall (wf n) tr -> Forall (wf n) work -> ssorted tr ->
  ror_loop fuel finds tr work c = (ROk out, c') -> ssorted out.
Proof.
  induction fuel as [|f IH]; intros finds tr work c out c' Wt Ww S.
  - destruct work as [|rang work]; cbn [ror_loop]; [|discriminate].
    destruct (any_overlap _); [discriminate|]. intros [= <- _]. apply get_range_collection_sorted. exact S.
  - destruct work as [|rang work]; cbn [ror_loop].
    + destruct (any_overlap _); [discriminate|]. intros [= <- _]. apply get_range_collection_sorted. exact S.
    + destruct finds as [|found finds]; [discriminate|].
      destruct (find_sound tr rang found) eqn:FS; cbn [negb]; [|discriminate].
      inversion Ww as [|? ? Wr Ww']; subst.
      destruct (first_ok found rang) as [[[cn news]|]|] eqn:FO; [| |discriminate].
      * intros H. destruct (first_ok_some _ _ _ _ FO) as [Hin RO].
        assert (Hc : In cn tr).
        { unfold find_sound in FS. rewrite forallb_forall in FS. specialize (FS cn Hin).
          apply andb_prop in FS. apply tree_mem_in. tauto. }
        pose proof Wt as Wt0. rewrite Forall_forall in Wt0. pose proof (Wt0 cn Hc) as Wc.
        unfold remove_overlap_top in RO. pose proof (remove_overlap_wf n _ _ _ _ _ Wc Wr RO) as Wn.
        refine (IH _ _ _ _ _ _ _ _ _ H).
        -- apply Forall_forall. intros x Ix. apply Wt0. eapply tree_remove_in; eauto.
        -- apply Forall_app. split; assumption.
        -- apply tree_remove_sorted. exact S.
      * intros H. refine (IH _ _ _ _ _ _ _ _ _ H).
        -- apply Forall_forall. intros x Ix. destruct (tree_insert_in _ _ _ Ix) as [->|Ix']; [exact Wr|].
           rewrite Forall_forall in Wt. apply Wt. exact Ix'.
        -- exact Ww'.
        -- apply (tree_insert_sorted n); [exact (proj1 Wr)| |exact S].
           eapply Forall_impl; [|exact Wt]. intros t [Lt _]. exact Lt.
Qed.
Theorem remove_overlapping_ranges_sorted n fuel finds rs out c :
  Forall (wf n) rs -> remove_overlapping_ranges fuel finds rs = (ROk out, c) -> ssorted out.
Proof.
  destruct rs as [|r0 rest]; cbn [remove_overlapping_ranges]; [intros _ [= <- _]; constructor|].
  intros W. inversion W; subst. apply (ror_loop_sorted n); auto. repeat constructor.
Qed.

(* ---- the same with only the column count fixed (empty columns allowed) ---- *)
Definition haslen (n : nat) (r : range) : Prop := length r = n.
Lemma merge_one_length a b m : length a = length b -> merge_one a b = Some m -> length m = length a.
Proof.
  revert b m. induction a as [|x a IH]; intros [|y b] m L; cbn [merge_one]; try discriminate. cbn in L.
  destruct (rce_equals x y).
  - destruct (merge_one a b) as [m'|] eqn:M; try discriminate. intros [= <-]. cbn. f_equal. apply (IH b); [lia|exact M].
  - destruct (r_equals a b); try discriminate. destruct (try_union x y); try discriminate. intros [= <-]. reflexivity.
Qed.
Lemma try_merge_length n a b m : haslen n a -> haslen n b -> try_merge a b = Some m -> haslen n m.
Proof.
  unfold haslen. intros La Lb. unfold try_merge, r_is_superset_of. destruct (negb _); [discriminate|].
  destruct (r_is_subset_of b a); [intros [= <-]; exact La|]. destruct (r_is_subset_of a b); [intros [= <-]; exact Lb|].
  intros M. rewrite (merge_one_length a b m) by (try lia; exact M). exact La.
Qed.
Lemma remove_overlap_length n fuel : forall a b out ok, haslen n a -> haslen n b ->
  remove_overlap fuel a b = Some (out, ok) -> Forall (haslen n) out.
Proof.
  induction fuel as [|f IH]; intros a b out ok La Lb; cbn [remove_overlap]; [discriminate|].
  destruct (try_merge a b) as [m|] eqn:M.
  - intros [= <- <-]. constructor; [exact (try_merge_length n a b m La Lb M)|constructor].
  - destruct (negb (r_overlaps a b)); [intros [= <- <-]; repeat constructor; assumption|].
    destruct (first_diff a b) as [i|]; [|intros [= <- <-]; constructor].
    destruct (remove_overlap f _ _) as [[rs ok']|] eqn:R; try discriminate. intros [= <- <-].
    apply Forall_app. split; [|apply Forall_app; split].
    + apply Forall_forall. intros r Ir. apply in_map_iff in Ir. destruct Ir as [c [<- _]]. unfold haslen. rewrite replace_length. exact La.
    + apply Forall_forall. intros r Ir. apply in_map_iff in Ir. destruct Ir as [c [<- _]]. unfold haslen. rewrite replace_length. exact Lb.
    + eapply IH; [| |exact R]; unfold haslen; rewrite replace_length; assumption.
Qed.
Theorem ror_loop_sorted_len n fuel : forall finds tr work c out c',
  Forall (haslen n) tr -> Forall (haslen n) work -> ssorted tr ->
  ror_loop fuel finds tr work c = (ROk out, c') -> ssorted out.
Proof.
  induction fuel as [|f IH]; intros finds tr work c out c' Wt Ww S.
  - destruct work as [|rang work]; cbn [ror_loop]; [|discriminate].
    destruct (any_overlap _); [discriminate|]. intros [= <- _]. apply get_range_collection_sorted. exact S.
  - destruct work as [|rang work]; cbn [ror_loop].
    + destruct (any_overlap _); [discriminate|]. intros [= <- _]. apply get_range_collection_sorted. exact S.
    + destruct finds as [|found finds]; [discriminate|].
      destruct (find_sound tr rang found) eqn:FS; cbn [negb]; [|discriminate].
      inversion Ww as [|? ? Wr Ww']; subst.
      destruct (first_ok found rang) as [[[cn news]|]|] eqn:FO; [| |discriminate].
      * intros H. destruct (first_ok_some _ _ _ _ FO) as [Hin RO].
        assert (Hc : In cn tr).
        { unfold find_sound in FS. rewrite forallb_forall in FS. specialize (FS cn Hin).
          apply andb_prop in FS. apply tree_mem_in. tauto. }
        pose proof Wt as Wt0. rewrite Forall_forall in Wt0. pose proof (Wt0 cn Hc) as Wc.
        unfold remove_overlap_top in RO. pose proof (remove_overlap_length n _ _ _ _ _ Wc Wr RO) as Wn.
        refine (IH _ _ _ _ _ _ _ _ _ H).
        -- apply Forall_forall. intros x Ix. apply Wt0. eapply tree_remove_in; eauto.
        -- apply Forall_app. split; assumption.
        -- apply tree_remove_sorted. exact S.
      * intros H. refine (IH _ _ _ _ _ _ _ _ _ H).
        -- apply Forall_forall. intros x Ix. destruct (tree_insert_in _ _ _ Ix) as [->|Ix']; [exact Wr|].
           rewrite Forall_forall in Wt. apply Wt. exact Ix'.
        -- exact Ww'.
        -- apply (tree_insert_sorted n); [exact Wr|exact Wt|exact S].
Qed.
Theorem remove_overlapping_ranges_sorted_len n fuel finds rs out c :
  Forall (haslen n) rs -> remove_overlapping_ranges fuel finds rs = (ROk out, c) -> ssorted out.
Proof.
  destruct rs as [|r0 rest]; cbn [remove_overlapping_ranges]; [intros _ [= <- _]; constructor|].
  intros W. inversion W; subst. apply (ror_loop_sorted_len n); auto. repeat constructor.
Qed.
