(* C03 proofs: the ranges the builder produces for a conjunction of comparisons on an INT column contain a
   column value exactly when every comparison is TRUE of it (completeness and precision), for all literals. *)
From Coq Require Import List ZArith Bool Lia.
Import ListNotations.
From GMS Require Import Range.Cut Range.CutProofs Range.C03IndexBuilder.
Open Scope Z_scope.

Lemma p10_pos s : 0 < p10 s.
Proof. unfold p10. apply Z.pow_pos_nonneg; lia. Qed.

Ltac bz :=
  repeat match goal with
  | |- context [?a >? ?b] => rewrite (Z.gtb_ltb a b)
  | |- context [?a <? ?b] => destruct (Z.ltb_spec a b)
  | |- context [?a <=? ?b] => destruct (Z.leb_spec a b)
  | |- context [?a =? ?b] => destruct (Z.eqb_spec a b)
  end.

Lemma potential_exact o v : in_i32 v -> lookup_has (potential o) v = op_true o v.
Proof.
  intros R. destruct o as [[n s]|[n s]|[n s]|[n s]|[n s]|[n s]| |];
  try (destruct v; reflexivity);
  unfold potential, lit_integral, lit_floor, lit_ceil, conv, i32max, i32min, op_true; cbn [fst snd];
  pose proof (p10_pos s) as Pp; set (p := p10 s) in *;
  pose proof (Z.div_mod n p ltac:(lia)) as D1; pose proof (Z.mod_pos_bound n p Pp) as D2;
  pose proof (Z.div_mod (- n) p ltac:(lia)) as D3; pose proof (Z.mod_pos_bound (- n) p Pp) as D4;
  set (q := n / p) in *; set (r := n mod p) in *; set (q' := (- n) / p) in *; set (r' := (- n) mod p) in *;
  clearbody q r q' r' p;
  (destruct v as [x|]; [cbn in R; unfold i32min, i32max in R | bz; reflexivity]);
  bz; cbn [negb lookup_has existsb];
  unfold contains, closed_rce, gt_rce, ge_rce, lt_rce, le_rce, notnull_rce, empty_rce, null_rce; cbn [lo hi below negb andb orb];
  bz; cbn [negb andb orb]; try reflexivity; try (exfalso; nia); try nia;
  try (exfalso; destruct (Z_le_gt_dec x q) as [G|G]; [destruct (Z.eq_dec x q) as [G'|G']|]; nia);
  try (exfalso; destruct (Z_le_gt_dec x (- q')) as [G|G]; [destruct (Z.eq_dec x (- q')) as [G'|G']|]; nia).
Qed.

(* ---- updateCol ---- *)
Lemma update_inner_exact c pot v :
  existsb (fun r => contains r v) (flat_map (fun p => let '(n, ok) := try_intersect c p in
      if ok && negb (is_empty n) then [n] else []) pot) = contains c v && existsb (fun r => contains r v) pot.
Proof.
  induction pot as [|p pot IH]; cbn [flat_map existsb]; [rewrite andb_false_r; reflexivity|].
  rewrite existsb_app, IH. clear IH.
  pose proof (try_intersect_exact c p v) as TE. pose proof (try_intersect_ok c p) as TO.
  destruct (try_intersect c p) as [n ok]. cbn [fst snd] in *.
  destruct ok; cbn [andb].
  - destruct (is_empty n) eqn:E; cbn [negb existsb].
    + rewrite (is_empty_sound n v E) in TE.
      destruct (contains c v), (contains p v), (existsb _ pot); cbn in *; congruence.
    + rewrite TE, orb_false_r. destruct (contains c v), (contains p v), (existsb _ pot); reflexivity.
  - rewrite (TO eq_refl) in TE. cbn in TE. cbn [existsb].
    destruct (contains c v), (contains p v), (existsb _ pot); cbn in *; congruence.
Qed.
Lemma update_col_exact cur pot v : lookup_has (update_col cur pot) v = lookup_has cur v && lookup_has pot v.
Proof.
  unfold lookup_has, update_col. induction cur as [|c cur IH]; cbn [flat_map existsb]; [reflexivity|].
  rewrite existsb_app, IH, update_inner_exact.
  destruct (contains c v), (existsb _ cur), (existsb _ pot); reflexivity.
Qed.

(* ---- SimplifyRangeColumn keeps the union ---- *)
Lemma rce_insert_exact x l v : existsb (fun r => contains r v) (rce_insert x l) = contains x v || existsb (fun r => contains r v) l.
Proof.
  induction l as [|y l IH]; cbn; [reflexivity|]. destruct (rce_less y x); cbn; [rewrite IH|];
  destruct (contains x v), (contains y v); reflexivity.
Qed.
Lemma rce_sort_exact l v : existsb (fun r => contains r v) (rce_sort l) = existsb (fun r => contains r v) l.
Proof. induction l as [|x l IH]; cbn; [reflexivity|]. rewrite rce_insert_exact. unfold rce_sort in IH. rewrite IH. reflexivity. Qed.
Lemma try_union_none_nonempty cur r : try_union cur r = None -> is_empty cur = false.
Proof. unfold try_union. destruct (is_empty r); [discriminate|]. destruct (is_empty cur); [discriminate|reflexivity]. Qed.
Lemma simplify_fold_exact v l : forall res cur res' cur',
  fold_left simplify_step l (res, cur) = (res', cur') ->
  existsb (fun r => contains r v) (cur' :: res') =
  existsb (fun r => contains r v) (cur :: res) || existsb (fun r => contains r v) l.
Proof.
  induction l as [|r l IH]; intros res cur res' cur'; cbn [fold_left].
  - intros [= <- <-]. rewrite orb_false_r. reflexivity.
  - unfold simplify_step at 2. destruct (try_union cur r) as [m|] eqn:U.
    + intros H. rewrite (IH _ _ _ _ H). cbn. rewrite (try_union_exact cur r m v U).
      destruct (contains cur v), (contains r v), (existsb _ res); reflexivity.
    + rewrite (try_union_none_nonempty cur r U). cbn [negb]. intros H. rewrite (IH _ _ _ _ H). cbn.
      destruct (contains cur v), (contains r v), (existsb _ res); reflexivity.
Qed.
Lemma existsb_rev' {A} (f : A -> bool) l : existsb f (rev l) = existsb f l.
Proof. induction l as [|x l IH]; cbn; [reflexivity|]. rewrite existsb_app, IH. cbn. rewrite orb_false_r. apply orb_comm. Qed.
Theorem simplify_range_column_exact l v :
  existsb (fun r => contains r v) (simplify_range_column l) = existsb (fun r => contains r v) l.
Proof.
  unfold simplify_range_column. destruct l as [|x l]; [reflexivity|].
  destruct (fold_left simplify_step (rce_sort (x :: l)) ([], empty_rce)) as [res cur] eqn:F.
  pose proof (simplify_fold_exact v _ _ _ _ _ F) as H. rewrite rce_sort_exact in H. cbn [existsb] in H.
  rewrite contains_empty in H. cbn [orb] in H. cbn [existsb]. rewrite <- H.
  destruct (is_empty cur) eqn:E; cbn [negb]; rewrite existsb_rev'; cbn [existsb].
  - rewrite (is_empty_sound cur v E). reflexivity.
  - reflexivity.
Qed.

(* ---- the builder ---- *)
Lemma apply_op_inv v st o : in_i32 v ->
  let st' := apply_op st o in
  (snd st = true -> st' = st) /\
  (snd st = false -> snd st' = false -> lookup_has (fst st') v = lookup_has (fst st) v && op_true o v) /\
  (snd st = false -> snd st' = true -> lookup_has (fst st) v && op_true o v = false).
Proof.
  intros R. destruct st as [cur inv]. cbn [fst snd]. unfold apply_op. destruct inv; [repeat split; intros; discriminate|].
  pose proof (update_col_exact cur (potential o) v) as U. rewrite (potential_exact o v R) in U.
  destruct (update_col cur (potential o)) as [|n new] eqn:E.
  - cbn [fst snd]. repeat split; intros; try discriminate. rewrite <- U. reflexivity.
  - destruct o; cbn [fst snd]; try (repeat split; intros; try discriminate; exact U).
    destruct (negb (lit_integral l)); cbn [fst snd]; [repeat split; intros; try discriminate; exact U|].
    pose proof (simplify_range_column_exact (n :: new) v) as S.
    destruct (simplify_range_column (n :: new)) as [|s1 srest]; cbn [fst snd]; repeat split; intros; try discriminate.
    + rewrite <- U. unfold lookup_has. rewrite <- S. reflexivity.
    + unfold lookup_has in *. rewrite S. exact U.
Qed.

Lemma run_inv v : in_i32 v -> forall ops st,
  let st' := fold_left apply_op ops st in
  (snd st = true -> st' = st) /\
  (snd st = false -> snd st' = false -> lookup_has (fst st') v = lookup_has (fst st) v && filter_true ops v) /\
  (snd st = false -> snd st' = true -> lookup_has (fst st) v && filter_true ops v = false).
Proof.
  intros R. induction ops as [|o ops IH]; intros st; cbn [fold_left filter_true forallb].
  - repeat split; intros; try congruence. rewrite andb_true_r. reflexivity.
  - destruct (apply_op_inv v st o R) as [A1 [A2 A3]]. destruct (IH (apply_op st o)) as [I1 [I2 I3]].
    fold (filter_true ops v) in *.
    repeat split.
    + intros H. rewrite (A1 H). rewrite (A1 H) in I1. auto.
    + intros H H'. destruct (snd (apply_op st o)) eqn:E.
      * rewrite (I1 eq_refl) in H'. congruence.
      * rewrite (I2 eq_refl H'), (A2 H eq_refl). rewrite andb_assoc. reflexivity.
    + intros H H'. destruct (snd (apply_op st o)) eqn:E.
      * rewrite andb_assoc, (A3 H eq_refl). reflexivity.
      * pose proof (I3 eq_refl H') as X. rewrite (A2 H eq_refl) in X. rewrite andb_assoc. exact X.
Qed.

Lemma result_exact st v : snd st = false -> lookup_has (result st) v = lookup_has (fst st) v.
Proof.
  destruct st as [cur inv]. cbn [fst snd]. intros ->. unfold result.
  assert (H : lookup_has (filter (fun r => negb (is_empty r)) (rotate1 cur)) v = lookup_has cur v).
  { unfold lookup_has. transitivity (existsb (fun r => contains r v) (rotate1 cur)).
    - induction (rotate1 cur) as [|x l IH]; cbn; [reflexivity|]. destruct (is_empty x) eqn:E; cbn.
      + rewrite (is_empty_sound x v E). exact IH.
      + rewrite IH. reflexivity.
    - destruct cur as [|h t]; [reflexivity|]. cbn [rotate1]. rewrite existsb_app. cbn.
      destruct (contains h v), (existsb _ t); reflexivity. }
  destruct (filter _ (rotate1 cur)); [|exact H]. rewrite <- H. reflexivity.
Qed.

(* completeness and precision together: the lookup contains the column value iff the whole conjunction is TRUE *)
Theorem lookup_exact ops v : in_i32 v -> lookup_has (result (run ops)) v = filter_true ops v.
Proof.
  intros R. unfold run. destruct (run_inv v R ops binit) as [_ [I2 I3]]. cbn [snd fst binit] in *.
  destruct (snd (fold_left apply_op ops binit)) eqn:E.
  - specialize (I3 eq_refl eq_refl). cbn in I3. rewrite I3.
    destruct (fold_left apply_op ops binit) as [cur inv]. cbn in E. subst inv. reflexivity.
  - rewrite (result_exact _ v E), (I2 eq_refl eq_refl). reflexivity.
Qed.
