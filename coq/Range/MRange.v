(* C46 model, part 2: multi-column ranges (sql/range_mysql.go) and RemoveOverlappingRanges with the
   interval tree (sql/range_tree.go) abstracted to its contents. *)
From Coq Require Import List ZArith Bool Lia PeanoNat.
Import ListNotations.
From GMS Require Import Range.Cut.

Definition range := list rce.
Definition tuple := list key.

Fixpoint rcontains (rg : range) (t : tuple) : bool :=
  match rg, t with
  | [], [] => true
  | r :: rg', v :: t' => contains r v && rcontains rg' t'
  | _, _ => false
  end.
Definition ucontains (rs : list range) (t : tuple) : bool := existsb (fun r => rcontains r t) rs.

Definition as_empty (rg : range) : range := map (fun _ => empty_rce) rg.
(* MySQLRange.IsEmpty *)
Definition r_is_empty (rg : range) : bool := match rg with [] => true | _ => existsb is_empty rg end.

Fixpoint all2 (f : rce -> rce -> bool) (a b : range) : bool :=
  match a, b with
  | [], [] => true
  | x :: a', y :: b' => f x y && all2 f a' b'
  | _, _ => false
  end.
Definition r_equals := all2 rce_equals.
Definition r_is_subset_of := all2 is_subset_of.
Definition r_is_superset_of (a b : range) := r_is_subset_of b a.
(* Overlaps and IsConnected of MySQLRange are the same code: every column Overlaps *)
Definition r_overlaps := all2 (fun x y => snd (overlaps x y)).

(* MySQLRange.Compare; None = the length-mismatch error *)
Fixpoint r_compare (a b : range) : option comparison :=
  match a, b with
  | [], [] => Some Eq
  | x :: a', y :: b' =>
    if negb (Nat.eqb (length a') (length b')) then None else
    match cut_cmp (lo x) (lo y) with
    | Eq => match cut_cmp (hi x) (hi y) with Eq => r_compare a' b' | c => Some c end
    | c => Some c
    end
  | _, _ => None
  end.

(* MySQLRange.Intersect *)
Fixpoint intersect_cols (a b : range) : option range :=
  match a, b with
  | x :: a', y :: b' =>
    let '(i, ok) := try_intersect x y in
    if ok then option_map (cons i) (intersect_cols a' b') else None
  | _, _ => Some []
  end.
Definition r_intersect (a b : range) : range :=
  if negb (Nat.eqb (length a) (length b)) then []
  else match intersect_cols a b with Some r => r | None => as_empty a end.

(* TryMerge, after the two superset tests: exactly one column may differ, and is united.
   The Go loop returns false at the second differing column; with no differing column it returns the
   error "invalid index to merge", which is unreachable after the superset tests (lemma
   merge_one_none_all_equal_unreachable) and is folded into None here. *)
Fixpoint merge_one (a b : range) : option range :=
  match a, b with
  | x :: a', y :: b' =>
    if rce_equals x y then option_map (cons x) (merge_one a' b')
    else if r_equals a' b' then option_map (fun m => m :: a') (try_union x y) else None
  | _, _ => None
  end.
Definition try_merge (a b : range) : option range :=
  if negb (Nat.eqb (length a) (length b)) then None
  else if r_is_superset_of a b then Some a
  else if r_is_superset_of b a then Some b
  else merge_one a b.

Fixpoint replace (i : nat) (c : rce) (a : range) : range :=
  match a, i with
  | [], _ => []
  | _ :: a', O => c :: a'
  | x :: a', S j => x :: replace j c a'
  end.
Fixpoint first_diff (a b : range) : option nat :=
  match a, b with
  | x :: a', y :: b' => if rce_equals x y then option_map S (first_diff a' b') else Some O
  | _, _ => None
  end.

(* MySQLRange.RemoveOverlap; the recursion is on the ranges with one more equal column, fuel = columns + 1 *)
Fixpoint remove_overlap (fuel : nat) (a b : range) : option (list range * bool) :=
  match fuel with
  | O => None
  | S f =>
    match try_merge a b with
    | Some m => Some ([m], true)
    | None =>
      if negb (r_overlaps a b) then Some ([a; b], false)
      else match first_diff a b with
        | None => Some ([], true)
        | Some i =>
          let x := nth i a empty_rce in
          let y := nth i b empty_rce in
          let ov := fst (overlaps x y) in
          let p1 := map (fun c => replace i c a) (subtract x ov) in
          let p2 := map (fun c => replace i c b) (subtract y ov) in
          match remove_overlap f (replace i ov a) (replace i ov b) with
          | None => None
          | Some (rs, _) => Some (p1 ++ p2 ++ rs, true)
          end
        end
    end
  end.
Definition remove_overlap_top (a b : range) := remove_overlap (S (length a)) a b.

(* IntersectRanges: the first range of non-zero length, intersected in turn with every later range of
   non-zero length; nil (None) when there is no such range or an Intersect result has length 0 (which
   MySQLRange.Intersect produces only for a length mismatch: an empty intersection is the range of empty columns). *)
Fixpoint intersect_ranges_rest (rang : range) (rest : list range) : option range :=
  match rest with
  | [] => if Nat.eqb (length rang) 0 then None else Some rang
  | rc :: rest' =>
    if Nat.eqb (length rc) 0 then intersect_ranges_rest rang rest'
    else let n := r_intersect rang rc in
         if Nat.eqb (length n) 0 then None else intersect_ranges_rest n rest'
  end.
Fixpoint intersect_ranges (rs : list range) : option range :=    (* None = nil *)
  match rs with
  | [] => None
  | rc :: rest => if Nat.eqb (length rc) 0 then intersect_ranges rest else intersect_ranges_rest rc rest
  end.

(* ---------- RemoveOverlappingRanges ---------- *)
(* The tree is a set of ranges iterated in MySQLRange.Compare order: a sorted duplicate-free list. *)
Definition r_lt (a b : range) : bool := match r_compare a b with Some Lt => true | _ => false end.
Fixpoint tree_insert (x : range) (tr : list range) : list range :=
  match tr with
  | [] => [x]
  | y :: tr' => if r_equals x y then tr else if r_lt x y then x :: tr else y :: tree_insert x tr'
  end.
Fixpoint tree_remove (x : range) (tr : list range) : list range :=
  match tr with
  | [] => []
  | y :: tr' => if r_equals x y then tr' else y :: tree_remove x tr'
  end.
Definition tree_mem (x : range) (tr : list range) : bool := existsb (r_equals x) tr.
(* what FindConnections tests per column: the two bounds compare <= 0 both ways *)
Definition col_connected (x y : rce) : bool :=
  cmp_le (cut_cmp (lo x) (hi y)) && cmp_le (cut_cmp (lo y) (hi x)).
Definition r_connected := all2 col_connected.

(* the inner for-loop over connectingRanges: the first one whose RemoveOverlap reports true *)
Fixpoint first_ok (conns : list range) (rang : range) : option (option (range * list range)) :=
  match conns with
  | [] => Some None
  | c :: conns' =>
    match remove_overlap_top c rang with
    | None => None
    | Some (news, true) => Some (Some (c, news))
    | Some (_, false) => first_ok conns' rang
    end
  end.

(* GetRangeCollection: in-order walk, empty ranges skipped (the last one remembered), each non-empty range
   merged into the previous result when TryMerge succeeds *)
Fixpoint collect (tr : list range) (acc : list range) (* reversed *) (emp : range) : list range * range :=
  match tr with
  | [] => (rev acc, emp)
  | r :: tr' =>
    if r_is_empty r then collect tr' acc r
    else match acc with
      | [] => collect tr' [r] emp
      | last :: acc' =>
        match try_merge last r with
        | Some m => collect tr' (m :: acc') emp
        | None => collect tr' (r :: acc) emp
        end
      end
  end.
Definition get_range_collection (tr : list range) : list range :=
  let '(res, emp) := collect tr [] [] in
  match res with [] => [emp] | _ => res end.

(* validateRangeCollection: first overlapping pair (i < j) *)
Fixpoint any_overlap (rs : list range) : bool :=
  match rs with
  | [] => false
  | r :: rs' => existsb (r_overlaps r) rs' || any_overlap rs'
  end.

Inductive ror_result : Type :=
| ROk (out : list range)          (* the returned collection *)
| RErrOverlap                     (* validateRangeCollection: "overlapping ranges" *)
| RBadTrace                       (* the supplied FindConnections observation is not what the contents allow *)
| RFuel.                          (* step bound exhausted (the Go loop is still running) *)

(* One FindConnections observation is admissible when every reported range is stored and connected.
   It is complete when every stored range that Overlaps the probe is reported. *)
Definition find_sound (tr : list range) (rang : range) (found : list range) : bool :=
  forallb (fun c => tree_mem c tr && r_connected rang c) found.
Definition find_complete (tr : list range) (rang : range) (found : list range) : bool :=
  forallb (fun c => negb (r_overlaps c rang) || tree_mem c found) tr.

(* The worklist loop.  [finds] supplies, per iteration, the observed result of FindConnections (the tree's
   traversal order is not modelled).  Returns the result and whether every observation was complete. *)
Fixpoint ror_loop (fuel : nat) (finds : list (list range)) (tr work : list range) (complete : bool)
  : ror_result * bool :=
  match work with
  | [] =>
    let out := get_range_collection tr in
    if any_overlap out then (RErrOverlap, complete) else (ROk out, complete)
  | rang :: work' =>
    match fuel, finds with
    | O, _ => (RFuel, complete)
    | _, [] => (RBadTrace, complete)
    | S f, found :: finds' =>
      if negb (find_sound tr rang found) then (RBadTrace, complete) else
      let complete' := complete && find_complete tr rang found in
      match first_ok found rang with
      | None => (RFuel, complete')
      | Some None => ror_loop f finds' (tree_insert rang tr) work' complete'
      | Some (Some (c, news)) => ror_loop f finds' (tree_remove c tr) (work' ++ news) complete'
      end
    end
  end.
Definition remove_overlapping_ranges (fuel : nat) (finds : list (list range)) (rs : list range) : ror_result * bool :=
  match rs with
  | [] => (ROk [], true)             (* returns nil *)
  | r0 :: rest => ror_loop fuel finds [r0] rest true
  end.

(* MySQLRangeCollection.Intersect: all pairwise intersections of non-zero length, then RemoveOverlappingRanges *)
Definition collection_pairs (xs ys : list range) : list range :=
  flat_map (fun x => flat_map (fun y => let n := r_intersect x y in
                                        if Nat.ltb 0 (length n) then [n] else []) ys) xs.
