(* C03 model + proofs, part 4: the in-memory index scan (memory/table.go indexScanRowIter.Next over the index storage
   of memory/table_data.go): the storage of a secondary index holds one entry per table row — the index key tuple of
   the row followed by the row's location — the iterator walks the storage, keeps the entries whose key tuple lies
   in the lookup's ranges (the range filter expression of memory/index.go is the denotation of the ranges, C03
   mutant (d)) and dereferences the location.  Storage shape copied from the C16 model: partitions are abstracted
   to one list of rows, a location is a position in it. *)
From Coq Require Import List ZArith Bool Lia PeanoNat Permutation.
Import ListNotations.
From GMS Require Import Range.Cut Range.MRange.
Open Scope nat_scope.

Definition trow : Type := tuple.                          (* a table row: all column values *)
Definition ientry : Type := (tuple * nat)%type.            (* index storage entry: key tuple, row location *)

Section IndexScan.
Variable kcols : nat.                                      (* the index covers the first kcols columns (after projection) *)
Definition key_of (r : trow) : tuple := firstn kcols r.

(* rowToIndexStorage for every row: what a consistent index storage contains *)
Fixpoint entries_from (n : nat) (rows : list trow) : list ientry :=
  match rows with
  | [] => []
  | r :: rows' => (key_of r, n) :: entries_from (S n) rows'
  end.
Definition storage_consistent (rows : list trow) (storage : list ientry) : Prop :=
  Permutation storage (entries_from 0 rows).

(* indexScanRowIter: iterate the storage, filter by the ranges, dereference *)
Definition index_read (rows : list trow) (storage : list ientry) (ranges : list range) : list trow :=
  flat_map (fun e => if ucontains ranges (fst e) then match nth_error rows (snd e) with Some r => [r] | None => [] end else [])
           storage.

Lemma index_read_perm rows s1 s2 ranges : Permutation s1 s2 -> Permutation (index_read rows s1 ranges) (index_read rows s2 ranges).
Proof.
  unfold index_read. induction 1; cbn [flat_map]; auto.
  - apply Permutation_app_head. assumption.
  - rewrite !app_assoc. apply Permutation_app_tail. apply Permutation_app_comm.
  - eapply Permutation_trans; eassumption.
Qed.
Lemma index_read_entries pre rows ranges :
  index_read (pre ++ rows) (entries_from (length pre) rows) ranges = filter (fun r => ucontains ranges (key_of r)) rows.
Proof.
  revert pre. induction rows as [|r rows IH]; intros pre; cbn [entries_from index_read flat_map filter]; [reflexivity|].
  cbn [fst snd]. rewrite nth_error_app2 by lia. rewrite Nat.sub_diag. cbn [nth_error].
  specialize (IH (pre ++ [r])). rewrite app_length in IH. cbn [length] in IH. rewrite Nat.add_1_r in IH.
  rewrite <- app_assoc in IH. cbn [app] in IH. unfold index_read in IH. rewrite IH.
  destruct (ucontains ranges (key_of r)); reflexivity.
Qed.
(* the scan returns, as a bag, exactly the rows whose key tuple lies in the ranges *)
Theorem index_read_exact rows storage ranges : storage_consistent rows storage ->
  Permutation (index_read rows storage ranges) (filter (fun r => ucontains ranges (key_of r)) rows).
Proof.
  intros C. eapply Permutation_trans; [apply index_read_perm; exact C|].
  rewrite <- (index_read_entries [] rows ranges). apply Permutation_refl.
Qed.

(* composition with a residual Filter node: if, row by row, "the whole filter is TRUE" = "key in ranges" && "residual
   TRUE", then Filter(residual, IndexedTableAccess) returns the same bag as Filter(whole, full scan) *)
Lemma filter_perm {A} (f : A -> bool) a b : Permutation a b -> Permutation (filter f a) (filter f b).
Proof.
  induction 1 as [|x l l' P IHP|x y l|l l' l'' P1 IH1 P2 IH2]; cbn [filter].
  - constructor.
  - destruct (f x); [apply perm_skip; exact IHP|exact IHP].
  - destruct (f x), (f y); try apply perm_swap; apply Permutation_refl.
  - eapply Permutation_trans; eassumption.
Qed.
Theorem index_scan_then_residual_eq_filtered_scan rows storage ranges (whole residual : trow -> bool) :
  storage_consistent rows storage ->
  (forall r, In r rows -> whole r = ucontains ranges (key_of r) && residual r) ->
  Permutation (filter residual (index_read rows storage ranges)) (filter whole rows).
Proof.
  intros C H. eapply Permutation_trans; [apply filter_perm; apply index_read_exact; exact C|].
  clear C. induction rows as [|r rows IH]; cbn [filter]; [constructor|].
  rewrite (H r (or_introl eq_refl)). assert (IH' := IH (fun r' I => H r' (or_intror I))).
  destruct (ucontains ranges (key_of r)); cbn [filter andb]; [destruct (residual r); [apply perm_skip|]; exact IH'|exact IH'].
Qed.
End IndexScan.
