(* C46 proofs, part 4: with well-formed inputs (no empty column) and complete FindConnections observations,
   RemoveOverlappingRanges never reports "overlapping ranges". *)
From Coq Require Import List ZArith Bool Lia PeanoNat.
Import ListNotations.
From GMS Require Import Range.Cut Range.CutProofs Range.MRange Range.MRangeProofs Range.MRangeMore.
Open Scope nat_scope.

(* pairwise non-overlap at the cut level (what validateRangeCollection tests) *)
Inductive sep : list range -> Prop :=
| sep_nil : sep []
| sep_cons r rs : Forall (fun q => r_overlaps r q = false) rs -> sep rs -> sep (r :: rs).
Definition cross (xs ys : list range) : Prop := forall x y, In x xs -> In y ys -> r_overlaps x y = false.

Lemma any_overlap_sep rs : sep rs -> any_overlap rs = false.
Proof.
  induction 1 as [|r rs F S IH]; cbn; [reflexivity|]. rewrite IH, orb_false_r.
  destruct (existsb (r_overlaps r) rs) eqn:E; [|reflexivity]. apply existsb_exists in E. destruct E as [q [Iq Oq]].
  rewrite Forall_forall in F. rewrite (F q Iq) in Oq. discriminate.
Qed.
Lemma sep_app xs ys : sep xs -> sep ys -> cross xs ys -> sep (xs ++ ys).
Proof.
  induction 1 as [|r rs F S IH]; intros Sy C; cbn; [exact Sy|]. constructor.
  - apply Forall_app. split; [exact F|]. apply Forall_forall. intros y Iy. apply C; [left; reflexivity|exact Iy].
  - apply IH; [exact Sy|]. intros x y Ix Iy. apply C; [right; exact Ix|exact Iy].
Qed.
Lemma sep_rev l : sep l -> sep (rev l).
Proof.
  induction 1 as [|r rs F S IH]; cbn; [constructor|]. apply sep_app; [exact IH|constructor; [constructor|constructor]|].
  intros x y Ix [<-|[]]. rewrite r_overlaps_sym. rewrite Forall_forall in F. apply F. apply in_rev. exact Ix.
Qed.
Lemma sep_tail r rs : sep (r :: rs) -> sep rs.
Proof. inversion 1; assumption. Qed.
Lemma sep_head r rs q : sep (r :: rs) -> In q rs -> r_overlaps r q = false.
Proof. inversion 1 as [|? ? F]; subst. rewrite Forall_forall in F. apply F. Qed.

(* GetRangeCollection keeps the stored ranges separated *)
Lemma collect_sep n : forall tr acc emp res emp',
  Forall (wf n) acc -> Forall (wf n) tr -> sep acc -> sep tr -> cross acc tr ->
  collect tr acc emp = (res, emp') -> sep res.
Proof.
  induction tr as [|r tr IH]; intros acc emp res emp' Wa Wt Sa St C; cbn [collect].
  - intros [= <- _]. apply sep_rev. exact Sa.
  - inversion Wt as [|? ? Wr Wt']; subst.
    assert (C' : cross acc tr) by (intros x y Ix Iy; apply C; [exact Ix|right; exact Iy]).
    destruct (r_is_empty r).
    + apply IH; auto. eapply sep_tail; eauto.
    + destruct acc as [|last acc'].
      * apply IH; auto; [constructor; [constructor|constructor]|eapply sep_tail; eauto|].
        intros x y [<-|[]] Iy. eapply sep_head; eauto.
      * inversion Wa as [|? ? Wl Wa']; subst.
        destruct (try_merge last r) as [m|] eqn:M.
        -- pose proof (try_merge_wf n last r m Wl Wr M) as Wm.
           assert (MO : forall o, wf n o -> r_overlaps last o = false -> r_overlaps r o = false -> r_overlaps m o = false).
           { intros o Wo H1 H2. destruct (r_overlaps m o) eqn:E; [|reflexivity].
             destruct (try_merge_overlap last r m o (proj2 Wl) (proj2 Wr) (proj2 Wo) M E); congruence. }
           apply IH; auto.
           ++ constructor; [|eapply sep_tail; eauto]. apply Forall_forall. intros p Ip.
              rewrite Forall_forall in Wa'. apply MO; [apply Wa'; exact Ip|eapply sep_head; eauto|].
              rewrite r_overlaps_sym. apply C; [right; exact Ip|left; reflexivity].
           ++ eapply sep_tail; eauto.
           ++ intros x y [<-|Ix] Iy.
              ** rewrite Forall_forall in Wt'. apply MO; [apply Wt'; exact Iy|apply C; [left; reflexivity|right; exact Iy]|].
                 eapply sep_head; eauto.
              ** apply C'; [right; exact Ix|exact Iy].
        -- apply IH; auto.
           ++ constructor; [|exact Sa]. apply Forall_forall. intros p Ip. rewrite r_overlaps_sym. apply C; [exact Ip|left; reflexivity].
           ++ eapply sep_tail; eauto.
           ++ intros x y [<-|Ix] Iy; [eapply sep_head; eauto|apply C'; assumption].
Qed.
Lemma get_range_collection_sep n tr : Forall (wf n) tr -> sep tr -> any_overlap (get_range_collection tr) = false.
Proof.
  intros W S. unfold get_range_collection. destruct (collect tr [] []) as [res emp] eqn:E.
  pose proof (collect_sep n tr [] [] res emp (Forall_nil _) W sep_nil S (fun x y I => match I with end) E) as R.
  destruct res; [reflexivity|]. apply any_overlap_sep. exact R.
Qed.

(* tree operations *)
Lemma tree_insert_in x r tr : In x (tree_insert r tr) -> x = r \/ In x tr.
Proof.
  induction tr as [|y tr IH]; cbn; [intros [<-|[]]; auto|].
  destruct (r_equals r y); [auto|]. destruct (r_lt r y); cbn; [intros [<-|H]; auto|].
  intros [<-|H]; auto. destruct (IH H); auto.
Qed.
Lemma tree_remove_in x c tr : In x (tree_remove c tr) -> In x tr.
Proof.
  induction tr as [|y tr IH]; cbn; [auto|]. destruct (r_equals c y); [auto|]. intros [<-|H]; auto.
Qed.
Lemma tree_insert_sep r tr : sep tr -> (forall t, In t tr -> r_overlaps t r = false) -> sep (tree_insert r tr).
Proof.
  induction 1 as [|y tr F S IH]; intros H; cbn; [constructor; [constructor|constructor]|].
  destruct (r_equals r y); [constructor; assumption|]. destruct (r_lt r y).
  - constructor; [|constructor; assumption]. apply Forall_forall. intros q Iq. rewrite r_overlaps_sym. apply H. exact Iq.
  - constructor.
    + apply Forall_forall. intros q Iq. destruct (tree_insert_in _ _ _ Iq) as [->|Iq'].
      * apply H. left. reflexivity.
      * rewrite Forall_forall in F. apply F. exact Iq'.
    + apply IH. intros t It. apply H. right. exact It.
Qed.
Lemma tree_remove_sep c tr : sep tr -> sep (tree_remove c tr).
Proof.
  induction 1 as [|y tr F S IH]; cbn; [constructor|]. destruct (r_equals c y); [exact S|].
  constructor; [|exact IH]. apply Forall_forall. intros q Iq. rewrite Forall_forall in F. apply F.
  eapply tree_remove_in; eauto.
Qed.

Lemma first_ok_none found rang : first_ok found rang = Some None ->
  forall c, In c found -> r_overlaps c rang = false.
Proof.
  induction found as [|y found IH]; cbn [first_ok In]; [intros _ c []|].
  destruct (remove_overlap_top y rang) as [[l [|]]|] eqn:R; try discriminate.
  intros H c [<-|Ic]; [|apply IH; assumption]. unfold remove_overlap_top in R. eapply remove_overlap_false; eauto.
Qed.
Lemma ror_loop_flag fuel : forall finds tr work c, snd (ror_loop fuel finds tr work c) = true -> c = true.
Proof.
  induction fuel as [|f IH]; intros finds tr work c; destruct work as [|rang work]; cbn [ror_loop].
  - destruct (any_overlap _); cbn; auto.
  - cbn. auto.
  - destruct (any_overlap _); cbn; auto.
  - destruct finds as [|found finds]; [cbn; auto|]. destruct (negb (find_sound tr rang found)); [cbn; auto|].
    destruct (first_ok found rang) as [[[cn news]|]|]; cbn [snd].
    + intros H. apply IH in H. apply andb_prop in H. tauto.
    + intros H. apply IH in H. apply andb_prop in H. tauto.
    + intros H. apply andb_prop in H. tauto.
Qed.

Theorem ror_loop_no_error n fuel : forall finds tr work c res,
  Forall (wf n) tr -> Forall (wf n) work -> sep tr ->
  ror_loop fuel finds tr work c = (res, true) -> res <> RErrOverlap.
Proof.
  induction fuel as [|f IH]; intros finds tr work c res Wt Ww S.
  - destruct work as [|rang work]; cbn [ror_loop].
    + rewrite (get_range_collection_sep n tr Wt S). intros [= <- _]. discriminate.
    + intros [= <- _]. discriminate.
  - destruct work as [|rang work]; cbn [ror_loop].
    + rewrite (get_range_collection_sep n tr Wt S). intros [= <- _]. discriminate.
    + destruct finds as [|found finds]; [intros [= <- _]; discriminate|].
      destruct (find_sound tr rang found) eqn:FS; cbn [negb]; [|intros [= <- _]; discriminate].
      inversion Ww as [|? ? Wr Ww']; subst.
      destruct (first_ok found rang) as [[[cn news]|]|] eqn:FO; [| |intros [= <- _]; discriminate].
      * intros H. destruct (first_ok_some _ _ _ _ FO) as [Hin RO].
        assert (Hc : In cn tr).
        { unfold find_sound in FS. rewrite forallb_forall in FS. specialize (FS cn Hin).
          apply andb_prop in FS. apply tree_mem_in. tauto. }
        rewrite Forall_forall in Wt. pose proof (Wt cn Hc) as Wc.
        unfold remove_overlap_top in RO. pose proof (remove_overlap_wf n _ _ _ _ _ Wc Wr RO) as Wn.
        eapply (IH _ _ _ _ _ _ _ _ H).
        Unshelve.
        -- apply Forall_forall. intros x Ix. apply Wt. eapply tree_remove_in; eauto.
        -- apply Forall_app. split; assumption.
        -- apply tree_remove_sep. exact S.
      * intros H. pose proof (f_equal snd H) as Fl. cbn [snd] in Fl. apply ror_loop_flag in Fl.
        apply andb_prop in Fl. destruct Fl as [_ FC].
        eapply (IH _ _ _ _ _ _ _ _ H).
        Unshelve.
        -- apply Forall_forall. intros x Ix. destruct (tree_insert_in _ _ _ Ix) as [->|Ix']; [exact Wr|].
           rewrite Forall_forall in Wt. apply Wt. exact Ix'.
        -- exact Ww'.
        -- apply tree_insert_sep; [exact S|]. intros t It.
           unfold find_complete in FC. rewrite forallb_forall in FC. specialize (FC t It).
           apply orb_prop in FC. destruct FC as [FC|FC].
           ++ destruct (r_overlaps t rang); [discriminate|reflexivity].
           ++ apply (first_ok_none found rang FO). apply tree_mem_in. exact FC.
Qed.
Theorem remove_overlapping_ranges_no_error n fuel finds rs res :
  Forall (wf n) rs -> remove_overlapping_ranges fuel finds rs = (res, true) -> res <> RErrOverlap.
Proof.
  destruct rs as [|r0 rest]; cbn [remove_overlapping_ranges]; [intros _ [= <-]; discriminate|].
  intros W. inversion W; subst. apply (ror_loop_no_error n); auto. constructor; [constructor|constructor].
Qed.
