(* C03 model: sql.MySQLIndexBuilder (sql/index_builder.go) for one INT (int32) index column:
   Equals / NotEquals / GreaterThan / GreaterOrEqual / LessThan / LessOrEqual / IsNull / IsNotNull applied in
   sequence (a conjunction), floor/ceil of non-integral decimal literals, convertKey's Overflow/Underflow
   cases, updateCol (pairwise TryIntersect, empties dropped, invalid when nothing is left), Ranges().
   A literal is the exact decimal n * 10^-s. *)
From Coq Require Import List ZArith Bool Lia.
Import ListNotations.
From GMS Require Import Range.Cut.
Open Scope Z_scope.

Definition lit : Type := (Z * nat)%type.
Definition p10 (s : nat) : Z := 10 ^ Z.of_nat s.
Definition lit_floor (l : lit) : Z := fst l / p10 (snd l).
Definition lit_ceil (l : lit) : Z := - ((- fst l) / p10 (snd l)).
Definition lit_integral (l : lit) : bool := (fst l mod p10 (snd l)) =? 0.

Definition i32min : Z := -2147483648.
Definition i32max : Z := 2147483647.
Inductive inrange := InRange | Overflow | Underflow.
(* Int32 Convert of an integral value: clamps and reports the direction *)
Definition conv (z : Z) : Z * inrange :=
  if z >? i32max then (i32max, Overflow) else if z <? i32min then (i32min, Underflow) else (z, InRange).

Inductive op : Type :=
| OEq (l : lit) | ONe (l : lit) | OGt (l : lit) | OGe (l : lit) | OLt (l : lit) | OLe (l : lit)
| OIsNull | OIsNotNull.

(* the potential ranges each call hands to updateCol *)
Definition potential (o : op) : list rce :=
  match o with
  | OEq l => if negb (lit_integral l) then [empty_rce] else
             let '(z, r) := conv (lit_floor l) in
             match r with InRange => [closed_rce z z] | _ => [empty_rce] end
  | ONe l => if negb (lit_integral l) then [notnull_rce] else
             let '(z, r) := conv (lit_floor l) in
             match r with InRange => [gt_rce z; lt_rce z] | _ => [notnull_rce] end
  | OGt l => let '(z, r) := conv (lit_floor l) in
             match r with Overflow => [empty_rce] | Underflow => [notnull_rce] | InRange => [gt_rce z] end
  | OGe l => let '(z, r) := conv (lit_floor l) in
             match r with Overflow => [empty_rce] | Underflow => [notnull_rce]
             | InRange => if negb (lit_integral l) then [gt_rce z] else [ge_rce z] end
  | OLt l => let '(z, r) := conv (lit_ceil l) in
             match r with Overflow => [notnull_rce] | Underflow => [empty_rce] | InRange => [lt_rce z] end
  | OLe l => let '(z, r) := conv (lit_ceil l) in
             match r with Overflow => [notnull_rce] | Underflow => [empty_rce]
             | InRange => if negb (lit_integral l) then [lt_rce z] else [le_rce z] end
  | OIsNull => [null_rce]
  | OIsNotNull => [notnull_rce]
  end.

(* builder state for the column: current ranges, isInvalid *)
Definition bstate : Type := (list rce * bool)%type.
Definition binit : bstate := ([all_rce], false).

Definition update_col (cur pot : list rce) : list rce :=
  flat_map (fun c => flat_map (fun p =>
    let '(n, ok) := try_intersect c p in
    if ok && negb (is_empty n) then [n] else []) pot) cur.

Definition apply_op (st : bstate) (o : op) : bstate :=
  let '(cur, inv) := st in
  if inv then st else
  match update_col cur (potential o) with
  | [] => (cur, true)
  | new =>
    match o with
    | ONe l =>
      (* the non-integral-literal branch of NotEquals returns before the SimplifyRangeColumn step *)
      if negb (lit_integral l) then (new, false) else
      match simplify_range_column new with [] => (new, true) | s => (s, false) end
    | _ => (new, false)
    end
  end.
Definition run (ops : list op) : bstate := fold_left apply_op ops binit.

(* Ranges(): one-column ranges; an invalid builder, or one with only empty ranges, yields the single empty range.
   The odometer loop increments before it emits, so the column's expressions come out as 1, 2, ..., n-1, 0. *)
Definition rotate1 (l : list rce) : list rce := match l with [] => [] | h :: t => t ++ [h] end.
Definition result (st : bstate) : list rce :=
  let '(cur, inv) := st in
  if inv then [empty_rce] else
  match filter (fun r => negb (is_empty r)) (rotate1 cur) with [] => [empty_rce] | l => l end.

(* ---- the filter language and its meaning on a column value (None = NULL): TRUE or not ---- *)
Definition op_true (o : op) (v : key) : bool :=
  match o, v with
  | OIsNull, None => true
  | OIsNull, Some _ => false
  | OIsNotNull, None => false
  | OIsNotNull, Some _ => true
  | _, None => false
  | OEq (n, s), Some x => x * p10 s =? n
  | ONe (n, s), Some x => negb (x * p10 s =? n)
  | OGt (n, s), Some x => n <? x * p10 s
  | OGe (n, s), Some x => n <=? x * p10 s
  | OLt (n, s), Some x => x * p10 s <? n
  | OLe (n, s), Some x => x * p10 s <=? n
  end.
Definition filter_true (ops : list op) (v : key) : bool := forallb (fun o => op_true o v) ops.
Definition in_i32 (v : key) : Prop := match v with None => True | Some x => i32min <= x <= i32max end.
Definition lookup_has (rs : list rce) (v : key) : bool := existsb (fun r => contains r v) rs.
