(* C46 proofs, part 6: SimplifyRangeColumn returns non-empty ranges in ascending order, each strictly above the
   previous one with a gap (upper bound < next lower bound), so they are pairwise disconnected and disjoint. *)
From Coq Require Import List ZArith Bool Lia PeanoNat Sorted.
Import ListNotations.
From GMS Require Import Range.Cut Range.CutProofs.

Definition lo_le (x y : rce) : Prop := cut_cmp (lo x) (lo y) <> Gt.
Definition gap (x y : rce) : Prop := cut_cmp (hi x) (lo y) = Lt.        (* x entirely below y, not even adjacent *)

Lemma rce_less_false_lo y x : rce_less y x = false -> lo_le x y.
Proof.
  unfold rce_less, lo_le. rewrite (cut_cmp_antisym y.(lo) x.(lo)). destruct (cut_cmp (lo y) (lo x)); cbn; congruence.
Qed.
Lemma rce_less_true_lo y x : rce_less y x = true -> lo_le y x.
Proof. unfold rce_less, lo_le. destruct (cut_cmp (lo y) (lo x)); congruence. Qed.
Lemma lo_le_trans x y z : lo_le x y -> lo_le y z -> lo_le x z.
Proof. apply cut_cmp_le_trans. Qed.
Lemma rce_insert_in z x l : In z (rce_insert x l) -> z = x \/ In z l.
Proof.
  induction l as [|y l IH]; cbn; [intros [<-|[]]; auto|]. destruct (rce_less y x); cbn; intros [<-|H]; auto.
  destruct (IH H); auto.
Qed.
Lemma rce_insert_sorted x l : StronglySorted lo_le l -> StronglySorted lo_le (rce_insert x l).
Proof.
  induction 1 as [|y l S IH F]; cbn; [repeat constructor|]. destruct (rce_less y x) eqn:E.
  - constructor; [exact IH|]. apply Forall_forall. intros z Iz. destruct (rce_insert_in _ _ _ Iz) as [->|Iz'].
    + apply rce_less_true_lo. exact E.
    + rewrite Forall_forall in F. auto.
  - pose proof (rce_less_false_lo _ _ E) as XY. constructor; [constructor; assumption|].
    constructor; [exact XY|]. apply Forall_forall. intros z Iz. rewrite Forall_forall in F. eapply lo_le_trans; eauto.
Qed.
Lemma rce_sort_sorted l : StronglySorted lo_le (rce_sort l).
Proof. induction l as [|x l IH]; cbn; [constructor|]. apply rce_insert_sorted. exact IH. Qed.

Lemma is_empty_false' r : is_empty r = false <-> cut_cmp (lo r) (hi r) = Lt.
Proof. unfold is_empty, cmp_ge. destruct (cut_cmp (lo r) (hi r)); split; congruence. Qed.

(* one step of the loop on non-empty cur and r with lo cur <= lo r *)
Lemma step_union cur r m : is_empty cur = false -> is_empty r = false -> lo_le cur r -> try_union cur r = Some m ->
  lo m = lo cur /\ is_empty m = false.
Proof.
  intros Ec Er L. unfold try_union. rewrite Ec, Er. destruct (negb (is_connected cur r)); [discriminate|]. intros [= <-].
  apply is_empty_false' in Ec, Er. unfold lo_le in L. rewrite is_empty_false'.
  destruct cur as [l u], r as [l' u']. cbn [lo hi] in *. unfold ordered_cuts, cmp_le.
  cut_case l l'; try congruence; cut_case u u'; cbn [fst snd lo hi]; (split; [reflexivity|]); apply cut_cmp_Lt; cut_hyps; cut_lia.
Qed.
Lemma step_gap cur r : is_empty cur = false -> is_empty r = false -> lo_le cur r -> try_union cur r = None -> gap cur r.
Proof.
  intros Ec Er L. unfold try_union. rewrite Ec, Er. destruct (is_connected cur r) eqn:C; cbn [negb]; [discriminate|]. intros _.
  apply is_empty_false' in Ec, Er. unfold lo_le in L. unfold gap. revert C.
  destruct cur as [l u], r as [l' u']. cbn [lo hi] in *. unfold is_connected, cmp_gt, cmp_le. cbn [lo hi].
  cut_case l u'; try discriminate; (cut_case l' u; try discriminate); intros _; apply cut_cmp_Lt;
  cut_case l l'; try congruence; cut_hyps; cut_lia.
Qed.
Lemma gap_lo_le b cur r : gap b cur -> lo_le cur r -> gap b r.
Proof.
  unfold gap, lo_le. intros G L. apply cut_cmp_Lt. destruct (cut_cmp (lo cur) (lo r)) eqn:E; try congruence; cut_hyps; cut_lia.
Qed.

(* the state (res reversed, cur) against the remaining sorted input *)
Record inv (res : list rce) (cur : rce) (rest : list rce) : Prop := {
  i_nonempty : Forall (fun b => is_empty b = false) res;
  i_sorted : StronglySorted (fun a b => gap b a) res;
  i_cur : is_empty cur = false -> Forall (fun b => gap b cur) res;
  i_init : is_empty cur = true -> res = [];
  i_rest : is_empty cur = false -> Forall (lo_le cur) rest }.

Lemma simplify_fold_inv rest : StronglySorted lo_le rest -> forall res cur res' cur',
  inv res cur rest -> fold_left simplify_step rest (res, cur) = (res', cur') -> inv res' cur' [].
Proof.
  induction 1 as [|r rest S IH F]; intros res cur res' cur' I; cbn [fold_left].
  - intros [= <- <-]. exact I.
  - destruct I as [I1 I2 I3 I4 I5]. destruct (simplify_step (res, cur) r) as [res1 cur1] eqn:ST.
    intros H. refine (IH _ _ _ _ _ H). clear H IH. revert ST. unfold simplify_step.
    destruct (is_empty r) eqn:Er.
    { (* an empty r is absorbed *)
      assert (try_union cur r = Some cur) as -> by (unfold try_union; rewrite Er; reflexivity).
      intros [= <- <-]. constructor; auto. intros Ec. specialize (I5 Ec). inversion I5; assumption. }
    destruct (is_empty cur) eqn:Ec.
    { assert (try_union cur r = Some r) as -> by (unfold try_union; rewrite Er, Ec; reflexivity).
      intros [= <- <-]. rewrite (I4 eq_refl). constructor; auto; try constructor; try congruence. }
    specialize (I3 eq_refl). specialize (I5 eq_refl). inversion I5 as [|? ? Lr I5']; subst.
    destruct (try_union cur r) as [m|] eqn:U.
    + destruct (step_union cur r m Ec Er Lr U) as [Lm Em]. intros [= <- <-]. constructor; auto.
      * intros _. eapply Forall_impl; [|exact I3]. intros b G. unfold gap in *. rewrite Lm. exact G.
      * intros X; congruence.
      * intros _. eapply Forall_impl; [|exact I5']. intros z. unfold lo_le. rewrite Lm. auto.
    + cbn [negb]. pose proof (step_gap cur r Ec Er Lr U) as G. intros [= <- <-]. constructor.
      * constructor; assumption.
      * constructor; assumption.
      * intros _. constructor; [exact G|]. eapply Forall_impl; [|exact I3]. intros b Gb. exact (gap_lo_le b cur r Gb Lr).
      * intros X; congruence.
      * intros _. exact F.
Qed.

Lemma ss_rev (l : list rce) : StronglySorted (fun a b => gap b a) l -> StronglySorted gap (rev l).
Proof.
  induction 1 as [|x l S IH F]; cbn; [constructor|].
  assert (A : forall xs, StronglySorted gap xs -> Forall (fun b => gap b x) xs -> StronglySorted gap (xs ++ [x])).
  { induction 1 as [|y ys Sy IHy Fy]; intros Fx; cbn; [repeat constructor|]. inversion Fx; subst.
    constructor; [apply IHy; assumption|]. apply Forall_app. split; [exact Fy|repeat constructor; assumption]. }
  apply A; [exact IH|]. apply Forall_forall. intros b Ib. rewrite Forall_forall in F. apply F. apply in_rev. exact Ib.
Qed.

Theorem simplify_range_column_sorted l :
  StronglySorted gap (simplify_range_column l) /\ Forall (fun b => is_empty b = false) (simplify_range_column l).
Proof.
  unfold simplify_range_column. destruct l as [|x l]; [split; constructor|].
  destruct (fold_left simplify_step (rce_sort (x :: l)) ([], empty_rce)) as [res cur] eqn:E.
  assert (I0 : inv [] empty_rce (rce_sort (x :: l))) by (constructor; try constructor; intros; try reflexivity; discriminate).
  destruct (simplify_fold_inv _ (rce_sort_sorted (x :: l)) _ _ _ _ I0 E) as [I1 I2 I3 I4 I5].
  destruct (is_empty cur) eqn:Ec; cbn [negb].
  - split; [apply ss_rev; exact I2|]. apply Forall_rev. exact I1.
  - split; [apply ss_rev; constructor; auto|]. apply Forall_rev. constructor; assumption.
Qed.
(* consequences of a gap: not connected, no overlap, no common key *)
Lemma gap_disconnected x y : is_empty x = false -> is_empty y = false -> gap x y ->
  is_connected x y = false /\ snd (overlaps x y) = false /\ forall v, contains x v && contains y v = false.
Proof.
  intros Ex Ey G. apply is_empty_false' in Ex, Ey. unfold gap in G.
  assert (C : is_connected x y = false).
  { destruct x as [l u], y as [l' u']. cbn [lo hi] in *. unfold is_connected, cmp_gt, cmp_le. cbn [lo hi].
    cut_case l u'; [|cut_case l' u| ]; try reflexivity; cut_hyps; cut_lia. }
  assert (O : snd (overlaps x y) = false).
  { destruct x as [l u], y as [l' u']. cbn [lo hi] in *. unfold overlaps, cmp_ge. cbn [lo hi].
    cut_case l u'; cbn [snd]; try reflexivity; cut_case l' u; cbn [snd]; try reflexivity; cut_hyps; cut_lia. }
  repeat split; auto. intros v. apply overlaps_false. exact O.
Qed.
