(* C03 proofs, part 3: what the index scan returns, filtered by the expressions the range builder leaves over, is
   exactly what the filter tree selects — for every include set, as long as every node that is not exact is marked
   imprecise.  Leaves have an abstract truth Tl; the builder call of a leaf over-approximates it and is exact when
   the leaf is flagged precise. *)
From Coq Require Import List ZArith Bool Lia PeanoNat.
Import ListNotations.
From GMS Require Import Range.Cut Range.CutProofs Range.MRange Range.MRangeProofs
  Range.C03IndexBuilder Range.C03IndexBuilderProofs Range.C03Multi Range.C03MultiProofs Range.C03Scan.
Open Scope nat_scope.

Definition haslen (n : nat) (r : range) : Prop := length r = n.

Lemma product_length cols r : In r (product cols) -> length r = length cols.
Proof.
  revert r. induction cols as [|c cs IH]; intros r; cbn [product]; [intros [<-|[]]; reflexivity|].
  intros H. apply in_flat_map in H. destruct H as [tail [It Ir]]. apply in_map_iff in Ir. destruct Ir as [x [<- _]].
  cbn. f_equal. apply IH. exact It.
Qed.
Lemma mresult_shape st : mresult st <> [] /\ Forall (haslen (length (fst st))) (mresult st).
Proof.
  destruct st as [cols inv]. cbn [fst]. unfold mresult.
  assert (E : haslen (length cols) (map (fun _ : list rce => empty_rce) cols)) by (unfold haslen; apply map_length).
  destruct inv; [split; [discriminate|repeat constructor; exact E]|].
  destruct (filter _ (rotate_ranges (product cols))) as [|r l] eqn:F; [split; [discriminate|repeat constructor; exact E]|].
  split; [discriminate|]. rewrite <- F. apply Forall_forall. intros x Ix. apply filter_In in Ix. destruct Ix as [Ix _].
  apply product_length. destruct (product cols) as [|h tl]; [destruct Ix|]. cbn [rotate_ranges] in Ix.
  apply in_app_or in Ix. destruct Ix as [Ix|[<-|[]]]; [right; exact Ix|left; reflexivity].
Qed.

Lemma in_firstn {A} n (l : list A) x : In x (firstn n l) -> In x l.
Proof. revert l. induction n as [|n IH]; intros [|y l]; cbn; try tauto. intros [->|H]; auto. Qed.

Section Sound.
Variable k : nat.
Variable include imprecise : list nat.
Variable ror : list range -> option (list range).
Hypothesis k_pos : 1 <= k.
Hypothesis ror_spec : forall rs out, ror rs = Some out ->
  (forall t, ucontains out t = ucontains rs t) /\ (rs <> [] -> out <> []) /\ (Forall (haslen k) rs -> Forall (haslen k) out).
Variable Tl : bop -> tuple -> bool.        (* what a leaf expression really evaluates to (TRUE or not) *)
Variable precise_b : bop -> bool.          (* expression.PreciseComparison of the leaf *)
Variable row : tuple.
Hypothesis row_ok : Forall in_i32 row.
Hypothesis row_len : k <= length row.
Let key := firstn k row.
Hypothesis Tl_complete : forall b, wf_bop key b -> Tl b row = true -> bop_true b key = true.
Hypothesis Tl_exact : forall b, wf_bop key b -> precise_b b = true -> Tl b row = bop_true b key.

Lemma key_len : length key = k.
Proof. unfold key. rewrite firstn_length. lia. Qed.
Lemma key_ok : Forall in_i32 key.
Proof. unfold key. apply Forall_forall. intros x Ix. rewrite Forall_forall in row_ok. apply row_ok. eapply in_firstn; eauto. Qed.
Lemma key_ne : key <> [].
Proof. intros E. pose proof key_len as L. rewrite E in L. cbn in L. lia. Qed.

Lemma good_result st b : good key st b -> ucontains (mresult st) key = b.
Proof.
  intros [L [G1 G2]]. destruct st as [cols inv]. cbn [fst snd] in *.
  rewrite (mresult_exact cols inv key key_ne L). destruct inv; [symmetry; auto|auto].
Qed.
Lemma good_shape st b : good key st b -> mresult st <> [] /\ Forall (haslen k) (mresult st).
Proof. intros [L _]. destruct (mresult_shape st) as [A B]. rewrite L, key_len in B. auto. Qed.

(* ---- semantics of the filter tree ---- *)
Fixpoint feval (f : ftree) : bool :=
  match f with
  | FLeaf _ b => Tl b row
  | FAnd _ ls ors => forallb (fun l => Tl (snd l) row) ls && forallb feval ors
  | FOr _ cs => existsb feval cs
  end.
(* every leaf below is flagged precise *)
Fixpoint ex (f : ftree) : bool :=
  match f with
  | FLeaf _ b => precise_b b
  | FAnd _ ls ors => forallb (fun l => precise_b (snd l)) ls && forallb ex ors
  | FOr _ cs => forallb ex cs
  end.
(* every leaf below addresses an index column (and IN lists are not empty), no node id below is in |imprecise| *)
Fixpoint scan_wf (f : ftree) : Prop :=
  match f with
  | FLeaf id b => wf_bop key b /\ mem id imprecise = false
  | FAnd id ls ors => mem id imprecise = false /\ Forall (fun l => wf_bop key (snd l) /\ mem (fst l) imprecise = false) ls /\
                      (fix all (l : list ftree) : Prop := match l with [] => True | o :: l' => scan_wf o /\ all l' end) ors
  | FOr id cs => mem id imprecise = false /\ cs <> [] /\
                 (fix all (l : list ftree) : Prop := match l with [] => True | o :: l' => scan_wf o /\ all l' end) cs
  end.

(* ---- leaves on the shared builder, all in scan, none marked ---- *)
Lemma leaves_in_scan ls : forall st b lo, good key st b ->
  Forall (fun l => wf_bop key (snd l) /\ mem (fst l) imprecise = false) ls ->
  exists st', leaves_fold k include imprecise st ls true lo = Some (st', lo) /\
              good key st' (b && forallb (fun l => bop_true (snd l) key) ls).
Proof.
  induction ls as [|[id o] ls IH]; intros st b lo G W; cbn [leaves_fold forallb].
  - exists st. rewrite andb_true_r. auto.
  - inversion W as [|? ? [Wo Wi] W']; subst. cbn [fst snd] in *. unfold default_leaf, mark_leftover, mark_imprecise.
    cbn [negb andb]. destruct Wo as [Lc Wn]. rewrite key_len in Lc.
    rewrite (proj2 (Nat.ltb_lt _ _) Lc). cbn [negb]. rewrite Wi.
    assert (G' : good key (apply_bop st o) (b && bop_true o key)).
    { apply apply_bop_good; [exact key_ok| |exact G]. split; [rewrite key_len; exact Lc|exact Wn]. }
    destruct (IH _ _ lo G' W') as [st' [E G'']]. exists st'. split; [exact E|]. rewrite andb_assoc. exact G''.
Qed.

(* ---- a subtree that is entirely in the scan ---- *)
Definition node_ok (f : ftree) (r : rres) : Prop :=
  exists rs, r = Some rs /\ rs <> [] /\ Forall (haslen k) rs /\
             (feval f = true -> ucontains rs key = true) /\ (ex f = true -> ucontains rs key = feval f).

Lemma collection_pairs_exact xs ys t : t <> [] ->
  ucontains (collection_pairs xs ys) t = ucontains xs t && ucontains ys t.
Proof.
  intros NE. unfold collection_pairs, ucontains. rewrite existsb_flat_map.
  induction xs as [|x xs IH]; cbn [existsb]; [reflexivity|]. rewrite IH. clear IH. rewrite andb_orb_distrib_l. f_equal.
  rewrite existsb_flat_map. induction ys as [|y ys IH]; cbn [existsb]; [rewrite andb_false_r; reflexivity|].
  rewrite IH, andb_orb_distrib_r. f_equal. clear IH.
  destruct (Nat.eq_dec (length x) (length y)) as [L|L].
  - pose proof (r_intersect_exact x y t L) as E. pose proof (r_intersect_length x y L) as LL.
    destruct (Nat.ltb_spec 0 (length (r_intersect x y))); cbn [existsb]; [rewrite orb_false_r; exact E|].
    rewrite <- E. assert (r_intersect x y = []) as -> by (destruct (r_intersect x y); [reflexivity|cbn in *; lia]).
    destruct t; [congruence|reflexivity].
  - assert (r_intersect x y = []) as ->.
    { unfold r_intersect. destruct (Nat.eqb_spec (length x) (length y)); [contradiction|reflexivity]. }
    cbn. symmetry. destruct (rcontains x t) eqn:Cx; [|reflexivity]. destruct (rcontains y t) eqn:Cy; [|reflexivity].
    exfalso. apply L. clear -Cx Cy. revert y t Cx Cy. induction x as [|a x IH]; intros [|b y] [|v t]; cbn; try discriminate; auto.
    intros H1 H2. apply andb_prop in H1, H2. f_equal. apply (IH y t); tauto.
Qed.
Lemma collection_pairs_shape xs ys : xs <> [] -> ys <> [] -> Forall (haslen k) xs -> Forall (haslen k) ys ->
  collection_pairs xs ys <> [] /\ Forall (haslen k) (collection_pairs xs ys).
Proof.
  intros Nx Ny Fx Fy. split.
  - destruct xs as [|x xs]; [congruence|]. destruct ys as [|y ys]; [congruence|]. inversion Fx; subst. inversion Fy; subst.
    unfold collection_pairs. cbn [flat_map]. unfold haslen in *.
    rewrite (proj2 (Nat.ltb_lt 0 _)) by (rewrite r_intersect_length; lia). discriminate.
  - apply Forall_forall. intros r Ir. unfold collection_pairs in Ir. apply in_flat_map in Ir. destruct Ir as [x [Ix Ir]].
    apply in_flat_map in Ir. destruct Ir as [y [Iy Ir]]. rewrite Forall_forall in Fx, Fy. specialize (Fx x Ix). specialize (Fy y Iy).
    unfold haslen in *. destruct (Nat.ltb 0 (length (r_intersect x y))); [|destruct Ir]. destruct Ir as [<-|[]].
    rewrite r_intersect_length; lia.
Qed.
Lemma intersect_ok xs ys r : xs <> [] -> ys <> [] -> Forall (haslen k) xs -> Forall (haslen k) ys ->
  collection_intersect ror xs ys = Some r ->
  exists rs, r = Some rs /\ rs <> [] /\ Forall (haslen k) rs /\ ucontains rs key = ucontains xs key && ucontains ys key.
Proof.
  intros Nx Ny Fx Fy. unfold collection_intersect. destruct (ror (collection_pairs xs ys)) as [out|] eqn:E; [|discriminate].
  intros [= <-]. destruct (ror_spec _ _ E) as [S1 [S2 S3]]. destruct (collection_pairs_shape xs ys Nx Ny Fx Fy) as [P1 P2].
  specialize (S2 P1). specialize (S3 P2). exists out. unfold as_res. destruct out; [congruence|].
  repeat split; auto. rewrite S1. apply collection_pairs_exact. exact key_ne.
Qed.

Definition all_wf (l : list ftree) : Prop :=
  (fix all (l : list ftree) : Prop := match l with [] => True | o :: l' => scan_wf o /\ all l' end) l.
Lemma all_wf_cons o l : all_wf (o :: l) <-> scan_wf o /\ all_wf l.
Proof. reflexivity. Qed.
Definition maxdepth (l : list ftree) : nat := fold_right (fun o m => Nat.max (depth o) m) 0 l.

Lemma leaf_truths ls : Forall (fun l => wf_bop key (snd l) /\ mem (fst l) imprecise = false) ls ->
  (forallb (fun l => Tl (snd l) row) ls = true -> forallb (fun l => bop_true (snd l) key) ls = true) /\
  (forallb (fun l => precise_b (snd l)) ls = true ->
   forallb (fun l => bop_true (snd l) key) ls = forallb (fun l => Tl (snd l) row) ls).
Proof.
  induction 1 as [|[id b] ls [W _] F [IH1 IH2]]; cbn [forallb snd]; [auto|]. split.
  - intros H. apply andb_prop in H. destruct H as [H1 H2]. rewrite (Tl_complete b W H1), (IH1 H2). reflexivity.
  - intros H. apply andb_prop in H. destruct H as [H1 H2]. rewrite (Tl_exact b W H1), (IH2 H2). reflexivity.
Qed.

(* the recursive call behaves well on the in-scan subtrees of a list *)
Definition rec_ok (rec : ftree -> bool -> list nat -> option (rres * list nat)) (l : list ftree) : Prop :=
  forall f lo r lo', In f l -> scan_wf f -> rec f true lo = Some (r, lo') -> lo' = lo /\ node_ok f r.

Lemma or_go_ok rec : forall cs acc lo r lo', rec_ok rec cs -> all_wf cs -> Forall (haslen k) acc ->
  or_go rec cs acc lo = Some (r, lo') ->
  lo' = lo /\ exists rest, r = as_res (acc ++ rest) /\ Forall (haslen k) rest /\ (cs <> [] -> rest <> []) /\
    (existsb feval cs = true -> ucontains rest key = true) /\
    (forallb ex cs = true -> ucontains rest key = existsb feval cs).
Proof.
  induction cs as [|c cs IHc]; intros acc lo r lo' HR Wa Fa; cbn [or_go].
  - intros [= <- <-]. split; [reflexivity|]. exists []. rewrite app_nil_r. repeat split; auto; try discriminate; try congruence.
  - apply all_wf_cons in Wa. destruct Wa as [Wc1 Wa'].
    destruct (rec c true lo) as [[rc lo1]|] eqn:RB; [|discriminate].
    destruct (HR c lo rc lo1 (or_introl eq_refl) Wc1 RB) as [-> [rs [-> [N1 [N2 [N3 N4]]]]]]. intros H.
    assert (HR' : rec_ok rec cs) by (intros f' l1 r1 l2 I; apply HR; right; exact I).
    destruct (IHc (acc ++ rs) lo r lo' HR' Wa' ltac:(apply Forall_app; split; assumption) H) as [E [rest [E2 [Q1 [Q2 [Q3 Q4]]]]]].
    split; [exact E|]. exists (rs ++ rest). rewrite app_assoc. repeat split; auto.
    + apply Forall_app. split; assumption.
    + intros _ C. apply app_eq_nil in C. tauto.
    + cbn [existsb]. intros H'. rewrite ucontains_app. apply orb_prop in H'. destruct H' as [H'|H']; [rewrite (N3 H'); reflexivity|].
      rewrite (Q3 H'). apply orb_true_r.
    + cbn [existsb forallb]. intros H'. apply andb_prop in H'. destruct H' as [H1 H2]. rewrite ucontains_app, (N4 H1), (Q4 H2). reflexivity.
Qed.

(* an OR whose children are all in scan: what its ranges say *)
Lemma or_node_ok rec cs lo r lo' : rec_ok rec cs -> all_wf cs -> cs <> [] ->
  or_go rec cs [] lo = Some (r, lo') ->
  lo' = lo /\ exists rs, r = Some rs /\ rs <> [] /\ Forall (haslen k) rs /\
    (existsb feval cs = true -> ucontains rs key = true) /\ (forallb ex cs = true -> ucontains rs key = existsb feval cs).
Proof.
  intros HR Wa Nc H. destruct (or_go_ok rec cs [] lo r lo' HR Wa (Forall_nil _) H) as [E [rest [-> [Q1 [Q2 [Q3 Q4]]]]]].
  split; [exact E|]. cbn [app]. specialize (Q2 Nc). exists rest. unfold as_res. destruct rest; [congruence|]. repeat split; auto.
Qed.

(* the AND loop, every OR child and every leaf in scan *)
Lemma and_go_in_scan rec ls : Forall (fun l => wf_bop key (snd l) /\ mem (fst l) imprecise = false) ls ->
  forall ors ret lo r lo' (fv exv : bool), rec_ok rec ors -> all_wf ors ->
  match ret with
  | None => fv = true /\ exv = true
  | Some x => x <> [] /\ Forall (haslen k) x /\ (fv = true -> ucontains x key = true) /\ (exv = true -> ucontains x key = fv)
  end ->
  and_go k include imprecise ror rec true ls ors ret lo = Some (r, lo') ->
  lo' = lo /\ exists rs, r = Some rs /\ rs <> [] /\ Forall (haslen k) rs /\
    (fv && forallb feval ors && forallb (fun l => Tl (snd l) row) ls = true -> ucontains rs key = true) /\
    (exv && forallb ex ors && forallb (fun l => precise_b (snd l)) ls = true ->
     ucontains rs key = fv && forallb feval ors && forallb (fun l => Tl (snd l) row) ls).
Proof.
  intros Wl. induction ors as [|o ors IHo]; intros ret lo r lo' fv exv HR Wa Inv; cbn [and_go].
  - destruct (leaves_in_scan ls (minit k) true lo ltac:(rewrite <- key_len; apply init_good) Wl) as [st' [E G]].
    rewrite E. cbn [andb] in G. destruct (good_shape _ _ G) as [S1 S2]. pose proof (good_result _ _ G) as R.
    destruct (leaf_truths ls Wl) as [LT1 LT2]. cbn [forallb]. rewrite !andb_true_r.
    destruct ret as [x|].
    + destruct Inv as [I1 [I2 [I3 I4]]].
      destruct (collection_intersect ror x (mresult st')) as [rr|] eqn:CI; [|discriminate]. intros [= <- <-].
      split; [reflexivity|]. destruct (intersect_ok x _ rr I1 S1 I2 S2 CI) as [rs [-> [N1 [N2 N3]]]].
      exists rs. repeat split; auto; rewrite N3, R.
      * intros H. apply andb_prop in H. destruct H as [H1 H2]. rewrite (I3 H1), (LT1 H2). reflexivity.
      * intros H. apply andb_prop in H. destruct H as [H1 H2]. rewrite (I4 H1), (LT2 H2). reflexivity.
    + destruct Inv as [-> ->]. intros [= <- <-]. split; [reflexivity|]. exists (mresult st'). cbn [andb].
      repeat split; auto; rewrite R; [exact LT1|exact LT2].
  - apply all_wf_cons in Wa. destruct Wa as [Wo1 Wa'].
    assert (HR' : rec_ok rec ors) by (intros f' l1 r1 l2 I; apply HR; right; exact I).
    destruct (rec o true lo) as [[ro lo1]|] eqn:RB; [|discriminate].
    destruct (HR o lo ro lo1 (or_introl eq_refl) Wo1 RB) as [-> [rs [-> [N1 [N2 [N3 N4]]]]]].
    cbn [forallb].
    destruct ret as [x|].
    + destruct Inv as [I1 [I2 [I3 I4]]].
      destruct (collection_intersect ror x rs) as [rr|] eqn:CI; [|discriminate]. intros H.
      destruct (intersect_ok x rs rr I1 N1 I2 N2 CI) as [rs' [-> [M1 [M2 M3]]]].
      destruct (IHo (Some rs') lo r lo' (fv && feval o) (exv && ex o) HR' Wa') as [E [rs2 [E2 [Q1 [Q2 [Q3 Q4]]]]]]; auto.
      * repeat split; auto; rewrite M3.
        -- intros H'. apply andb_prop in H'. destruct H' as [H1 H2]. rewrite (I3 H1), (N3 H2). reflexivity.
        -- intros H'. apply andb_prop in H'. destruct H' as [H1 H2]. rewrite (I4 H1), (N4 H2). reflexivity.
      * split; [exact E|]. exists rs2. repeat split; auto.
        -- intros H'. apply Q3. rewrite <- H'. destruct fv, (feval o), (forallb feval ors); reflexivity.
        -- intros H'. rewrite Q4; [destruct fv, (feval o), (forallb feval ors); reflexivity|].
           rewrite <- H'. destruct exv, (ex o), (forallb ex ors); reflexivity.
    + destruct Inv as [-> ->]. intros H.
      destruct (IHo (Some rs) lo r lo' (feval o) (ex o) HR' Wa') as [E [rs2 [E2 [Q1 [Q2 [Q3 Q4]]]]]]; auto.
      split; [exact E|]. exists rs2. cbn [andb]. repeat split; auto.
Qed.

Lemma rb_in_scan n : forall f lo r lo', scan_wf f -> depth f <= n ->
  rb k include imprecise ror n f true lo = Some (r, lo') -> lo' = lo /\ node_ok f r.
Proof.
  induction n as [|n IH]; intros f lo r lo' W D; [destruct f; cbn in D; lia|].
  assert (HRl : forall l, maxdepth l <= n -> rec_ok (rb k include imprecise ror n) l).
  { intros l Dl f' l1 r1 l2 I Wf. apply IH; [exact Wf|]. clear -I Dl. induction l as [|x l IHl]; [destruct I|].
    cbn [maxdepth fold_right] in Dl. fold (maxdepth l) in Dl. destruct I as [->|I]; [lia|apply IHl; [lia|exact I]]. }
  destruct f as [id b|id ls ors|id cs]; cbn [rb].
  - destruct W as [Wb Wi]. unfold default_leaf, mark_leftover, mark_imprecise. cbn [negb andb].
    pose proof Wb as [Lc Wn]. rewrite key_len in Lc. rewrite (proj2 (Nat.ltb_lt _ _) Lc), Wi. cbn [negb].
    intros [= <- <-]. split; [reflexivity|].
    assert (G : good key (apply_bop (minit k) b) (true && bop_true b key)).
    { apply apply_bop_good; [exact key_ok|exact Wb|]. rewrite <- key_len. apply init_good. }
    cbn [andb] in G. destruct (good_shape _ _ G) as [S1 S2]. pose proof (good_result _ _ G) as R.
    exists (mresult (apply_bop (minit k) b)). repeat split; auto; cbn [feval ex]; rewrite R.
    + apply Tl_complete. exact Wb.
    + intros P. symmetry. apply Tl_exact; assumption.
  - destruct W as [Wi [Wl Wo]]. fold (all_wf ors) in Wo. cbn [orb depth] in *. fold (maxdepth ors) in D. intros H.
    destruct (and_go_in_scan _ ls Wl ors None lo r lo' true true (HRl ors ltac:(lia)) Wo (conj eq_refl eq_refl) H)
      as [E [rs [-> [Q1 [Q2 [Q3 Q4]]]]]].
    split; [exact E|]. exists rs. cbn [feval ex andb] in *. repeat split; auto.
    + intros H'. apply Q3. rewrite andb_comm. exact H'.
    + intros H'. rewrite Q4; [apply andb_comm|]. rewrite andb_comm. exact H'.
  - destruct W as [Wi [Nc Wc]]. fold (all_wf cs) in Wc. unfold mark_leftover, mark_imprecise. cbn [negb andb]. rewrite Wi.
    cbn [depth] in D. fold (maxdepth cs) in D. intros H.
    destruct (or_node_ok _ cs lo r lo' (HRl cs ltac:(lia)) Wc Nc H) as [E [rs [-> [Q1 [Q2 [Q3 Q4]]]]]].
    split; [exact E|]. exists rs. repeat split; auto.
Qed.

(* ---------- the root AND with an arbitrary include set ---------- *)
Section Top.
Variable S : bool.          (* inScan of the root AND: its own id is in the include set *)
Variable ls : list (nat * bop).
Variable ors : list ftree.

(* a top-level leaf is either left over, or addresses an index column and is precise or marked imprecise *)
Definition tl_ok (l : nat * bop) : Prop :=
  mark_leftover include (fst l) S = true \/
  (wf_bop key (snd l) /\ (precise_b (snd l) = true \/ mem (fst l) imprecise = true)).
(* a top-level OR is either left over, or all of its subtree can go into the scan and it is exact or marked imprecise *)
Definition to_ok (o : ftree) : Prop :=
  match o with
  | FOr i cs => mark_leftover include i S = true \/ (cs <> [] /\ all_wf cs /\ (forallb ex cs = true \/ mem i imprecise = true))
  | _ => False
  end.
(* what a left-over id stands for: a top-level leaf or OR, with its truth on the row *)
Definition entry (e : nat * bool) : Prop :=
  (exists b, In (fst e, b) ls /\ snd e = Tl b row) \/ (exists o, In o ors /\ fid o = fst e /\ snd e = feval o).

Lemma top_leaves : forall ls' st bv lo st' lo', (forall l, In l ls' -> In l ls) -> good key st bv -> Forall tl_ok ls' ->
  leaves_fold k include imprecise st ls' S lo = Some (st', lo') ->
  exists L bv', lo' = lo ++ map fst L /\ Forall entry L /\ good key st' bv' /\
    forall tv m, tv = bv && m -> tv && forallb (fun l => Tl (snd l) row) ls' = bv' && (m && forallb snd L).
Proof.
  induction ls' as [|[i b] ls' IH]; intros st bv lo st' lo' Sub G W; cbn [leaves_fold].
  - intros [= <- <-]. exists [], bv. rewrite app_nil_r. split; [reflexivity|split; [constructor|split; [exact G|]]]. intros tv m ->. cbn. rewrite !andb_true_r. reflexivity.
  - inversion W as [|? ? W1 W']; subst. unfold default_leaf. cbn [fst snd] in *.
    assert (Sub' : forall l, In l ls' -> In l ls) by (intros l I; apply Sub; right; exact I).
    assert (Ib : In (i, b) ls) by (apply Sub; left; reflexivity).
    destruct (mark_leftover include i S) eqn:ML.
    + intros H. destruct (IH st bv (lo ++ [i]) st' lo' Sub' G W' H) as [L [bv' [E [F [G' Q]]]]].
      exists ((i, Tl b row) :: L), bv'. split; [|split; [|split; [exact G'|]]].
      * rewrite E, <- app_assoc. reflexivity.
      * constructor; [left; exists b; auto|exact F].
      * intros tv m ->. cbn [forallb snd map].
        pose proof (Q (bv && m && Tl b row) (m && Tl b row) ltac:(destruct bv, m, (Tl b row); reflexivity)) as Q1.
        destruct bv, m, (Tl b row), bv', (forallb snd L), (forallb (fun l => Tl (snd l) row) ls'); cbn in *; congruence.
    + destruct W1 as [W1|[Wb Wp]]; [cbn [fst] in W1; congruence|]. cbn [fst snd] in *.
      pose proof Wb as [Lc Wn]. rewrite key_len in Lc. rewrite (proj2 (Nat.ltb_lt _ _) Lc). cbn [negb].
      assert (G1 : good key (apply_bop st b) (bv && bop_true b key)) by (apply apply_bop_good; [exact key_ok|exact Wb|exact G]).
      unfold mark_imprecise. destruct (mem i imprecise) eqn:MI.
      * intros H. destruct (IH _ _ (lo ++ [i]) st' lo' Sub' G1 W' H) as [L [bv' [E [F [G' Q]]]]].
        exists ((i, Tl b row) :: L), bv'. split; [|split; [|split; [exact G'|]]].
        -- rewrite E, <- app_assoc. reflexivity.
        -- constructor; [left; exists b; auto|exact F].
        -- intros tv m ->. cbn [forallb snd map]. pose proof (Tl_complete b Wb) as C.
           assert (EQ : bv && m && Tl b row = bv && bop_true b key && (m && Tl b row)).
           { destruct (Tl b row); [rewrite (C eq_refl)|destruct (bop_true b key)]; destruct bv, m; reflexivity. }
           pose proof (Q (bv && m && Tl b row) (m && Tl b row) EQ) as Q1.
           destruct bv, m, (Tl b row), bv', (forallb snd L), (forallb (fun l => Tl (snd l) row) ls'); cbn in *; congruence.
      * destruct Wp as [Wp|Wp]; [|congruence]. intros H.
        destruct (IH _ _ lo st' lo' Sub' G1 W' H) as [L [bv' [E [F [G' Q]]]]].
        exists L, bv'. split; [exact E|split; [exact F|split; [exact G'|]]]. intros tv m ->. cbn [forallb snd].
        assert (EQ : bv && m && Tl b row = bv && bop_true b key && m).
        { rewrite (Tl_exact b Wb Wp). destruct bv, m, (bop_true b key); reflexivity. }
        pose proof (Q (bv && m && Tl b row) m EQ) as Q1.
        destruct bv, m, (Tl b row), bv', (forallb snd L), (forallb (fun l => Tl (snd l) row) ls'); cbn in *; congruence.
Qed.

Lemma top_or n o lo ro lo1 : to_ok o -> depth o <= n -> rb k include imprecise ror n o S lo = Some (ro, lo1) ->
  (ro = None /\ lo1 = lo ++ [fid o]) \/
  (exists rs, ro = Some rs /\ rs <> [] /\ Forall (haslen k) rs /\ (feval o = true -> ucontains rs key = true) /\
     ((lo1 = lo /\ ucontains rs key = feval o) \/ lo1 = lo ++ [fid o])).
Proof.
  destruct o as [|? ? ?|i cs]; cbn [to_ok]; try tauto. intros W D. destruct n as [|n]; [cbn in D; lia|]. cbn [rb fid].
  destruct (mark_leftover include i S) eqn:ML; [intros [= <- <-]; left; auto|].
  destruct W as [W|[Nc [Wc Wm]]]; [congruence|]. cbn [depth] in D. fold (maxdepth cs) in D.
  assert (HR : rec_ok (rb k include imprecise ror n) cs).
  { intros f' l1 r1 l2 I Wf. apply rb_in_scan; [exact Wf|]. clear -I D. induction cs as [|x l IHl]; [destruct I|].
    cbn [maxdepth fold_right] in D. fold (maxdepth l) in D. destruct I as [->|I]; [lia|apply IHl; [lia|exact I]]. }
  intros H. destruct (or_node_ok _ cs _ ro lo1 HR Wc Nc H) as [E [rs [-> [Q1 [Q2 [Q3 Q4]]]]]].
  right. exists rs. cbn [feval]. repeat split; auto. unfold mark_imprecise in E. destruct (mem i imprecise) eqn:MI.
  - right. exact E.
  - left. split; [exact E|]. destruct Wm as [Wm|Wm]; [auto|congruence].
Qed.

Lemma top_and_go n : forall ors' ret lo r lo' (tvP : bool) Lp, (forall o, In o ors' -> In o ors) ->
  Forall to_ok ors' -> maxdepth ors' <= n -> Forall tl_ok ls -> Forall entry Lp ->
  match ret with
  | None => tvP = forallb snd Lp
  | Some x => x <> [] /\ Forall (haslen k) x /\ tvP = ucontains x key && forallb snd Lp
  end ->
  and_go k include imprecise ror (rb k include imprecise ror n) S ls ors' ret lo = Some (r, lo') ->
  exists rs L, r = Some rs /\ rs <> [] /\ Forall (haslen k) rs /\ lo' = lo ++ map fst L /\ Forall entry (Lp ++ L) /\
    tvP && forallb feval ors' && forallb (fun l => Tl (snd l) row) ls = ucontains rs key && forallb snd (Lp ++ L).
Proof.
  induction ors' as [|o ors' IHo]; intros ret lo r lo' tvP Lp Sub Wo Dm Wl Fp Inv; cbn [and_go].
  - destruct (leaves_fold k include imprecise (minit k) ls S lo) as [[st' lo1]|] eqn:LF; [|discriminate].
    destruct (top_leaves ls (minit k) true lo st' lo1 (fun l I => I) ltac:(rewrite <- key_len; apply init_good) Wl LF)
      as [L [bv' [E [F [G Q]]]]].
    specialize (Q true true eq_refl). cbn [andb] in Q. destruct (good_shape _ _ G) as [S1 S2]. pose proof (good_result _ _ G) as R.
    cbn [forallb]. rewrite andb_true_r.
    destruct ret as [x|].
    + destruct Inv as [I1 [I2 I3]].
      destruct (collection_intersect ror x (mresult st')) as [rr|] eqn:CI; [|discriminate]. intros [= <- <-].
      destruct (intersect_ok x _ rr I1 S1 I2 S2 CI) as [rs [-> [N1 [N2 N3]]]].
      exists rs, L. repeat split; auto; [apply Forall_app; split; assumption|].
      rewrite N3, R, Q, I3, forallb_app. destruct (ucontains x key), bv', (forallb snd Lp), (forallb snd L); reflexivity.
    + intros [= <- <-]. exists (mresult st'), L. repeat split; auto; [apply Forall_app; split; assumption|].
      rewrite R, Q, Inv, forallb_app. destruct bv', (forallb snd Lp), (forallb snd L); reflexivity.
  - inversion Wo as [|? ? Wo1 Wo']; subst. cbn [maxdepth fold_right] in Dm. fold (maxdepth ors') in Dm.
    assert (Sub' : forall o', In o' ors' -> In o' ors) by (intros o' I; apply Sub; right; exact I).
    assert (Io : In o ors) by (apply Sub; left; reflexivity).
    destruct (rb k include imprecise ror n o S lo) as [[ro lo1]|] eqn:RB; [|discriminate].
    cbn [forallb].
    destruct (top_or n o lo ro lo1 Wo1 ltac:(lia) RB) as [[-> ->] | [rs [-> [N1 [N2 [N3 N4]]]]]].
    + (* left over *)
      intros H.
      destruct (IHo ret (lo ++ [fid o]) r lo' (tvP && feval o) (Lp ++ [(fid o, feval o)]) Sub' Wo' ltac:(lia) Wl) as [rs [L [E [Q1 [Q2 [Q3 [Q4 Q5]]]]]]]; auto.
      * apply Forall_app. split; [exact Fp|]. constructor; [|constructor]. right. exists o. auto.
      * destruct ret as [x|]; [destruct Inv as [I1 [I2 I3]]; repeat split; auto|]; rewrite forallb_app; cbn [forallb snd]; rewrite andb_true_r.
        -- rewrite I3, andb_assoc. reflexivity.
        -- rewrite Inv. reflexivity.
      * exists rs, ((fid o, feval o) :: L). rewrite <- app_assoc in Q4, Q5. cbn [app] in Q4, Q5. repeat split; auto.
        -- rewrite Q3, <- app_assoc. reflexivity.
        -- rewrite <- Q5. rewrite andb_assoc. reflexivity.
    + (* in scan *)
      assert (STEP : forall x', x' <> [] -> Forall (haslen k) x' ->
                ucontains x' key = (match ret with None => true | Some x => ucontains x key end) && ucontains rs key ->
                and_go k include imprecise ror (rb k include imprecise ror n) S ls ors' (Some x') lo1 = Some (r, lo') ->
                exists rs0 L, r = Some rs0 /\ rs0 <> [] /\ Forall (haslen k) rs0 /\ lo' = lo ++ map fst L /\ Forall entry (Lp ++ L) /\
                  tvP && (feval o && forallb feval ors') && forallb (fun l => Tl (snd l) row) ls = ucontains rs0 key && forallb snd (Lp ++ L)).
      { intros x' X1 X2 X3 H. destruct N4 as [[-> N4] | ->].
        - destruct (IHo (Some x') lo r lo' (tvP && feval o) Lp Sub' Wo' ltac:(lia) Wl Fp) as [rs0 [L [E [Q1 [Q2 [Q3 [Q4 Q5]]]]]]]; auto.
          + repeat split; auto. rewrite X3, <- N4. destruct ret as [x|]; [destruct Inv as [_ [_ ->]]|rewrite Inv];
              destruct (ucontains rs key), (forallb snd Lp); try destruct (ucontains x key); reflexivity.
          + exists rs0, L. repeat split; auto. rewrite <- Q5, andb_assoc. reflexivity.
        - destruct (IHo (Some x') (lo ++ [fid o]) r lo' (tvP && feval o) (Lp ++ [(fid o, feval o)]) Sub' Wo' ltac:(lia) Wl) as [rs0 [L [E [Q1 [Q2 [Q3 [Q4 Q5]]]]]]]; auto.
          + apply Forall_app. split; [exact Fp|]. constructor; [|constructor]. right. exists o. auto.
          + repeat split; auto. rewrite forallb_app. cbn [forallb snd]. rewrite andb_true_r, X3.
            destruct ret as [x|]; [destruct Inv as [_ [_ ->]]|rewrite Inv];
              destruct (feval o) eqn:FE; try rewrite (N3 eq_refl);
              try destruct (ucontains x key); destruct (forallb snd Lp), (ucontains rs key); reflexivity.
          + exists rs0, ((fid o, feval o) :: L). rewrite <- app_assoc in Q4, Q5. cbn [app] in Q4, Q5. repeat split; auto.
            * rewrite Q3, <- app_assoc. reflexivity.
            * rewrite <- Q5, andb_assoc. reflexivity. }
      destruct ret as [x|].
      * destruct Inv as [I1 [I2 I3]]. destruct (collection_intersect ror x rs) as [rr|] eqn:CI; [|discriminate].
        destruct (intersect_ok x rs rr I1 N1 I2 N2 CI) as [rs' [-> [M1 [M2 M3]]]]. intros H. apply (STEP rs' M1 M2 M3 H).
      * intros H. apply (STEP rs N1 N2 eq_refl H).
Qed.
End Top.

(* The root AND: for every include set, the row satisfies the whole tree iff its key tuple is in the ranges and every
   expression the range builder left over is TRUE of it. *)
Theorem root_and_sound id ls ors r lo :
  Forall (tl_ok (mem id include)) ls -> Forall (to_ok (mem id include)) ors ->
  rb k include imprecise ror (depth (FAnd id ls ors)) (FAnd id ls ors) (mem id include) [] = Some (r, lo) ->
  exists rs L, r = Some rs /\ rs <> [] /\ Forall (haslen k) rs /\ lo = map fst L /\ Forall (entry ls ors) L /\
    feval (FAnd id ls ors) = ucontains rs key && forallb snd L.
Proof.
  intros Wl Wo. cbn [depth rb]. fold (maxdepth ors). rewrite orb_diag. intros H.
  destruct (top_and_go (mem id include) ls ors (maxdepth ors) ors None [] r lo true [] (fun o I => I) Wo (le_n _) Wl (Forall_nil _) eq_refl H)
    as [rs [L [E [Q1 [Q2 [Q3 [Q4 Q5]]]]]]].
  exists rs, L. cbn [app andb feval] in *. repeat split; auto. rewrite <- Q5. apply andb_comm.
Qed.
End Sound.
