(* C03 model, part 3: the analyzer side that decides which filters enter the index scan and which stay as a
   residual Filter node (sql/analyzer/costed_index_scan.go): indexCoster.buildRoot / buildAnd / buildOr (the
   iScanAnd / iScanOr / iScanLeaf tree, node ids, the invalid and imprecise id sets), indexScanRangeBuilder
   (buildRangeCollection, rangeBuildAnd, rangeBuildOr, rangeBuildLeaf, rangeBuildDefaultLeaf, markLeftover,
   markImprecise), MySQLRangeCollection.Intersect, preciseIndexAccess and the choice of the residual filters in
   getCostedIndexScan.  The cost-based choice of the include set is an input (any set of node ids). *)
From Coq Require Import List ZArith Bool Lia PeanoNat.
Import ListNotations.
From GMS Require Import Range.Cut Range.MRange Range.C03IndexBuilder Range.C03Multi.
Open Scope nat_scope.

(* filter expressions as the analyzer sees them: an indexable leaf (a builder call on a column, with the flag
   "some literal is not of integer type" that makes PreciseComparison false), any other expression, AND, OR *)
Inductive sexpr : Type :=
| SLeaf (b : bop) (dec : bool)
| SOther (tag : nat)
| SAnd (l r : sexpr)
| SOr (l r : sexpr).

(* expression.PreciseComparison on a leaf: integer column against integer literals only *)
Definition leaf_precise (dec : bool) : bool := negb dec.

Inductive ftree : Type :=
| FLeaf (id : nat) (b : bop)
| FAnd (id : nat) (leaves : list (nat * bop)) (ors : list ftree)
| FOr (id : nat) (children : list ftree).
Definition fid (f : ftree) : nat := match f with FLeaf i _ | FAnd i _ _ | FOr i _ => i end.

Definition mem (x : nat) (l : list nat) : bool := existsb (Nat.eqb x) l.

(* accumulators of buildAnd (one iScanAnd, shared by nested ANDs) *)
Record andacc : Type := mkAnd {
  a_next : nat;                        (* c.i *)
  a_leaves : list (nat * bop);
  a_ors : list ftree;
  a_ids : list (nat * sexpr);          (* c.idToExpr *)
  a_inv : list nat;                    (* local |invalid| *)
  a_imp : list nat }.                  (* local |imprecise| *)
Record oracc : Type := mkOr {
  o_ok : bool;                         (* false once a child turned out not to be indexable: buildOr returns at once *)
  o_next : nat;
  o_children : list ftree;
  o_ids : list (nat * sexpr);
  o_imp : bool }.

(* buildAnd / buildOr.  [build_and e] processes the two children of the AND expression e into the accumulator;
   invalid / imprecise are the sets local to this call.  Note the line "imprecise = invalid.Union(imp)" of buildAnd,
   mirrored as written: after a nested AND the local imprecise set is REPLACED by invalid ∪ imp.  The counter c.i
   keeps whatever value it has when buildOr gives up. *)
Fixpoint build_and (e : sexpr) (i : nat) (leaves : list (nat * bop)) (ors : list ftree) (ids : list (nat * sexpr))
  : andacc :=
  let child (c : sexpr) (st : andacc) : andacc :=
    let i := a_next st in
    match c with
    | SAnd _ _ =>
      let r := build_and c (S i) (a_leaves st) (a_ors st) ((i, c) :: a_ids st) in
      let inv := a_inv st ++ a_inv r in
      mkAnd (a_next r) (a_leaves r) (a_ors r) (a_ids r) inv (inv ++ a_imp r)
    | SOr _ _ =>
      let r := build_or c (S i) [] ((i, c) :: a_ids st) in
      if o_ok r then
        mkAnd (o_next r) (a_leaves st) (a_ors st ++ [FOr i (o_children r)]) (o_ids r) (a_inv st)
              (if o_imp r then a_imp st ++ [i] else a_imp st)
      else mkAnd (o_next r) (a_leaves st) (a_ors st) (o_ids r) (a_inv st ++ [i]) (a_imp st)
    | SLeaf b dec =>
      mkAnd (S i) (a_leaves st ++ [(i, b)]) (a_ors st) ((i, c) :: a_ids st) (a_inv st)
            (if leaf_precise dec then a_imp st else a_imp st ++ [i])
    | SOther _ => mkAnd (S i) (a_leaves st) (a_ors st) ((i, c) :: a_ids st) (a_inv st ++ [i]) (a_imp st)
    end in
  match e with
  | SAnd l r => child r (child l (mkAnd i leaves ors ids [] []))
  | _ => mkAnd i leaves ors ids [] []
  end
with build_or (e : sexpr) (i : nat) (children : list ftree) (ids : list (nat * sexpr)) : oracc :=
  let child (c : sexpr) (st : oracc) : oracc :=
    if negb (o_ok st) then st else
    let i := o_next st in
    match c with
    | SAnd _ _ =>
      let r := build_and c (S i) [] [] ((i, c) :: o_ids st) in
      match a_inv r with
      | [] => mkOr true (a_next r) (o_children st ++ [FAnd i (a_leaves r) (a_ors r)]) (a_ids r)
                   (o_imp st || negb (match a_imp r with [] => true | _ => false end))
      | _ => mkOr false (a_next r) (o_children st) (a_ids r) false
      end
    | SOr _ _ =>
      let r := build_or c (S i) (o_children st) ((i, c) :: o_ids st) in
      if o_ok r then mkOr true (o_next r) (o_children r) (o_ids r) (o_imp st || o_imp r)
      else mkOr false (o_next r) (o_children st) (o_ids r) false
    | SLeaf b dec => mkOr true (S i) (o_children st ++ [FLeaf i b]) ((i, c) :: o_ids st) (o_imp st || negb (leaf_precise dec))
    | SOther _ => mkOr false i (o_children st) ((i, c) :: o_ids st) false
    end in
  match e with
  | SOr l r => child r (child l (mkOr true i children ids false))
  | _ => mkOr true i children ids false
  end.

(* buildRoot: the tree (None when the root is not indexable), the ids of the invalid top-level conjuncts (their
   conjunction is the first residual filter), the imprecise id set, and the id -> expression map *)
Record rootres : Type := mkRoot {
  r_tree : option ftree;
  r_invalid : list nat;
  r_whole_leftover : bool;            (* root not indexable: the whole expression is the leftover *)
  r_imprecise : list nat;
  r_ids : list (nat * sexpr) }.
Definition build_root (e : sexpr) : rootres :=
  match e with
  | SAnd _ _ =>
    let r := build_and e 2 [] [] [(1, e)] in
    mkRoot (Some (FAnd 1 (a_leaves r) (a_ors r))) (a_inv r) false (a_imp r) (a_ids r)
  | SOr _ _ =>
    let r := build_or e 2 [] [(1, e)] in
    if o_ok r then mkRoot (Some (FOr 1 (o_children r))) [] false (if o_imp r then [1] else []) (o_ids r)
    else mkRoot None [] true [] (o_ids r)
  | SLeaf b dec => mkRoot (Some (FLeaf 1 b)) [] false (if leaf_precise dec then [] else [1]) [(1, e)]
  | SOther _ => mkRoot None [] true [] [(1, e)]
  end.
(* expression.JoinAnd: left-deep *)
Definition join_and (fs : list sexpr) : option sexpr :=
  match fs with [] => None | f :: rest => Some (fold_left SAnd rest f) end.

(* ---------- indexScanRangeBuilder ---------- *)
Section RangeBuilder.
Variable k : nat.                                   (* number of index columns; a leaf addresses one iff its column < k *)
Variable include : list nat.                        (* c.bestFilters *)
Variable imprecise : list nat.
Variable ror : list range -> option (list range).   (* sql.RemoveOverlappingRanges; None = error *)

Definition rres : Type := option (list range).      (* a MySQLRangeCollection; None = nil *)
Definition as_res (l : list range) : rres := match l with [] => None | _ => Some l end.

(* MySQLRangeCollection.Intersect *)
Definition collection_intersect (xs ys : list range) : option rres :=
  match ror (collection_pairs xs ys) with
  | None => None
  | Some out => Some (as_res out)
  end.

Definition mark_leftover (id : nat) (inScan : bool) : bool := negb inScan && negb (mem id include).
Definition mark_imprecise (id : nat) (lo : list nat) : list nat := if mem id imprecise then lo ++ [id] else lo.

(* rangeBuildDefaultLeaf on the AND's shared builder; None = the builder reports an unknown column expression *)
Definition default_leaf (st : mstate) (l : nat * bop) (inScan : bool) (lo : list nat) : option (mstate * list nat) :=
  let '(id, b) := l in
  if mark_leftover id inScan then Some (st, lo ++ [id])
  else if negb (Nat.ltb (bop_col b) k) then
    (* every builder call returns at once when the builder is already invalid; otherwise an unknown column
       expression is an error *)
    (if snd st then Some (st, mark_imprecise id lo) else None)
  else Some (apply_bop st b, mark_imprecise id lo).

Fixpoint leaves_fold (st : mstate) (ls : list (nat * bop)) (inScan : bool) (lo : list nat) : option (mstate * list nat) :=
  match ls with
  | [] => Some (st, lo)
  | l :: ls' => match default_leaf st l inScan lo with
                | None => None
                | Some (st', lo') => leaves_fold st' ls' inScan lo'
                end
  end.

(* the loop of rangeBuildOr over the children (all in scan), and of rangeBuildAnd over the OR children followed by
   the leaves; [rec] is the recursive call *)
Fixpoint or_go (rec : ftree -> bool -> list nat -> option (rres * list nat))
               (cs : list ftree) (acc : list range) (lo : list nat) : option (rres * list nat) :=
  match cs with
  | [] => Some (as_res acc, lo)
  | c :: cs' =>
    match rec c true lo with
    | None => None
    | Some (r, lo') => or_go rec cs' (acc ++ match r with Some rs => rs | None => [] end) lo'
    end
  end.
Fixpoint and_go (rec : ftree -> bool -> list nat -> option (rres * list nat)) (inScan : bool)
                (leaves : list (nat * bop)) (ors : list ftree) (ret : rres) (lo : list nat) : option (rres * list nat) :=
  match ors with
  | [] =>
    match leaves_fold (minit k) leaves inScan lo with
    | None => None
    | Some (st, lo') =>
      match ret with
      | None => Some (Some (mresult st), lo')
      | Some x => match collection_intersect x (mresult st) with
                  | None => None
                  | Some r => Some (r, lo')
                  end
      end
    end
  | o :: ors' =>
    match rec o inScan lo with
    | None => None
    | Some (None, lo') => and_go rec inScan leaves ors' ret lo'
    | Some (Some rs, lo') =>
      match ret with
      | None => and_go rec inScan leaves ors' (Some rs) lo'
      | Some x => match collection_intersect x rs with
                  | None => None
                  | Some r => and_go rec inScan leaves ors' r lo'
                  end
      end
    end
  end.

(* rangeBuildAnd / rangeBuildOr / rangeBuildLeaf; fuel = nesting depth; outer None = error *)
Fixpoint rb (fuel : nat) (f : ftree) (inScan : bool) (lo : list nat) : option (rres * list nat) :=
  match fuel with
  | O => None
  | S n =>
    match f with
    | FLeaf id b =>
      match default_leaf (minit k) (id, b) inScan lo with
      | None => None
      | Some (st, lo') => Some (Some (mresult st), lo')
      end
    | FOr id cs =>
      if mark_leftover id inScan then Some (None, lo ++ [id])
      else or_go (rb n) cs [] (mark_imprecise id lo)
    | FAnd id leaves ors => and_go (rb n) (inScan || mem id include) leaves ors None lo
    end
  end.

Fixpoint depth (f : ftree) : nat :=
  match f with
  | FLeaf _ _ => 1
  | FAnd _ _ ors => S (fold_right (fun o m => Nat.max (depth o) m) 0 ors)
  | FOr _ cs => S (fold_right (fun o m => Nat.max (depth o) m) 0 cs)
  end.

(* buildRangeCollection: a lone IN leaf on a one-column index takes the fast path (no marking, no overlap removal) *)
Definition build_range_collection (root : ftree) : option (rres * list nat) :=
  let inScan := mem (fid root) include in
  match root, k with
  | FLeaf _ (BIn _ ls), 1 => Some (in_fast ls, [])
  | _, _ =>
    match rb (depth root) root inScan [] with
    | None => None
    | Some (r, lo) =>
      match ror (match r with Some rs => rs | None => [] end) with
      | None => None
      | Some out => Some (as_res out, lo)
      end
    end
  end.
End RangeBuilder.

(* getCostedIndexScan, the part after the ranges are known: which filters stay above the scan.
   precise_access = Table.PreciseMatch && no prefix lengths && not full-text / spatial. *)
Definition residual_filters (precise_access : bool) (all_conjunct_ids leftover : list nat) : list nat :=
  if negb precise_access then all_conjunct_ids else leftover.
