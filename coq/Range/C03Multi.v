(* C03 model, part 2: MySQLIndexBuilder over an index of k INT columns — the per-column calls of part 1 plus
   In / NotIn, the single isInvalid flag shared by all columns, and Ranges() forming every combination of the
   per-column expressions with the odometer loop (column 0 fastest, first emitted combination is number 1, the
   all-zero combination comes last), dropping empty combinations.  Disjunctions: rangeBuildOr concatenates the
   children's collections and buildRangeCollection hands the result to RemoveOverlappingRanges (C46 model). *)
From Coq Require Import List ZArith Bool Lia PeanoNat.
Import ListNotations.
From GMS Require Import Range.Cut Range.MRange Range.C03IndexBuilder.

Inductive bop : Type :=
| BOp (col : nat) (o : op)                 (* one of the eight calls of part 1 on column col *)
| BIn (col : nat) (ls : list lit)          (* In(col, keys...) *)
| BNotIn (col : nat) (ls : list lit).      (* NotIn(col, keys...): NotEquals for each key in turn *)

(* In: one potential range per key, built exactly as Equals does *)
Definition potential_in (ls : list lit) : list rce := flat_map (fun l => potential (OEq l)) ls.

Definition mstate : Type := (list (list rce) * bool)%type.       (* per-column expressions, isInvalid *)
Definition minit (k : nat) : mstate := (repeat [all_rce] k, false).

Fixpoint set_nth {A} (i : nat) (x : A) (l : list A) : list A :=
  match l, i with
  | [], _ => []
  | _ :: l', O => x :: l'
  | y :: l', S j => y :: set_nth j x l'
  end.

Definition apply_col (st : mstate) (c : nat) (f : list rce -> bstate) : mstate :=
  let '(cols, inv) := st in
  if inv then st else
  let '(cur', inv') := f (nth c cols []) in (set_nth c cur' cols, inv').

Definition in_step (ls : list lit) (cur : list rce) : bstate :=
  match ls with
  | [] => (cur, false)                                   (* updateCol returns at once for zero ranges *)
  | _ => match update_col cur (potential_in ls) with [] => (cur, true) | new => (new, false) end
  end.

Definition apply_bop (st : mstate) (b : bop) : mstate :=
  match b with
  | BOp c o => apply_col st c (fun cur => apply_op (cur, false) o)
  | BIn c ls => apply_col st c (in_step ls)
  | BNotIn c ls => fold_left (fun s l => apply_col s c (fun cur => apply_op (cur, false) (ONe l))) ls st
  end.
Definition mrun (k : nat) (ops : list bop) : mstate := fold_left apply_bop ops (minit k).

(* all combinations, column 0 varying fastest, numbered from 0 *)
Fixpoint product (cols : list (list rce)) : list range :=
  match cols with
  | [] => [[]]
  | c :: cs => flat_map (fun tail => map (fun x => x :: tail) c) (product cs)
  end.
Definition rotate_ranges (l : list range) : list range := match l with [] => [] | h :: t => t ++ [h] end.

Definition mresult (st : mstate) : list range :=
  let '(cols, inv) := st in
  let emp := map (fun _ => empty_rce) cols in
  if inv then [emp] else
  match filter (fun r => negb (r_is_empty r)) (rotate_ranges (product cols)) with [] => [emp] | l => l end.

(* ---- meaning of the calls on a row (its index key tuple) ---- *)
Definition bop_true (b : bop) (t : tuple) : bool :=
  match b with
  | BOp c o => op_true o (nth c t None)
  | BIn c ls => existsb (fun l => op_true (OEq l) (nth c t None)) ls
  | BNotIn c ls => forallb (fun l => op_true (ONe l) (nth c t None)) ls
  end.
Definition conj_true (ops : list bop) (t : tuple) : bool := forallb (fun b => bop_true b t) ops.
Definition bop_col (b : bop) : nat := match b with BOp c _ | BIn c _ | BNotIn c _ => c end.

(* ---- disjunction of conjunctions: rangeBuildOr + buildRangeCollection ---- *)
Definition or_ranges (k : nat) (fs : list (list bop)) : list range :=
  flat_map (fun ops => mresult (mrun k ops)) fs.
Definition or_true (fs : list (list bop)) (t : tuple) : bool := existsb (fun ops => conj_true ops t) fs.

(* ---- the fast path for a lone IN filter on a one-column index (inValsToMySQLRangeColl, costed_index_scan.go) ----
   Keys that are not integral or not inside the column type are skipped, the rest sorted and de-duplicated, one
   closed point range each; when no key is left the function returns nil (None here), not the empty range. *)
Definition in_fast_keys (ls : list lit) : list Z :=
  flat_map (fun l => if lit_integral l then
                       match conv (lit_floor l) with (z, InRange) => [z] | _ => [] end
                     else []) ls.
Fixpoint zinsert (x : Z) (l : list Z) : list Z :=
  match l with
  | [] => [x]
  | y :: l' => if Z.ltb x y then x :: l else if Z.eqb x y then l else y :: zinsert x l'
  end.
Definition zsort_dedupe (l : list Z) : list Z := fold_right zinsert [] l.
Definition in_fast (ls : list lit) : option (list range) :=
  match zsort_dedupe (in_fast_keys ls) with
  | [] => None
  | ks => Some (map (fun z => [closed_rce z z]) ks)
  end.
