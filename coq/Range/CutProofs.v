(* C46 proofs, part 1: the cut order is a total order compatible with [below]; set laws of the
   single-column operations over the denotation [contains], for all cuts and all keys. *)
From Coq Require Import List ZArith Bool Lia.
Import ListNotations.
From GMS Require Import Range.Cut.
Open Scope Z_scope.

(* position of a cut / of a key on one line: (band, offset), ordered lexicographically *)
Definition cband (c : cut) : Z := match c with BelowNull | AboveNull => 0 | Below _ | Above _ => 1 | AboveAll => 2 end.
Definition coff (c : cut) : Z :=
  match c with BelowNull => 0 | AboveNull => 2 | Below k => 3 * k | Above k => 3 * k + 2 | AboveAll => 0 end.
Definition kband (v : key) : Z := match v with None => 0 | Some _ => 1 end.
Definition koff (v : key) : Z := match v with None => 1 | Some x => 3 * x + 1 end.

Definition plt (b1 o1 b2 o2 : Z) : Prop := b1 < b2 \/ (b1 = b2 /\ o1 < o2).

Ltac spec_tac :=
  unfold plt; cbn -[Z.mul Z.add];
  repeat match goal with |- context [?x ?= ?y] => destruct (Z.compare_spec x y) end;
  split; intros HH; try discriminate HH; try reflexivity; try lia; try (exfalso; lia).
Lemma cut_cmp_Lt a b : cut_cmp a b = Lt <-> plt (cband a) (coff a) (cband b) (coff b).
Proof. destruct a, b; spec_tac. Qed.
Lemma cut_cmp_Gt a b : cut_cmp a b = Gt <-> plt (cband b) (coff b) (cband a) (coff a).
Proof. destruct a, b; spec_tac. Qed.
Lemma cut_cmp_Eq a b : cut_cmp a b = Eq <-> (cband a = cband b /\ coff a = coff b).
Proof. destruct a, b; spec_tac. Qed.
Lemma cpos_inj a b : cband a = cband b -> coff a = coff b -> a = b.
Proof. destruct a, b; cbn -[Z.mul Z.add]; intros; try lia; try reflexivity; f_equal; lia. Qed.
Lemma cut_cmp_Eq_eq a b : cut_cmp a b = Eq <-> a = b.
Proof.
  rewrite cut_cmp_Eq. split.
  - intros [? ?]. apply cpos_inj; assumption.
  - intros ->. split; reflexivity.
Qed.
Lemma below_spec c v : below c v = true <-> plt (cband c) (coff c) (kband v) (koff v).
Proof.
  destruct c, v; unfold plt; cbn -[Z.mul Z.add]; try rewrite Z.leb_le; try rewrite Z.ltb_lt;
  split; intros HH; try discriminate HH; try reflexivity; try lia; try (exfalso; lia).
Qed.
Lemma below_false c v : below c v = false <-> ~ plt (cband c) (coff c) (kband v) (koff v).
Proof. rewrite <- below_spec. destruct (below c v); split; congruence. Qed.

(* Tactic: turn every cut comparison and [below] fact into linear arithmetic. *)
Ltac cut_case a b :=
  let E := fresh "E" in
  destruct (cut_cmp a b) eqn:E;
  [ apply cut_cmp_Eq in E | apply cut_cmp_Lt in E | apply cut_cmp_Gt in E ].
Ltac below_case c v :=
  let B := fresh "B" in
  destruct (below c v) eqn:B; [ apply below_spec in B | apply below_false in B ].
Ltac cut_hyps :=
  repeat match goal with
  | H : cut_cmp _ _ = Lt |- _ => apply cut_cmp_Lt in H
  | H : cut_cmp _ _ = Gt |- _ => apply cut_cmp_Gt in H
  | H : cut_cmp _ _ = Eq |- _ => apply cut_cmp_Eq in H
  | H : below _ _ = true |- _ => apply below_spec in H
  | H : below _ _ = false |- _ => apply below_false in H
  end.
Ltac cut_cases :=
  repeat match goal with
  | |- context [cut_cmp ?a ?b] => cut_case a b
  | H : context [cut_cmp ?a ?b] |- _ => cut_case a b
  end.
Ltac below_cases :=
  repeat match goal with
  | |- context [below ?c ?v] => below_case c v
  | H : context [below ?c ?v] |- _ => below_case c v
  end.
Ltac cut_lia := unfold plt in *; cbn [andb orb negb fst snd lo hi] in *;
  try discriminate; try reflexivity; try lia; try (exfalso; lia).

(* ---- the order ---- *)
Lemma cut_cmp_refl a : cut_cmp a a = Eq.
Proof. apply cut_cmp_Eq_eq. reflexivity. Qed.
Lemma cut_cmp_antisym a b : cut_cmp b a = CompOpp (cut_cmp a b).
Proof. cut_case a b; cut_case b a; cut_lia. Qed.
Lemma cut_cmp_trans a b c : cut_cmp a b = Lt -> cut_cmp b c = Lt -> cut_cmp a c = Lt.
Proof. intros H1 H2. apply cut_cmp_Lt. cut_hyps. cut_lia. Qed.
Lemma cut_cmp_le_trans a b c : cut_cmp a b <> Gt -> cut_cmp b c <> Gt -> cut_cmp a c <> Gt.
Proof. intros H1 H2 H3. cut_case a b; cut_case b c; cut_hyps; try congruence; cut_lia. Qed.
(* the documented chain BelowNull < AboveNull < Below k < Above k < AboveAll, and keys in between *)
Lemma cut_chain k k' : cut_cmp BelowNull AboveNull = Lt /\ cut_cmp AboveNull (Below k) = Lt /\
  cut_cmp (Below k) (Above k) = Lt /\ cut_cmp (Above k) AboveAll = Lt /\
  (k < k' -> cut_cmp (Above k) (Below k') = Lt).
Proof. repeat split; try reflexivity. - cbn. rewrite Z.compare_refl. reflexivity. - intros H. cbn. rewrite (proj2 (Z.compare_lt_iff k k') H). reflexivity. Qed.

(* [below] is antitone in the cut: a lower cut is below at least the same values *)
Lemma below_mono a b v : cut_cmp a b <> Gt -> below b v = true -> below a v = true.
Proof. intros H B. apply below_spec. cut_case a b; cut_hyps; try congruence; cut_lia. Qed.
(* NULL is its own lowest point *)
Lemma null_lowest c : below c None = true <-> c = BelowNull.
Proof. destruct c; cbn; split; intros; try discriminate; reflexivity. Qed.

Lemma below_implb_lt a b v : cut_cmp a b = Lt -> implb (below b v) (below a v) = true.
Proof. intros E. destruct (below b v) eqn:B; [|reflexivity]. cbn. apply (below_mono a b v); congruence. Qed.
Lemma below_implb_gt a b v : cut_cmp a b = Gt -> implb (below a v) (below b v) = true.
Proof.
  intros E. destruct (below a v) eqn:B; [|reflexivity]. cbn. apply (below_mono b a v); [|assumption].
  rewrite cut_cmp_antisym, E. discriminate.
Qed.

(* boolean tactic: case on the comparisons, keep only the monotonicity facts at the value v, case on [below] *)
Ltac cmpd a b := let E := fresh "E" in destruct (cut_cmp a b) eqn:E.
Ltac bfacts v :=
  repeat match goal with
  | E : cut_cmp ?a ?b = Lt |- _ => pose proof (below_implb_lt a b v E); clear E
  | E : cut_cmp ?a ?b = Gt |- _ => pose proof (below_implb_gt a b v E); clear E
  | E : cut_cmp ?a ?b = Eq |- _ => apply cut_cmp_Eq_eq in E; subst
  end.
Ltac bsolve v :=
  bfacts v; cbn [andb orb negb fst snd lo hi existsb] in *;
  repeat match goal with
  | |- context [below ?c v] => destruct (below c v)
  | H : context [below ?c v] |- _ => destruct (below c v)
  end; cbn in *; try reflexivity; try discriminate; try congruence.

Local Ltac unf := unfold contains, is_empty, is_connected, overlaps, is_subset_of, try_intersect, try_union,
  ordered_cuts, cut_max, cut_min, cmp_le, cmp_lt, cmp_ge, cmp_gt, cmp_eq, empty_rce, rce_equals in *.
Local Ltac sn := cbn [negb fst snd lo hi].

(* ---- set laws, one column ---- *)
Lemma contains_empty v : contains empty_rce v = false.
Proof. reflexivity. Qed.
Lemma is_empty_sound r v : is_empty r = true -> contains r v = false.
Proof. destruct r as [l u]. unf. sn. cmpd l u; try discriminate; intros _; bsolve v. Qed.
Lemma rce_equals_eq r o : rce_equals r o = true <-> r = o.
Proof.
  destruct r as [l u], o as [l' u']. unf. cbn. split.
  - intros H. destruct (cut_cmp l l') eqn:E1; try discriminate. destruct (cut_cmp u u') eqn:E2; try discriminate.
    apply cut_cmp_Eq_eq in E1, E2. congruence.
  - intros [= -> ->]. rewrite !cut_cmp_refl. reflexivity.
Qed.
Lemma overlaps_true r o v : snd (overlaps r o) = true ->
  contains (fst (overlaps r o)) v = contains r v && contains o v.
Proof.
  destruct r as [l u], o as [l' u']. unf. sn.
  cmpd l u'; sn; try discriminate; cmpd l' u; sn; try discriminate; intros _;
  cmpd l l'; cmpd u u'; sn; bsolve v.
Qed.
Lemma overlaps_false r o v : snd (overlaps r o) = false -> contains r v && contains o v = false.
Proof.
  destruct r as [l u], o as [l' u']. unf. sn.
  cmpd l u'; sn; [| cmpd l' u; sn; try discriminate |]; intros _; bsolve v.
Qed.
Lemma try_intersect_exact r o v : contains (fst (try_intersect r o)) v = contains r v && contains o v.
Proof.
  destruct r as [l u], o as [l' u']. unf. sn.
  cmpd l l'; cmpd u u'; sn;
  match goal with |- context [cut_cmp ?a ?b] => cmpd a b end; sn; bsolve v.
Qed.
Lemma try_intersect_ok r o : snd (try_intersect r o) = false -> fst (try_intersect r o) = empty_rce.
Proof. unfold try_intersect. destruct (cmp_lt _); cbn; intros; congruence. Qed.
Lemma try_union_exact_aux r o v :
  match try_union r o with Some m => contains m v = contains r v || contains o v | None => True end.
Proof.
  destruct r as [l u], o as [l' u']. unfold try_union. unf. sn.
  cmpd l' u'; sn; try (bsolve v; fail);
  (cmpd l u; sn; try (bsolve v; fail));
  (cmpd l u'; sn; try exact I); (cmpd l' u; sn; try exact I);
  cmpd l l'; cmpd u u'; sn; bsolve v.
Qed.
Lemma try_union_exact r o m v : try_union r o = Some m -> contains m v = contains r v || contains o v.
Proof. intros H. pose proof (try_union_exact_aux r o v) as A. rewrite H in A. exact A. Qed.
(* TryUnion succeeds exactly when one side is empty or the two are connected *)
Lemma try_union_some_iff r o : (exists m, try_union r o = Some m) <-> (is_empty o = true \/ is_empty r = true \/ is_connected r o = true).
Proof.
  unfold try_union. destruct (is_empty o); [split; eauto|]. destruct (is_empty r); [split; eauto|].
  destruct (is_connected r o); cbn; split; eauto.
  intros [m H]; discriminate. intros [H|[H|H]]; discriminate.
Qed.
Lemma is_subset_sound r o v : is_subset_of r o = true -> contains r v = true -> contains o v = true.
Proof.
  destruct r as [l u], o as [l' u']. unf. sn.
  cmpd l l'; sn; try discriminate; cmpd u u'; sn; try discriminate; intros _; bsolve v.
Qed.
Lemma subtract_exact r o v : existsb (fun p => contains p v) (subtract r o) = contains r v && negb (contains o v).
Proof.
  unfold subtract. destruct (snd (overlaps r o)) eqn:Ov; cbn [negb].
  - destruct r as [l u], o as [l' u']. revert Ov. unf. sn.
    cmpd l u'; sn; try discriminate; cmpd l' u; sn; try discriminate; intros _;
    cmpd l l'; cmpd u u'; bsolve v.
  - cbn. rewrite orb_false_r. pose proof (overlaps_false r o v Ov) as H.
    destruct (contains r v), (contains o v); cbn in *; congruence.
Qed.
(* the pieces of a subtraction are pairwise disjoint *)
Lemma subtract_disjoint r o p q v : is_empty o = false -> subtract r o = [p; q] -> contains p v && contains q v = false.
Proof.
  intros NE. unfold subtract. destruct (snd (overlaps r o)) eqn:Ov; cbn [negb]; try discriminate.
  destruct r as [l u], o as [l' u']. revert Ov NE. unf. sn.
  cmpd l u'; sn; try discriminate; cmpd l' u; sn; try discriminate; intros _;
  cmpd l' u'; sn; try discriminate; intros _;
  cmpd l l'; cmpd u u'; sn; try discriminate; intros [= <- <-]; bsolve v.
Qed.
Lemma subtract_length r o : (length (subtract r o) <= 2)%nat.
Proof. unfold subtract. destruct (negb _); cbn; [lia|]. destruct (cut_cmp _ _), (cut_cmp _ _); cbn; lia. Qed.
(* without that guard the two pieces can overlap: subtracting the inverted (empty) range (5,3) from [0,10] *)
Lemma subtract_pieces_overlap_on_inverted :
  subtract (closed_rce 0 10) (open_rce 5 3) = [mkR (Below 0) (Above 5); mkR (Below 3) (Above 10)].
Proof. reflexivity. Qed.
