(* C46 proofs, part 7: the worklist loop of RemoveOverlappingRanges terminates when no input column is empty at the
   cut level.  Measure: (cells covered by tree + worklist counted with multiplicity, number of ranges, length of the
   worklist), lexicographically; cells are counted on the grid of all cuts occurring in the input. *)
From Coq Require Import List ZArith Bool Lia PeanoNat.
Import ListNotations.
From GMS Require Import Range.Cut Range.CutProofs Range.MRange Range.MRangeProofs Range.MRangeMore Range.RorNoError.
Open Scope nat_scope.

Lemma mu_dec_T T' T cnt' cnt wl' wl B : T' + 1 <= T -> cnt' <= B -> wl' <= B ->
  (T' * (B + 1) + cnt') * (B + 1) + wl' < (T * (B + 1) + cnt) * (B + 1) + wl.
Proof.
  intros H1 H2 H3. assert (E : T = T' + 1 + (T - T' - 1)) by lia. rewrite E.
  set (d := T - T' - 1). nia.
Qed.
Lemma mu_dec_cnt T' T cnt' cnt wl' wl B : T' <= T -> cnt' + 1 <= cnt -> wl' <= B ->
  (T' * (B + 1) + cnt') * (B + 1) + wl' < (T * (B + 1) + cnt) * (B + 1) + wl.
Proof.
  intros H1 H2 H3. assert (T' * (B + 1) <= T * (B + 1)) by (apply Nat.mul_le_mono_r; exact H1).
  assert ((T' * (B + 1) + cnt' + 1) * (B + 1) <= (T * (B + 1) + cnt) * (B + 1)) by (apply Nat.mul_le_mono_r; lia). lia.
Qed.
Lemma mu_dec_wl T' T cnt' cnt wl' wl B : T' <= T -> cnt' <= cnt -> wl' < wl ->
  (T' * (B + 1) + cnt') * (B + 1) + wl' < (T * (B + 1) + cnt) * (B + 1) + wl.
Proof.
  intros H1 H2 H3. assert (T' * (B + 1) <= T * (B + 1)) by (apply Nat.mul_le_mono_r; exact H1).
  assert ((T' * (B + 1) + cnt') * (B + 1) <= (T * (B + 1) + cnt) * (B + 1)) by (apply Nat.mul_le_mono_r; lia). lia.
Qed.

Section Grid.
Variable G : list cut.

(* position of a cut on the grid: how many grid cuts lie strictly below it *)
Definition idx (c : cut) : nat := length (filter (fun g => cmp_lt (cut_cmp g c)) G).
Definition width (r : rce) : nat := idx (hi r) - idx (lo r).

Lemma filter_len_le {A} (p q : A -> bool) l : (forall x, p x = true -> q x = true) ->
  length (filter p l) <= length (filter q l).
Proof.
  intros H. induction l as [|x l IH]; cbn; [lia|]. destruct (p x) eqn:P.
  - rewrite (H x P). cbn. lia.
  - destruct (q x); cbn; lia.
Qed.
Lemma filter_len_lt {A} (p q : A -> bool) l y : (forall x, p x = true -> q x = true) ->
  In y l -> p y = false -> q y = true -> length (filter p l) < length (filter q l).
Proof.
  intros H. induction l as [|x l IH]; cbn; [tauto|]. intros [->|I] Py Qy.
  - rewrite Py, Qy. cbn. pose proof (filter_len_le p q l H). lia.
  - specialize (IH I Py Qy). destruct (p x) eqn:P; [rewrite (H x P); cbn; lia|]. destruct (q x); cbn; lia.
Qed.
Lemma idx_mono a b : cut_cmp a b <> Gt -> idx a <= idx b.
Proof.
  intros H. apply filter_len_le. intros g Hg. unfold cmp_lt in *.
  destruct (cut_cmp g a) eqn:E; try discriminate.
  destruct (cut_cmp g b) eqn:E2; try reflexivity; exfalso; cut_case a b; try congruence; cut_hyps; cut_lia.
Qed.
Lemma idx_strict a b : In a G -> cut_cmp a b = Lt -> idx a < idx b.
Proof.
  intros I H. apply (filter_len_lt _ _ G a); auto.
  - intros g Hg. unfold cmp_lt in *. destruct (cut_cmp g a) eqn:E; try discriminate.
    rewrite (cut_cmp_trans g a b E H). reflexivity.
  - rewrite cut_cmp_refl. reflexivity.
  - rewrite H. reflexivity.
Qed.

(* grid-well-formed column / range *)
Definition gcol (r : rce) : Prop := cut_cmp (lo r) (hi r) = Lt /\ In (lo r) G /\ In (hi r) G.
Definition grange (n : nat) (r : range) : Prop := length r = n /\ Forall gcol r.

Lemma gcol_nonempty r : gcol r -> is_empty r = false.
Proof. intros [H _]. apply is_empty_false. exact H. Qed.
Lemma gcol_width r : gcol r -> 1 <= width r.
Proof. intros [H [I _]]. unfold width. pose proof (idx_strict _ _ I H). lia. Qed.
Lemma grange_wf n r : grange n r -> wf n r.
Proof.
  intros [L F]. split; [exact L|]. unfold no_empty_col. apply forallb_forall. intros c Ic.
  rewrite Forall_forall in F. rewrite (gcol_nonempty c (F c Ic)). reflexivity.
Qed.

(* ---- column facts ---- *)
Lemma overlaps_gcol x y : gcol x -> gcol y -> snd (overlaps x y) = true -> gcol (fst (overlaps x y)).
Proof.
  intros [Hx [Ix1 Ix2]] [Hy [Iy1 Iy2]] O.
  assert (NE : is_empty (fst (overlaps x y)) = false) by (apply overlaps_nonempty; auto; apply is_empty_false; assumption).
  apply is_empty_false in NE. revert O NE. unfold overlaps, cmp_ge, cut_max, cut_min, cmp_lt, cmp_gt.
  destruct (cut_cmp (lo x) (hi y)); cbn [snd fst]; try discriminate.
  destruct (cut_cmp (lo y) (hi x)); cbn [snd fst]; try discriminate. intros _ NE. split; [exact NE|]. cbn [lo hi].
  destruct (cut_cmp (lo x) (lo y)), (cut_cmp (hi x) (hi y)); auto.
Qed.
Lemma subtract_gcol x ov p : gcol x -> gcol ov -> In p (subtract x ov) -> gcol p.
Proof.
  intros Gx Go Ip. split; [apply is_empty_false; eapply subtract_pieces_nonempty; eauto; apply gcol_nonempty; exact Gx|].
  destruct Gx as [_ [Ix1 Ix2]], Go as [_ [Io1 Io2]]. revert Ip. unfold subtract.
  destruct (negb (snd (overlaps x ov))); [intros [<-|[]]; auto|].
  destruct (cut_cmp (lo x) (lo ov)), (cut_cmp (hi x) (hi ov)); cbn [In]; intros H;
    repeat (destruct H as [<-|H]); try contradiction; cbn [lo hi]; auto.
Qed.
(* widths: subtracting the overlap region leaves exactly the rest *)
Lemma subtract_width x y : gcol x -> gcol y -> snd (overlaps x y) = true ->
  list_sum (map width (subtract x (fst (overlaps x y)))) + width (fst (overlaps x y)) = width x.
Proof.
  intros [Hx _] [Hy _] O. set (ov := fst (overlaps x y)).
  assert (NE : cut_cmp (lo ov) (hi ov) = Lt).
  { apply is_empty_false. apply overlaps_nonempty; auto; apply is_empty_false; assumption. }
  assert (L1 : cut_cmp (lo x) (lo ov) <> Gt /\ cut_cmp (hi ov) (hi x) <> Gt).
  { revert O. subst ov. unfold overlaps, cmp_ge, cut_max, cut_min, cmp_lt, cmp_gt.
    destruct (cut_cmp (lo x) (hi y)); cbn [snd fst]; try discriminate.
    destruct (cut_cmp (lo y) (hi x)); cbn [snd fst]; try discriminate. intros _. cbn [lo hi].
    cut_case (lo x) (lo y); cut_case (hi x) (hi y); split;
      try (rewrite cut_cmp_refl; discriminate); intros E'; cut_hyps; cut_lia. }
  destruct L1 as [L1 L2].
  pose proof (idx_mono _ _ L1) as M1. pose proof (idx_mono _ _ L2) as M2.
  assert (M3 : idx (lo ov) <= idx (hi ov)) by (apply idx_mono; rewrite NE; discriminate).
  assert (OV : snd (overlaps x ov) = true).
  { rewrite overlaps_snd. unfold cmp_lt.
    assert (cut_cmp (lo x) (hi ov) = Lt) as -> by (apply cut_cmp_Lt; cut_case (lo x) (lo ov); try congruence; cut_hyps; cut_lia).
    assert (cut_cmp (lo ov) (hi x) = Lt) as -> by (apply cut_cmp_Lt; cut_case (hi ov) (hi x); try congruence; cut_hyps; cut_lia).
    reflexivity. }
  unfold subtract. rewrite OV. cbn [negb]. pose proof (cut_cmp_antisym (hi ov) (hi x)) as A.
  destruct (cut_cmp (lo x) (lo ov)) eqn:E1; try congruence;
  (destruct (cut_cmp (hi ov) (hi x)) eqn:E2; try congruence); rewrite A; cbn [CompOpp map]; unfold list_sum; cbn [fold_right];
  unfold width; cbn [lo hi];
  try (apply cut_cmp_Eq_eq in E1; rewrite <- ?E1 in *); try (apply cut_cmp_Eq_eq in E2; rewrite ?E2 in *); lia.
Qed.

Lemma try_union_gcol x y u : gcol x -> gcol y -> try_union x y = Some u ->
  gcol u /\ width u <= width x + width y /\ (snd (overlaps x y) = true -> width u + 1 <= width x + width y).
Proof.
  intros Gx Gy U. pose proof (gcol_width x Gx) as Wx. pose proof (gcol_width y Gy) as Wy.
  pose proof (try_union_nonempty x y u (gcol_nonempty x Gx) (gcol_nonempty y Gy) U) as NE. apply is_empty_false in NE.
  destruct Gx as [Hx [Ix1 Ix2]], Gy as [Hy [Iy1 Iy2]].
  revert U. unfold try_union.
  rewrite (proj2 (is_empty_false x) Hx), (proj2 (is_empty_false y) Hy).
  destruct (is_connected x y) eqn:C; cbn [negb]; [|discriminate]. intros [= <-]. cbn [lo hi] in NE.
  revert C. unfold is_connected, cmp_gt, cmp_le.
  destruct (cut_cmp (lo x) (hi y)) eqn:C1; try discriminate; (destruct (cut_cmp (lo y) (hi x)) eqn:C2; try discriminate); intros _;
  (assert (M1 : idx (lo x) <= idx (hi y)) by (apply idx_mono; rewrite C1; discriminate));
  (assert (M2 : idx (lo y) <= idx (hi x)) by (apply idx_mono; rewrite C2; discriminate));
  pose proof (idx_strict _ _ Ix1 Hx) as S1; pose proof (idx_strict _ _ Iy1 Hy) as S2;
  unfold width in *; unfold ordered_cuts, cmp_le in *; rewrite overlaps_snd; rewrite C1, C2; unfold cmp_lt; cbn [lo hi fst snd andb] in *;
  (destruct (cut_cmp (lo x) (lo y)) eqn:D1; destruct (cut_cmp (hi x) (hi y)) eqn:D2; cbn [fst snd lo hi] in *);
  (split; [split; [exact NE|split; assumption]|]);
  try (apply cut_cmp_Eq_eq in D1; rewrite ?D1 in *); try (apply cut_cmp_Eq_eq in D2; rewrite ?D2 in *);
  try (assert (idx (lo x) <= idx (lo y)) by (apply idx_mono; rewrite D1; discriminate));
  try (assert (idx (lo y) <= idx (lo x)) by (apply idx_mono; rewrite cut_cmp_antisym, D1; discriminate));
  try (assert (idx (hi x) <= idx (hi y)) by (apply idx_mono; rewrite D2; discriminate));
  try (assert (idx (hi y) <= idx (hi x)) by (apply idx_mono; rewrite cut_cmp_antisym, D2; discriminate));
  (split; [lia|]); intros OV; try discriminate OV;
  try (pose proof (idx_strict _ _ Ix1 C1)); try (pose proof (idx_strict _ _ Iy1 C2)); lia.
Qed.

(* ---- volumes ---- *)
Fixpoint vol (a : range) : nat := match a with [] => 1 | c :: a' => width c * vol a' end.
Definition svol (l : list range) : nat := list_sum (map vol l).

Lemma vol_pos a : Forall gcol a -> 1 <= vol a.
Proof. induction 1 as [|c a Gc F IH]; cbn; [lia|]. pose proof (gcol_width c Gc). nia. Qed.
Lemma vol_replace a i : i < length a -> Forall gcol a ->
  exists R, 1 <= R /\ vol a = width (nth i a empty_rce) * R /\ forall c, vol (replace i c a) = width c * R.
Proof.
  revert i. induction a as [|x a IH]; intros i L F; cbn in L; [lia|]. inversion F as [|? ? Gx F']; subst.
  destruct i as [|i].
  - exists (vol a). repeat split; auto. apply vol_pos. exact F'.
  - destruct (IH i ltac:(lia) F') as [R [R1 [R2 R3]]]. exists (width x * R). pose proof (gcol_width x Gx).
    repeat split; [nia|cbn; rewrite R2; lia|]. intros c. cbn. rewrite R3. lia.
Qed.
Lemma svol_app xs ys : svol (xs ++ ys) = svol xs + svol ys.
Proof. unfold svol. rewrite map_app, list_sum_app. reflexivity. Qed.
Lemma svol_pieces i a pcs R : (forall c, vol (replace i c a) = width c * R) ->
  svol (map (fun c => replace i c a) pcs) = list_sum (map width pcs) * R.
Proof.
  intros H. unfold svol. induction pcs as [|p pcs IH]; cbn; [reflexivity|]. rewrite H. unfold list_sum in *. cbn in *. rewrite IH. lia.
Qed.

Lemma replace_gcol i c a : gcol c -> Forall gcol a -> Forall gcol (replace i c a).
Proof.
  intros Gc. revert i. induction a as [|x a IH]; intros i F; [destruct i; constructor|]. inversion F; subst.
  destruct i; cbn; constructor; auto.
Qed.
Lemma r_overlaps_replace i c a b : r_overlaps a b = true -> snd (overlaps c c) = true ->
  r_overlaps (replace i c a) (replace i c b) = true.
Proof.
  revert i b. induction a as [|x a IH]; intros i [|y b]; cbn; try discriminate; [destruct i; auto|].
  intros H Oc. apply andb_prop in H. destruct H as [H1 H2]. destruct i; cbn.
  - rewrite Oc, H2. reflexivity.
  - rewrite H1. cbn. apply IH; assumption.
Qed.
Lemma overlaps_self c : gcol c -> snd (overlaps c c) = true.
Proof. intros [H _]. rewrite overlaps_snd, H. reflexivity. Qed.

Lemma merge_one_vol a b m : Forall gcol a -> Forall gcol b -> merge_one a b = Some m ->
  Forall gcol m /\ length m = length a /\ vol m <= vol a + vol b /\ (r_overlaps a b = true -> vol m + 1 <= vol a + vol b).
Proof.
  revert b m. induction a as [|x a IH]; intros [|y b] m Fa Fb; cbn [merge_one]; try discriminate.
  inversion Fa as [|? ? Gx Fa']; subst. inversion Fb as [|? ? Gy Fb']; subst.
  pose proof (gcol_width x Gx) as Wx. pose proof (gcol_width y Gy) as Wy.
  destruct (rce_equals x y) eqn:E.
  - apply rce_equals_eq in E. subst y. destruct (merge_one a b) as [m'|] eqn:M; try discriminate. intros [= <-].
    destruct (IH b m' Fa' Fb' M) as [F1 [L1 [V1 V2]]]. split; [constructor; assumption|]. split; [cbn; lia|].
    cbn [vol r_overlaps all2]. split; [nia|]. intros H. apply andb_prop in H. destruct H as [_ H]. specialize (V2 H). nia.
  - destruct (r_equals a b) eqn:E2; try discriminate. apply r_equals_eq in E2. subst b.
    destruct (try_union x y) as [u|] eqn:U; try discriminate. intros [= <-].
    destruct (try_union_gcol x y u Gx Gy U) as [Gu [W1 W2]]. pose proof (vol_pos a Fa') as Va.
    split; [constructor; assumption|]. split; [reflexivity|]. cbn [vol r_overlaps all2]. split; [nia|].
    intros H. apply andb_prop in H. destruct H as [H _]. specialize (W2 H). nia.
Qed.
Lemma try_merge_vol n a b m : grange n a -> grange n b -> try_merge a b = Some m ->
  grange n m /\ vol m <= vol a + vol b /\ (r_overlaps a b = true -> vol m + 1 <= vol a + vol b).
Proof.
  intros [La Fa] [Lb Fb]. pose proof (vol_pos a Fa). pose proof (vol_pos b Fb).
  unfold try_merge, r_is_superset_of. destruct (negb _); [discriminate|].
  destruct (r_is_subset_of b a); [intros [= <-]; repeat split; auto; lia|].
  destruct (r_is_subset_of a b); [intros [= <-]; repeat split; auto; lia|].
  intros M. destruct (merge_one_vol a b m Fa Fb M) as [F [L [V1 V2]]]. repeat split; auto. lia.
Qed.

Lemma nth_gcol i a : i < length a -> Forall gcol a -> gcol (nth i a empty_rce).
Proof. intros L F. rewrite Forall_forall in F. apply F. apply nth_In. exact L. Qed.

Theorem remove_overlap_vol n fuel : forall a b out ok, grange n a -> grange n b ->
  remove_overlap fuel a b = Some (out, ok) ->
  Forall (grange n) out /\ svol out <= vol a + vol b /\ (r_overlaps a b = true -> svol out + 1 <= vol a + vol b) /\
  (ok = true -> r_overlaps a b = false -> length out = 1).
Proof.
  induction fuel as [|f IH]; intros a b out ok Ga Gb; cbn [remove_overlap]; [discriminate|].
  destruct (try_merge a b) as [m|] eqn:M.
  - intros [= <- <-]. destruct (try_merge_vol n a b m Ga Gb M) as [Gm [V1 V2]].
    unfold svol. cbn. repeat split; auto; try lia. intros H. specialize (V2 H). lia.
  - destruct (r_overlaps a b) eqn:O; cbn [negb].
    2:{ intros [= <- <-]. unfold svol. cbn. repeat split; auto; try lia; try discriminate. }
    destruct (first_diff a b) as [i|] eqn:F.
    2:{ intros [= <- <-]. unfold svol. cbn. destruct Ga as [_ Fa]. pose proof (vol_pos a Fa).
        repeat split; auto; try lia; try discriminate. }
    destruct (first_diff_some a b i F) as [La Lb]. destruct Ga as [Na Fa], Gb as [Nb Fb].
    set (x := nth i a empty_rce). set (y := nth i b empty_rce). set (ov := fst (overlaps x y)).
    destruct (remove_overlap f (replace i ov a) (replace i ov b)) as [[rs ok']|] eqn:R; try discriminate.
    intros [= <- <-].
    pose proof (r_overlaps_nth a b i O La) as OV. fold x y in OV.
    assert (Gx : gcol x) by (apply nth_gcol; assumption). assert (Gy : gcol y) by (apply nth_gcol; assumption).
    assert (Go : gcol ov) by (apply overlaps_gcol; assumption).
    assert (Ga' : grange n (replace i ov a)) by (split; [rewrite replace_length; exact Na|apply replace_gcol; assumption]).
    assert (Gb' : grange n (replace i ov b)) by (split; [rewrite replace_length; exact Nb|apply replace_gcol; assumption]).
    destruct (IH _ _ _ _ Ga' Gb' R) as [Fr [_ [V2 _]]].
    specialize (V2 (r_overlaps_replace i ov a b O (overlaps_self ov Go))).
    destruct (vol_replace a i La Fa) as [Ra [Ra1 [Ra2 Ra3]]]. destruct (vol_replace b i Lb Fb) as [Rb [Rb1 [Rb2 Rb3]]].
    fold x in Ra2. fold y in Rb2. rewrite Ra3, Rb3 in V2.
    pose proof (subtract_width x y Gx Gy OV) as SW1. fold ov in SW1.
    assert (OV' : snd (overlaps y x) = true) by (rewrite overlaps_sym; exact OV).
    pose proof (subtract_width y x Gy Gx OV') as SW2.
    assert (EQ : fst (overlaps y x) = ov).
    { subst ov. clear -OV Gx Gy. destruct x as [l u], y as [l' u']. revert OV. unfold overlaps, cmp_ge, cut_max, cut_min, cmp_lt, cmp_gt. cbn [lo hi].
      cut_case l u'; cbn [snd]; try discriminate; cut_case l' u; cbn [snd]; try discriminate; intros _.
      rewrite (cut_cmp_antisym l l'), (cut_cmp_antisym u u'). cbn [fst].
      cut_case l l'; cut_case u u'; cbn [CompOpp]; try reflexivity; f_equal; apply cpos_inj; lia. }
    rewrite EQ in SW2.
    repeat split.
    + apply Forall_app. split; [|apply Forall_app; split; [|exact Fr]].
      * apply Forall_forall. intros r Ir. apply in_map_iff in Ir. destruct Ir as [c [<- Ic]].
        split; [rewrite replace_length; exact Na|]. apply replace_gcol; [|exact Fa]. exact (subtract_gcol x ov c Gx Go Ic).
      * apply Forall_forall. intros r Ir. apply in_map_iff in Ir. destruct Ir as [c [<- Ic]].
        split; [rewrite replace_length; exact Nb|]. apply replace_gcol; [|exact Fb]. exact (subtract_gcol y ov c Gy Go Ic).
    + rewrite !svol_app, (svol_pieces i a _ Ra Ra3), (svol_pieces i b _ Rb Rb3), Ra2, Rb2. nia.
    + intros _. rewrite !svol_app, (svol_pieces i a _ Ra Ra3), (svol_pieces i b _ Rb Rb3), Ra2, Rb2. nia.
    + discriminate.
Qed.

(* ---- the worklist measure ---- *)
Lemma len_le_svol n l : Forall (grange n) l -> length l <= svol l.
Proof.
  unfold svol. induction 1 as [|r l [_ F] _ IH]; cbn; [lia|]. pose proof (vol_pos r F). unfold list_sum in *. cbn. lia.
Qed.
Lemma svol_tree_insert r tr : svol (tree_insert r tr) <= vol r + svol tr /\ length (tree_insert r tr) <= 1 + length tr.
Proof.
  unfold svol. induction tr as [|y tr IH]; cbn; [unfold list_sum; cbn; lia|]. destruct (r_equals r y); [unfold list_sum in *; cbn; lia|].
  destruct (r_lt r y); unfold list_sum in *; cbn in *; lia.
Qed.
Lemma svol_tree_remove c tr : In c tr -> svol (tree_remove c tr) + vol c = svol tr /\ length (tree_remove c tr) + 1 = length tr.
Proof.
  unfold svol. induction tr as [|y tr IH]; cbn; [tauto|]. intros H. destruct (r_equals c y) eqn:E.
  - apply r_equals_eq in E. subst. unfold list_sum. cbn. lia.
  - destruct H as [->|H]; [rewrite (proj2 (r_equals_eq c c) eq_refl) in E; discriminate|].
    destruct (IH H). unfold list_sum in *. cbn in *. lia.
Qed.

Definition mu (B : nat) (tr work : list range) : nat :=
  ((svol tr + svol work) * (B + 1) + (length tr + length work)) * (B + 1) + length work.

Lemma first_ok_not_none found rang : first_ok found rang <> None.
Proof.
  induction found as [|y found IH]; cbn [first_ok]; [discriminate|].
  destruct (remove_overlap_terminates y rang) as [out [ok E]]. rewrite E. destruct ok; [discriminate|exact IH].
Qed.

Theorem ror_loop_terminates n B fuel : forall finds tr work c,
  Forall (grange n) tr -> Forall (grange n) work -> svol tr + svol work <= B -> mu B tr work < fuel ->
  fst (ror_loop fuel finds tr work c) <> RFuel.
Proof.
  induction fuel as [|f IH]; intros finds tr work c Gt Gw HB HM; [lia|].
  destruct work as [|rang work]; cbn [ror_loop]; [destruct (any_overlap _); discriminate|].
  destruct finds as [|found finds]; [discriminate|].
  destruct (find_sound tr rang found) eqn:FS; cbn [negb]; [|discriminate].
  inversion Gw as [|? ? Gr Gw']; subst.
  pose proof (len_le_svol n tr Gt) as LT. pose proof (len_le_svol n work Gw') as LW.
  assert (Vr : 1 <= vol rang) by (apply vol_pos; exact (proj2 Gr)).
  assert (SV : svol (rang :: work) = vol rang + svol work) by reflexivity.
  destruct (first_ok found rang) as [[[cn news]|]|] eqn:FO; [| |exfalso; exact (first_ok_not_none _ _ FO)].
  - destruct (first_ok_some _ _ _ _ FO) as [Hin RO].
    assert (Hc : In cn tr).
    { unfold find_sound in FS. rewrite forallb_forall in FS. specialize (FS cn Hin). apply andb_prop in FS. apply tree_mem_in. tauto. }
    pose proof Gt as Gt0. rewrite Forall_forall in Gt0. pose proof (Gt0 cn Hc) as Gc.
    unfold remove_overlap_top in RO. destruct (remove_overlap_vol n _ _ _ _ _ Gc Gr RO) as [Gn [V1 [V2 V3]]].
    destruct (svol_tree_remove cn tr Hc) as [R1 R2].
    pose proof (len_le_svol n news Gn) as LN.
    assert (Gt' : Forall (grange n) (tree_remove cn tr)) by (apply Forall_forall; intros x Ix; apply Gt0; eapply tree_remove_in; eauto).
    assert (Gw'' : Forall (grange n) (work ++ news)) by (apply Forall_app; split; assumption).
    pose proof (len_le_svol n _ Gt') as LT'.
    apply IH; auto.
    + rewrite svol_app. rewrite SV in HB. lia.
    + rewrite SV in HB. eapply Nat.lt_le_trans; [|apply Nat.lt_succ_r; exact HM].
      unfold mu. rewrite svol_app, app_length, SV. cbn [length].
      destruct (r_overlaps cn rang) eqn:O.
      * specialize (V2 eq_refl). apply mu_dec_T; lia.
      * specialize (V3 eq_refl eq_refl). rewrite V3. apply mu_dec_cnt; lia.
  - destruct (svol_tree_insert rang tr) as [I1 I2].
    assert (Gt' : Forall (grange n) (tree_insert rang tr)).
    { apply Forall_forall. intros x Ix. destruct (tree_insert_in _ _ _ Ix) as [->|Ix']; [exact Gr|]. rewrite Forall_forall in Gt. auto. }
    apply IH; auto.
    + rewrite SV in HB. lia.
    + rewrite SV in HB. eapply Nat.lt_le_trans; [|apply Nat.lt_succ_r; exact HM].
      unfold mu. rewrite SV. cbn [length]. apply mu_dec_wl; lia.
Qed.
End Grid.

(* ---- the grid of an input: all of its cuts ---- *)
Definition cuts_of (rs : list range) : list cut := flat_map (fun r => flat_map (fun c => [lo c; hi c]) r) rs.
Lemma cuts_of_in rs r c : In r rs -> In c r -> In (lo c) (cuts_of rs) /\ In (hi c) (cuts_of rs).
Proof.
  intros Ir Ic. unfold cuts_of. split; apply in_flat_map; exists r; (split; [exact Ir|]); apply in_flat_map; exists c; cbn; auto.
Qed.
Lemma wf_grange n rs : Forall (wf n) rs -> Forall (grange (cuts_of rs) n) rs.
Proof.
  intros W. apply Forall_forall. intros r Ir. rewrite Forall_forall in W. destruct (W r Ir) as [L NE].
  split; [exact L|]. apply Forall_forall. intros c Ic. destruct (cuts_of_in rs r c Ir Ic) as [I1 I2].
  split; [|split; assumption]. apply is_empty_false. unfold no_empty_col in NE. rewrite forallb_forall in NE.
  specialize (NE c Ic). destruct (is_empty c); [discriminate|reflexivity].
Qed.
Definition ror_bound (rs : list range) : nat :=
  let B := svol (cuts_of rs) rs in (B * (B + 1) + length rs) * (B + 1) + length rs.

Theorem remove_overlapping_ranges_terminates n rs finds fuel : Forall (wf n) rs -> ror_bound rs < fuel ->
  fst (remove_overlapping_ranges fuel finds rs) <> RFuel.
Proof.
  intros W HF. pose proof (wf_grange n rs W) as GR. destruct rs as [|r0 rest]; cbn [remove_overlapping_ranges]; [discriminate|].
  set (G := cuts_of (r0 :: rest)) in *. inversion GR as [|? ? G0 Grest]; subst.
  apply (ror_loop_terminates G n (svol G (r0 :: rest))); auto.
  - unfold svol. cbn. unfold list_sum. cbn. lia.
  - unfold ror_bound in HF. fold G in HF. unfold mu. cbn [length] in *.
    assert (svol G [r0] + svol G rest = svol G (r0 :: rest)) as -> by (unfold svol, list_sum; cbn; lia). lia.
Qed.
