(* C21 -- model of ALTER TABLE on (schema, rows).

   Abstraction of memory/table.go AddColumn / DropColumn / ModifyColumn (addColumnToSchema, insertValueInRows,
   dropColumnFromSchema, per-row Convert), sql/rowexec/ddl_iters.go (rename column / table, all-or-nothing
   rewrite) at the level "a table is an ordered list of column definitions plus rows that bind every column
   name to a value".  Column names are numbers (the driver numbers its columns).  A statement either yields
   the new table or fails (None); a failed statement leaves the table as it was ([exec]). *)
From Coq Require Import List NArith ZArith Bool Lia.
Import ListNotations.
Open Scope N_scope.

Definition name := N.

(* TStr n k: VARCHAR(n) with collation number k;  TDec p s: DECIMAL(p,s);  TDate / TDatetime: DATE / DATETIME(0) *)
Inductive ty :=
| TInt (lo hi : Z) | TStr (n : N) (k : N) | TEnum (members : list (list N)) | TDec (p s : N) | TDate | TDatetime.

Fixpoint bytes_eqb (a b : list N) : bool :=
  match a, b with
  | [], [] => true
  | x :: a', y :: b' => N.eqb x y && bytes_eqb a' b'
  | _, _ => false
  end.
Record col := mkc { cn : name; cty : ty; cnullable : bool }.
(* VDec u s = u * 10^-s;  VTime t = t seconds since the epoch (a DATE value is a multiple of 86400) *)
Inductive val := VNull | VInt (z : Z) | VStr (s : list N) | VDec (u : Z) (s : N) | VTime (t : Z).

(* division rounding half away from zero (MySQL / apd RoundHalfUp on the magnitude), b > 0 *)
Definition rdiv (a b : Z) : Z := (Z.sgn a * ((2 * Z.abs a + b) / (2 * b)))%Z.
Definition pow10 (n : N) : Z := (10 ^ Z.of_N n)%Z.

(* rescale u * 10^-s0 to scale s *)
Definition rescale (u : Z) (s0 s : N) : Z :=
  if s0 <=? s then (u * pow10 (s - s0))%Z else rdiv u (pow10 (s0 - s)).
Definition fits_dec (u : Z) (p : N) : bool := (Z.abs u <? pow10 p)%Z.

(* per-value conversion to a column definition (types.Convert + the nullability check); None = not representable *)
Definition conv (c : col) (v : val) : option val :=
  match v with
  | VNull => if cnullable c then Some VNull else None
  | VInt z => match cty c with
              | TInt lo hi => if (lo <=? z)%Z && (z <=? hi)%Z then Some (VInt z) else None
              | TDec p s => let u := (z * pow10 s)%Z in if fits_dec u p then Some (VDec u s) else None
              | _ => None
              end
  | VStr s => match cty c with
              | TStr n _ => if N.of_nat (length s) <=? n then Some (VStr s) else None   (* any collation: same bytes *)
              | TEnum ms => if existsb (bytes_eqb s) ms then Some (VStr s) else None   (* stored by member string *)
              | _ => None
              end
  | VDec u s0 => match cty c with
                 | TDec p s => let u' := rescale u s0 s in if fits_dec u' p then Some (VDec u' s) else None
                 | TInt lo hi =>
                   (* quirk mirrored: BIGINT UNSIGNED rejects a negative decimal before rounding (-0.019 fails), the
                      narrower unsigned types round first (-0.019 becomes 0) *)
                   if (lo =? 0)%Z && (hi =? 18446744073709551615)%Z && (u <? 0)%Z then None
                   else let z := rescale u s0 0 in if (lo <=? z)%Z && (z <=? hi)%Z then Some (VInt z) else None
                 | _ => None
                 end
  | VTime t => match cty c with
               | TDatetime => Some (VTime t)
               | TDate => Some (VTime (t - t mod 86400)%Z)       (* the time of day is dropped *)
               | _ => None
               end
  end.

Definition row := list (name * val).

Fixpoint lookup (n : name) (r : row) : option val :=
  match r with
  | [] => None
  | (k, v) :: r' => if k =? n then Some v else lookup n r'
  end.

Definition remove_key (n : name) (r : row) : row := filter (fun kv => negb (fst kv =? n)) r.
Definition rename_key (a b : name) (r : row) : row := map (fun kv => if fst kv =? a then (b, snd kv) else kv) r.

Record table := mkt { tn : name; cols : list col; pk : list name; rows : list row }.

Definition names (t : table) : list name := map cn (cols t).
Definition has (n : name) (cs : list col) : bool := existsb (fun c => cn c =? n) cs.

Inductive pos := PKeep | PFirst | PAfter (a : name) | PLast.

Fixpoint insert_after (a : name) (c : col) (cs : list col) : option (list col) :=
  match cs with
  | [] => None
  | x :: cs' => if cn x =? a then Some (x :: c :: cs')
                else match insert_after a c cs' with Some l => Some (x :: l) | None => None end
  end.

Definition insert_col (p : pos) (c : col) (cs : list col) : option (list col) :=
  match p with
  | PFirst => Some (c :: cs)
  | PAfter a => insert_after a c cs
  | PKeep | PLast => Some (cs ++ [c])
  end.

Definition remove_col (n : name) (cs : list col) : list col := filter (fun c => negb (cn c =? n)) cs.
Definition replace_col (n : name) (c' : col) (cs : list col) : list col := map (fun c => if cn c =? n then c' else c) cs.

Fixpoint mapM {A B} (f : A -> option B) (l : list A) : option (list B) :=
  match l with
  | [] => Some []
  | x :: l' => match f x with
               | Some y => match mapM f l' with Some ys => Some (y :: ys) | None => None end
               | None => None
               end
  end.

Inductive op :=
| OAdd (c : col) (fill : val) (p : pos)       (* ADD COLUMN c [DEFAULT ..] [FIRST | AFTER a]; fill = value given to existing rows *)
| ODrop (n : name)                           (* DROP COLUMN n *)
| OModify (n : name) (c' : col) (p : pos)    (* MODIFY / CHANGE COLUMN n c' [FIRST | AFTER a] *)
| ORename (a b : name)                       (* RENAME COLUMN a TO b *)
| ORenameTable (t' : name)                   (* RENAME TO t' *)
| OIndex                                     (* ADD / DROP INDEX: no effect on schema columns or data *)
| OAddPK (ks : list name)                    (* ADD PRIMARY KEY (ks) *)
| ODropPK.                                   (* DROP PRIMARY KEY *)

Definition memb (n : name) (l : list name) : bool := existsb (N.eqb n) l.

(* a primary-key column is NOT NULL whatever the statement says (modifyColumnInSchema keeps PrimaryKey) *)
Definition eff (t : table) (n : name) (c' : col) : col :=
  if memb n (pk t) then mkc (cn c') (cty c') false else c'.

Definition modify_row (n : name) (c' : col) (r : row) : option row :=
  match lookup n r with
  | Some v => match conv c' v with
              | Some v' => Some ((cn c', v') :: remove_key n r)
              | None => None
              end
  | None => None
  end.

(* the column list after MODIFY / CHANGE n -> c' at position p *)
Definition new_cols (n : name) (c' : col) (p : pos) (cs : list col) : option (list col) :=
  match p with
  | PKeep => Some (replace_col n c' cs)
  | _ => insert_col p c' (remove_col n cs)
  end.

Definition val_eqb (a b : val) : bool :=
  match a, b with
  | VNull, VNull => true
  | VInt x, VInt y => Z.eqb x y
  | VStr x, VStr y => bytes_eqb x y
  | VDec x s, VDec y s' => Z.eqb x y && N.eqb s s'
  | VTime x, VTime y => Z.eqb x y
  | _, _ => false
  end.

Definition key_of (ks : list name) (r : row) : list (option val) := map (fun k => lookup k r) ks.
Definition okey_eqb (a b : option val) : bool :=
  match a, b with Some x, Some y => val_eqb x y | None, None => true | _, _ => false end.
Fixpoint keys_eqb (a b : list (option val)) : bool :=
  match a, b with
  | [], [] => true
  | x :: a', y :: b' => okey_eqb x y && keys_eqb a' b'
  | _, _ => false
  end.
Fixpoint distinct_keys (l : list (list (option val))) : bool :=
  match l with
  | [] => true
  | k :: l' => negb (existsb (keys_eqb k) l') && distinct_keys l'
  end.
Fixpoint nodupb (l : list name) : bool :=
  match l with [] => true | x :: l' => negb (memb x l') && nodupb l' end.
Definition non_null (o : option val) : bool := match o with Some VNull | None => false | Some _ => true end.

Definition alter (o : op) (t : table) : option table :=
  match o with
  | OAdd c fill p =>
    if has (cn c) (cols t) then None
    else match conv c fill with
         | Some v => match insert_col p c (cols t) with
                     | Some cs => Some (mkt (tn t) cs (pk t) (map (cons (cn c, v)) (rows t)))
                     | None => None
                     end
         | None => None
         end
  | ODrop n =>
    if has n (cols t) && (2 <=? N.of_nat (length (cols t))) && negb (memb n (pk t))
    then Some (mkt (tn t) (remove_col n (cols t)) (pk t) (map (remove_key n) (rows t)))
    else None
  | OModify n c0 p =>
    let c' := eff t n c0 in
    if has n (cols t) && ((cn c' =? n) || negb (has (cn c') (cols t))) then
      match mapM (modify_row n c') (rows t) with
      | Some rs =>
        match new_cols n c' p (cols t) with
        | Some cs => Some (mkt (tn t) cs (map (fun k => if k =? n then cn c' else k) (pk t)) rs)
        | None => None
        end
      | None => None
      end
    else None
  | ORename a b =>
    if has a (cols t) && negb (has b (cols t))
    then Some (mkt (tn t) (map (fun c => if cn c =? a then mkc b (cty c) (cnullable c) else c) (cols t))
                   (map (fun k => if k =? a then b else k) (pk t))
                   (map (rename_key a b) (rows t)))
    else None
  | ORenameTable t' => Some (mkt t' (cols t) (pk t) (rows t))
  | OIndex => Some t
  | OAddPK ks =>
    match pk t, ks with
    | [], _ :: _ =>
      if forallb (fun k => has k (cols t)) ks && nodupb ks &&
         forallb (fun r => forallb (fun k => non_null (lookup k r)) ks) (rows t) &&
         distinct_keys (map (key_of ks) (rows t))
      then Some (mkt (tn t) (map (fun c => if memb (cn c) ks then mkc (cn c) (cty c) false else c) (cols t)) ks (rows t))
      else None
    | _, _ => None
    end
  | ODropPK =>
    match pk t with
    | [] => None
    | _ => Some (mkt (tn t) (cols t) [] (rows t))
    end
  end.

(* ---- the one statement whose FAILURE has an effect (mirrors modifyColumnIter.rewriteTable):
   an ENUM redefinition that takes the rewrite path writes the re-mapped member index into the stored row before
   it converts / validates it; when a later row fails, the rows visited so far keep the new index, which the
   unchanged (old) type reads as the old member at that position ('' beyond its end). ---- *)
Fixpoint index_of_b (s : list N) (ms : list (list N)) (i : nat) : option nat :=
  match ms with
  | [] => None
  | m :: ms' => if bytes_eqb s m then Some i else index_of_b s ms' (S i)
  end.

Definition set_key (n : name) (v : val) (r : row) : row := map (fun kv => if fst kv =? n then (n, v) else kv) r.

Fixpoint corrupt_rows (n : name) (nullable' : bool) (old new : list (list N)) (rs : list row) : list row :=
  match rs with
  | [] => []
  | r :: rs' =>
    match lookup n r with
    | Some VNull => if nullable' then r :: corrupt_rows n nullable' old new rs' else r :: rs'
    | Some (VStr s) =>
      match index_of_b s new 0 with
      | Some j => set_key n (VStr (nth j old [])) r :: corrupt_rows n nullable' old new rs'
      | None => r :: rs'
      end
    | _ => r :: rs'
    end
  end.

Fixpoint is_prefix (a b : list (list N)) : bool :=
  match a, b with
  | [], _ => true
  | x :: a', y :: b' => bytes_eqb x y && is_prefix a' b'
  | _, _ => false
  end.

Fixpoint pos_of (n : name) (cs : list col) (i : nat) : nat :=
  match cs with [] => i | c :: cs' => if cn c =? n then i else pos_of n cs' (S i) end.

Definition find_col (n : name) (cs : list col) : option col := find (fun c => cn c =? n) cs.

Definition corrupt (o : op) (t : table) : table :=
  match o with
  | OModify n c0 p =>
    let c' := eff t n c0 in
    if has n (cols t) && ((cn c' =? n) || negb (has (cn c') (cols t))) then
      match find_col n (cols t), new_cols n c' p (cols t) with
      | Some oc, Some cs =>
        match cty oc, cty c' with
        | TEnum old, TEnum new =>
          if (cnullable oc && negb (cnullable c')) || negb (is_prefix old new) ||
             negb (Nat.eqb (pos_of n (cols t) 0) (pos_of (cn c') cs 0))
          then mkt (tn t) (cols t) (pk t) (corrupt_rows n (cnullable c') old new (rows t))
          else t
        | _, _ => t
        end
      | _, _ => t
      end
    else t
  | _ => t
  end.

Definition exec (o : op) (t : table) : table := match alter o t with Some t' => t' | None => corrupt o t end.
Definition exec_seq (os : list op) (t : table) : table := fold_left (fun t o => exec o t) os t.

(* where a column goes: its name afterwards, None if dropped *)
Definition retained (o : op) (n : name) : option name :=
  match o with
  | ODrop d => if n =? d then None else Some n
  | OModify m c' _ => if n =? m then Some (cn c') else Some n
  | ORename a b => if n =? a then Some b else Some n
  | _ => Some n
  end.

(* what happens to its values (in table t) *)
Definition convd (o : op) (t : table) (n : name) (v : val) : option val :=
  match o with
  | OModify m c' _ => if n =? m then conv (eff t m c') v else Some v
  | _ => Some v
  end.

(* every row binds exactly the column names *)
Definition inv (t : table) : Prop :=
  Forall (fun r => forall n, In n (map fst r) <-> In n (names t)) (rows t).

(* boolean version for the correspondence *)
Definition keys_ok (ns : list name) (r : row) : bool :=
  forallb (fun n => existsb (N.eqb n) (map fst r)) ns && forallb (fun k => existsb (N.eqb k) ns) (map fst r).
Definition invb (t : table) : bool := forallb (keys_ok (names t)) (rows t).
