(* C21 -- model of ALTER TABLE on (schema, rows).

   Abstraction of memory/table.go AddColumn / DropColumn / ModifyColumn (addColumnToSchema, insertValueInRows,
   dropColumnFromSchema, per-row Convert), sql/rowexec/ddl_iters.go (rename column / table, all-or-nothing
   rewrite) at the level "a table is an ordered list of column definitions plus rows that bind every column
   name to a value".  Column names are numbers (the driver numbers its columns).  A statement either yields
   the new table or fails (None); a failed statement leaves the table as it was ([exec]). *)
From Coq Require Import List NArith ZArith Bool Lia.
Import ListNotations.
Open Scope N_scope.

Definition name := N.

Inductive ty := TInt (lo hi : Z) | TStr (n : N) | TEnum (members : list (list N)).

Fixpoint bytes_eqb (a b : list N) : bool :=
  match a, b with
  | [], [] => true
  | x :: a', y :: b' => N.eqb x y && bytes_eqb a' b'
  | _, _ => false
  end.
Record col := mkc { cn : name; cty : ty; cnullable : bool }.
Inductive val := VNull | VInt (z : Z) | VStr (s : list N).

(* per-value conversion to a column definition (types.Convert + the nullability check); None = not representable *)
Definition conv (c : col) (v : val) : option val :=
  match v with
  | VNull => if cnullable c then Some VNull else None
  | VInt z => match cty c with
              | TInt lo hi => if (lo <=? z)%Z && (z <=? hi)%Z then Some (VInt z) else None
              | TStr _ | TEnum _ => None
              end
  | VStr s => match cty c with
              | TStr n => if N.of_nat (length s) <=? n then Some (VStr s) else None
              | TEnum ms => if existsb (bytes_eqb s) ms then Some (VStr s) else None   (* stored by member string *)
              | TInt _ _ => None
              end
  end.

Definition row := list (name * val).

Fixpoint lookup (n : name) (r : row) : option val :=
  match r with
  | [] => None
  | (k, v) :: r' => if k =? n then Some v else lookup n r'
  end.

Definition remove_key (n : name) (r : row) : row := filter (fun kv => negb (fst kv =? n)) r.
Definition rename_key (a b : name) (r : row) : row := map (fun kv => if fst kv =? a then (b, snd kv) else kv) r.

Record table := mkt { tn : name; cols : list col; rows : list row }.

Definition names (t : table) : list name := map cn (cols t).
Definition has (n : name) (cs : list col) : bool := existsb (fun c => cn c =? n) cs.

Inductive pos := PKeep | PFirst | PAfter (a : name) | PLast.

Fixpoint insert_after (a : name) (c : col) (cs : list col) : option (list col) :=
  match cs with
  | [] => None
  | x :: cs' => if cn x =? a then Some (x :: c :: cs')
                else match insert_after a c cs' with Some l => Some (x :: l) | None => None end
  end.

Definition insert_col (p : pos) (c : col) (cs : list col) : option (list col) :=
  match p with
  | PFirst => Some (c :: cs)
  | PAfter a => insert_after a c cs
  | PKeep | PLast => Some (cs ++ [c])
  end.

Definition remove_col (n : name) (cs : list col) : list col := filter (fun c => negb (cn c =? n)) cs.
Definition replace_col (n : name) (c' : col) (cs : list col) : list col := map (fun c => if cn c =? n then c' else c) cs.

Fixpoint mapM {A B} (f : A -> option B) (l : list A) : option (list B) :=
  match l with
  | [] => Some []
  | x :: l' => match f x with
               | Some y => match mapM f l' with Some ys => Some (y :: ys) | None => None end
               | None => None
               end
  end.

Inductive op :=
| OAdd (c : col) (fill : val) (p : pos)       (* ADD COLUMN c [DEFAULT ..] [FIRST | AFTER a]; fill = value given to existing rows *)
| ODrop (n : name)                           (* DROP COLUMN n *)
| OModify (n : name) (c' : col) (p : pos)    (* MODIFY / CHANGE COLUMN n c' [FIRST | AFTER a] *)
| ORename (a b : name)                       (* RENAME COLUMN a TO b *)
| ORenameTable (t' : name)                   (* RENAME TO t' *)
| OIndex.                                    (* ADD / DROP INDEX: no effect on schema columns or data *)

Definition modify_row (n : name) (c' : col) (r : row) : option row :=
  match lookup n r with
  | Some v => match conv c' v with
              | Some v' => Some ((cn c', v') :: remove_key n r)
              | None => None
              end
  | None => None
  end.

Definition alter (o : op) (t : table) : option table :=
  match o with
  | OAdd c fill p =>
    if has (cn c) (cols t) then None
    else match conv c fill with
         | Some v => match insert_col p c (cols t) with
                     | Some cs => Some (mkt (tn t) cs (map (cons (cn c, v)) (rows t)))
                     | None => None
                     end
         | None => None
         end
  | ODrop n =>
    if has n (cols t) && (2 <=? N.of_nat (length (cols t)))
    then Some (mkt (tn t) (remove_col n (cols t)) (map (remove_key n) (rows t)))
    else None
  | OModify n c' p =>
    if has n (cols t) && ((cn c' =? n) || negb (has (cn c') (cols t))) then
      match mapM (modify_row n c') (rows t) with
      | Some rs =>
        match p with
        | PKeep => Some (mkt (tn t) (replace_col n c' (cols t)) rs)
        | _ => match insert_col p c' (remove_col n (cols t)) with
               | Some cs => Some (mkt (tn t) cs rs)
               | None => None
               end
        end
      | None => None
      end
    else None
  | ORename a b =>
    if has a (cols t) && negb (has b (cols t))
    then Some (mkt (tn t) (map (fun c => if cn c =? a then mkc b (cty c) (cnullable c) else c) (cols t))
                   (map (rename_key a b) (rows t)))
    else None
  | ORenameTable t' => Some (mkt t' (cols t) (rows t))
  | OIndex => Some t
  end.

(* a failed statement has no effect *)
Definition exec (o : op) (t : table) : table := match alter o t with Some t' => t' | None => t end.
Definition exec_seq (os : list op) (t : table) : table := fold_left (fun t o => exec o t) os t.

(* where a column goes: its name afterwards, None if dropped *)
Definition retained (o : op) (n : name) : option name :=
  match o with
  | ODrop d => if n =? d then None else Some n
  | OModify m c' _ => if n =? m then Some (cn c') else Some n
  | ORename a b => if n =? a then Some b else Some n
  | _ => Some n
  end.

(* what happens to its values *)
Definition convd (o : op) (n : name) (v : val) : option val :=
  match o with
  | OModify m c' _ => if n =? m then conv c' v else Some v
  | _ => Some v
  end.

(* every row binds exactly the column names *)
Definition inv (t : table) : Prop :=
  Forall (fun r => forall n, In n (map fst r) <-> In n (names t)) (rows t).

(* boolean version for the correspondence *)
Definition keys_ok (ns : list name) (r : row) : bool :=
  forallb (fun n => existsb (N.eqb n) (map fst r)) ns && forallb (fun k => existsb (N.eqb k) ns) (map fst r).
Definition invb (t : table) : bool := forallb (keys_ok (names t)) (rows t).
