(* C18 - foreign key enforcement: tables (id INT PRIMARY KEY, f1 INT, f2 INT), single-column foreign keys from f1/f2
   to the id of a parent table (possibly the same table), ON DELETE / ON UPDATE in RESTRICT, NO ACTION, CASCADE, SET NULL.

   Mirrors (go-mysql-server):
     sql/plan/foreign_key_handler.go  ForeignKeyHandler.Insert (CheckReference per declared key), Update, Delete
     sql/plan/foreign_key_editor.go   ForeignKeyEditor.Update (reference checks for changed key columns, RESTRICT checks
                                      with the OLD key before the edit, the edit, then CASCADE / SET NULL), Delete
                                      (RESTRICT checks, the edit, then CASCADE / SET NULL in declaration order),
                                      OnDelete*/OnUpdate*, ColumnsUpdated, CheckReference (a NULL key column exempts the
                                      row; a self-referential row may reference itself)
     sql/analyzer/apply_foreign_keys.go  referential actions in the order of the key collection; ON UPDATE CASCADE /
                                      SET NULL that recurses onto a table already in the chain (self reference) is
                                      treated as RESTRICT
   The recursion depth limit (15/16) is represented by fuel; histories that reach it are outside the generated fragment. *)
From Coq Require Import List ZArith Bool.
Import ListNotations.
Open Scope Z_scope.

Definition row := (Z * option Z * option Z)%type.
Definition rid (r : row) : Z := fst (fst r).
Definition get_col (c : bool) (r : row) : option Z := if c then snd r else snd (fst r).
Definition set_col (c : bool) (v : option Z) (r : row) : row :=
  if c then (fst r, v) else (rid r, v, snd r).

Definition tbl := list row.
Definition db := list tbl.

Inductive action := Restrict | NoAction | Cascade | SetNull.
Record fk := mkFk { child : nat; ccol : bool; parent : nat; ondel : action; onupd : action }.

Definition restrictish (a : action) : bool := match a with Restrict | NoAction => true | _ => false end.

Definition tab (d : db) (t : nat) : tbl := nth t d [].

Fixpoint set_tab (d : db) (t : nat) (x : tbl) : db :=
  match t, d with
  | O, _ :: d' => x :: d'
  | S t', a :: d' => a :: set_tab d' t' x
  | _, [] => []
  end.

Definition opt_eqb (a b : option Z) : bool :=
  match a, b with None, None => true | Some x, Some y => x =? y | _, _ => false end.

Definition has_id (k : Z) (x : tbl) : bool := existsb (fun r => rid r =? k) x.

Definition remove_id (k : Z) (x : tbl) : tbl := filter (fun r => negb (rid r =? k)) x.

Fixpoint insert_sorted (r : row) (x : tbl) : tbl :=
  match x with
  | [] => [r]
  | a :: x' => if rid r <? rid a then r :: x else a :: insert_sorted r x'
  end.

(* rows of the child table of f that reference key k *)
Definition children (d : db) (f : fk) (k : Z) : list row :=
  filter (fun r => opt_eqb (get_col (ccol f) r) (Some k)) (tab d (child f)).

Inductive err := EFk | EDup | EDepth.
Inductive res := Ok (d : db) | Err (e : err).

(* ON UPDATE action as enforced: a self-referential key is treated as RESTRICT *)
Definition eff_onupd (f : fk) : action := if Nat.eqb (child f) (parent f) then Restrict else onupd f.

(* CheckReference *)
Definition check_ref (d : db) (f : fk) (r : row) : bool :=
  match get_col (ccol f) r with
  | None => true
  | Some k => has_id k (tab d (parent f)) || (Nat.eqb (child f) (parent f) && (k =? rid r))
  end.

Definition bind (x : res) (g : db -> res) : res := match x with Ok d => g d | Err e => Err e end.

Fixpoint fold_res {A} (g : db -> A -> res) (l : list A) (d : db) : res :=
  match l with [] => Ok d | a :: l' => bind (g d a) (fold_res g l') end.

(* ForeignKeyEditor.Update of table t: old -> new *)
Fixpoint upd (fuel : nat) (fks : list fk) (d : db) (t : nat) (old new : row) : res :=
  match fuel with
  | O => Err EDepth
  | S n =>
      (* reference checks for the changed key columns *)
      if existsb (fun f => Nat.eqb (child f) t && negb (opt_eqb (get_col (ccol f) old) (get_col (ccol f) new))
                           && negb (check_ref d f new)) fks then Err EFk
      (* RESTRICT: children of the OLD key *)
      else if existsb (fun f => Nat.eqb (parent f) t && restrictish (eff_onupd f) && negb (rid old =? rid new)
                                && negb (match children d f (rid old) with [] => true | _ => false end)) fks then Err EFk
      else if negb (rid old =? rid new) && has_id (rid new) (tab d t) then Err EDup
      else
        let d1 := set_tab d t (insert_sorted new (remove_id (rid old) (tab d t))) in
        fold_res (fun dc f =>
                    if Nat.eqb (parent f) t && negb (rid old =? rid new) then
                      match eff_onupd f with
                      | Cascade =>
                          fold_res (fun dc' c => upd n fks dc' (child f) c (set_col (ccol f) (Some (rid new)) c))
                                   (children dc f (rid old)) dc
                      | SetNull =>
                          fold_res (fun dc' c => upd n fks dc' (child f) c (set_col (ccol f) None c))
                                   (children dc f (rid old)) dc
                      | _ => Ok dc
                      end
                    else Ok dc) fks d1
  end.

(* ForeignKeyEditor.Delete of row r of table t *)
Fixpoint del (fuel : nat) (fks : list fk) (d : db) (t : nat) (r : row) : res :=
  match fuel with
  | O => Err EDepth
  | S n =>
      if existsb (fun f => Nat.eqb (parent f) t && restrictish (ondel f)
                           && negb (match children d f (rid r) with [] => true | _ => false end)) fks then Err EFk
      else
        let d1 := set_tab d t (remove_id (rid r) (tab d t)) in
        fold_res (fun dc f =>
                    if Nat.eqb (parent f) t then
                      match ondel f with
                      | Cascade => fold_res (fun dc' c => del n fks dc' (child f) c) (children dc f (rid r)) dc
                      | SetNull =>
                          fold_res (fun dc' c => upd n fks dc' (child f) c (set_col (ccol f) None c))
                                   (children dc f (rid r)) dc
                      | _ => Ok dc
                      end
                    else Ok dc) fks d1
  end.

Definition fuel0 : nat := 20.

Definition find_id (k : Z) (x : tbl) : option row := find (fun r => rid r =? k) x.

Inductive stmt :=
| SInsert (t : nat) (r : row)
| SDelete (t : nat) (k : Z)
| SUpdId (t : nat) (k k' : Z)                       (* UPDATE t SET id = k' WHERE id = k *)
| SUpdCol (t : nat) (k : Z) (c : bool) (v : option Z).  (* UPDATE t SET f = v WHERE id = k *)

Definition exec_res (fks : list fk) (d : db) (s : stmt) : res :=
  match s with
  | SInsert t r =>
      if existsb (fun f => Nat.eqb (child f) t && negb (check_ref d f r)) fks then Err EFk
      else if has_id (rid r) (tab d t) then Err EDup
      else Ok (set_tab d t (insert_sorted r (tab d t)))
  | SDelete t k =>
      match find_id k (tab d t) with None => Ok d | Some r => del fuel0 fks d t r end
  | SUpdId t k k' =>
      match find_id k (tab d t) with
      | None => Ok d
      | Some r => if k =? k' then Ok d else upd fuel0 fks d t r (k', snd (fst r), snd r)
      end
  | SUpdCol t k c v =>
      match find_id k (tab d t) with
      | None => Ok d
      | Some r => if opt_eqb (get_col c r) v then Ok d else upd fuel0 fks d t r (set_col c v r)
      end
  end.

(* a failing statement has no effect *)
Definition exec (fks : list fk) (d : db) (s : stmt) : db * option err :=
  match exec_res fks d s with Ok d' => (d', None) | Err e => (d, Some e) end.

Fixpoint run (fks : list fk) (d : db) (h : list stmt) : db :=
  match h with [] => d | s :: h' => run fks (fst (exec fks d s)) h' end.

(* referential integrity, executable and as a proposition *)
Definition ri_fk (d : db) (f : fk) : bool :=
  forallb (fun r => match get_col (ccol f) r with None => true | Some k => has_id k (tab d (parent f)) end)
          (tab d (child f)).
Definition ri_ok (fks : list fk) (d : db) : bool := forallb (ri_fk d) fks.

Definition RI (fks : list fk) (d : db) : Prop :=
  forall f r k, In f fks -> In r (tab d (child f)) -> get_col (ccol f) r = Some k ->
                exists p, In p (tab d (parent f)) /\ rid p = k.
