(* C18 - proofs about the foreign key model of Store/C18FK.v. *)
From Coq Require Import List ZArith Bool Lia Arith.
Import ListNotations.
From GMS Require Import Store.C18FK.
Open Scope Z_scope.

Lemma tab_set_tab_same d t x : (t < length d)%nat -> tab (set_tab d t x) t = x.
Proof.
  revert t. induction d as [|a d IH]; intros [|t] H; cbn in *; try lia; auto. apply IH. lia.
Qed.

Lemma tab_set_tab_other d t x t' : t' <> t -> tab (set_tab d t x) t' = tab d t'.
Proof.
  unfold tab. revert t t'. induction d as [|a d IH]; intros t t' H.
  - destruct t; reflexivity.
  - destruct t as [|t], t' as [|t']; cbn; auto; try congruence.
Qed.

Lemma tab_out_of_range d t : (length d <= t)%nat -> tab d t = [].
Proof. intros H. unfold tab. apply nth_overflow. exact H. Qed.

Lemma set_tab_out_of_range d t x : (length d <= t)%nat -> set_tab d t x = d.
Proof.
  revert t. induction d as [|a d IH]; intros [|t] H; cbn in *; auto; try lia. f_equal. apply IH. lia.
Qed.

Lemma in_insert_sorted r x l : In x (insert_sorted r l) <-> x = r \/ In x l.
Proof.
  induction l as [|a l IH]; cbn.
  - intuition.
  - destruct (rid r <? rid a); cbn; [intuition|]. rewrite IH. intuition.
Qed.

Lemma has_id_spec k l : has_id k l = true <-> exists p, In p l /\ rid p = k.
Proof.
  unfold has_id. rewrite existsb_exists. split; intros (p & H1 & H2); exists p; split; auto.
  - now apply Z.eqb_eq.
  - now apply Z.eqb_eq.
Qed.

Lemma in_remove_id k x l : In x (remove_id k l) <-> In x l /\ rid x <> k.
Proof.
  unfold remove_id. rewrite filter_In. split; intros [H1 H2]; split; auto.
  - apply negb_true_iff in H2. now apply Z.eqb_neq.
  - apply negb_true_iff. now apply Z.eqb_neq.
Qed.

Lemma find_id_some k l r : find_id k l = Some r -> In r l /\ rid r = k.
Proof. unfold find_id. intros H. apply find_some in H. destruct H as [H1 H2]. split; auto. now apply Z.eqb_eq. Qed.

Lemma fold_res_all_ok {A} (g : db -> A -> res) l d :
  (forall dc a, In a l -> g dc a = Ok dc) -> fold_res g l d = Ok d.
Proof.
  revert d. induction l as [|a l IH]; intros d H; cbn; auto.
  rewrite (H d a) by now left. cbn. apply IH. intros dc b Hb. apply H. now right.
Qed.

(* the table of t after the edit, all others untouched; also fine when t is not a table at all *)
Lemma tab_after_edit d t x t' :
  tab (set_tab d t x) t' = if Nat.eqb t' t && Nat.ltb t (length d) then x else tab d t'.
Proof.
  destruct (Nat.eqb_spec t' t) as [->|Hn]; cbn [andb].
  - destruct (Nat.ltb t (length d)) eqn:E.
    + apply Nat.ltb_lt in E. now apply tab_set_tab_same.
    + apply Nat.ltb_ge in E. now rewrite set_tab_out_of_range.
  - now apply tab_set_tab_other.
Qed.

Lemma existsb_all_false {A} (f : A -> bool) l : (forall x, f x = false) -> existsb f l = false.
Proof. intros H. induction l as [|a l IH]; cbn; auto. now rewrite H, IH. Qed.

Lemma del_unfold n fks d t r :
  del (S n) fks d t r =
  if existsb (fun f => Nat.eqb (parent f) t && restrictish (ondel f)
                       && negb (match children d f (rid r) with [] => true | _ => false end)) fks then Err EFk
  else
    fold_res (fun dc f =>
                if Nat.eqb (parent f) t then
                  match ondel f with
                  | Cascade => fold_res (fun dc' c => del n fks dc' (child f) c) (children dc f (rid r)) dc
                  | SetNull =>
                      fold_res (fun dc' c => upd n fks dc' (child f) c (set_col (ccol f) None c))
                               (children dc f (rid r)) dc
                  | _ => Ok dc
                  end
                else Ok dc) fks (set_tab d t (remove_id (rid r) (tab d t))).
Proof. reflexivity. Qed.

Lemma upd_unfold n fks d t old new :
  upd (S n) fks d t old new =
  if existsb (fun f => Nat.eqb (child f) t && negb (opt_eqb (get_col (ccol f) old) (get_col (ccol f) new))
                       && negb (check_ref d f new)) fks then Err EFk
  else if existsb (fun f => Nat.eqb (parent f) t && restrictish (eff_onupd f) && negb (rid old =? rid new)
                            && negb (match children d f (rid old) with [] => true | _ => false end)) fks then Err EFk
  else if negb (rid old =? rid new) && has_id (rid new) (tab d t) then Err EDup
  else
    fold_res (fun dc f =>
                if Nat.eqb (parent f) t && negb (rid old =? rid new) then
                  match eff_onupd f with
                  | Cascade =>
                      fold_res (fun dc' c => upd n fks dc' (child f) c (set_col (ccol f) (Some (rid new)) c))
                               (children dc f (rid old)) dc
                  | SetNull =>
                      fold_res (fun dc' c => upd n fks dc' (child f) c (set_col (ccol f) None c))
                               (children dc f (rid old)) dc
                  | _ => Ok dc
                  end
                else Ok dc) fks (set_tab d t (insert_sorted new (remove_id (rid old) (tab d t)))).
Proof. reflexivity. Qed.

(* ---------------- INSERT ---------------- *)
Theorem insert_preserves_ri fks d t r d' :
  RI fks d -> exec_res fks d (SInsert t r) = Ok d' -> RI fks d'.
Proof.
  intros HRI H. cbn [exec_res] in H.
  destruct (existsb _ fks) eqn:Ex; [discriminate|].
  destruct (has_id (rid r) (tab d t)); [discriminate|]. injection H as <-.
  intros f c k Hf Hc Hk.
  assert (Hpar : forall p, In p (tab d (parent f)) -> In p (tab (set_tab d t (insert_sorted r (tab d t))) (parent f))).
  { intros p Hp. rewrite tab_after_edit. destruct (Nat.eqb_spec (parent f) t) as [E|E]; cbn [andb]; auto.
    destruct (Nat.ltb (t) (length d)); auto. apply in_insert_sorted. right. now rewrite <- E. }
  rewrite tab_after_edit in Hc.
  destruct (Nat.eqb_spec (child f) t) as [E|E]; cbn [andb] in Hc.
  - destruct (Nat.ltb t (length d)) eqn:Hlt.
    + apply in_insert_sorted in Hc. destruct Hc as [->|Hc].
      * (* the new row: CheckReference passed *)
        assert (Hchk : check_ref d f r = true).
        { destruct (check_ref d f r) eqn:Ec; auto. exfalso.
          assert (existsb (fun f0 => Nat.eqb (child f0) t && negb (check_ref d f0 r)) fks = true); [|congruence].
          apply existsb_exists. exists f. split; auto. rewrite Ec. cbn. rewrite andb_true_r. now apply Nat.eqb_eq. }
        unfold check_ref in Hchk. rewrite Hk in Hchk. apply orb_true_iff in Hchk. destruct Hchk as [Hh|Hs].
        -- apply has_id_spec in Hh. destruct Hh as (p & Hp & Hpk). exists p. split; auto.
        -- apply andb_true_iff in Hs. destruct Hs as [Hs1 Hs2]. apply Nat.eqb_eq in Hs1. apply Z.eqb_eq in Hs2.
           exists r. split; auto. rewrite tab_after_edit.
           replace (Nat.eqb (parent f) t) with true by (symmetry; apply Nat.eqb_eq; congruence).
           cbn [andb]. rewrite Hlt. apply in_insert_sorted. now left.
      * rewrite <- E in Hc. destruct (HRI f c k Hf Hc Hk) as (p & Hp & Hpk). exists p. split; auto.
    + destruct (HRI f c k Hf Hc Hk) as (p & Hp & Hpk). exists p. split; auto.
  - destruct (HRI f c k Hf Hc Hk) as (p & Hp & Hpk). exists p. split; auto.
Qed.

(* ---------------- DELETE from a table that is only referenced by RESTRICT / NO ACTION keys ---------------- *)
Theorem delete_restrict_preserves_ri fks d t k d' :
  (forall f, In f fks -> parent f = t -> restrictish (ondel f) = true) ->
  RI fks d -> exec_res fks d (SDelete t k) = Ok d' -> RI fks d'.
Proof.
  intros Hres HRI H. cbn [exec_res] in H.
  destruct (find_id k (tab d t)) as [r|] eqn:Ef; [|now injection H as <-].
  apply find_id_some in Ef. destruct Ef as [Hr Hrk].
  change fuel0 with (S 19) in H. rewrite del_unfold in H. destruct (existsb _ fks) eqn:Ex; [discriminate|].
  rewrite fold_res_all_ok in H.
  2:{ intros dc f Hf. destruct (Nat.eqb_spec (parent f) t) as [E|E]; auto.
      specialize (Hres f Hf E). destruct (ondel f); cbn in Hres; try discriminate; reflexivity. }
  injection H as <-.
  intros f c k0 Hf Hc Hk.
  assert (Hc0 : In c (tab d (child f))).
  { rewrite tab_after_edit in Hc. destruct (Nat.eqb (child f) t && Nat.ltb t (length d)) eqn:E; auto.
    apply andb_true_iff in E. destruct E as [E _]. apply Nat.eqb_eq in E. apply in_remove_id in Hc. now rewrite E. }
  destruct (HRI f c k0 Hf Hc0 Hk) as (p & Hp & Hpk).
  exists p. split; auto. rewrite tab_after_edit.
  destruct (Nat.eqb (parent f) t && Nat.ltb t (length d)) eqn:E; auto.
  apply andb_true_iff in E. destruct E as [E _]. apply Nat.eqb_eq in E.
  apply in_remove_id. split; [now rewrite <- E|].
  (* p is not the deleted row: otherwise c would be a child met by the RESTRICT check *)
  intros Hpr. assert (existsb (fun f0 => Nat.eqb (parent f0) t && restrictish (ondel f0)
      && negb (match children d f0 (rid r) with [] => true | _ => false end)) fks = true); [|congruence].
  apply existsb_exists. exists f. split; auto.
  rewrite (Hres f Hf E). replace (Nat.eqb (parent f) t) with true by (symmetry; now apply Nat.eqb_eq). cbn.
  assert (Hin : In c (children d f (rid r))).
  { unfold children. apply filter_In. split; auto. rewrite Hk. cbn. apply Z.eqb_eq. congruence. }
  destruct (children d f (rid r)); [contradiction|reflexivity].
Qed.

(* ---------------- UPDATE of a key column of a child row ---------------- *)
Theorem update_column_preserves_ri fks d t k c v d' :
  RI fks d -> exec_res fks d (SUpdCol t k c v) = Ok d' -> RI fks d'.
Proof.
  intros HRI H. cbn [exec_res] in H.
  destruct (find_id k (tab d t)) as [r|] eqn:Ef; [|now injection H as <-].
  apply find_id_some in Ef. destruct Ef as [Hr Hrk].
  destruct (opt_eqb (get_col c r) v); [now injection H as <-|].
  change fuel0 with (S 19) in H. rewrite upd_unfold in H.
  assert (Hid : rid (set_col c v r) = rid r) by (unfold set_col, rid; destruct c; reflexivity).
  rewrite Hid, Z.eqb_refl in H. cbn [negb andb] in H.
  destruct (existsb _ fks) eqn:Ex; [discriminate|].
  rewrite existsb_all_false in H.
  2:{ intros f. rewrite andb_false_r. reflexivity. }
  rewrite fold_res_all_ok in H.
  2:{ intros dc f Hf. rewrite andb_false_r. reflexivity. }
  injection H as <-.
  set (new := set_col c v r) in *.
  set (tb := insert_sorted new (remove_id (rid r) (tab d t))).
  (* every id present before is present after *)
  assert (Hpar : forall t' p, In p (tab d t') -> exists p', In p' (tab (set_tab d t tb) t') /\ rid p' = rid p).
  { intros t' p Hp. rewrite tab_after_edit. destruct (Nat.eqb t' t && Nat.ltb t (length d)) eqn:E; [|eauto].
    apply andb_true_iff in E. destruct E as [E _]. apply Nat.eqb_eq in E. subst t'.
    destruct (Z.eq_dec (rid p) (rid r)) as [Hq|Hq].
    - exists new. split; [apply in_insert_sorted; now left|congruence].
    - exists p. split; auto. apply in_insert_sorted. right. apply in_remove_id. auto. }
  intros f x k0 Hf Hx Hk.
  rewrite tab_after_edit in Hx.
  destruct (Nat.eqb (child f) t && Nat.ltb t (length d)) eqn:E.
  - apply andb_true_iff in E. destruct E as [E Elt]. apply Nat.eqb_eq in E.
    apply in_insert_sorted in Hx. destruct Hx as [->|Hx].
    + (* the updated row *)
      destruct (opt_eqb (get_col (ccol f) r) (get_col (ccol f) new)) eqn:Eq.
      * (* this key column did not change *)
        assert (Hk' : get_col (ccol f) r = Some k0).
        { rewrite Hk in Eq. destruct (get_col (ccol f) r); cbn in Eq; try discriminate. apply Z.eqb_eq in Eq. congruence. }
        rewrite <- E in Hr. destruct (HRI f r k0 Hf Hr Hk') as (p & Hp & Hpk).
        destruct (Hpar _ p Hp) as (p' & Hp' & Hpk'). exists p'. split; auto. congruence.
      * assert (Hchk : check_ref d f new = true).
        { destruct (check_ref d f new) eqn:Ec; auto. exfalso.
          assert (existsb (fun f0 => Nat.eqb (child f0) t && negb (opt_eqb (get_col (ccol f0) r) (get_col (ccol f0) new))
                                      && negb (check_ref d f0 new)) fks = true); [|congruence].
          apply existsb_exists. exists f. split; auto. rewrite Eq, Ec. cbn. rewrite !andb_true_r. now apply Nat.eqb_eq. }
        unfold check_ref in Hchk. rewrite Hk in Hchk. apply orb_true_iff in Hchk. destruct Hchk as [Hh|Hs].
        -- apply has_id_spec in Hh. destruct Hh as (p & Hp & Hpk).
           destruct (Hpar _ p Hp) as (p' & Hp' & Hpk'). exists p'. split; auto. congruence.
        -- apply andb_true_iff in Hs. destruct Hs as [Hs1 Hs2]. apply Nat.eqb_eq in Hs1. apply Z.eqb_eq in Hs2.
           exists new. split; auto. rewrite tab_after_edit.
           replace (Nat.eqb (parent f) t) with true by (symmetry; apply Nat.eqb_eq; congruence).
           cbn [andb]. rewrite Elt. apply in_insert_sorted. now left.
    + apply in_remove_id in Hx. destruct Hx as [Hx _]. rewrite <- E in Hx.
      destruct (HRI f x k0 Hf Hx Hk) as (p & Hp & Hpk).
      destruct (Hpar _ p Hp) as (p' & Hp' & Hpk'). exists p'. split; auto. congruence.
  - destruct (HRI f x k0 Hf Hx Hk) as (p & Hp & Hpk).
    destruct (Hpar _ p Hp) as (p' & Hp' & Hpk'). exists p'. split; auto. congruence.
Qed.

(* a failing statement has no effect *)
Theorem failed_statement_no_effect fks d s e : snd (exec fks d s) = Some e -> fst (exec fks d s) = d.
Proof. unfold exec. destruct (exec_res fks d s); cbn; intros H; [discriminate|reflexivity]. Qed.

(* the boolean checker used by the correspondence is the proposition *)
Lemma ri_ok_spec fks d : ri_ok fks d = true <-> RI fks d.
Proof.
  unfold ri_ok, RI. rewrite forallb_forall. split.
  - intros H f r k Hf Hr Hk. specialize (H f Hf). unfold ri_fk in H. rewrite forallb_forall in H.
    specialize (H r Hr). rewrite Hk in H. now apply has_id_spec.
  - intros H f Hf. unfold ri_fk. apply forallb_forall. intros r Hr.
    destruct (get_col (ccol f) r) as [k|] eqn:Ek; auto. apply has_id_spec. eapply H; eauto.
Qed.

(* non-vacuity and a cascade example (diamond with a self reference), decided by computation *)
Definition ex_fks := [mkFk 1 false 0 Cascade Cascade; mkFk 2 false 0 SetNull SetNull; mkFk 2 true 1 Cascade Restrict;
                      mkFk 0 false 0 Cascade Cascade].
Definition ex_h := [SInsert 0 (1, Some 1, None); SInsert 0 (2, Some 1, None); SInsert 1 (10, Some 2, None);
                    SInsert 2 (20, Some 2, Some 10); SInsert 2 (21, Some 1, None); SDelete 0 1].
Lemma cascade_example :
  run ex_fks [[]; []; []] ex_h = [[]; []; [(21, None, None)]] /\
  ri_ok ex_fks (run ex_fks [[]; []; []] (firstn 5 ex_h)) = true /\
  ri_ok ex_fks (run ex_fks [[]; []; []] ex_h) = true.
Proof. repeat split; vm_compute; reflexivity. Qed.
