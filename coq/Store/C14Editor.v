(* Model of the in-memory table editor of go-mysql-server (memory/table_editor.go, memory/table_data.go) and of the
   statement-level insert / update / delete iterators (sql/rowexec/insert.go, update.go, delete.go, dml_iters.go).
   Used by C14 (keys enforced exactly) and C13 (DML matches a reference table model).

   The model mirrors the code AS IT IS:
     - pkTableEditAccumulator keys its pending adds / deletes by getRowKey = the concatenation of the length-prefixed %v
       renderings of the primary key values ("1:12:12" for (1,12); before commit 1b57e874c there was no separator);
     - columnsMatch compares Go values with != (no collation), truncating prefix-indexed strings by BYTES;
     - GetByCols gives up ("not found") as soon as any pending delete matches the probed columns;
     - ApplyEdits = all deletes, then all adds (insertHelper overwrites a stored row with the same primary key), then
       sortRows.
   Tables created through the engine have exactly one partition, so the stored table is one list of rows. *)
From Coq Require Import List NArith ZArith Bool.
Import ListNotations.

Definition str := list N.

Inductive val := VNull | VInt (z : Z) | VStr (s : str).
Definition row := list val.

Fixpoint str_eqb (a b : str) : bool :=
  match a, b with
  | [], [] => true
  | x :: a', y :: b' => N.eqb x y && str_eqb a' b'
  | _, _ => false
  end.

(* Go's == on two interface values holding the column's value type (nil == nil) *)
Definition val_eqb (a b : val) : bool :=
  match a, b with
  | VNull, VNull => true
  | VInt x, VInt y => Z.eqb x y
  | VStr x, VStr y => str_eqb x y
  | _, _ => false
  end.

Fixpoint row_eqb (a b : row) : bool :=
  match a, b with
  | [], [] => true
  | x :: a', y :: b' => val_eqb x y && row_eqb a' b'
  | _, _ => false
  end.

(* ---------- fmt.Sprintf("%v", v) / strconv.Itoa ---------- *)
Fixpoint bytes_of_uint (u : Decimal.uint) : str :=
  match u with
  | Decimal.Nil => []
  | Decimal.D0 u => 48%N :: bytes_of_uint u
  | Decimal.D1 u => 49%N :: bytes_of_uint u
  | Decimal.D2 u => 50%N :: bytes_of_uint u
  | Decimal.D3 u => 51%N :: bytes_of_uint u
  | Decimal.D4 u => 52%N :: bytes_of_uint u
  | Decimal.D5 u => 53%N :: bytes_of_uint u
  | Decimal.D6 u => 54%N :: bytes_of_uint u
  | Decimal.D7 u => 55%N :: bytes_of_uint u
  | Decimal.D8 u => 56%N :: bytes_of_uint u
  | Decimal.D9 u => 57%N :: bytes_of_uint u
  end.
Definition render_N (n : N) : str := bytes_of_uint (N.to_uint n).
Definition render_Z (z : Z) : str :=
  match z with
  | Z0 => render_N 0
  | Zpos p => render_N (Npos p)
  | Zneg p => 45%N :: render_N (Npos p)
  end.
Definition render (v : val) : str :=
  match v with
  | VNull => [60; 110; 105; 108; 62]%N          (* "<nil>" *)
  | VInt z => render_Z z
  | VStr s => s
  end.

(* ---------- collations (only used by Type.Compare: sortRows, Row.Equals, WHERE / ORDER BY) ---------- *)
Inductive coll := CBin | CCi.

Definition fold_ci (c : N) : N := if (97 <=? c)%N && (c <=? 122)%N then (c - 32)%N else c.

(* utf8mb4_0900_ai_ci on the generator's alphabet: case-insensitive on ASCII letters and accent-insensitive on the two
   accented letters that occur (U+00E8, U+00E9 = C3 A8 / C3 A9 compare equal to 'e') *)
Fixpoint fold_str (s : str) : str :=
  match s with
  | 195%N :: 168%N :: r => 69%N :: fold_str r
  | 195%N :: 169%N :: r => 69%N :: fold_str r
  | c :: r => fold_ci c :: fold_str r
  | [] => []
  end.

Fixpoint str_cmp (a b : str) : comparison :=
  match a, b with
  | [], [] => Eq
  | [], _ => Lt
  | _, [] => Gt
  | x :: a', y :: b' => match N.compare x y with Eq => str_cmp a' b' | c => c end
  end.

Definition val_cmp (c : coll) (a b : val) : comparison :=
  match a, b with
  | VNull, VNull => Eq
  | VNull, _ => Lt
  | _, VNull => Gt
  | VInt x, VInt y => Z.compare x y
  | VStr x, VStr y => match c with CBin => str_cmp x y | CCi => str_cmp (fold_str x) (fold_str y) end
  | VInt _, VStr _ => Lt
  | VStr _, VInt _ => Gt
  end.

(* ---------- schema ---------- *)
Record schema := {
  s_pk : list nat;                       (* PkOrdinals *)
  s_uniq : list (list nat * list N);     (* unique secondary indexes: column ordinals, prefix lengths (0 = whole value) *)
  s_coll : list coll                     (* per column; irrelevant for integer columns *)
}.

Definition col (r : row) (i : nat) : val := nth i r VNull.
Definition col_coll (sch : schema) (i : nat) : coll := nth i (s_coll sch) CBin.
Definition proj (cols : list nat) (r : row) : list val := map (col r) cols.
Definition key (sch : schema) (r : row) : list val := proj (s_pk sch) r.

(* getRowKey: every key part is written as <decimal length of its %v rendering> ':' <rendering> *)
Definition key_part (v : val) : str := render_N (N.of_nat (length (render v))) ++ 58%N :: render v.
Definition key_str (sch : schema) (r : row) : str := concat (map key_part (key sch r)).

(* columnsMatch *)
Definition trunc (pl : N) (v : val) : val :=
  match v with
  | VStr s => if (0 <? pl)%N then VStr (firstn (N.to_nat pl) s) else v
  | _ => v
  end.

Fixpoint cols_match (cols : list nat) (pls : list N) (r1 r2 : row) : bool :=
  match cols with
  | [] => true
  | c :: cs =>
      let pl := hd 0%N pls in
      val_eqb (trunc pl (col r1 c)) (trunc pl (col r2 c)) && cols_match cs (tl pls) r1 r2
  end.

Definition pk_match (sch : schema) (r1 r2 : row) : bool := cols_match (s_pk sch) [] r1 r2.

Definition has_null (cols : list nat) (r : row) : bool :=
  existsb (fun c => match col r c with VNull => true | _ => false end) cols.

(* sql.Row.Equals(schema): Type.Compare column by column *)
Fixpoint row_equals_from (sch : schema) (i : nat) (a b : row) : bool :=
  match a, b with
  | [], [] => true
  | x :: a', y :: b' =>
      match val_cmp (col_coll sch i) x y with Eq => row_equals_from sch (S i) a' b' | _ => false end
  | _, _ => false
  end.
Definition row_equals (sch : schema) (a b : row) : bool := row_equals_from sch 0 a b.

(* ---------- TableData.sortRows: by primary key, Type.Compare (a stable insertion sort stands for sort.Sort) ------ *)
Fixpoint key_lt (sch : schema) (cols : list nat) (a b : row) : bool :=
  match cols with
  | [] => false
  | c :: cs => match val_cmp (col_coll sch c) (col a c) (col b c) with
               | Lt => true | Gt => false | Eq => key_lt sch cs a b end
  end.

Fixpoint insert_sorted (lt : row -> row -> bool) (r : row) (l : list row) : list row :=
  match l with
  | [] => [r]
  | x :: l' => if lt r x then r :: l else x :: insert_sorted lt r l'
  end.

Definition sort_by (lt : row -> row -> bool) (l : list row) : list row :=
  fold_left (fun acc r => insert_sorted lt r acc) l [].

Definition sort_rows (sch : schema) (l : list row) : list row := sort_by (key_lt sch (s_pk sch)) l.

(* ---------- cmap.Map[string, sql.Row] (association list; Go's iteration order is unspecified) ---------- *)
Definition smap := list (str * row).

Fixpoint m_get (k : str) (m : smap) : option row :=
  match m with
  | [] => None
  | (k', v) :: m' => if str_eqb k k' then Some v else m_get k m'
  end.

Fixpoint m_set (k : str) (v : row) (m : smap) : smap :=
  match m with
  | [] => [(k, v)]
  | (k', v') :: m' => if str_eqb k k' then (k, v) :: m' else (k', v') :: m_set k v m'
  end.

Fixpoint m_del (k : str) (m : smap) : smap :=
  match m with
  | [] => []
  | (k', v') :: m' => if str_eqb k k' then m_del k m' else (k', v') :: m_del k m'
  end.

(* ---------- results ---------- *)
Inductive res (S : Type) := ROk (s : S) | RDup (existing : row).
Arguments ROk {S} s.
Arguments RDup {S} existing.

(* ---------- pkTableEditAccumulator + tableEditor ---------- *)
Record pkst := { p_rows : list row; p_adds : smap; p_dels : smap }.

(* Get: Some existing  <->  (row, added = true) *)
Definition pk_get (sch : schema) (s : pkst) (r : row) : option row :=
  let k := key_str sch r in
  match m_get k (p_adds s) with
  | Some x => Some x
  | None =>
      match m_get k (p_dels s) with
      | Some _ => None
      | None => find (fun pr => pk_match sch pr r) (p_rows s)
      end
  end.

(* GetByCols *)
Definition pk_get_by_cols (s : pkst) (r : row) (cols : list nat) (pls : list N) : option row :=
  if existsb (fun kv => cols_match cols pls (snd kv) r) (p_dels s) then None
  else match find (fun kv => cols_match cols pls (snd kv) r) (p_adds s) with
       | Some kv => Some (snd kv)
       | None => find (fun pr => cols_match cols pls pr r) (p_rows s)
       end.

(* checkUniqueConstraints, generic in the accumulator's GetByCols *)
Fixpoint check_unique (gbc : row -> list nat -> list N -> option row) (uniq : list (list nat * list N)) (r : row)
  : option row :=
  match uniq with
  | [] => None
  | (cols, pls) :: u' =>
      if has_null cols r then check_unique gbc u' r
      else match gbc r cols pls with
           | Some ex => Some ex
           | None => check_unique gbc u' r
           end
  end.

Definition pk_acc_insert (sch : schema) (s : pkst) (r : row) : pkst :=
  {| p_rows := p_rows s; p_adds := m_set (key_str sch r) r (p_adds s); p_dels := p_dels s |}.

Definition pk_acc_delete (sch : schema) (s : pkst) (r : row) : pkst :=
  let k := key_str sch r in
  {| p_rows := p_rows s; p_adds := m_del k (p_adds s); p_dels := m_set k r (p_dels s) |}.

(* tableEditor.Insert *)
Definition pk_insert (sch : schema) (s : pkst) (r : row) : res pkst :=
  match pk_get sch s r with
  | Some ex => RDup ex
  | None =>
      match check_unique (pk_get_by_cols s) (s_uniq sch) r with
      | Some ex => RDup ex
      | None => ROk (pk_acc_insert sch s r)
      end
  end.

(* tableEditor.Delete *)
Definition pk_delete (sch : schema) (s : pkst) (r : row) : pkst := pk_acc_delete sch s r.

(* tableEditor.Update *)
Definition pk_update (sch : schema) (s : pkst) (old new : row) : res pkst :=
  let s1 := pk_acc_delete sch s old in
  let dup := if pk_match sch old new then None else pk_get sch s1 new in
  match dup with
  | Some ex => RDup ex
  | None =>
      match check_unique (pk_get_by_cols s1) (s_uniq sch) new with
      | Some ex => RDup ex
      | None => ROk (pk_acc_insert sch s1 new)
      end
  end.

(* deleteHelper: remove the first stored row whose primary key matches (or which equals the row) *)
Fixpoint remove_first (f : row -> bool) (l : list row) : list row :=
  match l with
  | [] => []
  | x :: l' => if f x then l' else x :: remove_first f l'
  end.

Definition pk_delete_helper (sch : schema) (rows : list row) (r : row) : list row :=
  remove_first (fun pr => pk_match sch pr r || row_equals sch pr r) rows.

(* insertHelper: overwrite the stored row with the same primary key, else append *)
Fixpoint replace_first (f : row -> bool) (r : row) (l : list row) : option (list row) :=
  match l with
  | [] => None
  | x :: l' => if f x then Some (r :: l')
               else match replace_first f r l' with Some l'' => Some (x :: l'') | None => None end
  end.

Definition pk_insert_helper (sch : schema) (rows : list row) (r : row) : list row :=
  match replace_first (fun pr => pk_match sch pr r) r rows with
  | Some l => l
  | None => rows ++ [r]
  end.

Definition pk_apply_unsorted (sch : schema) (s : pkst) : list row :=
  fold_left (pk_insert_helper sch) (map snd (p_adds s))
            (fold_left (pk_delete_helper sch) (map snd (p_dels s)) (p_rows s)).

(* ApplyEdits *)
Definition pk_commit (sch : schema) (s : pkst) : list row := sort_rows sch (pk_apply_unsorted sch s).

Definition pk_begin (rows : list row) : pkst := {| p_rows := rows; p_adds := []; p_dels := [] |}.

(* ---------- keylessTableEditAccumulator + tableEditor ---------- *)
Record klst := { k_rows : list row; k_adds : list row; k_dels : list row }.

Fixpoint remove_first_opt (f : row -> bool) (l : list row) : option (list row) :=
  match l with
  | [] => None
  | x :: l' => if f x then Some l'
               else match remove_first_opt f l' with Some l'' => Some (x :: l'') | None => None end
  end.

Definition kl_acc_insert (sch : schema) (s : klst) (r : row) : klst :=
  match remove_first_opt (fun d => row_equals sch r d) (k_dels s) with
  | Some d' => {| k_rows := k_rows s; k_adds := k_adds s; k_dels := d' |}
  | None => {| k_rows := k_rows s; k_adds := k_adds s ++ [r]; k_dels := k_dels s |}
  end.

Definition kl_acc_delete (sch : schema) (s : klst) (r : row) : klst :=
  match remove_first_opt (fun a => row_equals sch r a) (k_adds s) with
  | Some a' => {| k_rows := k_rows s; k_adds := a'; k_dels := k_dels s |}
  | None => {| k_rows := k_rows s; k_adds := k_adds s; k_dels := k_dels s ++ [r] |}
  end.

(* GetByCols of the keyless accumulator: skip as many matches as there are matching pending deletes *)
Fixpoint find_after (f : row -> bool) (skip : nat) (l : list row) : (option row * nat) :=
  match l with
  | [] => (None, skip)
  | x :: l' => if f x then match skip with O => (Some x, O) | S k => find_after f k l' end
               else find_after f skip l'
  end.

Definition kl_get_by_cols (s : klst) (r : row) (cols : list nat) (pls : list N) : option row :=
  let f := fun x => cols_match cols pls x r in
  let dc := length (filter f (k_dels s)) in
  match find_after f dc (k_rows s) with
  | (Some x, _) => Some x
  | (None, dc') => fst (find_after f dc' (k_adds s))
  end.

Definition kl_insert (sch : schema) (s : klst) (r : row) : res klst :=
  match check_unique (kl_get_by_cols s) (s_uniq sch) r with
  | Some ex => RDup ex
  | None => ROk (kl_acc_insert sch s r)
  end.

Definition kl_delete (sch : schema) (s : klst) (r : row) : klst := kl_acc_delete sch s r.

Definition kl_update (sch : schema) (s : klst) (old new : row) : res klst :=
  let s1 := kl_acc_delete sch s old in
  match check_unique (kl_get_by_cols s1) (s_uniq sch) new with
  | Some ex => RDup ex
  | None => ROk (kl_acc_insert sch s1 new)
  end.

Definition kl_commit (sch : schema) (s : klst) : list row :=
  fold_left (fun rows d => remove_first (fun pr => row_equals sch pr d) rows) (k_dels s) (k_rows s) ++ k_adds s.

Definition kl_begin (rows : list row) : klst := {| k_rows := rows; k_adds := []; k_dels := [] |}.

(* ---------- statements ---------- *)
Inductive cmpop := OEq | ONe | OLt | OLe | OGt | OGe.

Inductive pred :=
| PTrue
| PCmp (c : nat) (o : cmpop) (v : val)
| PAnd (p q : pred)
| POr (p q : pred).

Inductive aexp := AConst (v : val) | AAdd (k : Z).     (* col = v   |   col = col + k *)
Definition assign := (nat * aexp)%type.

Inductive imode :=
| IPlain | IIgnore | IReplace
| IOdku (a : list assign).

Inductive stmt :=
| SInsert (m : imode) (rows : list row)
| SUpdate (a : list assign) (w : pred) (ord : option (nat * bool)) (lim : option N)
| SDelete (w : pred) (ord : option (nat * bool)) (lim : option N).

Definition cmp_holds (o : cmpop) (c : comparison) : bool :=
  match o, c with
  | OEq, Eq => true | ONe, Lt => true | ONe, Gt => true
  | OLt, Lt => true | OLe, Lt => true | OLe, Eq => true
  | OGt, Gt => true | OGe, Gt => true | OGe, Eq => true
  | _, _ => false
  end.

(* "evaluates to TRUE" (a comparison with NULL is never TRUE; no negation in the fragment) *)
Fixpoint pred_true (sch : schema) (p : pred) (r : row) : bool :=
  match p with
  | PTrue => true
  | PCmp c o v =>
      match col r c, v with
      | VNull, _ => false
      | _, VNull => false
      | x, y => cmp_holds o (val_cmp (col_coll sch c) x y)
      end
  | PAnd p q => pred_true sch p r && pred_true sch q r
  | POr p q => pred_true sch p r || pred_true sch q r
  end.

Fixpoint set_nth (i : nat) (v : val) (r : row) : row :=
  match r, i with
  | [], _ => []
  | _ :: r', O => v :: r'
  | x :: r', S i' => x :: set_nth i' v r'
  end.

Definition apply_assign (r : row) (a : assign) : row :=
  let '(c, e) := a in
  match e with
  | AConst v => set_nth c v r
  | AAdd k => match col r c with VInt z => set_nth c (VInt (z + k)) r | _ => r end
  end.

Definition apply_assigns (a : list assign) (r : row) : row := fold_left apply_assign a r.

(* Sort node: stable; ascending puts NULL first, descending last *)
Definition order_rows (sch : schema) (ord : option (nat * bool)) (l : list row) : list row :=
  match ord with
  | None => l
  | Some (c, desc) =>
      sort_by (fun a b => match val_cmp (col_coll sch c) (col a c) (col b c) with
                          | Lt => negb desc | Gt => desc | Eq => false end) l
  end.

Definition limit_rows (lim : option N) (l : list row) : list row :=
  match lim with None => l | Some n => firstn (N.to_nat n) l end.

Definition targets (sch : schema) (w : pred) (ord : option (nat * bool)) (lim : option N) (rows : list row) :=
  limit_rows lim (order_rows sch ord (filter (pred_true sch w) rows)).

(* ---------- outcome of one statement ---------- *)
Inductive outcome :=
| OOk (affected matched : N)     (* OkResult.RowsAffected, UpdateInfo.Matched (0 for non-updates) *)
| ODupKey                        (* primary / unique key violation: the statement has no effect *)
| OFuel.                         (* REPLACE loop out of fuel (excluded in the theorems) *)

Definition is_truncate (w : pred) (ord : option (nat * bool)) (lim : option N) : bool :=
  match w, ord, lim with PTrue, None, None => true | _, _, _ => false end.

(* ---------- the iterators, generic in the editor ---------- *)
Section Exec.
  Context {St : Type}.
  Variable e_begin : list row -> St.
  Variable e_insert : St -> row -> res St.
  Variable e_delete : St -> row -> St.
  Variable e_update : St -> row -> row -> res St.
  Variable e_commit : St -> list row.
  Variable sch : schema.

  (* plain INSERT: TableEditorIter; the first error discards the statement *)
  Fixpoint ins_plain (s : St) (rows : list row) (n : N) : option (St * N) :=
    match rows with
    | [] => Some (s, n)
    | r :: rows' => match e_insert s r with
                    | ROk s' => ins_plain s' rows' (n + 1)%N
                    | RDup _ => None
                    end
    end.

  (* INSERT IGNORE: CheckpointingTableEditorIter; every row is its own StatementBegin / Complete (or Discard) *)
  Fixpoint ins_ignore (cur : list row) (rows : list row) (n : N) : list row * N :=
    match rows with
    | [] => (cur, n)
    | r :: rows' => match e_insert (e_begin cur) r with
                    | ROk s' => ins_ignore (e_commit s') rows' (n + 1)%N
                    | RDup _ => ins_ignore cur rows' n
                    end
    end.

  (* REPLACE: insert; on a key error delete UniqueKeyError.Existing and retry *)
  Fixpoint replace_one (fuel : nat) (s : St) (r : row) (deleted : bool) : option (St * bool) :=
    match fuel with
    | O => None
    | S f => match e_insert s r with
             | ROk s' => Some (s', deleted)
             | RDup ex => replace_one f (e_delete s ex) r true
             end
    end.

  Fixpoint ins_replace (fuel : nat) (s : St) (rows : list row) (n : N) : option (St * N) :=
    match rows with
    | [] => Some (s, n)
    | r :: rows' => match replace_one fuel s r false with
                    | Some (s', d) => ins_replace fuel s' rows' (n + (if d then 2 else 1))%N
                    | None => None
                    end
    end.

  (* ON DUPLICATE KEY UPDATE: handleOnDuplicateKeyUpdate + onDuplicateUpdateHandler (1 / 2 / 0) *)
  Fixpoint ins_odku (a : list assign) (s : St) (rows : list row) (n : N) : option (St * N) :=
    match rows with
    | [] => Some (s, n)
    | r :: rows' =>
        match e_insert s r with
        | ROk s' => ins_odku a s' rows' (n + 1)%N
        | RDup ex =>
            let new := apply_assigns a ex in
            match e_update s ex new with
            | ROk s' => ins_odku a s' rows' (n + (if row_equals sch ex new then 0 else 2))%N
            | RDup _ => None
            end
        end
    end.

  (* updateIter + updateRowHandler *)
  Fixpoint upd_loop (a : list assign) (s : St) (ts : list row) (matched changed : N) : option (St * N * N) :=
    match ts with
    | [] => Some (s, matched, changed)
    | old :: ts' =>
        let new := apply_assigns a old in
        if row_equals sch old new then upd_loop a s ts' (matched + 1)%N changed
        else match e_update s old new with
             | ROk s' => upd_loop a s' ts' (matched + 1)%N (changed + 1)%N
             | RDup _ => None
             end
    end.

  Definition exec (rows : list row) (st : stmt) : outcome * list row :=
    match st with
    | SInsert IPlain news =>
        match ins_plain (e_begin rows) news 0 with
        | Some (s, n) => (OOk n 0, e_commit s)
        | None => (ODupKey, rows)
        end
    | SInsert IIgnore news =>
        let '(cur, n) := ins_ignore rows news 0 in (OOk n 0, cur)
    | SInsert IReplace news =>
        match ins_replace (S (length rows + length news)) (e_begin rows) news 0 with
        | Some (s, n) => (OOk n 0, e_commit s)
        | None => (OFuel, rows)
        end
    | SInsert (IOdku a) news =>
        match ins_odku a (e_begin rows) news 0 with
        | Some (s, n) => (OOk n 0, e_commit s)
        | None => (ODupKey, rows)
        end
    | SUpdate a w ord lim =>
        match upd_loop a (e_begin rows) (targets sch w ord lim rows) 0 0 with
        | Some (s, m, c) => (OOk c m, e_commit s)
        | None => (ODupKey, rows)
        end
    | SDelete w ord lim =>
        if is_truncate w ord lim then
          (* DELETE FROM t without WHERE / ORDER BY / LIMIT is executed as TRUNCATE: no row editor is involved *)
          (OOk (N.of_nat (length rows)) 0, [])
        else
          let ts := targets sch w ord lim rows in
          (OOk (N.of_nat (length ts)) 0, e_commit (fold_left e_delete ts (e_begin rows)))
    end.
End Exec.

(* the implementation: newTableEditAccumulator picks the accumulator by sql.IsKeyless *)
Definition keyless (sch : schema) : bool := match s_pk sch with [] => true | _ => false end.

Definition pk_exec (sch : schema) :=
  exec pk_begin (pk_insert sch) (pk_delete sch) (pk_update sch) (pk_commit sch) sch.
Definition kl_exec (sch : schema) :=
  exec kl_begin (kl_insert sch) (kl_delete sch) (kl_update sch) (kl_commit sch) sch.

Definition impl_exec (sch : schema) (rows : list row) (st : stmt) : outcome * list row :=
  if keyless sch then kl_exec sch rows st else pk_exec sch rows st.

Definition run_history (sch : schema) (rows : list row) (h : list stmt) : list row :=
  fold_left (fun rs st => snd (impl_exec sch rs st)) h rows.

(* ---------- CREATE UNIQUE INDEX / ALTER TABLE ... ADD UNIQUE KEY over existing rows ---------- *)
(* TableData.errIfDuplicateEntryExist: rows without NULL in the indexed columns are compared through hash.HashOf of the
   projected key.  HashOf is given the TABLE schema, so the j-th indexed value is encoded with the type of the j-th table
   column: a string goes through that column's collation (weight string), everything else is printed.  Prefix lengths are
   ignored here.  (Equality of the encodings stands for equality of the 64-bit hashes.) *)
Fixpoint idx_key_eq (sch : schema) (j : nat) (cols : list nat) (r1 r2 : row) : bool :=
  match cols with
  | [] => true
  | c :: cs => match val_cmp (col_coll sch j) (col r1 c) (col r2 c) with
               | Eq => idx_key_eq sch (S j) cs r1 r2
               | _ => false
               end
  end.

Fixpoint dup_entry (sch : schema) (cols : list nat) (seen rows : list row) : bool :=
  match rows with
  | [] => false
  | r :: rows' =>
      if has_null cols r then dup_entry sch cols seen rows'
      else if existsb (fun x => idx_key_eq sch 0 cols x r) seen then true
      else dup_entry sch cols (seen ++ [r]) rows'
  end.

Definition with_unique (sch : schema) (cols : list nat) (pls : list N) : schema :=
  {| s_pk := s_pk sch; s_uniq := s_uniq sch ++ [(cols, pls)]; s_coll := s_coll sch |}.

(* Table.CreateIndex (errIfDuplicateEntryExist), then rowexec buildIndex: every stored row is inserted, in storage order and
   as ONE batch, into an emptied copy of the table through a table editor that already knows the new index.
   None = the statement fails with a duplicate-key error and the index is not created. *)
Definition ddl_add_unique (sch : schema) (rows : list row) (cols : list nat) (pls : list N) : option (schema * list row) :=
  if dup_entry sch cols [] rows then None
  else let sch' := with_unique sch cols pls in
       match impl_exec sch' [] (SInsert IPlain rows) with
       | (OOk _ _, rows') => Some (sch', rows')
       | _ => None
       end.
