(* C13, keyless tables: the reference MULTISET semantics of INSERT / UPDATE / DELETE and the vocabulary of the refinement
   theorems about keylessTableEditAccumulator (model: kl_* in Store/C14Editor.v; proofs: Store/C13KeylessProofs.v).

   The reference is declarative: a statement maps the bag of stored rows to
     INSERT (any mode; a keyless table without unique index has nothing to collide with):  rows + news, |news| affected;
     DELETE:  rows - targets,  |targets| affected;
     UPDATE:  rows - changed + map assign changed,  |changed| affected, |targets| matched,
              changed = the targets whose new row differs from the old one (Row.Equals);
   "-" removes ONE occurrence per removed row (bag difference).  Which rows are the targets (WHERE / ORDER BY / LIMIT) is
   computed from a listing of the bag: with a LIMIT it depends on the listing, which is why the history theorems come in
   two forms (no LIMIT: function of the bag; any statement: some listing of the bag explains the step). *)
From Coq Require Import List NArith ZArith Bool Permutation.
Import ListNotations.
From GMS Require Import Store.C14Editor.

(* every column is an integer or a binary-collated string: Row.Equals is equality of rows *)
Definition all_binary (sch : schema) : Prop := forall i, col_coll sch i = CBin.

(* ---------- bags of rows held as lists ---------- *)
Definition bag_remove (d : row) (L : list row) : list row := remove_first (row_eqb d) L.
Definition bag_diff (L ds : list row) : list row := fold_left (fun acc d => bag_remove d acc) ds L.

Definition changed (sch : schema) (a : list assign) (ts : list row) : list row :=
  filter (fun o => negb (row_equals sch o (apply_assigns a o))) ts.

(* ---------- the reference ---------- *)
Definition ms_exec (sch : schema) (rows : list row) (st : stmt) : outcome * list row :=
  match st with
  | SInsert _ news => (OOk (N.of_nat (length news)) 0, rows ++ news)
  | SUpdate a w ord lim =>
      let ts := targets sch w ord lim rows in
      let ch := changed sch a ts in
      (OOk (N.of_nat (length ch)) (N.of_nat (length ts)), bag_diff rows ch ++ map (apply_assigns a) ch)
  | SDelete w ord lim =>
      let ts := targets sch w ord lim rows in
      (OOk (N.of_nat (length ts)) 0, bag_diff rows ts)
  end.

Definition ms_history (sch : schema) (rows : list row) (h : list stmt) : list row :=
  fold_left (fun rs st => snd (ms_exec sch rs st)) h rows.

(* answers and stored rows after every statement of a history *)
Fixpoint trace (ex : list row -> stmt -> outcome * list row) (rows : list row) (h : list stmt)
  : list (outcome * list row) :=
  match h with
  | [] => []
  | st :: h' => let r := ex rows st in r :: trace ex (snd r) h'
  end.

(* same answer (affected / matched counts), same bag of stored rows *)
Definition same_step (a b : outcome * list row) : Prop := fst a = fst b /\ Permutation (snd a) (snd b).

Definition no_limit (st : stmt) : Prop :=
  match st with
  | SInsert _ _ => True
  | SUpdate _ _ _ lim => lim = None
  | SDelete _ _ lim => lim = None
  end.

(* the reference as a relation on bags: SOME listing L of the bag B explains the step (a LIMIT may pick any of the
   candidate rows in an unordered table) *)
Definition bag_step (sch : schema) (B : list row) (st : stmt) (o : outcome) (B' : list row) : Prop :=
  exists L, Permutation L B /\ fst (ms_exec sch L st) = o /\ Permutation (snd (ms_exec sch L st)) B'.

Fixpoint bag_run (sch : schema) (B : list row) (h : list stmt) (tr : list (outcome * list row)) : Prop :=
  match h, tr with
  | [], [] => True
  | st :: h', (o, B') :: tr' => bag_step sch B st o B' /\ bag_run sch B' h' tr'
  | _, _ => False
  end.
