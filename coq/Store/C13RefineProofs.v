(* C13: the simulation between pkTableEditAccumulator + tableEditor (Store/C14Editor.v) and the reference editor
   (Store/C13Refine.v), under the guard "row key strings injective on the rows present" (+ binary key collation, no
   unique secondary index). *)
From Coq Require Import List NArith ZArith Bool Lia Permutation.
Import ListNotations.
From GMS Require Import Store.C14Editor Store.C14EditorProofs Store.C13Refine.

Definition mem_key (k : str) (m : smap) : bool := existsb (fun kv => str_eqb k (fst kv)) m.

Lemma str_eqb_refl : forall a, str_eqb a a = true.
Proof. intros a. apply str_eqb_spec. reflexivity. Qed.

Lemma str_eqb_sym : forall a b, str_eqb a b = str_eqb b a.
Proof.
  intros a b. destruct (str_eqb a b) eqn:E1, (str_eqb b a) eqn:E2; try reflexivity.
  - apply str_eqb_spec in E1. subst. rewrite str_eqb_refl in E2. discriminate.
  - apply str_eqb_spec in E2. subst. rewrite str_eqb_refl in E1. discriminate.
Qed.

Lemma bool_eq_iff : forall a b : bool, (a = true <-> b = true) -> a = b.
Proof. intros [|] [|] H; try reflexivity; [symmetry; apply H; reflexivity|apply H; reflexivity]. Qed.

(* ---------- list facts ---------- *)
Lemma find_app : forall (A : Type) (f : A -> bool) l1 l2,
  find f (l1 ++ l2) = match find f l1 with Some x => Some x | None => find f l2 end.
Proof. intros A f l1 l2. induction l1 as [|x l1 IH]; cbn; [reflexivity|]. destruct (f x); [reflexivity|exact IH]. Qed.

Lemma find_filter : forall (A : Type) (f g : A -> bool) l,
  (forall x, In x l -> f x = true -> g x = true) -> find f (filter g l) = find f l.
Proof.
  intros A f g l. induction l as [|x l IH]; cbn; intros H; [reflexivity|].
  destruct (g x) eqn:Eg; cbn.
  - destruct (f x); [reflexivity|]. apply IH. intros y Hy. apply H. right. exact Hy.
  - destruct (f x) eqn:Ef.
    + rewrite (H x (or_introl eq_refl) Ef) in Eg. discriminate.
    + apply IH. intros y Hy. apply H. right. exact Hy.
Qed.

Lemma filter_filter : forall (A : Type) (g h : A -> bool) l,
  filter h (filter g l) = filter (fun x => g x && h x) l.
Proof.
  intros A g h l. induction l as [|x l IH]; cbn; [reflexivity|].
  destruct (g x); cbn; [destruct (h x); rewrite IH; reflexivity|exact IH].
Qed.

Lemma filter_true : forall (A : Type) (l : list A), filter (fun _ => true) l = l.
Proof. intros A l. induction l as [|x l IH]; cbn; [reflexivity|]. rewrite IH. reflexivity. Qed.

Lemma filter_nodup_map : forall (A B : Type) (f : A -> B) (g : A -> bool) l,
  NoDup (map f l) -> NoDup (map f (filter g l)).
Proof.
  intros A B f g l. induction l as [|x l IH]; cbn; intros H; [exact H|].
  inversion H as [|? ? Hn Hd]; subst. destruct (g x); cbn; [|apply IH; exact Hd].
  constructor; [|apply IH; exact Hd]. intros Hin. apply Hn. apply in_map_iff in Hin. destruct Hin as [y [Hy Hin]].
  apply in_map_iff. exists y. split; [exact Hy|]. apply filter_In in Hin. exact (proj1 Hin).
Qed.

Lemma filter_all : forall (A : Type) (g : A -> bool) l, (forall y, In y l -> g y = true) -> filter g l = l.
Proof.
  intros A g l. induction l as [|x l IH]; cbn; intros H; [reflexivity|].
  rewrite (H x (or_introl eq_refl)). f_equal. apply IH. intros y Hy. apply H. right. exact Hy.
Qed.

Lemma remove_first_filter : forall (f : row -> bool) (kf : row -> list val) l,
  NoDup (map kf l) -> (forall x y, In x l -> In y l -> f x = true -> f y = true -> kf x = kf y) ->
  remove_first f l = filter (fun x => negb (f x)) l.
Proof.
  intros f kf l. induction l as [|x l IH]; cbn; intros Hnd Hf; [reflexivity|].
  inversion Hnd as [|? ? Hn Hd]; subst. destruct (f x) eqn:E; cbn.
  - symmetry. apply filter_all. intros y Hy. destruct (f y) eqn:Ey; [|reflexivity]. exfalso. apply Hn.
    rewrite (Hf x y (or_introl eq_refl) (or_intror Hy) E Ey). apply in_map. exact Hy.
  - f_equal. apply IH; [exact Hd|]. intros a b Ha Hb. apply Hf; right; assumption.
Qed.

(* ---------- association-list facts ---------- *)
Lemma m_get_mem : forall k m, mem_key k m = false <-> m_get k m = None.
Proof.
  intros k m. induction m as [|[k' v] m IH]; cbn; [split; reflexivity|].
  destruct (str_eqb k k'); cbn; [split; discriminate|exact IH].
Qed.

Lemma m_get_some_in : forall k m v, m_get k m = Some v -> In (k, v) m.
Proof.
  intros k m v. induction m as [|[k' v'] m IH]; cbn; intros H; [discriminate|].
  destruct (str_eqb k k') eqn:E.
  - apply str_eqb_spec in E. subst. injection H as ->. left. reflexivity.
  - right. apply IH. exact H.
Qed.

Lemma m_del_filter : forall k m, m_del k m = filter (fun kv => negb (str_eqb k (fst kv))) m.
Proof.
  intros k m. induction m as [|[k' v] m IH]; cbn; [reflexivity|].
  destruct (str_eqb k k'); cbn; [exact IH|f_equal; exact IH].
Qed.

Lemma m_get_m_del : forall k m, m_get k (m_del k m) = None.
Proof.
  intros k m. induction m as [|[k' v] m IH]; cbn; [reflexivity|].
  destruct (str_eqb k k') eqn:E; [exact IH|]. cbn. rewrite E. exact IH.
Qed.

Lemma m_get_m_set : forall k v m, m_get k (m_set k v m) = Some v.
Proof.
  intros k v m. induction m as [|[k' v'] m IH]; cbn; [rewrite str_eqb_refl; reflexivity|].
  destruct (str_eqb k k') eqn:E; cbn; [rewrite str_eqb_refl; reflexivity|]. rewrite E. exact IH.
Qed.

Lemma in_m_set : forall k v m kv, In kv (m_set k v m) -> kv = (k, v) \/ In kv m.
Proof.
  intros k v m kv. induction m as [|[k' v'] m IH]; cbn; intros H.
  - destruct H as [H|[]]; left; symmetry; exact H.
  - destruct (str_eqb k k').
    + destruct H as [H|H]; [left; symmetry; exact H|right; right; exact H].
    + destruct H as [H|H]; [right; left; exact H|]. destruct (IH H) as [H1|H1]; [left; exact H1|right; right; exact H1].
Qed.

Lemma mem_key_m_set : forall k' k v m, mem_key k' (m_set k v m) = mem_key k' m || str_eqb k' k.
Proof.
  intros k' k v m. induction m as [|[k1 v1] m IH]; cbn; [apply orb_comm|].
  destruct (str_eqb k k1) eqn:E; cbn.
  - apply str_eqb_spec in E. subst k1. destruct (str_eqb k' k); cbn; [reflexivity|]. rewrite orb_false_r. reflexivity.
  - unfold mem_key in IH. rewrite IH. rewrite orb_assoc. reflexivity.
Qed.

(* ---------- the simulation ---------- *)
Section Sim.
  Variable sch : schema.
  Variable U : row -> Prop.
  Hypothesis Hinj : forall a b, U a -> U b -> key_str sch a = key_str sch b -> key sch a = key sch b.
  Hypothesis Hbin : pk_binary sch.
  Hypothesis Hnu : s_uniq sch = [].

  Lemma kmatch : forall a b, U a -> U b -> pk_match sch a b = str_eqb (key_str sch a) (key_str sch b).
  Proof.
    intros a b Ha Hb. apply bool_eq_iff. rewrite pk_match_spec, str_eqb_spec. split.
    - apply key_str_of_key.
    - apply Hinj; assumption.
  Qed.

  Definition notdel (dels : smap) (x : row) : bool := negb (mem_key (key_str sch x) dels).

  Record R (s : pkst) (L : list row) : Prop := {
    R_nd : keys_nodup sch (p_rows s);
    R_ao : adds_ok sch (p_adds s);
    R_do : adds_ok sch (p_dels s);
    R_an : NoDup (map fst (p_adds s));
    R_Ur : Forall U (p_rows s);
    R_Ua : Forall U (map snd (p_adds s));
    R_Ud : Forall U (map snd (p_dels s));
    R_L : L = filter (notdel (p_dels s)) (p_rows s) ++ map snd (p_adds s);
    R_6 : forall kv x, In kv (p_adds s) -> In x (p_rows s) -> key sch x = key sch (snd kv) ->
                       mem_key (fst kv) (p_dels s) = true;
    R_Lnd : keys_nodup sch L
  }.

  Definition Pre (rows : list row) : Prop := keys_nodup sch rows /\ Forall U rows.

  Lemma R_LU : forall s L, R s L -> Forall U L.
  Proof.
    intros s L HR. rewrite (R_L _ _ HR). apply Forall_app. split; [|exact (R_Ua _ _ HR)].
    apply Forall_forall. intros x Hx. apply filter_In in Hx. exact (proj1 (Forall_forall _ _) (R_Ur _ _ HR) x (proj1 Hx)).
  Qed.

  Lemma find_adds : forall adds r, adds_ok sch adds -> Forall U (map snd adds) -> U r ->
    find (fun x => pk_match sch x r) (map snd adds) = m_get (key_str sch r) adds.
  Proof.
    intros adds r. induction adds as [|[k v] m IH]; cbn; intros Ha HU Hr; [reflexivity|].
    inversion HU as [|? ? Hv Hm]; subst.
    rewrite (kmatch v r Hv Hr).
    assert (Hk : k = key_str sch v) by (apply (Ha (k, v)); left; reflexivity). rewrite <- Hk.
    rewrite (str_eqb_sym k). destruct (str_eqb (key_str sch r) k); [reflexivity|].
    apply IH; [intros kv Hkv; apply Ha; right; exact Hkv|exact Hm|exact Hr].
  Qed.

  Lemma get_sim : forall s L r, R s L -> U r -> pk_get sch s r = sp_get sch L r.
  Proof.
    intros s L r HR Hr. unfold pk_get, sp_get. rewrite (R_L _ _ HR), find_app.
    rewrite (find_adds _ r (R_ao _ _ HR) (R_Ua _ _ HR) Hr).
    pose proof (proj1 (Forall_forall _ _) (R_Ur _ _ HR)) as HUr.
    destruct (m_get (key_str sch r) (p_adds s)) eqn:Ea.
    - (* pending add: no surviving stored row has that key *)
      assert (Hn : find (fun x => pk_match sch x r) (filter (notdel (p_dels s)) (p_rows s)) = None).
      { apply find_none_iff. apply existsb_false_iff. intros y Hy. apply filter_In in Hy. destruct Hy as [Hy Hnd].
        destruct (pk_match sch y r) eqn:Em; [|reflexivity]. exfalso.
        apply m_get_some_in in Ea.
        assert (Hk : key_str sch r = key_str sch r0) by (apply (R_ao _ _ HR (key_str sch r, r0) Ea)).
        assert (HU0 : U r0).
        { apply (proj1 (Forall_forall _ _) (R_Ua _ _ HR)). apply in_map_iff. exists (key_str sch r, r0). split; [reflexivity|exact Ea]. }
        apply pk_match_spec in Em.
        assert (Hkey : key sch y = key sch r0) by (rewrite Em; apply Hinj; [exact Hr|exact HU0|exact Hk]).
        pose proof (R_6 _ _ HR _ y Ea Hy Hkey) as H6. cbn [fst] in H6.
        unfold notdel in Hnd. rewrite (key_str_of_key sch y r Em) in Hnd. rewrite H6 in Hnd. discriminate. }
      rewrite Hn. reflexivity.
    - destruct (m_get (key_str sch r) (p_dels s)) eqn:Ed.
      + assert (Hn : find (fun x => pk_match sch x r) (filter (notdel (p_dels s)) (p_rows s)) = None).
        { apply find_none_iff. apply existsb_false_iff. intros y Hy. apply filter_In in Hy. destruct Hy as [Hy Hnd].
          destruct (pk_match sch y r) eqn:Em; [|reflexivity]. exfalso.
          apply pk_match_spec in Em. unfold notdel in Hnd. rewrite (key_str_of_key sch y r Em) in Hnd.
          destruct (mem_key (key_str sch r) (p_dels s)) eqn:Emk; [discriminate|].
          apply m_get_mem in Emk. congruence. }
        rewrite Hn. reflexivity.
      + rewrite find_filter.
        * destruct (find (fun x => pk_match sch x r) (p_rows s)); reflexivity.
        * intros y Hy Em. apply pk_match_spec in Em. unfold notdel. rewrite (key_str_of_key sch y r Em).
          rewrite (proj2 (m_get_mem _ _) Ed). reflexivity.
  Qed.

  Lemma acc_insert_sim : forall s L r, R s L -> U r -> pk_get sch s r = None ->
    R (pk_acc_insert sch s r) (L ++ [r]).
  Proof.
    intros s L r HR Hr Hg.
    assert (Ea : m_get (key_str sch r) (p_adds s) = None).
    { unfold pk_get in Hg. destruct (m_get (key_str sch r) (p_adds s)); [discriminate|reflexivity]. }
    assert (Eset : p_adds (pk_acc_insert sch s r) = p_adds s ++ [(key_str sch r, r)]) by (cbn; apply m_set_none; exact Ea).
    constructor; cbn [pk_acc_insert p_rows p_dels]; try rewrite Eset.
    - exact (R_nd _ _ HR).
    - intros kv Hin. apply in_app_or in Hin. destruct Hin as [Hin|[<-|[]]]; [apply (R_ao _ _ HR); exact Hin|reflexivity].
    - exact (R_do _ _ HR).
    - rewrite map_app. cbn. apply nodup_snoc; [exact (R_an _ _ HR)|].
      intros Hin. apply in_map_iff in Hin. destruct Hin as [kv [Hk Hin]].
      exact (proj1 (m_get_none_iff _ _) Ea kv Hin Hk).
    - exact (R_Ur _ _ HR).
    - rewrite map_app. apply Forall_app. split; [exact (R_Ua _ _ HR)|constructor; [exact Hr|constructor]].
    - exact (R_Ud _ _ HR).
    - rewrite map_app, app_assoc. rewrite <- (R_L _ _ HR). reflexivity.
    - intros kv x Hin Hx Hk. apply in_app_or in Hin. destruct Hin as [Hin|[<-|[]]]; [exact (R_6 _ _ HR kv x Hin Hx Hk)|].
      cbn [fst snd] in *. unfold pk_get in Hg. rewrite Ea in Hg.
      destruct (m_get (key_str sch r) (p_dels s)) eqn:Ed.
      + destruct (mem_key (key_str sch r) (p_dels s)) eqn:Em; [reflexivity|]. apply m_get_mem in Em. congruence.
      + exfalso. apply find_none_iff in Hg. pose proof (proj1 (existsb_false_iff _ _ _) Hg x Hx) as Hf. cbv beta in Hf.
        assert (pk_match sch x r = true) by (apply pk_match_spec; exact Hk). congruence.
    - unfold keys_nodup. rewrite map_app. cbn. apply nodup_snoc; [exact (R_Lnd _ _ HR)|].
      intros Hin. apply in_map_iff in Hin. destruct Hin as [y [Hy Hin]].
      rewrite (get_sim s L r HR Hr) in Hg. unfold sp_get in Hg. apply find_none_iff in Hg.
      pose proof (proj1 (existsb_false_iff _ _ _) Hg y Hin) as Hf. cbv beta in Hf.
      assert (pk_match sch y r = true) by (apply pk_match_spec; exact Hy). congruence.
  Qed.

  Lemma sp_delete_filter : forall L r, keys_nodup sch L -> Forall U L -> U r ->
    sp_delete sch L r = filter (fun x => negb (str_eqb (key_str sch x) (key_str sch r))) L.
  Proof.
    intros L r Hnd HU Hr. unfold sp_delete.
    rewrite (remove_first_filter (fun x => pk_match sch x r) (key sch) L Hnd).
    - apply filter_ext_in. intros x Hx. rewrite (kmatch x r (proj1 (Forall_forall _ _) HU x Hx) Hr). reflexivity.
    - intros x y _ _ Hx Hy. apply pk_match_spec in Hx. apply pk_match_spec in Hy. congruence.
  Qed.

  Lemma delete_sim : forall s L r, R s L -> U r -> R (pk_acc_delete sch s r) (sp_delete sch L r).
  Proof.
    intros s L r HR Hr.
    constructor; cbn [pk_acc_delete p_rows p_adds p_dels].
    - exact (R_nd _ _ HR).
    - intros kv Hin. rewrite m_del_filter in Hin. apply filter_In in Hin. apply (R_ao _ _ HR). exact (proj1 Hin).
    - intros kv Hin. apply in_m_set in Hin. destruct Hin as [->|Hin]; [reflexivity|apply (R_do _ _ HR); exact Hin].
    - rewrite m_del_filter. apply filter_nodup_map. exact (R_an _ _ HR).
    - exact (R_Ur _ _ HR).
    - apply Forall_forall. intros x Hx. apply in_map_iff in Hx. destruct Hx as [kv [<- Hin]].
      rewrite m_del_filter in Hin. apply filter_In in Hin.
      apply (proj1 (Forall_forall _ _) (R_Ua _ _ HR)). apply in_map. exact (proj1 Hin).
    - apply Forall_forall. intros x Hx. apply in_map_iff in Hx. destruct Hx as [kv [<- Hin]].
      apply in_m_set in Hin. destruct Hin as [->|Hin]; [exact Hr|].
      apply (proj1 (Forall_forall _ _) (R_Ud _ _ HR)). apply in_map. exact Hin.
    - rewrite (sp_delete_filter L r (R_Lnd _ _ HR) (R_LU _ _ HR) Hr). rewrite (R_L _ _ HR) at 1.
      rewrite filter_app. f_equal.
      + rewrite filter_filter. apply filter_ext. intros x. unfold notdel. rewrite mem_key_m_set.
        rewrite negb_orb. reflexivity.
      + rewrite m_del_filter. generalize (R_ao _ _ HR). generalize (p_adds s) as m.
        induction m as [|[k v] m IH]; cbn; intros Ha; [reflexivity|].
        assert (Hk : k = key_str sch v) by (apply (Ha (k, v)); left; reflexivity). subst k.
        rewrite (str_eqb_sym (key_str sch r)).
        destruct (str_eqb (key_str sch v) (key_str sch r)); cbn; [|f_equal]; apply IH; intros kv Hkv; apply Ha; right; exact Hkv.
    - intros kv x Hin Hx Hk. rewrite m_del_filter in Hin. apply filter_In in Hin.
      rewrite mem_key_m_set. rewrite (R_6 _ _ HR kv x (proj1 Hin) Hx Hk). reflexivity.
    - apply remove_first_nodup. exact (R_Lnd _ _ HR).
  Qed.

  Lemma insert_sim : forall s L r, R s L -> U r ->
    match pk_insert sch s r, sp_insert sch L r with
    | ROk a, ROk b => R a b
    | RDup x, RDup y => x = y /\ U x
    | _, _ => False
    end.
  Proof.
    intros s L r HR Hr. unfold pk_insert, sp_insert. rewrite Hnu. cbn [check_unique].
    rewrite <- (get_sim s L r HR Hr). destruct (pk_get sch s r) eqn:Eg.
    - split; [reflexivity|]. rewrite (get_sim s L r HR Hr) in Eg. unfold sp_get in Eg. apply find_some in Eg.
      exact (proj1 (Forall_forall _ _) (R_LU _ _ HR) _ (proj1 Eg)).
    - apply acc_insert_sim; assumption.
  Qed.

  Lemma update_sim : forall s L o n, R s L -> U o -> U n ->
    match pk_update sch s o n, sp_update sch L o n with
    | ROk a, ROk b => R a b
    | RDup _, RDup _ => True
    | _, _ => False
    end.
  Proof.
    intros s L o n HR Ho Hn. unfold pk_update, sp_update. rewrite Hnu. cbn [check_unique].
    pose proof (delete_sim s L o HR Ho) as HR1.
    destruct (pk_match sch o n) eqn:Em.
    - apply acc_insert_sim; [exact HR1|exact Hn|].
      apply pk_match_spec in Em. unfold pk_get. cbn [pk_acc_delete p_adds p_dels].
      rewrite <- (key_str_of_key sch o n Em). rewrite m_get_m_del, m_get_m_set. reflexivity.
    - rewrite <- (get_sim _ _ n HR1 Hn). destruct (pk_get sch (pk_acc_delete sch s o) n) eqn:Eg; [exact I|].
      apply acc_insert_sim; assumption.
  Qed.

  Lemma begin_sim : forall rows, Pre rows -> R (pk_begin rows) (sp_begin rows).
  Proof.
    intros rows [Hnd HU]. constructor; cbn [pk_begin p_rows p_adds p_dels map].
    - exact Hnd.
    - intros kv [].
    - intros kv [].
    - constructor.
    - exact HU.
    - constructor.
    - constructor.
    - unfold sp_begin. rewrite app_nil_r. symmetry. apply filter_all. reflexivity.
    - intros kv x [].
    - exact Hnd.
  Qed.

  (* ApplyEdits *)
  Lemma row_equals_cols : forall i a b, row_equals_from sch i a b = true ->
    forall j, val_cmp (col_coll sch (i + j)) (nth j a VNull) (nth j b VNull) = Eq.
  Proof.
    intros i a. revert i. induction a as [|x a IH]; intros i [|y b] H j; cbn in H; try discriminate.
    - destruct j; reflexivity.
    - destruct (val_cmp (col_coll sch i) x y) eqn:E; try discriminate.
      destruct j as [|j]; cbn [nth]; [rewrite Nat.add_0_r; exact E|].
      rewrite <- Nat.add_succ_comm. apply IH. exact H.
  Qed.

  Lemma row_equals_pk : forall a b, row_equals sch a b = true -> pk_match sch a b = true.
  Proof.
    intros a b H. apply pk_match_spec. unfold key, proj. apply map_ext_in. intros c Hc.
    apply val_cmp_bin_eq. rewrite <- (Hbin c Hc). exact (row_equals_cols 0 a b H c).
  Qed.

  Lemma delete_helper_pk : forall rows d, pk_delete_helper sch rows d = remove_first (fun x => pk_match sch x d) rows.
  Proof.
    intros rows d. unfold pk_delete_helper. induction rows as [|x rows IH]; cbn; [reflexivity|].
    destruct (pk_match sch x d) eqn:Em; cbn; [reflexivity|].
    destruct (row_equals sch x d) eqn:Er; [rewrite (row_equals_pk _ _ Er) in Em; discriminate|]. f_equal. exact IH.
  Qed.

  Lemma dh_fold : forall dels rows, adds_ok sch dels -> Forall U (map snd dels) -> keys_nodup sch rows -> Forall U rows ->
    fold_left (pk_delete_helper sch) (map snd dels) rows = filter (notdel dels) rows.
  Proof.
    induction dels as [|[k d] m IH]; cbn [map snd fold_left]; intros rows Ha HUd Hnd HU.
    - symmetry. apply filter_all. reflexivity.
    - inversion HUd as [|? ? Hd Hm]; subst.
      assert (Hk : k = key_str sch d) by (apply (Ha (k, d)); left; reflexivity). subst k.
      rewrite delete_helper_pk. fold (sp_delete sch rows d). rewrite (sp_delete_filter rows d Hnd HU Hd).
      rewrite IH.
      + rewrite filter_filter. apply filter_ext. intros x. unfold notdel. cbn [mem_key existsb fst].
        rewrite negb_orb. reflexivity.
      + intros kv Hkv. apply Ha. right. exact Hkv.
      + exact Hm.
      + apply filter_nodup_map. exact Hnd.
      + apply Forall_forall. intros x Hx. apply filter_In in Hx. exact (proj1 (Forall_forall _ _) HU x (proj1 Hx)).
  Qed.

  Lemma ih_fold : forall l acc, keys_nodup sch (acc ++ l) -> fold_left (pk_insert_helper sch) l acc = acc ++ l.
  Proof.
    induction l as [|r l IH]; intros acc H; cbn [fold_left]; [rewrite app_nil_r; reflexivity|].
    assert (E : pk_insert_helper sch acc r = acc ++ [r]).
    { unfold pk_insert_helper. rewrite (proj2 (replace_first_none_iff _ r acc)); [reflexivity|].
      apply existsb_false_iff. intros y Hy. destruct (pk_match sch y r) eqn:Em; [|reflexivity]. exfalso.
      apply pk_match_spec in Em. unfold keys_nodup in H. rewrite map_app in H. cbn in H.
      apply NoDup_remove_2 in H. apply H. apply in_or_app. left. rewrite <- Em. apply in_map. exact Hy. }
    rewrite E. rewrite IH; rewrite <- app_assoc; [reflexivity|exact H].
  Qed.

  Lemma commit_sim : forall s L, R s L -> pk_commit sch s = sp_commit sch L /\ Pre (sp_commit sch L).
  Proof.
    intros s L HR. split.
    - unfold pk_commit, sp_commit, pk_apply_unsorted. f_equal.
      rewrite (dh_fold _ _ (R_do _ _ HR) (R_Ud _ _ HR) (R_nd _ _ HR) (R_Ur _ _ HR)).
      rewrite ih_fold; [symmetry; exact (R_L _ _ HR)|]. rewrite <- (R_L _ _ HR). exact (R_Lnd _ _ HR).
    - unfold sp_commit. split.
      + eapply perm_keys_nodup; [apply sort_rows_perm|exact (R_Lnd _ _ HR)].
      + eapply Permutation_Forall; [apply Permutation_sym; apply sort_rows_perm|exact (R_LU _ _ HR)].
  Qed.

  Theorem pk_refines_spec : forall rows st, Pre rows -> stmt_in_U U st ->
    pk_exec sch rows st = spec_exec sch rows st /\ Pre (snd (spec_exec sch rows st)).
  Proof.
    intros rows st HP HS. unfold pk_exec, spec_exec.
    apply (exec_sim pk_begin (pk_insert sch) (pk_delete sch) (pk_update sch) (pk_commit sch)
                    sp_begin (sp_insert sch) (sp_delete sch) (sp_update sch) (sp_commit sch) sch U Pre R).
    - split; constructor.
    - intros r [_ H]. exact H.
    - exact begin_sim.
    - exact insert_sim.
    - exact delete_sim.
    - exact update_sim.
    - exact commit_sim.
    - exact HP.
    - exact HS.
  Qed.

  Theorem history_refines_spec : forall h rows, keyless sch = false -> Pre rows -> Forall (stmt_in_U U) h ->
    run_history sch rows h = spec_history sch rows h.
  Proof.
    induction h as [|st h IH]; intros rows Hk HP HS; [reflexivity|].
    inversion HS as [|? ? Hst Hh]; subst. destruct (pk_refines_spec rows st HP Hst) as [E HP'].
    change (run_history sch (snd (impl_exec sch rows st)) h = spec_history sch (snd (spec_exec sch rows st)) h).
    assert (Ei : impl_exec sch rows st = pk_exec sch rows st) by (unfold impl_exec; rewrite Hk; reflexivity).
    rewrite Ei, E. apply IH; assumption.
  Qed.
End Sim.

(* ---------- the injectivity guard is discharged by the length-prefixed row key ---------- *)
Theorem pk_refines_spec_typed : forall sch ks, pk_binary sch -> s_uniq sch = [] ->
  forall rows st, Pre sch (key_kinds sch ks) rows -> stmt_in_U (key_kinds sch ks) st ->
    pk_exec sch rows st = spec_exec sch rows st /\ Pre sch (key_kinds sch ks) (snd (spec_exec sch rows st)).
Proof.
  intros sch ks Hb Hn. apply (pk_refines_spec sch (key_kinds sch ks)); [|exact Hb|exact Hn].
  intros a b Ha Hb'. apply (row_key_injective sch ks); assumption.
Qed.

Theorem history_refines_spec_typed : forall sch ks, pk_binary sch -> s_uniq sch = [] ->
  forall h rows, keyless sch = false -> Pre sch (key_kinds sch ks) rows -> Forall (stmt_in_U (key_kinds sch ks)) h ->
    run_history sch rows h = spec_history sch rows h.
Proof.
  intros sch ks Hb Hn. apply (history_refines_spec sch (key_kinds sch ks)); [|exact Hb|exact Hn].
  intros a b Ha Hb'. apply (row_key_injective sch ks); assumption.
Qed.

(* typing of assignments: assignments to non-key columns keep the kinds of the key columns *)
Lemma col_set_nth_other : forall r i j v, i <> j -> col (set_nth i v r) j = col r j.
Proof.
  unfold col. induction r as [|x r IH]; intros i j v H; cbn; [destruct i; reflexivity|].
  destruct i as [|i]; destruct j as [|j]; cbn; try reflexivity; [congruence|]. apply IH. congruence.
Qed.

Lemma assign_nonkey_key : forall sch r a, ~ In (fst a) (s_pk sch) -> key sch (apply_assign r a) = key sch r.
Proof.
  intros sch r [c e] Hc. cbn in Hc. unfold key, proj. apply map_ext_in. intros j Hj.
  assert (c <> j) by (intros ->; exact (Hc Hj)).
  unfold apply_assign. destruct e as [v|k]; [apply col_set_nth_other; assumption|].
  destruct (col r c); try reflexivity. apply col_set_nth_other; assumption.
Qed.

Lemma assigns_nonkey_kinds : forall sch ks a, (forall x, In x a -> ~ In (fst x) (s_pk sch)) ->
  forall r, key_kinds sch ks r -> key_kinds sch ks (apply_assigns a r).
Proof.
  intros sch ks a. unfold apply_assigns, key_kinds. induction a as [|x a IH]; intros Ha r Hr; cbn; [exact Hr|].
  apply IH; [intros y Hy; apply Ha; right; exact Hy|]. rewrite assign_nonkey_key; [exact Hr|apply Ha; left; reflexivity].
Qed.

(* ---------- the former collision witnesses (row keys "112" / "112") now refine the reference ---------- *)
Definition c13_sch : schema := {| s_pk := [0%nat; 1%nat]; s_uniq := []; s_coll := [CBin; CBin; CBin] |}.
Definition c13_rows : list row := [[VInt 1; VInt 12; VInt 0]; [VInt 11; VInt 2; VInt 0]].
Definition c13_upd : stmt := SUpdate [(2%nat, AAdd 1)] PTrue None None.              (* UPDATE t SET c = c + 1 *)
Definition c13_move : stmt := SUpdate [(0%nat, AAdd 100); (1%nat, AAdd 100)] PTrue None None.

Lemma former_witnesses_refine :
  impl_exec c13_sch c13_rows c13_upd = (OOk 2 2, [[VInt 1; VInt 12; VInt 1]; [VInt 11; VInt 2; VInt 1]]) /\
  spec_exec c13_sch c13_rows c13_upd = (OOk 2 2, [[VInt 1; VInt 12; VInt 1]; [VInt 11; VInt 2; VInt 1]]) /\
  impl_exec c13_sch c13_rows c13_move = (OOk 2 2, [[VInt 101; VInt 112; VInt 0]; [VInt 111; VInt 102; VInt 0]]) /\
  spec_exec c13_sch c13_rows c13_move = (OOk 2 2, [[VInt 101; VInt 112; VInt 0]; [VInt 111; VInt 102; VInt 0]]).
Proof. repeat split; vm_compute; reflexivity. Qed.

Lemma c13_bin : pk_binary c13_sch.
Proof. intros c Hc. cbn in Hc. destruct Hc as [<-|[<-|[]]]; reflexivity. Qed.

Lemma c13_pre : Pre c13_sch (key_kinds c13_sch [KInt; KInt]) c13_rows.
Proof.
  split.
  - unfold keys_nodup. vm_compute. constructor; [intros [H|[]]; discriminate|constructor; [intros []|constructor]].
  - repeat constructor.
Qed.

Lemma c13_upd_typed : stmt_in_U (key_kinds c13_sch [KInt; KInt]) c13_upd.
Proof.
  unfold c13_upd, stmt_in_U. apply (assigns_nonkey_kinds c13_sch [KInt; KInt] [(2%nat, AAdd 1)]).
  intros x [<-|[]]. cbn. intros [H|[H|[]]]; discriminate.
Qed.
