(* C15 — proofs about the statement protocol model (Store/C15Editor.v). *)
From Coq Require Import List Bool Arith Lia.
Import ListNotations.
From GMS Require Import Store.C15Editor.

Section Proofs.
Variable T E : Type.
Variable apply_opt : nat -> T -> list E -> option T * T.

Notation editor := (editor T E).
Notation call := (call E).

(* position of the first call whose error reaches the statement iterator, and whether it is ignorable *)
Fixpoint first_bad (cs : list call) : option bool :=
  match cs with
  | [] => None
  | CBad ig :: _ => Some ig
  | _ :: t => first_bad t
  end.

Lemma flush_initial (ed : editor) :
  initial _ _ (flush T E apply_opt ed) = initial _ _ ed /\ discard _ _ (flush T E apply_opt ed) = discard _ _ ed.
Proof. unfold flush. destruct (apply_opt 0 (edited T E ed) (acc T E ed)) as [[t|] t']; cbn; auto. Qed.

Lemma feed_initial (cs : list call) : forall ed : editor,
  initial _ _ (fst (feed T E apply_opt ed cs)) = initial _ _ ed /\
  discard _ _ (fst (feed T E apply_opt ed cs)) = discard _ _ ed.
Proof.
  induction cs as [|c t IH]; intros ed; cbn; auto.
  destruct c as [e|ig| |]; cbn; auto.
  - destruct (IH (accumulate T E ed e)) as (H1 & H2). cbn in *. auto.
  - destruct (IH (flush T E apply_opt ed)) as (H1 & H2). destruct (flush_initial ed) as (F1 & F2).
    rewrite H1, H2, F1, F2. auto.
Qed.

Lemma feed_err (cs : list call) : forall ed : editor, snd (feed T E apply_opt ed cs) = first_bad cs.
Proof. induction cs as [|c t IH]; intros ed; cbn; auto. destruct c; cbn; auto. Qed.

Lemma first_bad_all_good cs : all_good E cs = true -> first_bad cs = None.
Proof. induction cs as [|c t IH]; cbn; auto. destruct c; cbn; try exact IH. discriminate. Qed.

(* a statement whose first failing row-edit call — at ANY position, after any mix of accumulated edits, handled
   errors and mid-statement IndexedAccess applies — returns a non-ignorable error reports the error and leaves the
   table (rows and indexes: all of T) exactly as before, whatever ApplyEdits does *)
Theorem stmt_atomic (t : T) (cs : list call) :
  first_bad cs = Some false -> run_stmt T E apply_opt t cs = (RErr, t).
Proof.
  intros H. unfold run_stmt.
  destruct (feed T E apply_opt (statement_begin T E (open_editor T E t)) cs) as [ed1 err] eqn:F.
  pose proof (feed_err cs (statement_begin T E (open_editor T E t))) as Herr. rewrite F in Herr. cbn in Herr.
  rewrite H in Herr. subst err.
  pose proof (feed_initial cs (statement_begin T E (open_editor T E t))) as (H1 & _). rewrite F in H1. cbn in H1.
  unfold discard_changes, close_editor. cbn. rewrite H1. reflexivity.
Qed.

(* an ApplyEdits failure in StatementComplete is never swallowed: the statement reports an error *)
Theorem stmt_complete_error_is_reported (t : T) (cs : list call) :
  all_good E cs = true -> (forall t' es, fst (apply_opt 1 t' es) = None) ->
  fst (run_stmt T E apply_opt t cs) = RErr.
Proof.
  intros G F1. unfold run_stmt.
  destruct (feed T E apply_opt (statement_begin T E (open_editor T E t)) cs) as [ed1 err] eqn:F.
  pose proof (feed_err cs (statement_begin T E (open_editor T E t))) as Herr. rewrite F in Herr. cbn in Herr.
  rewrite (first_bad_all_good cs G) in Herr. subst err.
  unfold statement_complete, statement_complete_at. specialize (F1 (edited T E ed1) (acc T E ed1)).
  destruct (apply_opt 1 (edited T E ed1) (acc T E ed1)) as [[x|] y]; cbn in F1; [discriminate|].
  destruct (close_editor T E apply_opt _) as [cerr ed3]. reflexivity.
Qed.

Lemma first_bad_app pre post ig : all_good E pre = true -> first_bad (pre ++ CBad ig :: post) = Some ig.
Proof. induction pre as [|c t IH]; cbn; auto. destruct c; cbn; try exact IH. discriminate. Qed.

Theorem stmt_atomic_at_any_position (t : T) (pre post : list call) :
  all_good E pre = true -> run_stmt T E apply_opt t (pre ++ CBad false :: post) = (RErr, t).
Proof. intros H. apply stmt_atomic. apply first_bad_app. exact H. Qed.

Lemma inject_split (cs : list call) : forall k, 1 <= k <= length cs ->
  inject E k cs = firstn (k - 1) cs ++ CBad false :: skipn k cs.
Proof.
  induction cs as [|c t IH]; intros k H; [cbn in H; lia|].
  destruct k as [|[|k]]; [lia | reflexivity |].
  change (inject E (S (S k)) (c :: t)) with (c :: inject E (S k) t).
  rewrite IH by (cbn in H; lia).
  replace (S (S k) - 1) with (S k) by lia. replace (S k - 1) with k by lia. reflexivity.
Qed.

(* the injected storage error at the k-th row-edit call, for every k within the statement *)
Theorem stmt_atomic_injected (t : T) (cs : list call) (k : nat) :
  1 <= k <= length cs -> all_good E (firstn (k - 1) cs) = true ->
  run_stmt T E apply_opt t (inject E k cs) = (RErr, t).
Proof. intros H G. rewrite inject_split by exact H. apply stmt_atomic_at_any_position. exact G. Qed.

(* ---- triggers ---- *)
Variable A : Type.
Variable audit_edit : A -> E.

Fixpoint first_bad_trig (cs : list (option A * call)) : option bool :=
  match cs with
  | [] => None
  | (None, _) :: _ => Some false
  | (Some _, CBad ig) :: _ => Some ig
  | (Some _, _) :: t => first_bad_trig t
  end.

Lemma feed_trig_initial (cs : list (option A * call)) : forall (ed : editor) other,
  initial _ _ (fst (fst (feed_trig T E apply_opt A audit_edit ed other cs))) = initial _ _ ed /\
  snd (feed_trig T E apply_opt A audit_edit ed other cs) = first_bad_trig cs.
Proof.
  induction cs as [|[[a|] c] t IH]; intros ed other; [cbn; auto | | cbn; auto].
  destruct c as [e|ig| |]; cbn [feed_trig first_bad_trig].
  - destruct (IH (accumulate T E ed e) (snd (run_stmt T E apply_opt other [CGood (audit_edit a)]))) as (H1 & H2).
    split; [rewrite H1; reflexivity | exact H2].
  - cbn. auto.
  - apply IH.
  - destruct (IH (flush T E apply_opt ed) (snd (run_stmt T E apply_opt other [CGood (audit_edit a)]))) as (H1 & H2).
    destruct (flush_initial ed) as (F1 & _). split; [rewrite H1; exact F1 | exact H2].
Qed.

(* whether a row fails in the editor or the trigger body itself fails (SIGNAL), the TARGET table is restored *)
Theorem stmt_trig_target_atomic (t other : T) (cs : list (option A * call)) :
  first_bad_trig cs = Some false ->
  exists other', run_stmt_trig T E apply_opt A audit_edit t other cs = (RErr, t, other').
Proof.
  intros H. unfold run_stmt_trig.
  destruct (feed_trig T E apply_opt A audit_edit (statement_begin T E (open_editor T E t)) other cs) as [[ed1 o'] err] eqn:F.
  destruct (feed_trig_initial cs (statement_begin T E (open_editor T E t)) other) as (H1 & H2).
  rewrite F in H1, H2. cbn in H1, H2. rewrite H in H2. subst err. exists o'.
  unfold discard_changes, close_editor. cbn. rewrite H1. reflexivity.
Qed.

End Proofs.

(* ---- with a total ApplyEdits that composes ---- *)
Section Total.
Variable T E : Type.
Variable apply : T -> list E -> T.
Hypothesis apply_nil : forall x, apply x [] = x.
Hypothesis apply_app : forall x a b, apply x (a ++ b) = apply (apply x a) b.

Definition total_apply (_ : nat) (t : T) (es : list E) : option T * T := (Some (apply t es), apply t es).

Notation editor := (editor T E).
Definition virtual (ed : editor) : T := apply (edited _ _ ed) (acc _ _ ed).

Lemma feed_virtual (cs : list (call E)) : forall ed : editor,
  all_good E cs = true ->
  virtual (fst (feed T E total_apply ed cs)) = apply (virtual ed) (good_edits E cs) /\
  discard _ _ (fst (feed T E total_apply ed cs)) = discard _ _ ed.
Proof.
  induction cs as [|c t IH]; intros ed G; [cbn; rewrite apply_nil; auto|].
  destruct c as [e|ig| |]; cbn in G; try discriminate.
  - destruct (IH (accumulate T E ed e) G) as (H1 & H2). cbn [feed]. rewrite H1, H2. split; [|reflexivity].
    change (good_edits E (CGood e :: t)) with ([e] ++ good_edits E t).
    unfold virtual. cbn [accumulate edited acc]. rewrite !apply_app. reflexivity.
  - apply IH. exact G.
  - destruct (IH (flush T E total_apply ed) G) as (H1 & H2). cbn [feed]. rewrite H1, H2. split; [|reflexivity].
    change (good_edits E (CFlush :: t)) with (good_edits E t).
    unfold virtual, flush, total_apply. cbn. rewrite apply_nil. reflexivity.
Qed.

(* a statement none of whose calls fails reports success and publishes ApplyEdits of ALL its edits — also when
   parts of them were applied in the middle of the statement *)
Theorem stmt_all_or_nothing (t : T) (cs : list (call E)) :
  all_good E cs = true -> run_stmt T E total_apply t cs = (ROk, apply t (good_edits E cs)).
Proof.
  intros G. unfold run_stmt.
  destruct (feed T E total_apply (statement_begin T E (open_editor T E t)) cs) as [ed1 err] eqn:F.
  pose proof (feed_err T E total_apply cs (statement_begin T E (open_editor T E t))) as Herr. rewrite F in Herr. cbn in Herr.
  rewrite (first_bad_all_good _ cs G) in Herr. subst err.
  destruct (feed_virtual cs (statement_begin T E (open_editor T E t)) G) as (H1 & H2).
  rewrite F in H1, H2. cbn [fst] in H1, H2. unfold virtual in H1. cbn in H1, H2.
  unfold statement_complete, statement_complete_at, close_editor, close_editor_at, total_apply. cbn. rewrite H2. cbn.
  rewrite H1, !apply_nil. reflexivity.
Qed.

(* ---- the checkpointing iterator (INSERT IGNORE) ---- *)
Definition no_hard (cs : list (call E)) : bool :=
  forallb (fun c => match c with CBad false => false | _ => true end) cs.

Definition clean (ed : editor) : Prop :=
  acc _ _ ed = [] /\ discard _ _ ed = false /\ published _ _ ed = edited _ _ ed.

Lemma feed_ckpt_clean (cs : list (call E)) : forall (ed : editor) n,
  clean ed -> no_hard cs = true ->
  exists ed' n', feed_ckpt T E total_apply ed n cs = (ed', None, n') /\ clean ed' /\
              edited _ _ ed' = apply (edited _ _ ed) (good_edits E cs).
Proof.
  induction cs as [|c t IH]; intros ed n (C1 & C2 & C3) N; cbn in *.
  - exists ed, n. rewrite apply_nil. repeat split; auto.
  - destruct c as [e|[|]| |]; cbn in N; try discriminate.
    + destruct (IH (snd (statement_complete_at T E total_apply n (accumulate T E (statement_begin T E ed) e))) (S n)) as (ed' & n' & F & C & Ed).
      { unfold statement_complete_at, total_apply. cbn. rewrite C1, C2. repeat split. }
      { exact N. }
      exists ed', n'. split; [exact F|]. split; [exact C|]. rewrite Ed. unfold statement_complete_at, total_apply. cbn.
      rewrite C1. cbn. rewrite <- apply_app. reflexivity.
    + destruct (IH (discard_changes T E (statement_begin T E ed) true) n) as (ed' & n' & F & C & Ed).
      { cbn. rewrite C2, C3. repeat split. }
      { exact N. }
      exists ed', n'. split; [exact F|]. split; [exact C|]. rewrite Ed. reflexivity.
    + destruct (IH (snd (statement_complete_at T E total_apply n (statement_begin T E ed))) (S n)) as (ed' & n' & F & C & Ed).
      { unfold statement_complete_at, total_apply. cbn. rewrite C1, C2. repeat split. }
      { exact N. }
      exists ed', n'. split; [exact F|]. split; [exact C|]. rewrite Ed. unfold statement_complete_at, total_apply. cbn.
      rewrite C1, apply_nil. reflexivity.
    + destruct (IH (snd (statement_complete_at T E total_apply n (flush T E total_apply (statement_begin T E ed)))) (S n)) as (ed' & n' & F & C & Ed).
      { unfold statement_complete_at, flush, total_apply. cbn. rewrite C2. repeat split. }
      { exact N. }
      exists ed', n'. split; [exact F|]. split; [exact C|]. rewrite Ed. unfold statement_complete_at, flush, total_apply. cbn.
      rewrite C1, !apply_nil. reflexivity.
Qed.

(* INSERT IGNORE with no hard error applies every accepted row (ignorable errors only skip their row) *)
Theorem ckpt_success (t : T) (cs : list (call E)) :
  no_hard cs = true -> run_stmt_ckpt T E total_apply t cs = (ROk, apply t (good_edits E cs)).
Proof.
  intros N. unfold run_stmt_ckpt.
  destruct (feed_ckpt_clean cs (open_editor T E t) 1) as (ed' & n' & F & (C1 & C2 & C3) & Ed); [repeat split | exact N |].
  rewrite F. unfold close_editor_at, statement_complete_at, statement_begin, total_apply. cbn. rewrite C2, C1. cbn.
  rewrite !apply_nil, Ed. reflexivity.
Qed.

Lemma feed_ckpt_hard (pre post : list (call E)) : forall (ed : editor) n,
  clean ed -> no_hard pre = true ->
  exists ed' n', feed_ckpt T E total_apply ed n (pre ++ CBad false :: post) = (ed', Some false, n') /\
              discard _ _ ed' = true /\ initial _ _ ed' = apply (edited _ _ ed) (good_edits E pre).
Proof.
  induction pre as [|c t IH]; intros ed n (C1 & C2 & C3) N; cbn in *.
  - eexists. eexists. split; [reflexivity|]. cbn. rewrite apply_nil. auto.
  - destruct c as [e|[|]| |]; cbn in N; try discriminate.
    + destruct (IH (snd (statement_complete_at T E total_apply n (accumulate T E (statement_begin T E ed) e))) (S n)) as (ed' & n' & F & D & I).
      { unfold statement_complete_at, total_apply. cbn. rewrite C1, C2. repeat split. }
      { exact N. }
      exists ed', n'. split; [exact F|]. split; [exact D|]. rewrite I. unfold statement_complete_at, total_apply. cbn.
      rewrite C1. cbn. rewrite <- apply_app. reflexivity.
    + destruct (IH (discard_changes T E (statement_begin T E ed) true) n) as (ed' & n' & F & D & I).
      { cbn. rewrite C2, C3. repeat split. }
      { exact N. }
      exists ed', n'. split; [exact F|]. split; [exact D|]. rewrite I. reflexivity.
    + destruct (IH (snd (statement_complete_at T E total_apply n (statement_begin T E ed))) (S n)) as (ed' & n' & F & D & I).
      { unfold statement_complete_at, total_apply. cbn. rewrite C1, C2. repeat split. }
      { exact N. }
      exists ed', n'. split; [exact F|]. split; [exact D|]. rewrite I. unfold statement_complete_at, total_apply. cbn.
      rewrite C1, apply_nil. reflexivity.
    + destruct (IH (snd (statement_complete_at T E total_apply n (flush T E total_apply (statement_begin T E ed)))) (S n)) as (ed' & n' & F & D & I).
      { unfold statement_complete_at, flush, total_apply. cbn. rewrite C2. repeat split. }
      { exact N. }
      exists ed', n'. split; [exact F|]. split; [exact D|]. rewrite I. unfold statement_complete_at, flush, total_apply. cbn.
      rewrite C1, !apply_nil. reflexivity.
Qed.

(* ... but a hard error (a storage error) at row k reports the error and KEEPS the rows accepted before it: every
   row was its own statement *)
Theorem ckpt_hard_error_keeps_earlier_rows (t : T) (pre post : list (call E)) :
  no_hard pre = true ->
  run_stmt_ckpt T E total_apply t (pre ++ CBad false :: post) = (RErr, apply t (good_edits E pre)).
Proof.
  intros N. unfold run_stmt_ckpt.
  destruct (feed_ckpt_hard pre post (open_editor T E t) 1) as (ed' & n' & F & D & I); [repeat split | exact N |].
  rewrite F. unfold close_editor_at. rewrite D. cbn. rewrite I. reflexivity.
Qed.
End Total.

(* ---- concrete instances for the refutations: tables are lists of numbers, ApplyEdits appends ---- *)
Definition app_apply (_ : nat) (t : list nat) (es : list nat) : option (list nat) * list nat := (Some (t ++ es), t ++ es).

(* the audit rows written by the trigger for rows 1..k survive the failure of row k *)
Lemma trigger_effects_survive :
  run_stmt_trig (list nat) nat app_apply nat (fun a => a) [] []
    [(Some 101, CGood 1); (Some 102, CGood 2); (Some 103, CBad false)] = (RErr, [], [101; 102; 103]).
Proof. reflexivity. Qed.

(* the same when the trigger body itself signals an error at row 3 *)
Lemma trigger_signal_effects_survive :
  run_stmt_trig (list nat) nat app_apply nat (fun a => a) [] []
    [(Some 101, CGood 1); (Some 102, CGood 2); (None, CGood 3)] = (RErr, [], [101; 102]).
Proof. reflexivity. Qed.

(* INSERT IGNORE: rows 1 and 3 accepted, row 2 skipped (ignorable), hard error at row 4: rows 1 and 3 stay *)
Lemma ckpt_keeps_rows_witness :
  run_stmt_ckpt (list nat) nat app_apply [7] [CGood 1; CBad true; CGood 3; CBad false; CGood 5] = (RErr, [7; 1; 3]).
Proof. reflexivity. Qed.

(* an ApplyEdits that fails after its first edit: the statement reports an error but the table keeps that edit *)
Definition failing_apply (_ : nat) (t : list nat) (es : list nat) : option (list nat) * list nat :=
  match es with
  | [] => (Some t, t)
  | [e] => (Some (t ++ [e]), t ++ [e])
  | e :: _ => (None, t ++ [e])
  end.

Lemma apply_failure_leaves_partial_edits :
  run_stmt (list nat) nat failing_apply [] [CGood 1; CGood 2] = (RErr, [1; 1]).
Proof. reflexivity. Qed.

(* a one-shot storage error in the SECOND ApplyEdits call (tableEditor.Close, after StatementComplete has applied and
   published everything): the statement is reported as failed although all of its changes are in place *)
Definition close_fault_apply (n : nat) (t : list nat) (es : list nat) : option (list nat) * list nat :=
  if Nat.eqb n 2 then (None, t) else (Some (t ++ es), t ++ es).

Lemma apply_error_at_close_after_publish :
  run_stmt (list nat) nat close_fault_apply [7] [CGood 1; CGood 2] = (RErr, [7; 1; 2]).
Proof. reflexivity. Qed.

(* a one-shot error in the FIRST call is now reported by StatementComplete — but TableEditorIter.Close does not
   discard after it, and tableEditor.Close retries ApplyEdits and publishes: reported as failed, fully applied *)
Definition first_fault_apply (n : nat) (t : list nat) (es : list nat) : option (list nat) * list nat :=
  if Nat.eqb n 1 then (None, t) else (Some (t ++ es), t ++ es).

Lemma apply_error_in_statement_complete_is_reported_but_applied :
  run_stmt (list nat) nat first_fault_apply [7] [CGood 1; CGood 2] = (RErr, [7; 1; 2]).
Proof. reflexivity. Qed.

(* INSERT IGNORE with a one-shot storage error in the ApplyEdits of row 1's StatementComplete: the error is reported
   and the loop stops (before 647a7064d it was swallowed, row 2's DiscardChanges cleared the accumulator and the
   statement SUCCEEDED without row 1); the retry in Close still applies the pending row 1 *)
Lemma apply_error_in_insert_ignore_is_reported :
  run_stmt_ckpt (list nat) nat first_fault_apply [7] [CGood 1; CBad true; CGood 3] = (RErr, [7; 1]).
Proof. reflexivity. Qed.
