(* C15 — proofs about the statement protocol model (Store/C15Editor.v). *)
From Coq Require Import List Bool Arith Lia.
Import ListNotations.
From GMS Require Import Store.C15Editor.

Section Proofs.
Variable T E : Type.
Variable apply_opt : nat -> T -> list E -> option T * T.

Notation editor := (editor T E).
Notation call := (call E).

(* position of the first failing call and whether its error is ignorable *)
Fixpoint first_bad (cs : list call) : option bool :=
  match cs with
  | [] => None
  | CGood _ :: t => first_bad t
  | CBad ig :: _ => Some ig
  end.

Lemma feed_initial (cs : list call) : forall ed : editor,
  initial _ _ (fst (feed T E ed cs)) = initial _ _ ed /\ discard _ _ (fst (feed T E ed cs)) = discard _ _ ed
  /\ published _ _ (fst (feed T E ed cs)) = published _ _ ed /\ edited _ _ (fst (feed T E ed cs)) = edited _ _ ed.
Proof.
  induction cs as [|c t IH]; intros ed; cbn; auto.
  destruct c as [e|ig]; cbn; auto. destruct (IH (accumulate T E ed e)) as (H1 & H2 & H3 & H4). cbn in *. auto.
Qed.

Lemma feed_err (cs : list call) : forall ed : editor, snd (feed T E ed cs) = first_bad cs.
Proof. induction cs as [|c t IH]; intros ed; cbn; auto. destruct c; cbn; auto. Qed.

Lemma feed_good (cs : list call) : forall ed : editor,
  all_good E cs = true -> acc _ _ (fst (feed T E ed cs)) = acc _ _ ed ++ good_edits E cs.
Proof.
  induction cs as [|c t IH]; intros ed H; cbn in *; [rewrite app_nil_r; reflexivity|].
  destruct c as [e|ig]; [|discriminate]. rewrite IH by exact H. cbn. rewrite <- app_assoc. reflexivity.
Qed.

Lemma first_bad_all_good cs : all_good E cs = true -> first_bad cs = None.
Proof. induction cs as [|c t IH]; cbn; auto. destruct c; [exact IH|discriminate]. Qed.

(* a statement whose first failing row-edit call — at ANY position — returns a non-ignorable error reports the
   error and leaves the table (rows and indexes: all of T) exactly as before, whatever ApplyEdits would do *)
Theorem stmt_atomic (t : T) (cs : list call) :
  first_bad cs = Some false -> run_stmt T E apply_opt t cs = (RErr, t).
Proof.
  intros H. unfold run_stmt.
  destruct (feed T E (statement_begin T E (open_editor T E t)) cs) as [ed1 err] eqn:F.
  pose proof (feed_err cs (statement_begin T E (open_editor T E t))) as Herr. rewrite F in Herr. cbn in Herr.
  rewrite H in Herr. subst err.
  pose proof (feed_initial cs (statement_begin T E (open_editor T E t))) as (H1 & _). rewrite F in H1. cbn in H1.
  unfold discard_changes, close_editor. cbn. rewrite H1. reflexivity.
Qed.

Lemma first_bad_app pre post ig : all_good E pre = true -> first_bad (pre ++ CBad ig :: post) = Some ig.
Proof. induction pre as [|c t IH]; cbn; auto. destruct c; [exact IH|discriminate]. Qed.

Theorem stmt_atomic_at_any_position (t : T) (pre post : list call) :
  all_good E pre = true -> run_stmt T E apply_opt t (pre ++ CBad false :: post) = (RErr, t).
Proof. intros H. apply stmt_atomic. apply first_bad_app. exact H. Qed.

Lemma inject_split (cs : list call) : forall k, 1 <= k <= length cs ->
  inject E k cs = firstn (k - 1) cs ++ CBad false :: skipn k cs.
Proof.
  induction cs as [|c t IH]; intros k H; [cbn in H; lia|].
  destruct k as [|[|k]]; [lia | reflexivity |].
  change (inject E (S (S k)) (c :: t)) with (c :: inject E (S k) t).
  rewrite IH by (cbn in H; lia).
  replace (S (S k) - 1) with (S k) by lia. replace (S k - 1) with k by lia. reflexivity.
Qed.

Lemma all_good_firstn n : forall cs : list call, all_good E cs = true -> all_good E (firstn n cs) = true.
Proof.
  induction n as [|n IH]; intros cs H; [reflexivity|]. destruct cs as [|c t]; [reflexivity|].
  cbn in *. apply andb_prop in H. destruct H as [H1 H2]. rewrite H1. cbn. apply IH. exact H2.
Qed.

(* the injected storage error at the k-th row-edit call, for every k within the statement *)
Theorem stmt_atomic_injected (t : T) (cs : list call) (k : nat) :
  1 <= k <= length cs -> all_good E (firstn (k - 1) cs) = true ->
  run_stmt T E apply_opt t (inject E k cs) = (RErr, t).
Proof. intros H G. rewrite inject_split by exact H. apply stmt_atomic_at_any_position. exact G. Qed.

(* the target table of a statement with a BEFORE INSERT trigger is restored as well ... *)
Variable A : Type.
Variable audit_edit : A -> E.

Fixpoint first_bad_trig (cs : list (A * call)) : option bool :=
  match cs with
  | [] => None
  | (_, CGood _) :: t => first_bad_trig t
  | (_, CBad ig) :: _ => Some ig
  end.

Lemma feed_trig_initial (cs : list (A * call)) : forall (ed : editor) other,
  initial _ _ (fst (fst (feed_trig T E apply_opt A audit_edit ed other cs))) = initial _ _ ed /\
  snd (feed_trig T E apply_opt A audit_edit ed other cs) = first_bad_trig cs.
Proof.
  induction cs as [|[a c] t IH]; intros ed other; cbn; auto.
  destruct c as [e|ig]; cbn; auto. destruct (IH (accumulate T E ed e) (snd (run_stmt T E apply_opt other [CGood (audit_edit a)]))) as (H1 & H2).
  cbn in *. auto.
Qed.

Theorem stmt_trig_target_atomic (t other : T) (cs : list (A * call)) :
  first_bad_trig cs = Some false ->
  exists other', run_stmt_trig T E apply_opt A audit_edit t other cs = (RErr, t, other').
Proof.
  intros H. unfold run_stmt_trig.
  destruct (feed_trig T E apply_opt A audit_edit (statement_begin T E (open_editor T E t)) other cs) as [[ed1 o'] err] eqn:F.
  destruct (feed_trig_initial cs (statement_begin T E (open_editor T E t)) other) as (H1 & H2).
  rewrite F in H1, H2. cbn in H1, H2. rewrite H in H2. subst err. exists o'.
  unfold discard_changes, close_editor. cbn. rewrite H1. reflexivity.
Qed.

End Proofs.

(* ---- with a total ApplyEdits ---- *)
Section Total.
Variable T E : Type.
Variable apply : T -> list E -> T.
Definition total_apply (_ : nat) (t : T) (es : list E) : option T * T := (Some (apply t es), apply t es).

(* a statement all of whose row-edit calls succeed reports success and publishes ApplyEdits of ALL its edits *)
Theorem stmt_all_or_nothing (t : T) (cs : list (call E)) :
  all_good E cs = true -> (forall x, apply x [] = x) ->
  run_stmt T E total_apply t cs = (ROk, apply t (good_edits E cs)).
Proof.
  intros G AN. unfold run_stmt.
  destruct (feed T E (statement_begin T E (open_editor T E t)) cs) as [ed1 err] eqn:F.
  pose proof (feed_err T E cs (statement_begin T E (open_editor T E t))) as Herr. rewrite F in Herr. cbn in Herr.
  rewrite (first_bad_all_good _ cs G) in Herr. subst err.
  pose proof (feed_initial T E cs (statement_begin T E (open_editor T E t))) as (_ & H2 & _ & H4).
  pose proof (feed_good T E cs (statement_begin T E (open_editor T E t)) G) as H5.
  rewrite F in H2, H4, H5. cbn in H2, H4, H5.
  unfold statement_complete, close_editor, total_apply. cbn. rewrite H2. cbn. rewrite H4, H5. rewrite AN. reflexivity.
Qed.
End Total.

(* ---- concrete instances for the refutations: tables are lists of numbers, ApplyEdits appends ---- *)
Definition app_apply (_ : nat) (t : list nat) (es : list nat) : option (list nat) * list nat := (Some (t ++ es), t ++ es).

(* the audit rows written by the trigger for rows 1..k survive the failure of row k *)
Lemma trigger_effects_survive :
  run_stmt_trig (list nat) nat app_apply nat (fun a => a) [] []
    [(101, CGood 1); (102, CGood 2); (103, CBad false)] = (RErr, [], [101; 102; 103]).
Proof. reflexivity. Qed.

(* an ApplyEdits that fails after its first edit: the statement reports an error but the table keeps that edit *)
Definition failing_apply (_ : nat) (t : list nat) (es : list nat) : option (list nat) * list nat :=
  match es with
  | [] => (Some t, t)
  | [e] => (Some (t ++ [e]), t ++ [e])
  | e :: _ => (None, t ++ [e])
  end.

Lemma apply_failure_leaves_partial_edits :
  run_stmt (list nat) nat failing_apply [] [CGood 1; CGood 2] = (RErr, [1; 1]).
Proof. reflexivity. Qed.

(* a one-shot storage error in the SECOND ApplyEdits call (tableEditor.Close, after StatementComplete has applied and
   published everything): the statement is reported as failed although all of its changes are in place *)
Definition close_fault_apply (n : nat) (t : list nat) (es : list nat) : option (list nat) * list nat :=
  if Nat.eqb n 2 then (None, t) else (Some (t ++ es), t ++ es).

Lemma apply_error_at_close_after_publish :
  run_stmt (list nat) nat close_fault_apply [7] [CGood 1; CGood 2] = (RErr, [7; 1; 2]).
Proof. reflexivity. Qed.

(* a one-shot error in the FIRST call (StatementComplete swallows it: returns nil) is repaired by the retry in Close *)
Definition first_fault_apply (n : nat) (t : list nat) (es : list nat) : option (list nat) * list nat :=
  if Nat.eqb n 1 then (None, t) else (Some (t ++ es), t ++ es).

Lemma apply_error_in_statement_complete_is_swallowed :
  run_stmt (list nat) nat first_fault_apply [7] [CGood 1; CGood 2] = (ROk, [7; 1; 2]).
Proof. reflexivity. Qed.
