(* C16 — model of the in-memory table storage with secondary indexes (go-mysql-server, package memory).

   Mirrors  memory/table_editor.go : addRowToIndexes, deleteRowFromIndexes, pkTableEditAccumulator.deleteHelper /
            insertHelper / ApplyEdits, keylessTableEditAccumulator.deleteHelper / insertHelper / ApplyEdits,
            memory/table_data.go   : truncate, sortRows (sort.Sort over partitionssort), sortSecondaryIndexes,
            memory/table.go        : partitionssort.Swap, CreateIndex + BuildIndex (table rewrite), DropIndex,
                                     RenameIndex, indexScanRowIter.Next.

   Representation choices (documented in docs/C16.md):
   * partitions are a list (partition "i" is position i); a location is (partition, row index);
   * [defs] is TableData.indexes: keyed by the LOWER-CASED name, the value carries the index's own Name;
   * [stor] is TableData.secondaryIndexStorage: keyed by the index's own Name (as addRowToIndexes and the read path
     do), [skeys] is the key set of that Go map (needed because sortSecondaryIndexes ranges over it);
   * an identifier is (id, has_upper): lower-casing clears the flag.  DropIndex and RenameIndex address the storage
     by the index's own name (since /repo b327559e5; before, the lower-cased map key was used / nothing was moved);
   * Go map iteration order (cmap.Foreach over deletes/adds) is not modelled: every theorem is per operation and
     quantified over the order in which rows are handed to the helpers. *)
From Coq Require Import List NArith ZArith Bool Arith Lia.
Import ListNotations.

(* ---------- values ---------- *)
Inductive val := VNull | VInt (z : Z) | VStr (s : list N).
Definition row := list val.

Fixpoint ns_eqb (a b : list N) : bool :=
  match a, b with
  | [], [] => true
  | x :: a', y :: b' => N.eqb x y && ns_eqb a' b'
  | _, _ => false
  end.

Definition val_eqb (a b : val) : bool :=
  match a, b with
  | VNull, VNull => true
  | VInt x, VInt y => Z.eqb x y
  | VStr x, VStr y => ns_eqb x y
  | _, _ => false
  end.

Fixpoint row_eqb (a b : row) : bool :=
  match a, b with
  | [], [] => true
  | x :: a', y :: b' => val_eqb x y && row_eqb a' b'
  | _, _ => false
  end.

Fixpoint ns_cmp (a b : list N) : comparison :=
  match a, b with
  | [], [] => Eq
  | [], _ => Lt
  | _, [] => Gt
  | x :: a', y :: b' => match N.compare x y with Eq => ns_cmp a' b' | c => c end
  end.

(* sortSecondaryIndexes: nil sorts before everything, otherwise Type.Compare (integers numerically, strings of the
   binary collation bytewise).  Values of one column have one type; the VInt/VStr order is never exercised. *)
Definition val_cmp (a b : val) : comparison :=
  match a, b with
  | VNull, VNull => Eq
  | VNull, _ => Lt
  | _, VNull => Gt
  | VInt x, VInt y => Z.compare x y
  | VInt _, VStr _ => Lt
  | VStr _, VInt _ => Gt
  | VStr x, VStr y => ns_cmp x y
  end.

Definition col (c : nat) (r : row) : val := nth c r VNull.

(* ---------- identifiers ---------- *)
Definition name := (N * bool)%type.               (* (identifier, contains an upper-case letter) *)
Definition lower (n : name) : name := (fst n, false).
Definition name_eqb (a b : name) : bool := N.eqb (fst a) (fst b) && Bool.eqb (snd a) (snd b).

(* ---------- locations, partitions ---------- *)
Definition loc := (nat * nat)%type.
Definition loc_eqb (a b : loc) : bool := Nat.eqb (fst a) (fst b) && Nat.eqb (snd a) (snd b).

Definition part (ps : list (list row)) (p : nat) : list row := nth p ps [].

Fixpoint upd_part (ps : list (list row)) (p : nat) (f : list row -> list row) : list (list row) :=
  match ps, p with
  | [], _ => []
  | x :: t, O => f x :: t
  | x :: t, S p' => x :: upd_part t p' f
  end.

Definition row_at (ps : list (list row)) (l : loc) : option row := nth_error (part ps (fst l)) (snd l).

Fixpoint remove_nth {A} (i : nat) (l : list A) : list A :=
  match l, i with
  | [], _ => []
  | _ :: t, O => t
  | x :: t, S i' => x :: remove_nth i' t
  end.

Fixpoint set_nth {A} (i : nat) (v : A) (l : list A) : list A :=
  match l, i with
  | [], _ => []
  | _ :: t, O => v :: t
  | x :: t, S i' => x :: set_nth i' v t
  end.

(* ---------- index definitions and storage ---------- *)
Definition entry := (row * loc)%type.             (* key tuple, primaryRowLocation *)

Record idef := { iname : name;                    (* Index.Name *)
                 icols : list nat;                (* ordinals of ExtendedExprs: index columns then missing pk columns *)
                 nsort : nat }.                   (* len(Index.Exprs): columns sortSecondaryIndexes compares *)

Record tdata := {
  parts : list (list row);
  pkcols : list nat;                              (* schema.PkOrdinals; [] = keyless table *)
  defs : list (name * idef);                      (* TableData.indexes, key = lower-cased name *)
  stor : name -> list entry;                      (* TableData.secondaryIndexStorage *)
  skeys : list name                               (* its key set *)
}.

Definition key_of (d : idef) (r : row) : row := map (fun c => col c r) (icols d).

(* the index whose own Name is [nm] (names are unique: createIndex rejects a duplicate lower-cased name) *)
Definition def_named (ds : list (name * idef)) (nm : name) : option idef :=
  match find (fun kd => name_eqb (iname (snd kd)) nm) ds with Some kd => Some (snd kd) | None => None end.

Definition def_keyed (ds : list (name * idef)) (k : name) : option idef :=
  match find (fun kd => name_eqb (fst kd) k) ds with Some kd => Some (snd kd) | None => None end.

Definition mem_name (n : name) (l : list name) : bool := existsb (name_eqb n) l.
Definition add_key (n : name) (l : list name) : list name := if mem_name n l then l else l ++ [n].

(* addRowToIndexes: every index gets (key tuple, location) appended to the storage kept under its Name *)
Definition add_row_to_indexes (td : tdata) (r : row) (l : loc) : tdata :=
  {| parts := parts td; pkcols := pkcols td; defs := defs td;
     stor := fun nm => match def_named (defs td) nm with
                       | Some d => stor td nm ++ [(key_of d r, l)]
                       | None => stor td nm
                       end;
     skeys := fold_left (fun ks kd => add_key (iname (snd kd)) ks) (defs td) (skeys td) |}.

(* deleteRowFromIndexes: drop the entry at the location, decrement larger row indexes of the same partition *)
Definition shift (l l' : loc) : loc :=
  if Nat.eqb (fst l') (fst l) && Nat.ltb (snd l) (snd l') then (fst l', snd l' - 1) else l'.

Definition del_loc (l : loc) (es : list entry) : list entry :=
  flat_map (fun e => if loc_eqb (snd e) l then [] else [(fst e, shift l (snd e))]) es.

Definition delete_row_from_indexes (td : tdata) (l : loc) : tdata :=
  {| parts := parts td; pkcols := pkcols td; defs := defs td;
     stor := fun nm => match def_named (defs td) nm with
                       | Some _ => del_loc l (stor td nm)
                       | None => stor td nm
                       end;
     skeys := skeys td |}.

(* first row satisfying [f], scanning partitions and rows in order *)
Fixpoint find_in_part (f : row -> bool) (rs : list row) (i : nat) : option nat :=
  match rs with
  | [] => None
  | r :: t => if f r then Some i else find_in_part f t (S i)
  end.

Fixpoint find_row (f : row -> bool) (ps : list (list row)) (p : nat) : option loc :=
  match ps with
  | [] => None
  | rs :: t => match find_in_part f rs 0 with
               | Some i => Some (p, i)
               | None => find_row f t (S p)
               end
  end.

Definition pk_match (pks : list nat) (a b : row) : bool :=
  forallb (fun c => val_eqb (col c a) (col c b)) pks.

(* deleteHelper (both accumulators): a row matches on the primary key (keyed tables) or on every column *)
Definition del_pred (td : tdata) (r : row) (x : row) : bool :=
  match pkcols td with
  | [] => row_eqb x r
  | pks => pk_match pks x r || row_eqb x r
  end.

Definition with_parts (td : tdata) (ps : list (list row)) : tdata :=
  {| parts := ps; pkcols := pkcols td; defs := defs td; stor := stor td; skeys := skeys td |}.

Definition delete_helper (td : tdata) (r : row) : tdata :=
  match find_row (del_pred td r) (parts td) 0 with
  | Some l => delete_row_from_indexes (with_parts td (upd_part (parts td) (fst l) (remove_nth (snd l)))) l
  | None => td        (* deleteRowFromIndexes(table, "", 0): no partition is called "" *)
  end.

(* insertHelper: keyed tables overwrite a row with an equal primary key in place (and STILL append index entries);
   otherwise the row is appended to its hash partition [p] *)
Definition insert_helper (td : tdata) (p : nat) (r : row) : tdata :=
  let existing := match pkcols td with [] => None | pks => find_row (fun x => pk_match pks x r) (parts td) 0 end in
  match existing with
  | Some l => add_row_to_indexes (with_parts td (upd_part (parts td) (fst l) (set_nth (snd l) r))) r l
  | None => let l := (p, length (part (parts td) p)) in
            add_row_to_indexes (with_parts td (upd_part (parts td) p (fun rs => rs ++ [r]))) r l
  end.

(* partitionssort.Swap: exchange two primary rows and patch every storage row pointing at either *)
Definition patch (l1 l2 l : loc) : loc :=
  if loc_eqb l l1 then l2 else if loc_eqb l l2 then l1 else l.

Definition set_row (ps : list (list row)) (l : loc) (r : row) := upd_part ps (fst l) (set_nth (snd l) r).

Definition swap_td (td : tdata) (l1 l2 : loc) : tdata :=
  match row_at (parts td) l1, row_at (parts td) l2 with
  | Some r1, Some r2 =>
      {| parts := set_row (set_row (parts td) l1 r2) l2 r1; pkcols := pkcols td; defs := defs td;
         stor := fun nm => map (fun e => (fst e, patch l1 l2 (snd e))) (stor td nm);
         skeys := skeys td |}
  | _, _ => td
  end.

(* sortRows: sort.Sort drives Less/Swap only.  Executable stand-in: bubble passes over the flattened rows.  The
   theorems hold for ANY sequence of Swap calls ([do_swaps]); with unique primary keys the sorted result is unique. *)
Definition do_swaps (td : tdata) (sw : list (loc * loc)) : tdata :=
  fold_left (fun t s => swap_td t (fst s) (snd s)) sw td.

Fixpoint flat_locs_from (ps : list (list row)) (p : nat) : list loc :=
  match ps with
  | [] => []
  | rs :: t => map (fun i => (p, i)) (seq 0 (length rs)) ++ flat_locs_from t (S p)
  end.
Definition flat_locs (ps : list (list row)) : list loc := flat_locs_from ps 0.

Fixpoint row_cmp (cs : list nat) (a b : row) : comparison :=
  match cs with
  | [] => Eq
  | c :: t => match val_cmp (col c a) (col c b) with Eq => row_cmp t a b | x => x end
  end.

Fixpoint bubble_pass (td : tdata) (ls : list loc) : tdata :=
  match ls with
  | l1 :: ((l2 :: _) as t) =>
      let td' := match row_at (parts td) l1, row_at (parts td) l2 with
                 | Some r1, Some r2 => match row_cmp (pkcols td) r1 r2 with Gt => swap_td td l1 l2 | _ => td end
                 | _, _ => td
                 end in
      bubble_pass td' t
  | _ => td
  end.

Fixpoint bubble (n : nat) (td : tdata) : tdata :=
  match n with O => td | S n' => bubble n' (bubble_pass td (flat_locs (parts td))) end.

Definition sort_rows (td : tdata) : tdata := bubble (length (flat_locs (parts td))) td.

(* sortSecondaryIndexes: for every KEY of the storage map, look the index up under the lower-cased key (a missing
   index makes the type assertion panic) and stable-sort the storage on the first [nsort] key columns *)
Fixpoint key_cmp (n : nat) (a b : row) : comparison :=
  match n, a, b with
  | S n', x :: a', y :: b' => match val_cmp x y with Eq => key_cmp n' a' b' | c => c end
  | _, _, _ => Eq
  end.

Fixpoint ins_entry (n : nat) (x : entry) (l : list entry) : list entry :=
  match l with
  | [] => [x]
  | y :: t => match key_cmp n (fst x) (fst y) with Gt => y :: ins_entry n x t | _ => x :: y :: t end
  end.
Definition sort_entries (n : nat) (l : list entry) : list entry := fold_right (ins_entry n) [] l.

Definition stale_key (td : tdata) (k : name) : bool :=
  match def_keyed (defs td) (lower k) with Some _ => false | None => true end.

Inductive outcome := Ok (td : tdata) | Panic.

Definition sort_secondary (td : tdata) : outcome :=
  if existsb (stale_key td) (skeys td) then Panic
  else Ok {| parts := parts td; pkcols := pkcols td; defs := defs td;
             stor := fun nm => if mem_name nm (skeys td)
                               then match def_keyed (defs td) (lower nm) with
                                    | Some d => sort_entries (nsort d) (stor td nm)
                                    | None => stor td nm
                                    end
                               else stor td nm;
             skeys := skeys td |}.

(* ApplyEdits: all deletes, then all adds (each with its hash partition), then the sorts *)
Definition apply_rows (td : tdata) (dels : list row) (adds : list (nat * row)) : tdata :=
  fold_left (fun t a => insert_helper t (fst a) (snd a)) adds (fold_left delete_helper dels td).

Definition apply_edits (td : tdata) (dels : list row) (adds : list (nat * row)) : outcome :=
  let td1 := apply_rows td dels adds in
  match pkcols td with
  | [] => sort_secondary td1
  | _ => sort_secondary (sort_rows td1)
  end.

(* TableData.truncate *)
Definition truncate (td : tdata) : tdata :=
  {| parts := map (fun _ => []) (parts td); pkcols := pkcols td; defs := defs td;
     stor := fun _ => []; skeys := [] |}.

Definition all_rows (td : tdata) : list row := concat (parts td).

(* CREATE INDEX: CreateIndex registers the definition under the lower-cased name (duplicate => error, no change),
   then BuildIndex rewrites the table: truncate, re-insert every row (at its hash partition), ApplyEdits *)
Definition add_def (td : tdata) (d : idef) : tdata :=
  {| parts := parts td; pkcols := pkcols td; defs := defs td ++ [(lower (iname d), d)];
     stor := stor td; skeys := skeys td |}.

Definition create_index (hp : row -> nat) (td : tdata) (d : idef) : outcome :=
  match def_keyed (defs td) (lower (iname d)) with
  | Some _ => Ok td
  | None => apply_edits (truncate (add_def td d)) [] (map (fun r => (hp r, r)) (all_rows td))
  end.

(* DropIndex: delete(data.secondaryIndexStorage, indexName(idx.ID())) — the index's own, case-preserving name — and
   delete(data.indexes, key) *)
Definition drop_index (td : tdata) (nm : name) : tdata :=
  let k := lower nm in
  match def_keyed (defs td) k with
  | None => td
  | Some d =>
      {| parts := parts td; pkcols := pkcols td;
         defs := filter (fun kd => negb (name_eqb (fst kd) k)) (defs td);
         stor := fun n => if name_eqb n (iname d) then [] else stor td n;
         skeys := filter (fun n => negb (name_eqb n (iname d))) (skeys td) |}
  end.

(* RenameIndex: re-key the definition, change Index.Name, and move the storage entry (if there is one) from the old
   name to the new one *)
Definition rename_index (td : tdata) (old new : name) : tdata :=
  if name_eqb old new then td else
  match def_keyed (defs td) (lower old), def_keyed (defs td) (lower new) with
  | Some d, None =>
      let moved := mem_name (iname d) (skeys td) in
      {| parts := parts td; pkcols := pkcols td;
         defs := filter (fun kd => negb (name_eqb (fst kd) (lower old))) (defs td)
                 ++ [(lower new, {| iname := new; icols := icols d; nsort := nsort d |})];
         stor := fun n => if moved then (if name_eqb n new then stor td (iname d)
                                         else if name_eqb n (iname d) then [] else stor td n)
                          else stor td n;
         skeys := if moved then add_key new (filter (fun n => negb (name_eqb n (iname d))) (skeys td)) else skeys td |}
  | _, _ => td
  end.

(* indexScanRowIter.Next: walk the storage kept under Index.Name, skip locations past the partition end, keep the
   entries whose key satisfies the range filter, return the primary rows they point at *)
Definition index_lookup (td : tdata) (nm : name) (p : row -> bool) : list row :=
  flat_map (fun e => match row_at (parts td) (snd e) with
                     | Some r => if p (fst e) then [r] else []
                     | None => []
                     end) (stor td nm).

(* ---------- histories ---------- *)
Inductive op :=
| OApply (dels : list row) (adds : list row)      (* one successful DML statement's ApplyEdits *)
| OTruncate
| OCreate (d : idef)
| ODrop (nm : name)
| ORename (old new : name)
| ONop                                           (* a statement that failed before ApplyEdits *)
| OCreateFailed (d : idef).                      (* CREATE INDEX whose table rewrite failed: CreateIndex has already
                                                    registered the definition in the shared indexes map, the rewrite
                                                    is discarded, nothing un-registers the index *)

Definition step (hp : row -> nat) (td : tdata) (o : op) : outcome :=
  match o with
  | OApply dels adds => apply_edits td dels (map (fun r => (hp r, r)) adds)
  | OTruncate => Ok (truncate td)
  | OCreate d => create_index hp td d
  | ODrop nm => Ok (drop_index td nm)
  | ORename a b => Ok (rename_index td a b)
  | ONop => Ok td
  | OCreateFailed d => match def_keyed (defs td) (lower (iname d)) with
                       | Some _ => Ok td
                       | None => Ok (add_def td d)
                       end
  end.

Fixpoint run (hp : row -> nat) (td : tdata) (h : list op) : outcome :=
  match h with
  | [] => Ok td
  | o :: t => match step hp td o with Ok td' => run hp td' t | Panic => Panic end
  end.

Definition init (nparts : nat) (pks : list nat) : tdata :=
  {| parts := repeat [] nparts; pkcols := pks; defs := []; stor := fun _ => []; skeys := [] |}.

(* ---------- the guard under which the helpers are meant to run ----------
   tableEditor.Insert / Update look the new primary key up (ea.Get) before accumulating an add, so insertHelper is
   only ever handed a row whose primary key is absent from the table once the statement's deletes are applied; and
   TableData.partition returns an index below len(partitionKeys).  [hist_ok] says exactly that of a history (and
   that it contains no CREATE INDEX whose rewrite failed, which is treated separately). *)
Definition fresh_insert (td : tdata) (p : nat) (r : row) : bool :=
  Nat.ltb p (length (parts td)) &&
  match pkcols td with
  | [] => true
  | pks => match find_row (fun x => pk_match pks x r) (parts td) 0 with None => true | Some _ => false end
  end.

Fixpoint fresh_adds (td : tdata) (adds : list (nat * row)) : bool :=
  match adds with
  | [] => true
  | a :: t => fresh_insert td (fst a) (snd a) && fresh_adds (insert_helper td (fst a) (snd a)) t
  end.

Definition apply_fresh (td : tdata) (dels : list row) (adds : list (nat * row)) : bool :=
  fresh_adds (fold_left delete_helper dels td) adds.

Definition step_ok (hp : row -> nat) (td : tdata) (o : op) : bool :=
  match o with
  | OApply dels adds => apply_fresh td dels (map (fun r => (hp r, r)) adds)
  | OCreate d => match def_keyed (defs td) (lower (iname d)) with
                 | Some _ => true
                 | None => apply_fresh (truncate (add_def td d)) [] (map (fun r => (hp r, r)) (all_rows td))
                 end
  | OCreateFailed _ => false
  | _ => true
  end.

Fixpoint hist_ok (hp : row -> nat) (td : tdata) (h : list op) : bool :=
  match h with
  | [] => true
  | o :: t => step_ok hp td o && match step hp td o with Ok td' => hist_ok hp td' t | Panic => true end
  end.

(* all index names of a history are lower-case (then DropIndex removes the right storage key) *)
Definition op_lower (o : op) : bool :=
  match o with
  | OCreate d => negb (snd (iname d))
  | _ => true
  end.
