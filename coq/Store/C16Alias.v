(* C16/C15 — the aliasing between TableData copies.

   memory.TableData.copy() copies the partition slices and the slices of index storage rows, but an index storage
   row is itself a slice (sql.Row): the copy shares its cells with the original.  deleteRowFromIndexes and
   partitionssort.Swap patch the location stored in a cell IN PLACE, so they also change what a snapshot taken
   earlier (tableEditor.StatementBegin: initialTable = editedTable.copy()) sees.

   Model (one partition, one index): the cells live in a heap shared by all copies; a table value holds its rows and
   its own list of references into the heap.  A snapshot is a copy of the value, not of the heap. *)
From Coq Require Import List ZArith Bool Arith Lia.
Import ListNotations.

Definition arow := list Z.
Definition cell := (list Z * nat)%type.              (* key tuple, row index (primaryRowLocation.idx) *)
Definition heap := list cell.

Record adata := { arows : list arow; aview : list nat }.   (* rows of partition "0"; references to cells *)

Definition acopy (d : adata) : adata := {| arows := arows d; aview := aview d |}.   (* TableData.copy() *)

Fixpoint set_cell (h : heap) (i : nat) (c : cell) : heap :=
  match h, i with
  | [], _ => []
  | _ :: t, O => c :: t
  | x :: t, S i' => x :: set_cell t i' c
  end.

Definition get_cell (h : heap) (i : nat) : cell := nth i h ([], 0).

(* index on column [kc], extended by column 0 (the primary key) *)
Definition akey (kc : nat) (r : arow) : list Z := [nth kc r 0%Z; nth 0 r 0%Z].

(* insertHelper + addRowToIndexes: append the row, allocate a fresh cell, reference it *)
Definition a_insert (kc : nat) (hd : heap * adata) (r : arow) : heap * adata :=
  let '(h, d) := hd in
  (h ++ [(akey kc r, length (arows d))], {| arows := arows d ++ [r]; aview := aview d ++ [length h] |}).

Definition swap_rows (l : list arow) (i j : nat) : list arow :=
  match nth_error l i, nth_error l j with
  | Some a, Some b =>
      (fix set (l : list arow) (k : nat) : list arow :=
         match l with
         | [] => []
         | x :: t => (if Nat.eqb k i then b else if Nat.eqb k j then a else x) :: set t (S k)
         end) l 0
  | _, _ => l
  end.

(* partitionssort.Swap: swap two rows, then patch IN PLACE every cell referenced by THIS table's storage *)
Definition a_swap (hd : heap * adata) (i j : nat) : heap * adata :=
  let '(h, d) := hd in
  let h' := fold_left (fun h id => let '(k, l) := get_cell h id in
                                   if Nat.eqb l i then set_cell h id (k, j)
                                   else if Nat.eqb l j then set_cell h id (k, i) else h) (aview d) h in
  (h', {| arows := swap_rows (arows d) i j; aview := aview d |}).

(* sortRows: bubble passes on the primary key (column 0), every exchange through a_swap *)
Fixpoint a_pass (hd : heap * adata) (i n : nat) : heap * adata :=
  match n with
  | O => hd
  | S n' =>
      let d := snd hd in
      let hd' := match nth_error (arows d) i, nth_error (arows d) (S i) with
                 | Some a, Some b => if Z.ltb (nth 0 b 0%Z) (nth 0 a 0%Z) then a_swap hd i (S i) else hd
                 | _, _ => hd
                 end in
      a_pass hd' (S i) n'
  end.

Fixpoint a_sort (hd : heap * adata) (n : nat) : heap * adata :=
  match n with O => hd | S n' => a_sort (a_pass hd 0 (length (arows (snd hd)))) n' end.

(* ApplyEdits of a batch of inserted rows *)
Definition a_apply (kc : nat) (hd : heap * adata) (rs : list arow) : heap * adata :=
  let hd1 := fold_left (a_insert kc) rs hd in a_sort hd1 (length (arows (snd hd1))).

(* indexScanRowIter: follow the references, skip locations past the end *)
Definition a_lookup (h : heap) (d : adata) (p : list Z -> bool) : list arow :=
  flat_map (fun id => let '(k, l) := get_cell h id in
                      match nth_error (arows d) l with
                      | Some r => if p k then [r] else []
                      | None => []
                      end) (aview d).

(* a statement that applies its pending edits in the middle (tableEditor.IndexedAccess) and then fails:
   StatementBegin takes the snapshot, ApplyEdits runs on the edited table, DiscardChanges puts the snapshot back —
   but the heap is the one the edited table left behind *)
Definition a_failed_statement (kc : nat) (h : heap) (d : adata) (rs : list arow) : heap * adata :=
  let snapshot := acopy d in
  let '(h', _) := a_apply kc (h, d) rs in
  (h', snapshot).

(* what the restoration is supposed to guarantee *)
Definition restores (kc : nat) (h : heap) (d : adata) (rs : list arow) : Prop :=
  forall p, a_lookup (fst (a_failed_statement kc h d rs)) (snd (a_failed_statement kc h d rs)) p = a_lookup h d p.

(* ---- it holds when nothing is patched in place: rows that sort after every existing row only append ---- *)
Lemma get_cell_app h extra id : id < length h -> get_cell (h ++ extra) id = get_cell h id.
Proof. intros H. unfold get_cell. apply app_nth1. exact H. Qed.

Lemma a_lookup_heap_ext h extra d p :
  Forall (fun id => id < length h) (aview d) -> a_lookup (h ++ extra) d p = a_lookup h d p.
Proof.
  intros F. unfold a_lookup. induction (aview d) as [|id t IH]; [reflexivity|]. cbn [flat_map].
  inversion F as [|? ? Hid Ft]; subst. rewrite get_cell_app by exact Hid. rewrite IH by exact Ft. reflexivity.
Qed.

(* a value-copying snapshot (one that also copied the cells) would restore exactly *)
Lemma deep_snapshot_restores h d p (h' : heap) : a_lookup h (acopy d) p = a_lookup h d p.
Proof. reflexivity. Qed.

(* ---- and it fails as soon as the applied rows make sortRows move existing rows ---- *)
Definition w_rows : list arow := [[50; 1]; [60; 2]; [70; 0]]%Z.
(* storage of index ia(a): sorted by a -> cells 2,0,1 *)
Definition w_heap : heap := [([1; 50]%Z, 0); ([2; 60]%Z, 1); ([0; 70]%Z, 2)].
Definition w_data : adata := {| arows := w_rows; aview := [2; 0; 1] |}.

Lemma restoration_refuted : ~ restores 1 w_heap w_data [[10; 1]; [11; 2]]%Z.
Proof.
  unfold restores. intros H. specialize (H (fun _ => true)). vm_compute in H. discriminate.
Qed.

(* the snapshot's own lookup after the failed statement: the cells now say rows 2,3,4 — only row index 2 exists *)
Lemma restoration_witness_lookup :
  let hd := a_failed_statement 1 w_heap w_data [[10; 1]; [11; 2]]%Z in
  map (get_cell (fst hd)) (aview (snd hd)) = [([0; 70]%Z, 4); ([1; 50]%Z, 2); ([2; 60]%Z, 3)] /\
  a_lookup (fst hd) (snd hd) (fun _ => true) = [[70; 0]]%Z /\
  a_lookup w_heap w_data (fun _ => true) = [[70; 0]; [50; 1]; [60; 2]]%Z.
Proof. vm_compute. repeat split. Qed.

(* the restoration does hold whenever the statement's ApplyEdits only allocated new cells (no cell patched in place) *)
Lemma restores_if_heap_only_extended kc h d rs extra :
  fst (a_apply kc (h, d) rs) = h ++ extra -> Forall (fun id => id < length h) (aview d) -> restores kc h d rs.
Proof.
  intros E F p. unfold a_failed_statement. destruct (a_apply kc (h, d) rs) as [h' d'] eqn:A. cbn [fst snd] in *.
  subst h'. unfold acopy. apply (a_lookup_heap_ext h extra {| arows := arows d; aview := aview d |} p). exact F.
Qed.

Example restores_nonvacuous : restores 1 w_heap w_data [[80; 1]; [81; 2]]%Z.
Proof.
  apply (restores_if_heap_only_extended 1 w_heap w_data _ [([1; 80]%Z, 3); ([2; 81]%Z, 4)]).
  - vm_compute. reflexivity.
  - repeat constructor.
Qed.
