(* C19 - proofs about the write pipeline of Store/C19Check.v. *)
From Coq Require Import List ZArith Bool Lia.
Import ListNotations.
From GMS Require Import Store.C19Check.
Open Scope Z_scope.

(* ---------- list plumbing ---------- *)
Lemma nth_as_error {A} (l : list A) i d : nth i l d = match nth_error l i with Some x => x | None => d end.
Proof. revert i. induction l as [|a l IH]; intros [|i]; cbn; auto. Qed.

Lemma map2_nth_error {A B C} (f : A -> B -> C) l m i :
  nth_error (map2 f l m) i =
  match nth_error l i, nth_error m i with Some a, Some b => Some (f a b) | _, _ => None end.
Proof.
  revert m i. induction l as [|a l IH]; intros [|b m] [|i]; cbn; auto.
  - destruct (nth_error l i); auto.
Qed.

Lemma map2_length {A B C} (f : A -> B -> C) l m : length l = length m -> length (map2 f l m) = length l.
Proof. revert m. induction l as [|a l IH]; intros [|b m] H; cbn in *; auto; try discriminate. Qed.

Lemma nth_error_some_lt {A} (l : list A) i x : nth_error l i = Some x -> (i < length l)%nat.
Proof. intros H. apply nth_error_Some. congruence. Qed.

Lemma nth_error_same_length {A B} (l : list A) (m : list B) i a :
  length l = length m -> nth_error l i = Some a -> exists b, nth_error m i = Some b.
Proof.
  intros HL H. apply nth_error_some_lt in H. rewrite HL in H.
  destruct (nth_error m i) eqn:E; eauto. apply nth_error_None in E. lia.
Qed.

(* ---------- cells that already have the column type ---------- *)
Definition int_cell (c : cell) : Prop := match c with CNull | CInt _ => True | _ => False end.

Lemma int_cell_of_opt v : int_cell (cell_of_opt v).
Proof. destruct v; exact I. Qed.

Lemma convert_cell_of_opt v : convert (cell_of_opt v) = v.
Proof. destruct v; reflexivity. Qed.

Lemma cell_of_opt_convert c : int_cell c -> cell_of_opt (convert c) = c.
Proof. destruct c; cbn; intros H; auto; contradiction. Qed.

Lemma cells_convert row : Forall int_cell row -> cells (map convert row) = row.
Proof.
  induction 1 as [|c row Hc _ IH]; cbn; auto. unfold cells in IH. rewrite IH, cell_of_opt_convert; auto.
Qed.

Lemma cells_int r : Forall int_cell (cells r).
Proof. induction r; cbn; constructor; auto. apply int_cell_of_opt. Qed.

(* ---------- validateNullability, pointwise ---------- *)
Lemma nullability_nth ign : forall sch row row',
  nullability ign sch row = Some row' ->
  forall i, nth_error row' i =
    match nth_error sch i, nth_error row i with
    | Some c, Some x => Some (match x with CNull => if notnull c then CInt 0 else x | _ => x end)
    | _, _ => None
    end.
Proof.
  induction sch as [|c sch IH]; intros row row' H i.
  - cbn in H. injection H as <-. destruct i; reflexivity.
  - destruct row as [|x row]; cbn in H.
    + injection H as <-. destruct i; cbn; auto. destruct (nth_error sch i); auto.
    + destruct (nullability ign sch row) as [rest|] eqn:E; [|discriminate].
      specialize (IH row rest E).
      destruct i as [|i].
      * cbn. destruct x; try (injection H as <-; reflexivity).
        destruct (notnull c); [destruct ign; [injection H as <-; reflexivity|discriminate]|injection H as <-; reflexivity].
      * assert (Ht : exists y, row' = y :: rest).
        { destruct x; try (eexists; injection H as <-; reflexivity).
          destruct (notnull c); [destruct ign; [eexists; injection H as <-; reflexivity|discriminate]|eexists; injection H as <-; reflexivity]. }
        destruct Ht as [y ->]. cbn. apply IH.
Qed.

(* without IGNORE nothing is changed, and no NOT NULL column holds NULL *)
Lemma nullability_strict : forall sch row row',
  nullability false sch row = Some row' ->
  forall i c x, nth_error sch i = Some c -> nth_error row i = Some x -> notnull c = true -> x <> CNull.
Proof.
  induction sch as [|c sch IH]; intros row row' H i c0 x Hs Hr Hn.
  - destruct i; discriminate.
  - destruct row as [|x0 row]; [destruct i; discriminate|]. cbn in H.
    destruct (nullability false sch row) as [rest|] eqn:E; [|discriminate].
    destruct i as [|i]; cbn in Hs, Hr.
    + injection Hs as ->. injection Hr as ->. intros ->. rewrite Hn in H. discriminate.
    + eapply IH; eauto.
Qed.

Lemma nullability_strict_nth sch row row' :
  nullability false sch row = Some row' ->
  forall i, nth_error row' i = match nth_error sch i with Some _ => nth_error row i | None => None end.
Proof.
  intros H i. rewrite (nullability_nth false sch row row' H i).
  destruct (nth_error sch i) as [c|] eqn:Es; auto.
  destruct (nth_error row i) as [x|] eqn:Er; auto.
  destruct x; auto. destruct (notnull c) eqn:En; auto.
  exfalso. eapply (nullability_strict sch row row' H i c CNull); eauto.
Qed.

Lemma list_eq_nth_error {A} (l m : list A) : (forall i, nth_error l i = nth_error m i) -> l = m.
Proof.
  revert m. induction l as [|a l IH]; intros [|b m] H; auto.
  - specialize (H 0%nat). discriminate.
  - specialize (H 0%nat). discriminate.
  - pose proof (H 0%nat) as H0. cbn in H0. injection H0 as ->. f_equal. apply IH. intros i. apply (H (S i)).
Qed.

Lemma nullability_strict_id sch row row' :
  length row = length sch -> nullability false sch row = Some row' -> row' = row.
Proof.
  intros HL H. apply list_eq_nth_error. intros i. rewrite (nullability_strict_nth sch row row' H i).
  destruct (nth_error sch i) eqn:E; auto.
  apply nth_error_None in E. symmetry. apply nth_error_None. lia.
Qed.

(* ---------- terms that only read base (non-generated) columns ---------- *)
(* every column a term reads satisfies P *)
Fixpoint term_all (P : nat -> Prop) (e : term) : Prop :=
  match e with
  | TCol i => P i
  | TLit _ => True
  | TAdd a b | TMul a b => term_all P a /\ term_all P b
  end.

Lemma term_all_impl (P Q : nat -> Prop) e : (forall j, P j -> Q j) -> term_all P e -> term_all Q e.
Proof. intros H. induction e; cbn; auto; intros [A B]; split; auto. Qed.

Lemma eval_term_ext r1 r2 e :
  term_all (fun j => nth j r1 CNull = nth j r2 CNull) e -> eval_term r1 e = eval_term r2 e.
Proof.
  induction e as [i|z|a IHa b IHb|a IHa b IHb]; cbn; intros H; auto.
  - now rewrite H.
  - destruct H. now rewrite IHa, IHb.
  - destruct H. now rewrite IHa, IHb.
Qed.

(* column j of the schema is not a generated column (or does not exist) *)
Definition base_col (sch : list col) (j : nat) : Prop :=
  match nth_error sch j with Some c => gen c = None | None => True end.

(* a generated column reads base columns and EARLIER generated columns only *)
Definition wf_schema (sch : list col) : Prop :=
  forall i c e, nth_error sch i = Some c -> gen c = Some e ->
    term_all (fun j => (j < i)%nat \/ base_col sch j) e.

Lemma set_nth_length {A} i (x : A) l : length (set_nth i x l) = length l.
Proof. revert i. induction l as [|a l IH]; intros [|i]; cbn; auto. Qed.

Lemma set_nth_other {A} i (x : A) l j : j <> i -> nth_error (set_nth i x l) j = nth_error l j.
Proof.
  revert i j. induction l as [|a l IH]; intros [|i] [|j] H; cbn; auto; try congruence.
Qed.

Lemma set_nth_same {A} i (x : A) l : (i < length l)%nat -> nth_error (set_nth i x l) i = Some x.
Proof. revert i. induction l as [|a l IH]; intros [|i] H; cbn in *; try lia; auto. apply IH. lia. Qed.

Lemma set_nth_int i v (row : list cell) : int_cell v -> Forall int_cell row -> Forall int_cell (set_nth i v row).
Proof.
  intros Hv H. revert i. induction H as [|a l Ha Hl IH]; intros [|i]; cbn; auto.
Qed.

Lemma fill_gen_from_length sch : forall i row, length (fill_gen_from sch i row) = length row.
Proof.
  induction sch as [|c sch IH]; intros i row; cbn; auto.
  rewrite IH. destruct (gen c); auto. apply set_nth_length.
Qed.

Lemma fill_gen_from_int sch : forall i row, Forall int_cell row -> Forall int_cell (fill_gen_from sch i row).
Proof.
  induction sch as [|c sch IH]; intros i row H; cbn; auto.
  apply IH. destruct (gen c); auto. apply set_nth_int; auto. apply int_cell_of_opt.
Qed.

(* the main invariant: full = pre ++ sch, the columns of pre (indices < i) are already final *)
Lemma fill_gen_from_spec full : forall sch pre i row,
  full = pre ++ sch -> length pre = i ->
  let final := fill_gen_from sch i row in
  (forall j, (j < i)%nat \/ base_col full j -> nth_error final j = nth_error row j) /\
  (forall k c e, nth_error sch k = Some c -> gen c = Some e ->
     term_all (fun j => (j < i + k)%nat \/ base_col full j) e -> (i + k < length row)%nat ->
     nth (i + k) final CNull = cell_of_opt (eval_term final e)).
Proof.
  induction sch as [|c sch IH]; intros pre i row Hf Hl; cbn zeta.
  - cbn. split; auto. intros k c e H. destruct k; discriminate.
  - cbn [fill_gen_from].
    set (row' := match gen c with Some e => set_nth i (cell_of_opt (eval_term row e)) row | None => row end).
    assert (Hf' : full = (pre ++ [c]) ++ sch) by (rewrite <- app_assoc; exact Hf).
    assert (Hl' : length (pre ++ [c]) = S i) by (rewrite app_length; cbn; lia).
    destruct (IH (pre ++ [c]) (S i) row' Hf' Hl') as [I2 I3].
    assert (Hci : nth_error full i = Some c).
    { rewrite Hf, nth_error_app2 by lia. replace (i - length pre)%nat with 0%nat by lia. reflexivity. }
    (* row' agrees with row away from i, and at base columns *)
    assert (Hrow' : forall j, (j < i)%nat \/ base_col full j -> nth_error row' j = nth_error row j).
    { intros j Hj. unfold row'. destruct (gen c) as [e0|] eqn:Eg; auto.
      apply set_nth_other. destruct Hj as [Hj|Hj]; [lia|]. intros ->. unfold base_col in Hj. rewrite Hci in Hj. congruence. }
    split.
    + intros j Hj. rewrite I2; [now apply Hrow'|]. destruct Hj; [left; lia|now right].
    + intros k c0 e Hk Hg Hrefs Hlt. destruct k as [|k].
      * cbn in Hk. injection Hk as <-. rewrite Nat.add_0_r in *.
        assert (Hrow'i : nth_error row' i = Some (cell_of_opt (eval_term row e))).
        { unfold row'. rewrite Hg. now apply set_nth_same. }
        rewrite nth_as_error, I2 by (left; lia). rewrite Hrow'i. f_equal.
        apply eval_term_ext. eapply term_all_impl; [|exact Hrefs]. cbn beta. intros j Hj.
        rewrite !nth_as_error. rewrite I2 by (destruct Hj; [left; lia|now right]). now rewrite Hrow'.
      * replace (i + S k)%nat with (S i + k)%nat in * by lia.
        apply (I3 k c0 e Hk Hg Hrefs). unfold row'. destruct (gen c); [rewrite set_nth_length|]; exact Hlt.
Qed.

Lemma fill_generated_base sch row i c :
  nth_error sch i = Some c -> gen c = None -> nth_error (fill_generated sch row) i = nth_error row i.
Proof.
  intros Hs Hg. unfold fill_generated.
  destruct (fill_gen_from_spec sch sch [] 0%nat row eq_refl eq_refl) as [H _].
  apply H. right. unfold base_col. now rewrite Hs.
Qed.

Lemma fill_generated_length sch row : length row = length sch -> length (fill_generated sch row) = length sch.
Proof. intros H. unfold fill_generated. now rewrite fill_gen_from_length. Qed.

Lemma fill_generated_int sch row : Forall int_cell row -> Forall int_cell (fill_generated sch row).
Proof. apply fill_gen_from_int. Qed.

(* a row produced by fill_generated satisfies "generated = expression" *)
Lemma fill_generated_ok sch row :
  wf_schema sch -> length row = length sch -> Forall int_cell row ->
  row_generated_ok sch (map convert (fill_generated sch row)).
Proof.
  intros Hwf HL Hint i c e Hs Hg.
  rewrite cells_convert by (now apply fill_generated_int).
  destruct (fill_gen_from_spec sch sch [] 0%nat row eq_refl eq_refl) as [_ H].
  assert (Hlt : (i < length row)%nat) by (rewrite HL; eapply nth_error_some_lt; eauto).
  specialize (H i c e Hs Hg (Hwf i c e Hs Hg) Hlt). cbn in H. fold (fill_generated sch row) in H.
  assert (Hn : nth i (map convert (fill_generated sch row)) None = convert (nth i (fill_generated sch row) CNull)).
  { rewrite !nth_as_error, nth_error_map. destruct (nth_error (fill_generated sch row) i); reflexivity. }
  rewrite Hn, H. apply convert_cell_of_opt.
Qed.

(* ---------- the property of a stored row ---------- *)
Definition row_ok (sch : list col) (chks : list check) (r : list (option Z)) : Prop :=
  length r = length sch /\ row_checks_ok chks r /\ row_notnull_ok sch r /\ row_generated_ok sch r.

Lemma checks_pass_ok chks row :
  Forall int_cell row -> existsb (check_false row) chks = false -> row_checks_ok chks (map convert row).
Proof.
  intros Hint Hex c Hc. rewrite cells_convert by auto. intros Hf.
  assert (existsb (check_false row) chks = true); [|congruence].
  apply existsb_exists. exists c. split; auto. unfold check_false. now rewrite Hf.
Qed.

Lemma notnull_from_strict sch row :
  length row = length sch -> nullability false sch row = Some row -> row_notnull_ok sch (map convert row).
Proof.
  intros HL H i c Hs Hn. rewrite nth_as_error, nth_error_map.
  destruct (nth_error_same_length sch row i c (eq_sym HL) Hs) as [x Hx]. rewrite Hx. cbn.
  pose proof (nullability_strict sch row row H i c x Hs Hx Hn) as Hne. destruct x; cbn; congruence.
Qed.

(* ---------- INSERT of values that already have the column type ---------- *)
Definition typed_raw (r : raw) : Prop := match r with RStrI _ | RStrF _ => False | _ => True end.

Lemma cell_of_raw_int c r : typed_raw r -> int_cell (cell_of_raw c r).
Proof. destruct r; cbn; intros H; auto; try contradiction. apply int_cell_of_opt. Qed.

Lemma base_row_int sch rs : Forall typed_raw rs -> Forall int_cell (map2 cell_of_raw sch rs).
Proof.
  intros H. apply Forall_forall. intros x Hx. apply In_nth_error in Hx. destruct Hx as [i Hi].
  rewrite map2_nth_error in Hi. destruct (nth_error sch i) as [c|]; [|discriminate].
  destruct (nth_error rs i) as [r|] eqn:Er; [|discriminate]. injection Hi as <-.
  apply cell_of_raw_int. rewrite Forall_forall in H. apply H. eapply nth_error_In; eauto.
Qed.

Theorem insert_typed_row_ok sch chks rs r :
  wf_schema sch -> length rs = length sch -> Forall typed_raw rs ->
  insert_row false sch chks rs = Stored r -> row_ok sch chks r.
Proof.
  intros Hwf HL Ht H. unfold insert_row, source_row in H.
  set (base := map2 cell_of_raw sch rs) in *.
  assert (HLb : length base = length sch) by (unfold base; rewrite map2_length; auto).
  assert (Hib : Forall int_cell base) by (now apply base_row_int).
  assert (HL0 : length (fill_generated sch base) = length sch) by (now apply fill_generated_length).
  destruct (nullability false sch (fill_generated sch base)) as [row1|] eqn:En; [|discriminate].
  pose proof (nullability_strict_id _ _ _ HL0 En) as ->.
  destruct (existsb (check_false (fill_generated sch base)) chks) eqn:Ec; [discriminate|].
  injection H as <-. split; [|split; [|split]].
  - now rewrite map_length.
  - apply checks_pass_ok; auto. now apply fill_generated_int.
  - now apply notnull_from_strict.
  - now apply fill_generated_ok.
Qed.

(* omitted / DEFAULT columns hold the declared default (any values elsewhere, IGNORE or not) *)
Theorem defaults_applied ign sch chks rs r i c :
  length rs = length sch -> insert_row ign sch chks rs = Stored r ->
  nth_error sch i = Some c -> gen c = None -> nth_error rs i = Some RDef ->
  match dflt c with
  | Some d => nth i r None = Some d
  | None => nth i r None = if ign && notnull c then Some 0 else None
  end.
Proof.
  intros HL H Hs Hg Hr. unfold insert_row, source_row in H.
  destruct (nullability ign sch _) as [row1|] eqn:En; [|discriminate].
  destruct (existsb _ chks); [destruct ign; discriminate|]. injection H as <-.
  rewrite nth_as_error, nth_error_map, (nullability_nth ign _ _ _ En i), Hs.
  rewrite (fill_generated_base _ _ i c Hs Hg), map2_nth_error, Hs, Hr. cbn.
  destruct (dflt c) as [d|] eqn:Ed; cbn; auto.
  destruct (notnull c) eqn:Enn; cbn.
  - destruct ign; cbn; auto. exfalso.
    eapply (nullability_strict _ _ _ En i c CNull); eauto.
    rewrite (fill_generated_base _ _ i c Hs Hg), map2_nth_error, Hs, Hr. cbn. now rewrite Ed.
  - now rewrite andb_false_r.
Qed.

(* ---------- NOT NULL holds for every stored row, whatever the values and with or without IGNORE ---------- *)
Lemma convert_not_none x : x <> CNull -> convert x <> None.
Proof. destruct x; cbn; congruence. Qed.

Lemma nullability_notnull ign sch row row' :
  length row = length sch -> nullability ign sch row = Some row' -> row_notnull_ok sch (map convert row').
Proof.
  intros HL H i c Hs Hn. rewrite nth_as_error, nth_error_map, (nullability_nth ign _ _ _ H i), Hs.
  destruct (nth_error_same_length sch row i c (eq_sym HL) Hs) as [x Hx]. rewrite Hx. cbn.
  destruct x; cbn; try congruence. rewrite Hn. cbn. congruence.
Qed.

Lemma nullability_length ign : forall sch row row',
  length row = length sch -> nullability ign sch row = Some row' -> length row' = length sch.
Proof.
  induction sch as [|c sch IH]; intros [|x row] row' HL H; cbn in *; try discriminate.
  - now injection H as <-.
  - destruct (nullability ign sch row) as [rest|] eqn:E; [|discriminate].
    assert (length rest = length sch) by (eapply IH; eauto; lia).
    destruct x; try (injection H as <-; cbn; lia).
    destruct (notnull c); [destruct ign; [injection H as <-; cbn; lia|discriminate]|injection H as <-; cbn; lia].
Qed.

Definition shape_ok (sch : list col) (r : list (option Z)) : Prop :=
  length r = length sch /\ row_notnull_ok sch r.

Theorem insert_row_notnull ign sch chks rs r :
  length rs = length sch -> insert_row ign sch chks rs = Stored r -> shape_ok sch r.
Proof.
  intros HL H. unfold insert_row, source_row in H.
  assert (HL0 : length (fill_generated sch (map2 cell_of_raw sch rs)) = length sch).
  { apply fill_generated_length. now apply map2_length. }
  destruct (nullability ign sch _) as [row1|] eqn:En; [|discriminate].
  destruct (existsb _ chks); [destruct ign; discriminate|]. injection H as <-. split.
  - rewrite map_length. eapply nullability_length; eauto.
  - eapply nullability_notnull; eauto.
Qed.

Lemma apply_sets_length ign sch : forall sets row w,
  apply_sets ign sch row sets = Some w -> length w = length row.
Proof.
  induction sets as [|[i rhs] sets IH]; intros row w H; cbn in H.
  - now injection H as <-.
  - destruct (set_value ign sch row i rhs) as [v|]; [|discriminate].
    rewrite (IH _ _ H). apply set_nth_length.
Qed.

Theorem update_row_notnull ign sch chks sets old r :
  shape_ok sch old -> update_row ign sch chks sets old = Stored r -> shape_ok sch r.
Proof.
  intros [HLo Hno] H. unfold update_row in H.
  destruct (apply_sets ign sch (map cell_of_opt old) sets) as [w|] eqn:Ea; [|discriminate].
  assert (HLw : length w = length sch).
  { rewrite (apply_sets_length _ _ _ _ _ Ea), map_length. auto. }
  set (w1 := if row_eqb (map convert w) old then w else fill_generated sch w) in *.
  assert (HL1 : length w1 = length sch).
  { unfold w1. destruct (row_eqb (map convert w) old); auto. now apply fill_generated_length. }
  destruct (row_eqb (map convert w1) old); [injection H as <-; split; auto|].
  destruct (existsb (check_false w1) chks); [destruct ign; discriminate|].
  destruct (nullability ign sch w1) as [w2|] eqn:En; [|discriminate]. injection H as <-. split.
  - rewrite map_length. eapply nullability_length; eauto.
  - eapply nullability_notnull; eauto.
Qed.

Lemma insert_rows_shape ign sch chks : forall rows acc t',
  Forall (fun rs => length rs = length sch) rows -> Forall (shape_ok sch) acc ->
  insert_rows ign sch chks rows acc = inl t' -> Forall (shape_ok sch) t'.
Proof.
  induction rows as [|rs rows IH]; intros acc t' Hl Ha H; cbn in H.
  - now injection H as <-.
  - inversion Hl as [|? ? Hl1 Hl2]; subst.
    destruct (insert_row ign sch chks rs) as [r| |e] eqn:E; try discriminate.
    + apply (IH (acc ++ [r])); auto. apply Forall_app. split; auto. constructor; auto.
      eapply insert_row_notnull; eauto.
    + apply (IH acc); auto.
Qed.

Lemma update_rows_shape ign sch chks sets wh : forall t t',
  Forall (shape_ok sch) t -> update_rows ign sch chks sets wh t = inl t' -> Forall (shape_ok sch) t'.
Proof.
  induction t as [|r t IH]; intros t' Ht H; cbn in H.
  - now injection H as <-.
  - inversion Ht as [|? ? Hr Ht']; subst.
    destruct (matches wh r).
    + destruct (update_row ign sch chks sets r) as [r'| |e] eqn:E; try discriminate.
      * destruct (update_rows ign sch chks sets wh t) as [t2|]; [|discriminate]. injection H as <-.
        constructor; auto. eapply update_row_notnull; eauto.
      * destruct (update_rows ign sch chks sets wh t) as [t2|]; [|discriminate]. injection H as <-.
        constructor; auto.
    + destruct (update_rows ign sch chks sets wh t) as [t2|]; [|discriminate]. injection H as <-.
      constructor; auto.
Qed.

Lemma insert_by_id_forall (P : list (option Z) -> Prop) r : forall t, P r -> Forall P t -> Forall P (insert_by_id r t).
Proof.
  induction t as [|x t IH]; intros Hr Ht; cbn; [constructor; auto|].
  inversion Ht as [|? ? Hx Ht']; subst.
  destruct (nth 0 r None), (nth 0 x None); try (constructor; auto).
  destruct (z <? z0); constructor; auto.
Qed.

Lemma replace_id_forall (P : list (option Z) -> Prop) k r : forall t, P r -> Forall P t -> Forall P (replace_id k r t).
Proof.
  induction t as [|x t IH]; intros Hr Ht; cbn; auto.
  inversion Ht as [|? ? Hx Ht']; subst. destruct (opt_eqb (nth 0 x None) k); constructor; auto.
Qed.

Lemma odku_row_notnull sch chks sets old r :
  shape_ok sch old -> odku_row sch chks sets old = Stored r -> shape_ok sch r.
Proof.
  intros [HLo Hno] H. unfold odku_row in H.
  destruct (apply_sets false sch (map cell_of_opt old) sets) as [w|] eqn:Ea; [|discriminate].
  assert (HLw : length w = length sch).
  { rewrite (apply_sets_length _ _ _ _ _ Ea), map_length. auto. }
  set (w1 := if row_eqb (map convert w) old then w else fill_generated sch w) in *.
  assert (HL1 : length w1 = length sch).
  { unfold w1. destruct (row_eqb (map convert w) old); auto. now apply fill_generated_length. }
  destruct (existsb (check_false w1) chks); [discriminate|].
  destruct (nullability false sch w1) as [w2|] eqn:En; [|discriminate]. injection H as <-. split.
  - rewrite map_length. eapply nullability_length; eauto.
  - eapply nullability_notnull; eauto.
Qed.

Lemma upsert_forall (P : list (option Z) -> Prop) sch chks rs sets t :
  (forall r, insert_row false sch chks rs = Stored r -> P r) ->
  (forall old r, P old -> odku_row sch chks sets old = Stored r -> P r) ->
  Forall P t -> Forall P (fst (exec sch chks t (Upsert rs sets))).
Proof.
  intros Hi Hu Ht. cbn.
  destruct (insert_row false sch chks rs) as [r| |e] eqn:Ei; cbn; auto.
  destruct (find _ t) as [old|] eqn:Ef.
  - apply find_some in Ef. destruct Ef as [Hin _].
    assert (Pold : P old) by (rewrite Forall_forall in Ht; auto).
    destruct (odku_row sch chks sets old) as [r'| |e] eqn:Eo; cbn; auto.
    apply replace_id_forall; eauto.
  - cbn. apply insert_by_id_forall; auto.
Qed.

Definition stmt_lengths_ok (sch : list col) (s : stmt) : Prop :=
  match s with
  | Insert _ rows => Forall (fun rs => length rs = length sch) rows
  | Update _ _ _ => True
  | Upsert rs _ => length rs = length sch
  end.

Theorem not_null_respected sch chks : forall h t,
  Forall (stmt_lengths_ok sch) h -> Forall (shape_ok sch) t -> Forall (shape_ok sch) (run sch chks t h).
Proof.
  induction h as [|s h IH]; intros t Hh Ht; cbn; auto.
  inversion Hh as [|? ? Hs Hh']; subst. apply IH; auto.
  destruct s as [ign rows|ign sets wh|rs sets]; [cbn|cbn|].
  - destruct (insert_rows ign sch chks rows t) as [t'|e] eqn:E; cbn; auto.
    eapply insert_rows_shape; eauto.
  - destruct (update_rows ign sch chks sets wh t) as [t'|e] eqn:E; cbn; auto.
    eapply update_rows_shape; eauto.
  - apply upsert_forall; auto.
    + intros r Hr. eapply insert_row_notnull; eauto.
    + intros old r Ho Hr. eapply odku_row_notnull; eauto.
Qed.

(* ---------- UPDATE with typed right sides, no IGNORE ---------- *)
Definition typed_rhs (x : urhs) : Prop := match x with URaw r => typed_raw r | UTerm _ => True end.


Lemma apply_sets_int sch : forall sets row w,
  Forall (fun p => typed_rhs (snd p)) sets -> Forall int_cell row ->
  apply_sets false sch row sets = Some w -> Forall int_cell w.
Proof.
  induction sets as [|[i rhs] sets IH]; intros row w Ht Hr H; cbn in H.
  - now injection H as <-.
  - inversion Ht as [|? ? H1 H2]; subst. cbn in H1.
    destruct (set_value false sch row i rhs) as [v|] eqn:Ev; [|discriminate].
    assert (Hv : int_cell v).
    { destruct rhs as [r|e]; cbn in Ev.
      + destruct r; cbn in H1; try contradiction; injection Ev as <-; cbn; auto. apply int_cell_of_opt.
      + injection Ev as <-. apply int_cell_of_opt. }
    apply (IH _ _ H2 (set_nth_int i v row Hv Hr) H).
Qed.

Theorem update_typed_row_ok sch chks sets old r :
  wf_schema sch -> Forall (fun p => typed_rhs (snd p)) sets ->
  row_ok sch chks old -> update_row false sch chks sets old = Stored r -> row_ok sch chks r.
Proof.
  intros Hwf Ht Hold H. pose proof Hold as (HLo & _). unfold update_row in H.
  destruct (apply_sets false sch (map cell_of_opt old) sets) as [w|] eqn:Ea; [|discriminate].
  assert (HLw : length w = length sch).
  { rewrite (apply_sets_length _ _ _ _ _ Ea), map_length. auto. }
  assert (Hiw : Forall int_cell w) by (exact (apply_sets_int sch sets (cells old) w Ht (cells_int old) Ea)).
  destruct (row_eqb (map convert w) old) eqn:E1.
  - rewrite E1 in H. now injection H as <-.
  - destruct (row_eqb (map convert (fill_generated sch w)) old); [now injection H as <-|].
    destruct (existsb (check_false (fill_generated sch w)) chks) eqn:Ec; [discriminate|].
    assert (HL1 : length (fill_generated sch w) = length sch) by (now apply fill_generated_length).
    destruct (nullability false sch (fill_generated sch w)) as [w2|] eqn:En; [|discriminate].
    pose proof (nullability_strict_id _ _ _ HL1 En) as ->. injection H as <-.
    split; [|split; [|split]].
    + now rewrite map_length.
    + apply checks_pass_ok; auto. now apply fill_generated_int.
    + now apply notnull_from_strict.
    + now apply fill_generated_ok.
Qed.

(* ---------- all histories of typed statements without IGNORE ---------- *)
Lemma opt_eqb_eq a b : opt_eqb a b = true -> a = b.
Proof. destruct a, b; cbn; try discriminate; auto. intros H. apply Z.eqb_eq in H. now subst. Qed.

Lemma row_eqb_eq : forall a b, row_eqb a b = true -> a = b.
Proof.
  induction a as [|x a IH]; intros [|y b] H; cbn in H; try discriminate; auto.
  apply andb_true_iff in H. destruct H as [H1 H2]. apply opt_eqb_eq in H1. apply IH in H2. congruence.
Qed.

Theorem odku_typed_row_ok sch chks sets old r :
  wf_schema sch -> Forall (fun p => typed_rhs (snd p)) sets ->
  row_ok sch chks old -> odku_row sch chks sets old = Stored r -> row_ok sch chks r.
Proof.
  intros Hwf Ht Hold H. pose proof Hold as (HLo & _). unfold odku_row in H.
  destruct (apply_sets false sch (map cell_of_opt old) sets) as [w|] eqn:Ea; [|discriminate].
  assert (HLw : length w = length sch).
  { rewrite (apply_sets_length _ _ _ _ _ Ea), map_length. auto. }
  assert (Hiw : Forall int_cell w) by (exact (apply_sets_int sch sets (cells old) w Ht (cells_int old) Ea)).
  destruct (row_eqb (map convert w) old) eqn:E1.
  - destruct (existsb (check_false w) chks); [discriminate|].
    destruct (nullability false sch w) as [w2|] eqn:En; [|discriminate].
    pose proof (nullability_strict_id _ _ _ HLw En) as ->. injection H as <-.
    apply row_eqb_eq in E1. now rewrite E1.
  - destruct (existsb (check_false (fill_generated sch w)) chks) eqn:Ec; [discriminate|].
    assert (HL1 : length (fill_generated sch w) = length sch) by (now apply fill_generated_length).
    destruct (nullability false sch (fill_generated sch w)) as [w2|] eqn:En; [|discriminate].
    pose proof (nullability_strict_id _ _ _ HL1 En) as ->. injection H as <-.
    split; [|split; [|split]].
    + now rewrite map_length.
    + apply checks_pass_ok; auto. now apply fill_generated_int.
    + now apply notnull_from_strict.
    + now apply fill_generated_ok.
Qed.

Definition typed_stmt (sch : list col) (s : stmt) : Prop :=
  match s with
  | Insert ign rows => ign = false /\ Forall (fun rs => length rs = length sch /\ Forall typed_raw rs) rows
  | Update ign sets _ => ign = false /\ Forall (fun p => typed_rhs (snd p)) sets
  | Upsert rs sets => (length rs = length sch /\ Forall typed_raw rs) /\ Forall (fun p => typed_rhs (snd p)) sets
  end.

Lemma insert_rows_ok sch chks : wf_schema sch -> forall rows acc t',
  Forall (fun rs => length rs = length sch /\ Forall typed_raw rs) rows -> Forall (row_ok sch chks) acc ->
  insert_rows false sch chks rows acc = inl t' -> Forall (row_ok sch chks) t'.
Proof.
  intros Hwf. induction rows as [|rs rows IH]; intros acc t' Hl Ha H; cbn in H.
  - now injection H as <-.
  - inversion Hl as [|? ? [Hl1 Hl1'] Hl2]; subst.
    destruct (insert_row false sch chks rs) as [r| |e] eqn:E; try discriminate.
    + apply (IH (acc ++ [r])); auto. apply Forall_app. split; auto. constructor; auto.
      eapply insert_typed_row_ok; eauto.
    + apply (IH acc); auto.
Qed.

Lemma update_rows_ok sch chks sets wh : wf_schema sch -> Forall (fun p => typed_rhs (snd p)) sets ->
  forall t t', Forall (row_ok sch chks) t -> update_rows false sch chks sets wh t = inl t' -> Forall (row_ok sch chks) t'.
Proof.
  intros Hwf Hs. induction t as [|r t IH]; intros t' Ht H; cbn in H.
  - now injection H as <-.
  - inversion Ht as [|? ? Hr Ht']; subst.
    destruct (matches wh r).
    + destruct (update_row false sch chks sets r) as [r'| |e] eqn:E; try discriminate.
      * destruct (update_rows false sch chks sets wh t) as [t2|]; [|discriminate]. injection H as <-.
        constructor; auto. eapply update_typed_row_ok; eauto.
      * destruct (update_rows false sch chks sets wh t) as [t2|]; [|discriminate]. injection H as <-.
        constructor; auto.
    + destruct (update_rows false sch chks sets wh t) as [t2|]; [|discriminate]. injection H as <-.
      constructor; auto.
Qed.

Theorem stored_rows_ok_typed_histories sch chks : wf_schema sch -> forall h t,
  Forall (typed_stmt sch) h -> Forall (row_ok sch chks) t -> Forall (row_ok sch chks) (run sch chks t h).
Proof.
  intros Hwf. induction h as [|s h IH]; intros t Hh Ht; cbn; auto.
  inversion Hh as [|? ? Hs Hh']; subst. apply IH; auto.
  destruct s as [ign rows|ign sets wh|rs sets]; cbn in Hs.
  - destruct Hs as [-> Hs]; cbn. destruct (insert_rows false sch chks rows t) as [t'|e] eqn:E; cbn; auto.
    eapply insert_rows_ok; eauto.
  - destruct Hs as [-> Hs]; cbn. destruct (update_rows false sch chks sets wh t) as [t'|e] eqn:E; cbn; auto.
    eapply update_rows_ok; eauto.
  - destruct Hs as [[Hl Hr] Hs]. apply upsert_forall; auto.
    + intros r Hi. eapply insert_typed_row_ok; eauto.
    + intros old r Ho Hu. eapply odku_typed_row_ok; eauto.
Qed.

(* ---------- what is false of the faithful model ---------- *)
(* t (c0 INT PRIMARY KEY, c1 INT, CHECK (c1 < 10)); INSERT INTO t VALUES (1, '9.6') stores 10 *)
Definition w_sch1 := [mkCol true None None; mkCol false None None].
Definition w_chk1 := [mkCheck Lt (TCol 1) (TLit 10)].
Lemma check_before_convert_witness :
  run w_sch1 w_chk1 [] [Insert false [[RInt 1; RStrF 96]]] = [[Some 1; Some 10]] /\
  eval_check (cells [Some 1; Some 10]) (mkCheck Lt (TCol 1) (TLit 10)) = Some false.
Proof. split; vm_compute; reflexivity. Qed.

(* t (c0, c1 INT, c2 INT AS (c1 * 2) STORED); '9.6' stores c1 = 10, c2 = 18 *)
Definition w_sch2 := [mkCol true None None; mkCol false None None; mkCol false None (Some (TMul (TCol 1) (TLit 2)))].
Lemma generated_before_convert_witness :
  run w_sch2 [] [] [Insert false [[RInt 1; RStrF 96; RDef]]] = [[Some 1; Some 10; Some 18]] /\
  eval_term (cells [Some 1; Some 10; Some 18]) (TMul (TCol 1) (TLit 2)) = Some 20.
Proof. split; vm_compute; reflexivity. Qed.

(* t (c0, c1 INT NOT NULL, c2 INT AS (c1 + 1) STORED, CHECK (c1 > 5)); UPDATE IGNORE t SET c1 = NULL: c1 = 0, c2 = NULL *)
Definition w_sch3 := [mkCol true None None; mkCol true None None; mkCol false None (Some (TAdd (TCol 1) (TLit 1)))].
Definition w_chk3 := [mkCheck Gt (TCol 1) (TLit 5)].
Lemma update_ignore_null_witness :
  run w_sch3 w_chk3 [] [Insert false [[RInt 1; RInt 7; RDef]]; Update true [(1%nat, URaw RNull)] (Some 1)]
    = [[Some 1; Some 0; None]] /\
  eval_check (cells [Some 1; Some 0; None]) (mkCheck Gt (TCol 1) (TLit 5)) = Some false /\
  eval_term (cells [Some 1; Some 0; None]) (TAdd (TCol 1) (TLit 1)) = Some 1.
Proof. repeat split; vm_compute; reflexivity. Qed.

(* INSERT IGNORE of NULL into NOT NULL c1 with c3 = c1 + c2: c1 = 0, c3 = NULL *)
Definition w_sch4 := [mkCol true None None; mkCol true None None; mkCol false (Some 4) None;
                      mkCol false None (Some (TAdd (TCol 1) (TCol 2)))].
Lemma insert_ignore_null_witness :
  run w_sch4 [] [] [Insert true [[RInt 1; RNull; RDef; RDef]]] = [[Some 1; Some 0; Some 4; None]] /\
  eval_term (cells [Some 1; Some 0; Some 4; None]) (TAdd (TCol 1) (TCol 2)) = Some 4.
Proof. split; vm_compute; reflexivity. Qed.

(* non-vacuity: a typed history that stores rows, with a wf schema *)
Lemma nonvacuous_example :
  wf_schema w_sch4 /\
  Forall (typed_stmt w_sch4) [Insert false [[RInt 1; RInt 7; RDef; RDef]; [RInt 2; RDec 26; RNull; RDef]];
                              Update false [(1%nat, UTerm (TAdd (TCol 2) (TLit 10)))] (Some 1)] /\
  run w_sch4 [mkCheck Lt (TCol 2) (TCol 1)] []
      [Insert false [[RInt 1; RInt 7; RDef; RDef]; [RInt 2; RDec 26; RNull; RDef]];
       Update false [(1%nat, UTerm (TAdd (TCol 2) (TLit 10)))] (Some 1)]
    = [[Some 1; Some 14; Some 4; Some 18]; [Some 2; Some 3; None; None]].
Proof.
  split; [|split].
  - intros i c e Hs Hg. do 4 (destruct i as [|i]; cbn in Hs; [injection Hs as <-; cbn in Hg; try discriminate|]).
    + injection Hg as <-. cbn. split; left; lia.
    + destruct i; discriminate.
  - repeat constructor.
  - vm_compute. reflexivity.
Qed.
