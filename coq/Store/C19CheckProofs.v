(* C19 - proofs about the write pipeline of Store/C19Check.v. *)
From Coq Require Import List ZArith Bool Lia.
Import ListNotations.
From GMS Require Import Store.C19Check.
Open Scope Z_scope.

(* ---------- list plumbing ---------- *)
Lemma nth_as_error {A} (l : list A) i d : nth i l d = match nth_error l i with Some x => x | None => d end.
Proof. revert i. induction l as [|a l IH]; intros [|i]; cbn; auto. Qed.

Lemma map2_nth_error {A B C} (f : A -> B -> C) l m i :
  nth_error (map2 f l m) i =
  match nth_error l i, nth_error m i with Some a, Some b => Some (f a b) | _, _ => None end.
Proof.
  revert m i. induction l as [|a l IH]; intros [|b m] [|i]; cbn; auto.
  - destruct (nth_error l i); auto.
Qed.

Lemma map2_length {A B C} (f : A -> B -> C) l m : length l = length m -> length (map2 f l m) = length l.
Proof. revert m. induction l as [|a l IH]; intros [|b m] H; cbn in *; auto; try discriminate. Qed.

Lemma nth_error_some_lt {A} (l : list A) i x : nth_error l i = Some x -> (i < length l)%nat.
Proof. intros H. apply nth_error_Some. congruence. Qed.

Lemma nth_error_same_length {A B} (l : list A) (m : list B) i a :
  length l = length m -> nth_error l i = Some a -> exists b, nth_error m i = Some b.
Proof.
  intros HL H. apply nth_error_some_lt in H. rewrite HL in H.
  destruct (nth_error m i) eqn:E; eauto. apply nth_error_None in E. lia.
Qed.

Lemma list_eq_nth_error {A} (l m : list A) : (forall i, nth_error l i = nth_error m i) -> l = m.
Proof.
  revert m. induction l as [|a l IH]; intros [|b m] H; auto.
  - specialize (H 0%nat). discriminate.
  - specialize (H 0%nat). discriminate.
  - pose proof (H 0%nat) as H0. cbn in H0. injection H0 as ->. f_equal. apply IH. intros i. apply (H (S i)).
Qed.

Lemma first_some_none {A} (l : list (option A)) : first_some l = None -> forall i x, nth_error l i = Some x -> x = None.
Proof.
  induction l as [|[a|] l IH]; intros H i x Hi.
  - destruct i; discriminate.
  - discriminate.
  - destruct i; cbn in Hi; [now injection Hi as <-|]. eapply IH; eauto.
Qed.

(* ---------- cells that already have the column type ---------- *)
Definition int_cell (c : cell) : Prop := match c with CNull | CInt _ => True | _ => False end.

Lemma int_cell_of_opt v : int_cell (cell_of_opt v).
Proof. destruct v; exact I. Qed.

Lemma convert_cell_of_opt v : convert (cell_of_opt v) = v.
Proof. destruct v; reflexivity. Qed.

Lemma cell_of_opt_convert c : int_cell c -> cell_of_opt (convert c) = c.
Proof. destruct c; cbn; intros H; auto; contradiction. Qed.

Lemma cells_convert row : Forall int_cell row -> cells (map convert row) = row.
Proof.
  induction 1 as [|c row Hc _ IH]; cbn; auto. unfold cells in IH. rewrite IH, cell_of_opt_convert; auto.
Qed.

Lemma cells_int r : Forall int_cell (cells r).
Proof. induction r; cbn; constructor; auto. apply int_cell_of_opt. Qed.

Lemma convert_cells r : map convert (cells r) = r.
Proof. unfold cells. induction r as [|x r IH]; cbn; auto. now rewrite convert_cell_of_opt, IH. Qed.

(* ---------- the per-column conversion ---------- *)
(* without IGNORE a conversion that does not fail changes nothing on a value of the column's type *)
Lemma conv_strict ty c : int_cell c -> conv_err false ty c = None -> conv_val false ty c = convert c.
Proof.
  destruct c; cbn; intros Hi H; try contradiction; auto.
  unfold conv_err, conv_val in *. cbn in *. unfold conv_range in *. destruct (in_range ty z); cbn in *; auto; discriminate.
Qed.

Lemma conv_val_not_none ign ty c : c <> CNull -> conv_err ign ty c = None -> conv_val ign ty c <> None.
Proof.
  unfold conv_err, conv_val. destruct c; cbn; try congruence; unfold conv_range;
    repeat match goal with |- context [if ?b then _ else _] => destruct b end; cbn; congruence.
Qed.

Lemma convert_row_nth ign sch row r :
  convert_row ign sch row = inl r ->
  forall i, nth_error r i =
    match nth_error sch i, nth_error row i with
    | Some c, Some x => Some (conv_val ign (cty c) x) | _, _ => None end.
Proof.
  unfold convert_row. destruct (first_some _); [discriminate|]. intros H i. injection H as <-. apply map2_nth_error.
Qed.

Lemma convert_row_noerr ign sch row r :
  convert_row ign sch row = inl r ->
  forall i c x, nth_error sch i = Some c -> nth_error row i = Some x -> conv_err ign (cty c) x = None.
Proof.
  unfold convert_row. destruct (first_some _) eqn:E; [discriminate|]. intros _ i c x Hs Hr.
  apply (first_some_none _ E i). now rewrite map2_nth_error, Hs, Hr.
Qed.

Lemma convert_row_length ign sch row r :
  length row = length sch -> convert_row ign sch row = inl r -> length r = length sch.
Proof.
  unfold convert_row. destruct (first_some _); [discriminate|]. intros HL H. injection H as <-.
  now apply map2_length.
Qed.

Lemma convert_row_strict sch row r :
  length row = length sch -> Forall int_cell row -> convert_row false sch row = inl r -> r = map convert row.
Proof.
  intros HL Hint H. apply list_eq_nth_error. intros i.
  rewrite (convert_row_nth _ _ _ _ H i), nth_error_map.
  destruct (nth_error row i) as [x|] eqn:Er.
  - destruct (nth_error_same_length row sch i x HL Er) as [c Hc]. rewrite Hc. cbn. f_equal.
    apply conv_strict.
    + rewrite Forall_forall in Hint. apply Hint. eapply nth_error_In; eauto.
    + eapply convert_row_noerr; eauto.
  - destruct (nth_error sch i); reflexivity.
Qed.

(* ---------- validateNullability, pointwise ---------- *)
Lemma nullability_nth ign : forall sch row row',
  nullability ign sch row = Some row' ->
  forall i, nth_error row' i =
    match nth_error sch i, nth_error row i with
    | Some c, Some x => Some (match x with CNull => if notnull c then CInt 0 else x | _ => x end)
    | _, _ => None
    end.
Proof.
  induction sch as [|c sch IH]; intros row row' H i.
  - cbn in H. injection H as <-. destruct i; reflexivity.
  - destruct row as [|x row]; cbn in H.
    + injection H as <-. destruct i; cbn; auto. destruct (nth_error sch i); auto.
    + destruct (nullability ign sch row) as [rest|] eqn:E; [|discriminate].
      specialize (IH row rest E).
      destruct i as [|i].
      * cbn. destruct x; try (injection H as <-; reflexivity).
        destruct (notnull c); [destruct ign; [injection H as <-; reflexivity|discriminate]|injection H as <-; reflexivity].
      * assert (Ht : exists y, row' = y :: rest).
        { destruct x; try (eexists; injection H as <-; reflexivity).
          destruct (notnull c); [destruct ign; [eexists; injection H as <-; reflexivity|discriminate]|eexists; injection H as <-; reflexivity]. }
        destruct Ht as [y ->]. cbn. apply IH.
Qed.

(* without IGNORE nothing is changed, and no NOT NULL column holds NULL *)
Lemma nullability_strict : forall sch row row',
  nullability false sch row = Some row' ->
  forall i c x, nth_error sch i = Some c -> nth_error row i = Some x -> notnull c = true -> x <> CNull.
Proof.
  induction sch as [|c sch IH]; intros row row' H i c0 x Hs Hr Hn.
  - destruct i; discriminate.
  - destruct row as [|x0 row]; [destruct i; discriminate|]. cbn in H.
    destruct (nullability false sch row) as [rest|] eqn:E; [|discriminate].
    destruct i as [|i]; cbn in Hs, Hr.
    + injection Hs as ->. injection Hr as ->. intros ->. rewrite Hn in H. discriminate.
    + eapply IH; eauto.
Qed.

Lemma nullability_strict_nth sch row row' :
  nullability false sch row = Some row' ->
  forall i, nth_error row' i = match nth_error sch i with Some _ => nth_error row i | None => None end.
Proof.
  intros H i. rewrite (nullability_nth false sch row row' H i).
  destruct (nth_error sch i) as [c|] eqn:Es; auto.
  destruct (nth_error row i) as [x|] eqn:Er; auto.
  destruct x; auto. destruct (notnull c) eqn:En; auto.
  exfalso. eapply (nullability_strict sch row row' H i c CNull); eauto.
Qed.

Lemma nullability_strict_id sch row row' :
  length row = length sch -> nullability false sch row = Some row' -> row' = row.
Proof.
  intros HL H. apply list_eq_nth_error. intros i. rewrite (nullability_strict_nth sch row row' H i).
  destruct (nth_error sch i) eqn:E; auto.
  apply nth_error_None in E. symmetry. apply nth_error_None. lia.
Qed.

Lemma nullability_length ign : forall sch row row',
  length row = length sch -> nullability ign sch row = Some row' -> length row' = length sch.
Proof.
  induction sch as [|c sch IH]; intros [|x row] row' HL H; cbn in *; try discriminate.
  - now injection H as <-.
  - destruct (nullability ign sch row) as [rest|] eqn:E; [|discriminate].
    assert (length rest = length sch) by (eapply IH; eauto; lia).
    destruct x; try (injection H as <-; cbn; lia).
    destruct (notnull c); [destruct ign; [injection H as <-; cbn; lia|discriminate]|injection H as <-; cbn; lia].
Qed.

(* ---------- terms and the second pass ---------- *)
Fixpoint term_all (P : nat -> Prop) (e : term) : Prop :=
  match e with
  | TCol i => P i
  | TLit _ => True
  | TAdd a b | TMul a b => term_all P a /\ term_all P b
  end.

Lemma term_all_impl (P Q : nat -> Prop) e : (forall j, P j -> Q j) -> term_all P e -> term_all Q e.
Proof. intros H. induction e; cbn; auto; intros [A B]; split; auto. Qed.

Lemma eval_term_ext r1 r2 e :
  term_all (fun j => nth j r1 CNull = nth j r2 CNull) e -> eval_term r1 e = eval_term r2 e.
Proof.
  induction e as [i|z|a IHa b IHb|a IHa b IHb]; cbn; intros H; auto.
  - now rewrite H.
  - destruct H. now rewrite IHa, IHb.
  - destruct H. now rewrite IHa, IHb.
Qed.

(* position j is not filled by the second pass *)
Definition free_at (full : list (option term)) (j : nat) : Prop :=
  match nth_error full j with Some (Some _) => False | _ => True end.

Lemma set_nth_length {A} i (x : A) l : length (set_nth i x l) = length l.
Proof. revert i. induction l as [|a l IH]; intros [|i]; cbn; auto. Qed.

Lemma set_nth_other {A} i (x : A) l j : j <> i -> nth_error (set_nth i x l) j = nth_error l j.
Proof.
  revert i j. induction l as [|a l IH]; intros [|i] [|j] H; cbn; auto; try congruence.
Qed.

Lemma set_nth_same {A} i (x : A) l : (i < length l)%nat -> nth_error (set_nth i x l) i = Some x.
Proof. revert i. induction l as [|a l IH]; intros [|i] H; cbn in *; try lia; auto. apply IH. lia. Qed.

Lemma set_nth_id {A} i (x : A) l : nth_error l i = Some x -> set_nth i x l = l.
Proof. revert i. induction l as [|a l IH]; intros [|i] H; cbn in *; try discriminate; [congruence|]. f_equal. auto. Qed.

Lemma set_nth_int i v (row : list cell) : int_cell v -> Forall int_cell row -> Forall int_cell (set_nth i v row).
Proof.
  intros Hv H. revert i. induction H as [|a l Ha Hl IH]; intros [|i]; cbn; auto.
Qed.

Lemma fill_from_length pend : forall i row, length (fill_from pend i row) = length row.
Proof.
  induction pend as [|p pend IH]; intros i row; cbn; auto.
  rewrite IH. destruct p; auto. apply set_nth_length.
Qed.

Lemma fill_from_int pend : forall i row, Forall int_cell row -> Forall int_cell (fill_from pend i row).
Proof.
  induction pend as [|p pend IH]; intros i row H; cbn; auto.
  apply IH. destruct p; auto. apply set_nth_int; auto. apply int_cell_of_opt.
Qed.

(* the main invariant: full = pre ++ pend, the positions of pre (indices < i) are already final *)
Lemma fill_from_spec full : forall pend pre i row,
  full = pre ++ pend -> length pre = i ->
  let final := fill_from pend i row in
  (forall j, (j < i)%nat \/ free_at full j -> nth_error final j = nth_error row j) /\
  (forall k e, nth_error pend k = Some (Some e) ->
     term_all (fun j => (j < i + k)%nat \/ free_at full j) e -> (i + k < length row)%nat ->
     nth (i + k) final CNull = cell_of_opt (eval_term final e)).
Proof.
  induction pend as [|p pend IH]; intros pre i row Hf Hl; cbn zeta.
  - cbn. split; auto. intros k e H. destruct k; discriminate.
  - cbn [fill_from].
    set (row' := match p with Some e => set_nth i (cell_of_opt (eval_term row e)) row | None => row end).
    assert (Hf' : full = (pre ++ [p]) ++ pend) by (rewrite <- app_assoc; exact Hf).
    assert (Hl' : length (pre ++ [p]) = S i) by (rewrite app_length; cbn; lia).
    destruct (IH (pre ++ [p]) (S i) row' Hf' Hl') as [I2 I3].
    assert (Hci : nth_error full i = Some p).
    { rewrite Hf, nth_error_app2 by lia. replace (i - length pre)%nat with 0%nat by lia. reflexivity. }
    assert (Hrow' : forall j, (j < i)%nat \/ free_at full j -> nth_error row' j = nth_error row j).
    { intros j Hj. unfold row'. destruct p as [e0|] eqn:Eg; auto.
      apply set_nth_other. destruct Hj as [Hj|Hj]; [lia|]. intros ->. unfold free_at in Hj. now rewrite Hci in Hj. }
    split.
    + intros j Hj. rewrite I2; [now apply Hrow'|]. destruct Hj; [left; lia|now right].
    + intros k e Hk Hrefs Hlt. destruct k as [|k].
      * cbn in Hk. injection Hk as ->. rewrite Nat.add_0_r in *.
        assert (Hrow'i : nth_error row' i = Some (cell_of_opt (eval_term row e))).
        { unfold row'. now apply set_nth_same. }
        rewrite nth_as_error, I2 by (left; lia). rewrite Hrow'i. f_equal.
        apply eval_term_ext. eapply term_all_impl; [|exact Hrefs]. cbn beta. intros j Hj.
        rewrite !nth_as_error. rewrite I2 by (destruct Hj; [left; lia|now right]). now rewrite Hrow'.
      * replace (i + S k)%nat with (S i + k)%nat in * by lia.
        apply (I3 k e Hk Hrefs). unfold row'. destruct p; [rewrite set_nth_length|]; exact Hlt.
Qed.

(* a row in which every pending position already holds its value is left alone *)
Lemma fill_from_fixed : forall pend i row,
  (forall k e, nth_error pend k = Some (Some e) -> nth_error row (i + k) = Some (cell_of_opt (eval_term row e))) ->
  fill_from pend i row = row.
Proof.
  induction pend as [|p pend IH]; intros i row H; cbn; auto.
  assert (Hp : match p with Some e => set_nth i (cell_of_opt (eval_term row e)) row | None => row end = row).
  { destruct p as [e|]; auto. apply set_nth_id. specialize (H 0%nat e eq_refl). now rewrite Nat.add_0_r in H. }
  rewrite Hp. apply IH. intros k e Hk. specialize (H (S k) e Hk). now replace (S i + k)%nat with (i + S k)%nat by lia.
Qed.

(* what a well-formed pending list is: every expression reads earlier positions or positions that are not pending *)
Definition wf_pend (pend : list (option term)) : Prop :=
  forall i e, nth_error pend i = Some (Some e) -> term_all (fun j => (j < i)%nat \/ free_at pend j) e.

Definition row_pending_ok (pend : list (option term)) (r : list (option Z)) : Prop :=
  forall i e, nth_error pend i = Some (Some e) -> nth i r None = eval_term (cells r) e.

Lemma fill_from_ok pend row :
  wf_pend pend -> length row = length pend -> Forall int_cell row ->
  row_pending_ok pend (map convert (fill_from pend 0 row)).
Proof.
  intros Hwf HL Hint i e Hp.
  rewrite cells_convert by (now apply fill_from_int).
  destruct (fill_from_spec pend pend [] 0%nat row eq_refl eq_refl) as [_ H].
  assert (Hlt : (i < length row)%nat) by (rewrite HL; eapply nth_error_some_lt; eauto).
  specialize (H i e Hp (Hwf i e Hp) Hlt). cbn in H.
  assert (Hn : nth i (map convert (fill_from pend 0 row)) None = convert (nth i (fill_from pend 0 row) CNull)).
  { rewrite !nth_as_error, nth_error_map. destruct (nth_error (fill_from pend 0 row) i); reflexivity. }
  rewrite Hn, H. apply convert_cell_of_opt.
Qed.

Lemma fill_from_free pend row j : free_at pend j -> nth_error (fill_from pend 0 row) j = nth_error row j.
Proof.
  intros H. destruct (fill_from_spec pend pend [] 0%nat row eq_refl eq_refl) as [H1 _]. apply H1. now right.
Qed.

(* ---------- schemas ---------- *)
(* a column that the second pass never fills: no generated expression, no expression default *)
Definition plain_col (sch : list col) (j : nat) : Prop :=
  match nth_error sch j with
  | Some c => gen c = None /\ match dflt c with DExpr _ => False | _ => True end
  | None => True
  end.

(* generated columns and expression defaults read earlier columns and plain columns only *)
Definition wf_schema (sch : list col) : Prop :=
  forall i c e, nth_error sch i = Some c -> (gen c = Some e \/ dflt c = DExpr e) ->
    term_all (fun j => (j < i)%nat \/ plain_col sch j) e.

(* the three pending lists of the model *)
Definition virt_pend (sch : list col) : list (option term) := map (fun c => if virt c then gen c else None) sch.

Lemma wf_pend_gen sch : wf_schema sch -> wf_pend (map gen sch).
Proof.
  intros Hwf i e Hp. rewrite nth_error_map in Hp. destruct (nth_error sch i) as [c|] eqn:Ec; [|discriminate].
  cbn in Hp. injection Hp as Hg. eapply term_all_impl; [|apply (Hwf i c e Ec); now left].
  cbn beta. intros j [Hj|Hj]; [now left|right]. unfold free_at, plain_col in *. rewrite nth_error_map.
  destruct (nth_error sch j) as [cj|]; cbn; auto. destruct Hj as [-> _]. exact I.
Qed.

Lemma wf_pend_virt sch : wf_schema sch -> wf_pend (virt_pend sch).
Proof.
  intros Hwf i e Hp. unfold virt_pend in Hp. rewrite nth_error_map in Hp.
  destruct (nth_error sch i) as [c|] eqn:Ec; [|discriminate]. cbn in Hp.
  destruct (virt c); [|discriminate]. injection Hp as Hg.
  eapply term_all_impl; [|apply (Hwf i c e Ec); now left].
  cbn beta. intros j [Hj|Hj]; [now left|right]. unfold free_at, plain_col, virt_pend in *. rewrite nth_error_map.
  destruct (nth_error sch j) as [cj|]; cbn; auto. destruct Hj as [-> _]. now destruct (virt cj).
Qed.

Lemma pend_ins_nth sch rs i :
  nth_error (map2 pend_ins sch rs) i =
  match nth_error sch i, nth_error rs i with Some c, Some r => Some (pend_ins c r) | _, _ => None end.
Proof. apply map2_nth_error. Qed.

Lemma wf_pend_ins sch rs : wf_schema sch -> wf_pend (map2 pend_ins sch rs).
Proof.
  intros Hwf i e Hp. rewrite pend_ins_nth in Hp. destruct (nth_error sch i) as [c|] eqn:Ec; [|discriminate].
  destruct (nth_error rs i) as [r|]; [|discriminate]. injection Hp as Hp.
  assert (Hge : gen c = Some e \/ dflt c = DExpr e).
  { unfold pend_ins in Hp. destruct r; try discriminate. destruct (gen c); [left; congruence|].
    destruct (dflt c); try discriminate. right. congruence. }
  eapply term_all_impl; [|apply (Hwf i c e Ec Hge)].
  cbn beta. intros j [Hj|Hj]; [now left|right]. unfold free_at, plain_col in *. rewrite pend_ins_nth.
  destruct (nth_error sch j) as [cj|]; cbn; auto. destruct (nth_error rs j) as [rj|]; auto.
  destruct Hj as [Hg Hd]. unfold pend_ins. destruct rj; auto. rewrite Hg. destruct (dflt cj); auto.
Qed.

(* ---------- the property of a stored row ---------- *)
Definition row_ok (sch : list col) (chks : list check) (r : list (option Z)) : Prop :=
  length r = length sch /\ row_checks_ok chks r /\ row_notnull_ok sch r /\ row_generated_ok sch r.

Lemma generated_ok_of_pending sch r : row_pending_ok (map gen sch) r -> row_generated_ok sch r.
Proof. intros H i c e Hs Hg. apply H. now rewrite nth_error_map, Hs, <- Hg. Qed.

Lemma fill_generated_length sch row : length (fill_generated sch row) = length row.
Proof. apply fill_from_length. Qed.

Lemma fill_generated_int sch row : Forall int_cell row -> Forall int_cell (fill_generated sch row).
Proof. apply fill_from_int. Qed.

Lemma fill_generated_ok sch row :
  wf_schema sch -> length row = length sch -> Forall int_cell row ->
  row_generated_ok sch (map convert (fill_generated sch row)).
Proof.
  intros Hwf HL Hint. apply generated_ok_of_pending. apply fill_from_ok; auto.
  - now apply wf_pend_gen.
  - now rewrite map_length.
Qed.

(* reading the virtual columns back changes nothing when the generated columns already equal their expressions *)
Lemma refresh_virtual_id sch r :
  length r = length sch -> row_generated_ok sch r -> refresh_virtual sch r = r.
Proof.
  intros HL Hg. unfold refresh_virtual. fold (cells r). fold (virt_pend sch).
  rewrite fill_from_fixed; [apply convert_cells|].
  intros k e Hk. cbn. unfold virt_pend in Hk. rewrite nth_error_map in Hk.
  destruct (nth_error sch k) as [c|] eqn:Ec; [|discriminate]. cbn in Hk.
  destruct (virt c); [|discriminate]. injection Hk as Hge.
  rewrite <- (Hg k c e Ec Hge). unfold cells. rewrite nth_error_map, nth_as_error.
  assert (Hlt : (k < length r)%nat) by (rewrite HL; eapply nth_error_some_lt; eauto).
  destruct (nth_error r k) eqn:Er; [reflexivity|]. apply nth_error_None in Er. lia.
Qed.

Lemma refresh_virtual_length sch r : length (refresh_virtual sch r) = length r.
Proof. unfold refresh_virtual. now rewrite map_length, fill_from_length, map_length. Qed.

(* a column that is not a virtual generated column is read back as stored *)
Lemma refresh_virtual_other sch r i c :
  nth_error sch i = Some c -> (virt c = false \/ gen c = None) ->
  nth_error (refresh_virtual sch r) i = nth_error r i.
Proof.
  intros Hs Hv. unfold refresh_virtual. rewrite nth_error_map, fill_from_free.
  - rewrite nth_error_map. destruct (nth_error r i); cbn; auto. now rewrite convert_cell_of_opt.
  - unfold free_at. rewrite nth_error_map, Hs. cbn. destruct Hv as [-> | ->]; auto. now destruct (virt c).
Qed.

Lemma checks_pass_ok chks row :
  Forall int_cell row -> existsb (check_false row) chks = false -> row_checks_ok chks (map convert row).
Proof.
  intros Hint Hex c Hc. rewrite cells_convert by auto. intros Hf.
  assert (existsb (check_false row) chks = true); [|congruence].
  apply existsb_exists. exists c. split; auto. unfold check_false. now rewrite Hf.
Qed.

Lemma notnull_from_strict sch row :
  length row = length sch -> nullability false sch row = Some row -> row_notnull_ok sch (map convert row).
Proof.
  intros HL H i c Hs Hn. rewrite nth_as_error, nth_error_map.
  destruct (nth_error_same_length sch row i c (eq_sym HL) Hs) as [x Hx]. rewrite Hx. cbn.
  pose proof (nullability_strict sch row row H i c x Hs Hx Hn) as Hne. destruct x; cbn; congruence.
Qed.

(* ---------- INSERT of values that already have the column type ---------- *)
Definition typed_raw (r : raw) : Prop := match r with RStrI _ | RStrF _ | RBad _ => False | _ => True end.

(* a row of an INSERT the typed theorems speak about: one value per column, no strings, DEFAULT in the generated columns *)
Definition typed_row (sch : list col) (rs : list raw) : Prop :=
  length rs = length sch /\ Forall typed_raw rs /\ existsb (fun b => b) (map2 explicit_gen sch rs) = false.

Lemma cell_of_raw_int c r : typed_raw r -> int_cell (cell_of_raw c r).
Proof. destruct r; cbn; intros H; auto; try contradiction. destruct (dflt c); exact I. Qed.

Lemma base_row_int sch rs : Forall typed_raw rs -> Forall int_cell (map2 cell_of_raw sch rs).
Proof.
  intros H. apply Forall_forall. intros x Hx. apply In_nth_error in Hx. destruct Hx as [i Hi].
  rewrite map2_nth_error in Hi. destruct (nth_error sch i) as [c|]; [|discriminate].
  destruct (nth_error rs i) as [r|] eqn:Er; [|discriminate]. injection Hi as <-.
  apply cell_of_raw_int. rewrite Forall_forall in H. apply H. eapply nth_error_In; eauto.
Qed.

Lemma existsb_id_false (l : list bool) : existsb (fun b => b) l = false -> forall i x, nth_error l i = Some x -> x = false.
Proof.
  induction l as [|a l IH]; intros H i x Hi; [destruct i; discriminate|]. cbn in H. apply orb_false_iff in H.
  destruct H as [Ha Hl]. destruct i; cbn in Hi; [congruence|eauto].
Qed.

(* the stored row of a typed INSERT: every pending expression (generated column, expression default) holds over it *)
Lemma insert_typed_row_shape sch chks rs r :
  wf_schema sch -> typed_row sch rs -> insert_row false sch chks rs = Stored r ->
  row_ok sch chks r /\ row_pending_ok (map2 pend_ins sch rs) r.
Proof.
  intros Hwf (HL & Ht & Hex) H. unfold insert_row, source_row in H.
  destruct (existsb (fun b => b) (map3 def_null sch rs _)); [discriminate|].
  set (pend := map2 pend_ins sch rs) in *. set (base := map2 cell_of_raw sch rs) in *.
  assert (HLb : length base = length sch) by (unfold base; rewrite map2_length; auto).
  assert (HLp : length pend = length sch) by (unfold pend; rewrite map2_length; auto).
  assert (Hib : Forall int_cell base) by (now apply base_row_int).
  set (filled := fill_from pend 0 base) in *.
  assert (HL0 : length filled = length sch) by (unfold filled; now rewrite fill_from_length).
  assert (Hif : Forall int_cell filled) by (now apply fill_from_int).
  destruct (nullability false sch filled) as [row1|] eqn:En; [|discriminate].
  pose proof (nullability_strict_id _ _ _ HL0 En) as ->.
  destruct (existsb (check_false filled) chks) eqn:Ec; [discriminate|].
  destruct (convert_row false sch filled) as [r0|e] eqn:Ecv; [|discriminate].
  pose proof (convert_row_strict _ _ _ HL0 Hif Ecv) as ->.
  assert (Hpend : row_pending_ok pend (map convert filled)).
  { apply fill_from_ok; auto. - now apply wf_pend_ins. - congruence. }
  assert (Hgen : row_generated_ok sch (map convert filled)).
  { intros i c e Hs Hg. apply Hpend. unfold pend. rewrite pend_ins_nth, Hs.
    destruct (nth_error_same_length sch rs i c (eq_sym HL) Hs) as [x Hx]. rewrite Hx. f_equal.
    assert (Hx' : explicit_gen c x = false).
    { apply (existsb_id_false _ Hex i). now rewrite map2_nth_error, Hs, Hx. }
    unfold explicit_gen in Hx'. rewrite Hg in Hx'. destruct x; try discriminate. cbn. now rewrite Hg. }
  rewrite refresh_virtual_id in H by (rewrite ?map_length; auto). injection H as <-.
  split; [split; [|split; [|split]]|]; auto.
  - now rewrite map_length.
  - now apply checks_pass_ok.
  - now apply notnull_from_strict.
Qed.

Theorem insert_typed_row_ok sch chks rs r :
  wf_schema sch -> typed_row sch rs -> insert_row false sch chks rs = Stored r -> row_ok sch chks r.
Proof. intros Hwf Ht H. now destruct (insert_typed_row_shape sch chks rs r Hwf Ht H). Qed.

(* expression defaults: an omitted / DEFAULT column with DEFAULT (e) holds e evaluated over the stored row *)
Theorem expression_defaults_applied sch chks rs r i c e :
  wf_schema sch -> typed_row sch rs -> insert_row false sch chks rs = Stored r ->
  nth_error sch i = Some c -> gen c = None -> dflt c = DExpr e -> nth_error rs i = Some RDef ->
  nth i r None = eval_term (cells r) e.
Proof.
  intros Hwf Ht H Hs Hg Hd Hr. destruct (insert_typed_row_shape sch chks rs r Hwf Ht H) as [_ Hp].
  apply Hp. rewrite pend_ins_nth, Hs, Hr. cbn. now rewrite Hg, Hd.
Qed.

(* literal defaults: any values elsewhere, IGNORE or not *)
Theorem defaults_applied ign sch chks rs r i c :
  length rs = length sch -> insert_row ign sch chks rs = Stored r ->
  nth_error sch i = Some c -> gen c = None -> nth_error rs i = Some RDef ->
  match dflt c with
  | DLit d => in_range (cty c) d = true -> nth i r None = Some d
  | DNone => in_range (cty c) 0 = true -> nth i r None = if ign && notnull c then Some 0 else None
  | DExpr _ => True
  end.
Proof.
  intros HL H Hs Hg Hr. unfold insert_row, source_row in H.
  destruct (existsb (fun b => b) _); [discriminate|].
  destruct (nullability ign sch _) as [row1|] eqn:En; [|discriminate].
  destruct (existsb _ chks); [destruct ign; discriminate|].
  destruct (convert_row ign sch row1) as [r0|e0] eqn:Ecv; [|discriminate]. injection H as <-.
  assert (Hbase : nth_error (fill_from (map2 pend_ins sch rs) 0 (map2 cell_of_raw sch rs)) i =
                  Some (match dflt c with DLit d => CInt d | _ => CNull end) \/ exists e, dflt c = DExpr e).
  { destruct (dflt c) as [|d|e] eqn:Ed; [left|left|right; eauto];
      (rewrite fill_from_free; [rewrite map2_nth_error, Hs, Hr; cbn; now rewrite Ed|];
       unfold free_at; rewrite pend_ins_nth, Hs, Hr; cbn; now rewrite Hg, Ed). }
  destruct (dflt c) as [|d|e] eqn:Ed; auto.
  - intros Hin. destruct Hbase as [Hbase|[e He]]; [|discriminate].
    rewrite nth_as_error, (refresh_virtual_other sch r0 i c Hs (or_intror Hg)).
    rewrite (convert_row_nth _ _ _ _ Ecv i), Hs, (nullability_nth ign _ _ _ En i), Hs, Hbase.
    destruct (notnull c) eqn:Enn; cbn.
    + destruct ign; cbn.
      * unfold conv_val. cbn. unfold conv_range. now rewrite Hin.
      * exfalso. eapply (nullability_strict _ _ _ En i c CNull); eauto.
    + now rewrite andb_false_r.
  - intros Hin. destruct Hbase as [Hbase|[e He]]; [|discriminate].
    rewrite nth_as_error, (refresh_virtual_other sch r0 i c Hs (or_intror Hg)).
    rewrite (convert_row_nth _ _ _ _ Ecv i), Hs, (nullability_nth ign _ _ _ En i), Hs, Hbase.
    unfold conv_val. cbn. unfold conv_range. now rewrite Hin.
Qed.

(* ---------- NOT NULL holds for every stored row, whatever the values and with or without IGNORE ---------- *)
(* virtual generated columns are nullable *)
Definition wf_virtual (sch : list col) : Prop :=
  forall i c, nth_error sch i = Some c -> virt c = true -> notnull c = false.

Definition shape_ok (sch : list col) (r : list (option Z)) : Prop :=
  length r = length sch /\ row_notnull_ok sch r.

Lemma refresh_shape sch r : wf_virtual sch -> shape_ok sch r -> shape_ok sch (refresh_virtual sch r).
Proof.
  intros Hv [HL Hn]. split; [now rewrite refresh_virtual_length|].
  intros i c Hs Hnn. rewrite nth_as_error, (refresh_virtual_other sch r i c Hs).
  - rewrite <- nth_as_error. now apply (Hn i c).
  - left. destruct (virt c) eqn:E; auto. rewrite (Hv i c Hs E) in Hnn. discriminate.
Qed.

Lemma convert_row_shape ign sch row1 row0 r :
  length row0 = length sch -> nullability ign sch row0 = Some row1 -> convert_row ign sch row1 = inl r -> shape_ok sch r.
Proof.
  intros HL En Ecv.
  assert (HL1 : length row1 = length sch) by (eapply nullability_length; eauto).
  split; [eapply convert_row_length; eauto|].
  intros i c Hs Hn. rewrite nth_as_error, (convert_row_nth _ _ _ _ Ecv i), Hs.
  destruct (nth_error_same_length sch row1 i c (eq_sym HL1) Hs) as [x Hx]. rewrite Hx.
  apply conv_val_not_none; [|eapply convert_row_noerr; eauto].
  rewrite (nullability_nth ign _ _ _ En i), Hs in Hx.
  destruct (nth_error row0 i) as [y|]; [|discriminate]. injection Hx as <-.
  destruct y; try discriminate. rewrite Hn. discriminate.
Qed.

Theorem insert_row_notnull ign sch chks rs r :
  wf_virtual sch -> length rs = length sch -> insert_row ign sch chks rs = Stored r -> shape_ok sch r.
Proof.
  intros Hv HL H. unfold insert_row, source_row in H.
  destruct (existsb (fun b => b) _); [discriminate|].
  destruct (nullability ign sch _) as [row1|] eqn:En; [|discriminate].
  destruct (existsb _ chks); [destruct ign; discriminate|].
  destruct (convert_row ign sch row1) as [r0|e0] eqn:Ecv; [|discriminate]. injection H as <-.
  apply refresh_shape; auto. eapply convert_row_shape; eauto.
  rewrite fill_from_length. now apply map2_length.
Qed.

Lemma apply_sets_length ign sch : forall sets row w,
  apply_sets ign sch row sets = inl w -> length w = length row.
Proof.
  induction sets as [|[i rhs] sets IH]; intros row w H; cbn in H.
  - now injection H as <-.
  - destruct (set_value ign sch row i rhs) as [v|]; [|discriminate].
    rewrite (IH _ _ H). apply set_nth_length.
Qed.

Lemma nullability_notnull ign sch row row' :
  length row = length sch -> nullability ign sch row = Some row' -> row_notnull_ok sch (map convert row').
Proof.
  intros HL H i c Hs Hn. rewrite nth_as_error, nth_error_map, (nullability_nth ign _ _ _ H i), Hs.
  destruct (nth_error_same_length sch row i c (eq_sym HL) Hs) as [x Hx]. rewrite Hx. cbn.
  destruct x; cbn; try congruence. rewrite Hn. cbn. congruence.
Qed.

Theorem update_row_notnull ign sch chks sets old r :
  wf_virtual sch -> shape_ok sch old -> update_row ign sch chks sets old = Stored r -> shape_ok sch r.
Proof.
  intros Hv [HLo Hno] H. unfold update_row in H.
  destruct (apply_sets ign sch (map cell_of_opt old) sets) as [w|] eqn:Ea; [|discriminate].
  assert (HLw : length w = length sch).
  { rewrite (apply_sets_length _ _ _ _ _ Ea), map_length. auto. }
  set (w1 := if row_eqb (map convert w) old then w else fill_generated sch w) in *.
  assert (HL1 : length w1 = length sch).
  { unfold w1. destruct (row_eqb (map convert w) old); auto. now rewrite fill_generated_length. }
  destruct (row_eqb (map convert w1) old); [injection H as <-; split; auto|].
  destruct (existsb (check_false w1) chks); [destruct ign; discriminate|].
  destruct (nullability ign sch w1) as [w2|] eqn:En; [|discriminate]. injection H as <-.
  apply refresh_shape; auto. split.
  - rewrite map_length. eapply nullability_length; eauto.
  - eapply nullability_notnull; eauto.
Qed.

Lemma firstn_length_le {A} n (l : list A) : (n <= length l)%nat -> length (firstn n l) = n.
Proof. intros H. rewrite firstn_length. lia. Qed.

Lemma Forall_firstn {A} (P : A -> Prop) n l : Forall P l -> Forall P (firstn n l).
Proof. intros H. revert n. induction H; intros [|n]; cbn; auto. Qed.

Lemma odku_row_notnull ign sch chks sets old new r :
  wf_virtual sch -> shape_ok sch old -> odku_row ign sch chks sets old new = Stored r -> shape_ok sch r.
Proof.
  intros Hv [HLo Hno] H. unfold odku_row in H.
  destruct (apply_sets false sch _ sets) as [acc|] eqn:Ea; [|discriminate].
  assert (HLw : length (firstn (length old) acc) = length sch).
  { rewrite firstn_length_le; auto. rewrite (apply_sets_length _ _ _ _ _ Ea), app_length, !map_length. lia. }
  set (w := firstn (length old) acc) in *.
  set (w1 := if row_eqb (map convert w) old then w else fill_generated sch w) in *.
  assert (HL1 : length w1 = length sch).
  { unfold w1. destruct (row_eqb (map convert w) old); auto. now rewrite fill_generated_length. }
  destruct (existsb (check_false w1) chks); [destruct ign; discriminate|].
  destruct (nullability false sch w1) as [w2|] eqn:En; [|discriminate]. injection H as <-.
  apply refresh_shape; auto. split.
  - rewrite map_length. eapply nullability_length; eauto.
  - eapply nullability_notnull; eauto.
Qed.

(* ---------- the statements: one invariant P on rows, preserved by the row-level steps ---------- *)
Section Statements.
  Variable sch : list col.
  Variable chks : list check.
  Variable P : list (option Z) -> Prop.

  Lemma insert_rows_forall ign (Q : list raw -> Prop) :
    (forall rs r, Q rs -> insert_row ign sch chks rs = Stored r -> P r) ->
    forall rows acc t', Forall Q rows -> Forall P acc -> insert_rows ign sch chks rows acc = inl t' -> Forall P t'.
  Proof.
    intros Hi. induction rows as [|rs rows IH]; intros acc t' Hl Ha H; cbn in H.
    - now injection H as <-.
    - inversion Hl as [|? ? Hl1 Hl2]; subst.
      destruct (insert_row ign sch chks rs) as [r| |e] eqn:E; try discriminate.
      + apply (IH (acc ++ [r])); auto. apply Forall_app. split; auto. constructor; eauto.
      + apply (IH acc); auto.
  Qed.

  Lemma update_rows_forall ign sets wh :
    (forall old r, P old -> update_row ign sch chks sets old = Stored r -> P r) ->
    forall t t', Forall P t -> update_rows ign sch chks sets wh t = inl t' -> Forall P t'.
  Proof.
    intros Hu. induction t as [|r t IH]; intros t' Ht H; cbn in H.
    - now injection H as <-.
    - inversion Ht as [|? ? Hr Ht']; subst.
      destruct (matches wh r).
      + destruct (update_row ign sch chks sets r) as [r'| |e] eqn:E; try discriminate.
        * destruct (update_rows ign sch chks sets wh t) as [t2|]; [|discriminate]. injection H as <-.
          constructor; eauto.
        * destruct (update_rows ign sch chks sets wh t) as [t2|]; [|discriminate]. injection H as <-.
          constructor; auto.
      + destruct (update_rows ign sch chks sets wh t) as [t2|]; [|discriminate]. injection H as <-.
        constructor; auto.
  Qed.

  Lemma insert_by_id_forall r : forall t, P r -> Forall P t -> Forall P (insert_by_id r t).
  Proof.
    induction t as [|x t IH]; intros Hr Ht; cbn; [constructor; auto|].
    inversion Ht as [|? ? Hx Ht']; subst.
    destruct (nth 0 r None), (nth 0 x None); try (constructor; auto).
    destruct (z <? z0); constructor; auto.
  Qed.

  Lemma replace_id_forall k r : forall t, P r -> Forall P t -> Forall P (replace_id k r t).
  Proof.
    induction t as [|x t IH]; intros Hr Ht; cbn; auto.
    inversion Ht as [|? ? Hx Ht']; subst. destruct (opt_eqb (nth 0 x None) k); constructor; auto.
  Qed.

  Lemma filter_forall (f : list (option Z) -> bool) t : Forall P t -> Forall P (filter f t).
  Proof. induction 1; cbn; auto. destruct (f x); auto. Qed.

  Lemma upsert_rows_forall ign sets (Q : list raw -> Prop) :
    (forall rs r, Q rs -> insert_row ign sch chks rs = Stored r -> P r) ->
    (forall old new r, P old -> P new -> odku_row ign sch chks sets old new = Stored r -> P r) ->
    forall rows t t', Forall Q rows -> Forall P t -> upsert_rows ign sch chks sets rows t = inl t' -> Forall P t'.
  Proof.
    intros Hi Hu. induction rows as [|rs rows IH]; intros t t' Hl Ht H; cbn in H.
    - now injection H as <-.
    - inversion Hl as [|? ? Hl1 Hl2]; subst.
      destruct (insert_row ign sch chks rs) as [r| |e] eqn:Ei; try discriminate.
      + assert (Pr : P r) by eauto.
        destruct (find (same_id r) t) as [old|] eqn:Ef.
        * apply find_some in Ef. destruct Ef as [Hin _].
          assert (Pold : P old) by (rewrite Forall_forall in Ht; auto).
          destruct (odku_row ign sch chks sets old r) as [r'| |e] eqn:Eo; try discriminate.
          -- apply (IH _ _ Hl2 (replace_id_forall _ r' t (Hu _ _ _ Pold Pr Eo) Ht) H).
          -- apply (IH _ _ Hl2 Ht H).
        * apply (IH _ _ Hl2 (insert_by_id_forall r t Pr Ht) H).
      + apply (IH _ _ Hl2 Ht H).
  Qed.

  Lemma replace_rows_forall (Q : list raw -> Prop) :
    (forall rs r, Q rs -> insert_row false sch chks rs = Stored r -> P r) ->
    forall rows t t', Forall Q rows -> Forall P t -> replace_rows sch chks rows t = inl t' -> Forall P t'.
  Proof.
    intros Hi. induction rows as [|rs rows IH]; intros t t' Hl Ht H; cbn in H.
    - now injection H as <-.
    - inversion Hl as [|? ? Hl1 Hl2]; subst.
      destruct (insert_row false sch chks rs) as [r| |e] eqn:Ei; try discriminate.
      + apply (IH _ _ Hl2 (insert_by_id_forall r _ (Hi _ _ Hl1 Ei) (filter_forall _ t Ht)) H).
      + apply (IH _ _ Hl2 Ht H).
  Qed.
End Statements.

Definition stmt_lengths_ok (sch : list col) (s : stmt) : Prop :=
  match s with
  | Insert _ rows | Upsert _ rows _ | Replace rows => Forall (fun rs => length rs = length sch) rows
  | Update _ _ _ => True
  end.

Lemma exec_fin_forall (P : list (option Z) -> Prop) (t : table) (x : table + err) :
  Forall P t -> (forall t', x = inl t' -> Forall P t') ->
  Forall P (fst (match x with inl t' => (t', ROk) | inr e => (t, RErr e) end)).
Proof. intros Ht H. destruct x; cbn; auto. Qed.

Theorem not_null_respected sch chks : wf_virtual sch -> forall h t,
  Forall (stmt_lengths_ok sch) h -> Forall (shape_ok sch) t -> Forall (shape_ok sch) (run sch chks t h).
Proof.
  intros Hv. induction h as [|s h IH]; intros t Hh Ht; cbn [run]; auto.
  inversion Hh as [|? ? Hs Hh']; subst. apply IH; auto.
  unfold exec. set (ck := eff_checks sch chks).
  destruct s as [ign rows|ign sets wh|ign rows sets|rows]; cbn in Hs.
  - destruct (first_row_gen_value sch rows); [exact Ht|]. apply exec_fin_forall; auto. intros t' E.
    eapply (insert_rows_forall sch ck (shape_ok sch) ign (fun rs => length rs = length sch)); eauto.
    intros rs r Hl Hr. eapply insert_row_notnull; eauto.
  - apply exec_fin_forall; auto. intros t' E.
    eapply (update_rows_forall sch ck (shape_ok sch)); eauto.
    intros old r Ho Hr. eapply update_row_notnull; eauto.
  - destruct (first_row_gen_value sch rows); [exact Ht|]. apply exec_fin_forall; auto. intros t' E.
    eapply (upsert_rows_forall sch ck (shape_ok sch) ign sets (fun rs => length rs = length sch)); eauto.
    + intros rs r Hl Hr. eapply insert_row_notnull; eauto.
    + intros old new r Ho _ Hr. eapply odku_row_notnull; eauto.
  - destruct (first_row_gen_value sch rows); [exact Ht|]. apply exec_fin_forall; auto. intros t' E.
    eapply (replace_rows_forall sch ck (shape_ok sch) (fun rs => length rs = length sch)); eauto.
    intros rs r Hl Hr. eapply insert_row_notnull; eauto.
Qed.

(* ---------- UPDATE / ON DUPLICATE KEY UPDATE with typed right sides, no IGNORE ---------- *)
Definition typed_rhs (x : urhs) : Prop := match x with URaw r => typed_raw r | UTerm _ => True end.

Lemma set_value_int ign sch row i rhs v : set_value ign sch row i rhs = inl v -> int_cell v.
Proof.
  unfold set_value. destruct rhs as [r|e].
  - destruct r; intros H; try (injection H as <-; cbn; auto; fail);
      try (destruct ign; [injection H as <-; exact I|discriminate]).
    destruct (gen (nth i sch no_col)); [injection H as <-; destruct (eval_term row t); exact I|].
    destruct (dflt (nth i sch no_col)); try (injection H as <-; exact I).
    destruct (eval_term row e); [injection H as <-; exact I|].
    destruct (notnull (nth i sch no_col)); [discriminate|injection H as <-; exact I].
  - intros H. injection H as <-. destruct (eval_term row e); exact I.
Qed.

Lemma apply_sets_int ign sch : forall sets row w,
  Forall int_cell row -> apply_sets ign sch row sets = inl w -> Forall int_cell w.
Proof.
  induction sets as [|[i rhs] sets IH]; intros row w Hr H; cbn in H.
  - now injection H as <-.
  - destruct (set_value ign sch row i rhs) as [v|] eqn:Ev; [|discriminate].
    apply (IH _ _ (set_nth_int i v row (set_value_int _ _ _ _ _ _ Ev) Hr) H).
Qed.

Lemma opt_eqb_eq a b : opt_eqb a b = true -> a = b.
Proof. destruct a, b; cbn; try discriminate; auto. intros H. apply Z.eqb_eq in H. now subst. Qed.

Lemma row_eqb_eq : forall a b, row_eqb a b = true -> a = b.
Proof.
  induction a as [|x a IH]; intros [|y b] H; cbn in H; try discriminate; auto.
  apply andb_true_iff in H. destruct H as [H1 H2]. apply opt_eqb_eq in H1. apply IH in H2. congruence.
Qed.

(* the common tail of UPDATE and ON DUPLICATE KEY UPDATE: the recomputed row passes the checks and is stored *)
Lemma recomputed_row_ok sch chks w r :
  wf_schema sch -> length w = length sch -> Forall int_cell w ->
  existsb (check_false (fill_generated sch w)) chks = false ->
  nullability false sch (fill_generated sch w) = Some r ->
  row_ok sch chks (refresh_virtual sch (map convert r)).
Proof.
  intros Hwf HLw Hiw Ec En.
  assert (HL1 : length (fill_generated sch w) = length sch) by (now rewrite fill_generated_length).
  pose proof (nullability_strict_id _ _ _ HL1 En) as ->.
  assert (Hg : row_generated_ok sch (map convert (fill_generated sch w))) by (now apply fill_generated_ok).
  rewrite refresh_virtual_id by (rewrite ?map_length; auto).
  split; [|split; [|split]]; auto.
  - now rewrite map_length.
  - apply checks_pass_ok; auto. now apply fill_generated_int.
  - now apply notnull_from_strict.
Qed.

Theorem update_typed_row_ok sch chks sets old r :
  wf_schema sch -> row_ok sch chks old -> update_row false sch chks sets old = Stored r -> row_ok sch chks r.
Proof.
  intros Hwf Hold H. pose proof Hold as (HLo & _). unfold update_row in H.
  destruct (apply_sets false sch (map cell_of_opt old) sets) as [w|] eqn:Ea; [|discriminate].
  assert (HLw : length w = length sch).
  { rewrite (apply_sets_length _ _ _ _ _ Ea), map_length. auto. }
  assert (Hiw : Forall int_cell w) by (exact (apply_sets_int false sch sets (cells old) w (cells_int old) Ea)).
  destruct (row_eqb (map convert w) old) eqn:E1.
  - rewrite E1 in H. now injection H as <-.
  - destruct (row_eqb (map convert (fill_generated sch w)) old); [now injection H as <-|].
    destruct (existsb (check_false (fill_generated sch w)) chks) eqn:Ec; [discriminate|].
    destruct (nullability false sch (fill_generated sch w)) as [w2|] eqn:En; [|discriminate].
    injection H as <-. now apply (recomputed_row_ok sch chks w w2).
Qed.

Theorem odku_typed_row_ok sch chks sets old new r :
  wf_schema sch -> row_ok sch chks old -> odku_row false sch chks sets old new = Stored r -> row_ok sch chks r.
Proof.
  intros Hwf Hold H. pose proof Hold as (HLo & _). unfold odku_row in H.
  destruct (apply_sets false sch _ sets) as [acc|] eqn:Ea; [|discriminate].
  set (w := firstn (length old) acc) in *.
  assert (HLw : length w = length sch).
  { unfold w. rewrite firstn_length_le; auto. rewrite (apply_sets_length _ _ _ _ _ Ea), app_length, !map_length. lia. }
  assert (Hiw : Forall int_cell w).
  { apply Forall_firstn. apply (apply_sets_int false sch sets (cells old ++ cells new) acc); auto. apply Forall_app. split; apply cells_int. }
  destruct (row_eqb (map convert w) old) eqn:E1.
  - destruct (existsb (check_false w) chks); [discriminate|].
    destruct (nullability false sch w) as [w2|] eqn:En; [|discriminate].
    pose proof (nullability_strict_id _ _ _ HLw En) as ->. injection H as <-.
    apply row_eqb_eq in E1. rewrite E1. rewrite refresh_virtual_id; auto. now destruct Hold as (_ & _ & _ & Hg).
  - destruct (existsb (check_false (fill_generated sch w)) chks) eqn:Ec; [discriminate|].
    destruct (nullability false sch (fill_generated sch w)) as [w2|] eqn:En; [|discriminate].
    injection H as <-. now apply (recomputed_row_ok sch chks w w2).
Qed.

(* ---------- all histories of typed statements without IGNORE ---------- *)
Definition typed_stmt (sch : list col) (s : stmt) : Prop :=
  match s with
  | Insert ign rows => ign = false /\ Forall (typed_row sch) rows
  | Update ign _ _ => ign = false
  | Upsert ign rows _ => ign = false /\ Forall (typed_row sch) rows
  | Replace rows => Forall (typed_row sch) rows
  end.

(* the CHECKs the engine enforces: none at all when the table has a VIRTUAL column *)
Theorem stored_rows_ok_typed_histories sch chks : wf_schema sch -> forall h t,
  Forall (typed_stmt sch) h -> Forall (row_ok sch (eff_checks sch chks)) t ->
  Forall (row_ok sch (eff_checks sch chks)) (run sch chks t h).
Proof.
  intros Hwf. induction h as [|s h IH]; intros t Hh Ht; cbn [run]; auto.
  inversion Hh as [|? ? Hs Hh']; subst. apply IH; auto.
  unfold exec. set (ck := eff_checks sch chks) in *.
  destruct s as [ign rows|ign sets wh|ign rows sets|rows]; cbn in Hs.
  - destruct Hs as [-> Hs]. destruct (first_row_gen_value sch rows); [exact Ht|]. apply exec_fin_forall; auto. intros t' E.
    eapply (insert_rows_forall sch ck (row_ok sch ck) false (typed_row sch)); eauto.
    intros rs r Hl Hr. eapply insert_typed_row_ok; eauto.
  - subst ign. apply exec_fin_forall; auto. intros t' E.
    eapply (update_rows_forall sch ck (row_ok sch ck)); eauto.
    intros old r Ho Hr. eapply update_typed_row_ok; eauto.
  - destruct Hs as [-> Hs]. destruct (first_row_gen_value sch rows); [exact Ht|]. apply exec_fin_forall; auto. intros t' E.
    eapply (upsert_rows_forall sch ck (row_ok sch ck) false sets (typed_row sch)); eauto.
    + intros rs r Hl Hr. eapply insert_typed_row_ok; eauto.
    + intros old new r Ho _ Hr. eapply odku_typed_row_ok; eauto.
  - destruct (first_row_gen_value sch rows); [exact Ht|]. apply exec_fin_forall; auto. intros t' E.
    eapply (replace_rows_forall sch ck (row_ok sch ck) (typed_row sch)); eauto.
    intros rs r Hl Hr. eapply insert_typed_row_ok; eauto.
Qed.

(* without a VIRTUAL column these are the declared CHECKs *)
Lemma eff_checks_no_virtual sch chks : existsb virt sch = false -> eff_checks sch chks = chks.
Proof. intros H. unfold eff_checks. now rewrite H. Qed.

(* ---------- what is false of the faithful model ---------- *)
Definition I32 := mkTy (-2147483648) 2147483647 false.
Definition I8 := mkTy (-128) 127 false.
Definition U8 := mkTy 0 255 true.
Definition bcol (nn : bool) := mkCol I32 nn DNone None false.
Definition gcol (e : term) := mkCol I32 false DNone (Some e) false.

(* t (c0 INT PRIMARY KEY, c1 INT, CHECK (c1 < 10)); INSERT INTO t VALUES (1, '9.6') stores 10 *)
Definition w_sch1 := [bcol true; bcol false].
Definition w_chk1 := [mkCheck Lt (TCol 1) (TLit 10)].
Lemma check_before_convert_witness :
  run w_sch1 w_chk1 [] [Insert false [[RInt 1; RStrF 96]]] = [[Some 1; Some 10]] /\
  eval_check (cells [Some 1; Some 10]) (mkCheck Lt (TCol 1) (TLit 10)) = Some false.
Proof. split; vm_compute; reflexivity. Qed.

(* t (c0, c1 INT, c2 INT AS (c1 * 2) STORED); '9.6' stores c1 = 10, c2 = 18 *)
Definition w_sch2 := [bcol true; bcol false; gcol (TMul (TCol 1) (TLit 2))].
Lemma generated_before_convert_witness :
  run w_sch2 [] [] [Insert false [[RInt 1; RStrF 96; RDef]]] = [[Some 1; Some 10; Some 18]] /\
  eval_term (cells [Some 1; Some 10; Some 18]) (TMul (TCol 1) (TLit 2)) = Some 20.
Proof. split; vm_compute; reflexivity. Qed.

(* t (c0, c1 INT NOT NULL, c2 INT AS (c1 + 1) STORED, CHECK (c1 > 5)); UPDATE IGNORE t SET c1 = NULL: c1 = 0, c2 = NULL *)
Definition w_sch3 := [bcol true; bcol true; gcol (TAdd (TCol 1) (TLit 1))].
Definition w_chk3 := [mkCheck Gt (TCol 1) (TLit 5)].
Lemma update_ignore_null_witness :
  run w_sch3 w_chk3 [] [Insert false [[RInt 1; RInt 7; RDef]]; Update true [(1%nat, URaw RNull)] (Some 1)]
    = [[Some 1; Some 0; None]] /\
  eval_check (cells [Some 1; Some 0; None]) (mkCheck Gt (TCol 1) (TLit 5)) = Some false /\
  eval_term (cells [Some 1; Some 0; None]) (TAdd (TCol 1) (TLit 1)) = Some 1.
Proof. repeat split; vm_compute; reflexivity. Qed.

(* INSERT IGNORE of NULL into NOT NULL c1 with c3 = c1 + c2: c1 = 0, c3 = NULL *)
Definition w_sch4 := [bcol true; bcol true; mkCol I32 false (DLit 4) None false; gcol (TAdd (TCol 1) (TCol 2))].
Lemma insert_ignore_null_witness :
  run w_sch4 [] [] [Insert true [[RInt 1; RNull; RDef; RDef]]] = [[Some 1; Some 0; Some 4; None]] /\
  eval_term (cells [Some 1; Some 0; Some 4; None]) (TAdd (TCol 1) (TCol 2)) = Some 4.
Proof. split; vm_compute; reflexivity. Qed.

(* t (c0, c1 TINYINT, c2 TINYINT UNSIGNED, c3 AS (c1 + 1), CHECK (c1 <> 127), CHECK (c2 < 100)):
   INSERT IGNORE (1, 200, -5) stores c1 = 127 (clamped), c2 = 251 (wrapped), c3 = 201 *)
Definition w_sch5 := [bcol true; mkCol I8 false DNone None false; mkCol U8 false DNone None false; gcol (TAdd (TCol 1) (TLit 1))].
Definition w_chk5 := [mkCheck Ne (TCol 1) (TLit 127); mkCheck Lt (TCol 2) (TLit 100)].
Lemma ignore_clamp_witness :
  run w_sch5 w_chk5 [] [Insert true [[RInt 1; RInt 200; RInt (-5); RDef]]] = [[Some 1; Some 127; Some 251; Some 201]] /\
  eval_check (cells [Some 1; Some 127; Some 251; Some 201]) (mkCheck Ne (TCol 1) (TLit 127)) = Some false /\
  eval_check (cells [Some 1; Some 127; Some 251; Some 201]) (mkCheck Lt (TCol 2) (TLit 100)) = Some false /\
  eval_term (cells [Some 1; Some 127; Some 251; Some 201]) (TAdd (TCol 1) (TLit 1)) = Some 128.
Proof. repeat split; vm_compute; reflexivity. Qed.

(* CHECK (c1 <> 12): INSERT IGNORE (1, '12abc') compares 0 with 12 and stores 12 *)
Definition w_chk6 := [mkCheck Ne (TCol 1) (TLit 12)].
Lemma malformed_string_witness :
  run w_sch1 w_chk6 [] [Insert true [[RInt 1; RBad 12]]] = [[Some 1; Some 12]] /\
  eval_check (cells [Some 1; Some 12]) (mkCheck Ne (TCol 1) (TLit 12)) = Some false.
Proof. split; vm_compute; reflexivity. Qed.

(* t (c0, c1 INT, c2 INT DEFAULT (c1 + 1)): INSERT (1, '3.6') stores c1 = 4 and c2 = 3 + 1 *)
Definition w_sch7 := [bcol true; bcol false; mkCol I32 false (DExpr (TAdd (TCol 1) (TLit 1))) None false].
Lemma expression_default_witness :
  run w_sch7 [] [] [Insert false [[RInt 1; RStrF 36; RDef]]] = [[Some 1; Some 4; Some 4]] /\
  eval_term (cells [Some 1; Some 4; Some 4]) (TAdd (TCol 1) (TLit 1)) = Some 5.
Proof. split; vm_compute; reflexivity. Qed.

(* t (c0, c1 INT, c2 INT AS (c1 + 1) VIRTUAL, CHECK (c1 < 10)): no check is enforced: INSERT (1, 30), UPDATE c1 = 50 *)
Definition w_sch8 := [bcol true; bcol false; mkCol I32 false DNone (Some (TAdd (TCol 1) (TLit 1))) true].
Lemma virtual_checks_witness :
  run w_sch8 w_chk1 [] [Insert false [[RInt 1; RInt 30; RDef]]] = [[Some 1; Some 30; Some 31]] /\
  run w_sch8 w_chk1 [] [Insert false [[RInt 1; RInt 3; RDef]]; Update false [(1%nat, URaw (RInt 50))] None]
    = [[Some 1; Some 50; Some 51]] /\
  eval_check (cells [Some 1; Some 30; Some 31]) (mkCheck Lt (TCol 1) (TLit 10)) = Some false.
Proof. repeat split; vm_compute; reflexivity. Qed.

(* t (c0, c1 INT, c2 INT AS (c1 * 2) STORED): INSERT VALUES (1, 1, DEFAULT), (2, 1, 99) stores 99 in the generated column *)
Lemma explicit_generated_witness :
  run w_sch2 [] [] [Insert false [[RInt 1; RInt 1; RDef]; [RInt 2; RInt 1; RInt 99]]]
    = [[Some 1; Some 1; Some 2]; [Some 2; Some 1; Some 99]] /\
  run w_sch2 [] [] [Insert false [[RInt 2; RInt 1; RInt 99]; [RInt 1; RInt 1; RDef]]] = [].
Proof. split; vm_compute; reflexivity. Qed.

(* non-vacuity: a typed history with all four statement kinds that stores rows, with a wf schema *)
Definition w_hist :=
  [Insert false [[RInt 1; RInt 7; RDef; RDef]; [RInt 2; RDec 26; RNull; RDef]];
   Update false [(1%nat, UTerm (TAdd (TCol 2) (TLit 10)))] (Some 1);
   Upsert false [[RInt 2; RInt 5; RInt 1; RDef]; [RInt 3; RInt 6; RInt 2; RDef]] [(1%nat, UTerm (TAdd (TCol 5) (TLit 20)))];
   Replace [[RInt 1; RInt 9; RInt 3; RDef]]].
Lemma nonvacuous_example :
  wf_schema w_sch4 /\ Forall (typed_stmt w_sch4) w_hist /\
  run w_sch4 [mkCheck Lt (TCol 2) (TCol 1)] [] w_hist
    = [[Some 1; Some 9; Some 3; Some 12]; [Some 2; Some 25; None; None]; [Some 3; Some 6; Some 2; Some 8]].
Proof.
  split; [|split].
  - intros i c e Hs Hg. do 4 (destruct i as [|i]; cbn in Hs; [injection Hs as <-; cbn in Hg; destruct Hg as [Hg|Hg]; try discriminate|]).
    + injection Hg as <-. cbn. split; left; lia.
    + destruct i; discriminate.
  - repeat constructor.
  - vm_compute. reflexivity.
Qed.
