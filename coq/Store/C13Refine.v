(* C13: the reference table model (a keyed map held as a list of rows with pairwise different keys, edits applied
   immediately, row at a time) and the proof that the accumulator-based editor of Store/C14Editor.v refines it. *)
From Coq Require Import List NArith ZArith Bool Lia Permutation.
Import ListNotations.
From GMS Require Import Store.C14Editor Store.C14EditorProofs.

(* ---------- reference editor: the logical table itself ---------- *)
Definition sp_get (sch : schema) (L : list row) (r : row) : option row := find (fun x => pk_match sch x r) L.

Definition sp_get_by_cols (L : list row) (r : row) (cols : list nat) (pls : list N) : option row :=
  find (fun x => cols_match cols pls x r) L.

Definition sp_insert (sch : schema) (L : list row) (r : row) : res (list row) :=
  match sp_get sch L r with
  | Some ex => RDup ex
  | None => match check_unique (sp_get_by_cols L) (s_uniq sch) r with
            | Some ex => RDup ex
            | None => ROk (L ++ [r])
            end
  end.

Definition sp_delete (sch : schema) (L : list row) (r : row) : list row := remove_first (fun x => pk_match sch x r) L.

Definition sp_update (sch : schema) (L : list row) (old new : row) : res (list row) :=
  let L1 := sp_delete sch L old in
  match (if pk_match sch old new then None else sp_get sch L1 new) with
  | Some ex => RDup ex
  | None => match check_unique (sp_get_by_cols L1) (s_uniq sch) new with
            | Some ex => RDup ex
            | None => ROk (L1 ++ [new])
            end
  end.

Definition sp_begin (rows : list row) : list row := rows.
Definition sp_commit (sch : schema) (L : list row) : list row := sort_rows sch L.

(* the same statement iterators, run directly on the logical table *)
Definition spec_exec (sch : schema) :=
  exec sp_begin (sp_insert sch) (sp_delete sch) (sp_update sch) (sp_commit sch) sch.

Definition spec_history (sch : schema) (rows : list row) (h : list stmt) : list row :=
  fold_left (fun rs st => snd (spec_exec sch rs st)) h rows.

(* ---------- generic: related editors give equal statement results ---------- *)
Section ExecSim.
  Context {S1 S2 : Type}.
  Variable b1 : list row -> S1.
  Variable i1 : S1 -> row -> res S1.
  Variable d1 : S1 -> row -> S1.
  Variable u1 : S1 -> row -> row -> res S1.
  Variable c1 : S1 -> list row.
  Variable b2 : list row -> S2.
  Variable i2 : S2 -> row -> res S2.
  Variable d2 : S2 -> row -> S2.
  Variable u2 : S2 -> row -> row -> res S2.
  Variable c2 : S2 -> list row.
  Variable sch : schema.
  Variable U : row -> Prop.
  Variable Pre : list row -> Prop.
  Variable R : S1 -> S2 -> Prop.
  Hypothesis PreNil : Pre [].
  Hypothesis PreU : forall rows, Pre rows -> Forall U rows.
  Hypothesis Hb : forall rows, Pre rows -> R (b1 rows) (b2 rows).
  Hypothesis Hi : forall s1 s2 r, R s1 s2 -> U r ->
    match i1 s1 r, i2 s2 r with
    | ROk a, ROk b => R a b
    | RDup x, RDup y => x = y /\ U x
    | _, _ => False
    end.
  Hypothesis Hd : forall s1 s2 r, R s1 s2 -> U r -> R (d1 s1 r) (d2 s2 r).
  Hypothesis Hu : forall s1 s2 o n, R s1 s2 -> U o -> U n ->
    match u1 s1 o n, u2 s2 o n with
    | ROk a, ROk b => R a b
    | RDup _, RDup _ => True
    | _, _ => False
    end.
  Hypothesis Hc : forall s1 s2, R s1 s2 -> c1 s1 = c2 s2 /\ Pre (c2 s2).

  Definition rel_opt {A : Type} (x : option (S1 * A)) (y : option (S2 * A)) : Prop :=
    match x, y with
    | Some (a, n), Some (b, m) => R a b /\ n = m
    | None, None => True
    | _, _ => False
    end.

  Lemma sim_plain : forall rows s1 s2 n, R s1 s2 -> Forall U rows ->
    rel_opt (ins_plain i1 s1 rows n) (ins_plain i2 s2 rows n).
  Proof.
    induction rows as [|r rows IH]; cbn; intros s1 s2 n HR HU; [split; [exact HR|reflexivity]|].
    inversion HU as [|? ? Hr Hrs]; subst. pose proof (Hi s1 s2 r HR Hr) as H.
    destruct (i1 s1 r), (i2 s2 r); try contradiction; [apply IH; assumption|exact I].
  Qed.

  Lemma sim_ignore : forall rows cur n, Pre cur -> Forall U rows ->
    ins_ignore b1 i1 c1 cur rows n = ins_ignore b2 i2 c2 cur rows n /\
    Pre (fst (ins_ignore b2 i2 c2 cur rows n)).
  Proof.
    induction rows as [|r rows IH]; cbn; intros cur n HP HU; [split; [reflexivity|exact HP]|].
    inversion HU as [|? ? Hr Hrs]; subst. pose proof (Hi _ _ r (Hb cur HP) Hr) as H.
    destruct (i1 (b1 cur) r), (i2 (b2 cur) r); try contradiction.
    - destruct (Hc _ _ H) as [E HP']. rewrite E. apply IH; assumption.
    - apply IH; assumption.
  Qed.

  Lemma sim_replace_one : forall fuel s1 s2 r d, R s1 s2 -> U r ->
    rel_opt (replace_one i1 d1 fuel s1 r d) (replace_one i2 d2 fuel s2 r d).
  Proof.
    induction fuel as [|f IH]; cbn; intros s1 s2 r d HR Hr; [exact I|].
    pose proof (Hi s1 s2 r HR Hr) as H.
    destruct (i1 s1 r), (i2 s2 r); try contradiction; [split; [exact H|reflexivity]|].
    destruct H as [<- Hx]. apply IH; [apply Hd; assumption|exact Hr].
  Qed.

  Lemma sim_replace : forall fuel rows s1 s2 n, R s1 s2 -> Forall U rows ->
    rel_opt (ins_replace i1 d1 fuel s1 rows n) (ins_replace i2 d2 fuel s2 rows n).
  Proof.
    intros fuel. induction rows as [|r rows IH]; cbn; intros s1 s2 n HR HU; [split; [exact HR|reflexivity]|].
    inversion HU as [|? ? Hr Hrs]; subst. pose proof (sim_replace_one fuel s1 s2 r false HR Hr) as H. unfold rel_opt in H.
    destruct (replace_one i1 d1 fuel s1 r false) as [[a x]|], (replace_one i2 d2 fuel s2 r false) as [[b y]|];
      try contradiction; [|exact I].
    destruct H as [H ->]. apply IH; assumption.
  Qed.

  Lemma sim_odku : forall a, (forall r, U r -> U (apply_assigns a r)) ->
    forall rows s1 s2 n, R s1 s2 -> Forall U rows ->
    rel_opt (ins_odku i1 u1 sch a s1 rows n) (ins_odku i2 u2 sch a s2 rows n).
  Proof.
    intros a Ha. induction rows as [|r rows IH]; cbn; intros s1 s2 n HR HU; [split; [exact HR|reflexivity]|].
    inversion HU as [|? ? Hr Hrs]; subst. pose proof (Hi s1 s2 r HR Hr) as H.
    destruct (i1 s1 r), (i2 s2 r); try contradiction; [apply IH; assumption|].
    destruct H as [<- Hx]. pose proof (Hu s1 s2 existing (apply_assigns a existing) HR Hx (Ha _ Hx)) as H2.
    destruct (u1 s1 existing (apply_assigns a existing)), (u2 s2 existing (apply_assigns a existing));
      try contradiction; [apply IH; assumption|exact I].
  Qed.

  Lemma sim_update : forall a, (forall r, U r -> U (apply_assigns a r)) ->
    forall ts s1 s2 m c, R s1 s2 -> Forall U ts ->
    match upd_loop u1 sch a s1 ts m c, upd_loop u2 sch a s2 ts m c with
    | Some (x, m1, c1'), Some (y, m2, c2') => R x y /\ m1 = m2 /\ c1' = c2'
    | None, None => True
    | _, _ => False
    end.
  Proof.
    intros a Ha. induction ts as [|o ts IH]; cbn; intros s1 s2 m c HR HU; [repeat split; exact HR|].
    inversion HU as [|? ? Ho Hts]; subst.
    destruct (row_equals sch o (apply_assigns a o)); [apply IH; assumption|].
    pose proof (Hu s1 s2 o (apply_assigns a o) HR Ho (Ha _ Ho)) as H.
    destruct (u1 s1 o (apply_assigns a o)), (u2 s2 o (apply_assigns a o)); try contradiction; [apply IH; assumption|exact I].
  Qed.

  Lemma sim_delete : forall ts s1 s2, R s1 s2 -> Forall U ts -> R (fold_left d1 ts s1) (fold_left d2 ts s2).
  Proof.
    induction ts as [|r ts IH]; cbn; intros s1 s2 HR HU; [exact HR|].
    inversion HU; subst. apply IH; [apply Hd; assumption|assumption].
  Qed.

  Definition stmt_in_U (st : stmt) : Prop :=
    match st with
    | SInsert (IOdku a) news => Forall U news /\ forall r, U r -> U (apply_assigns a r)
    | SInsert _ news => Forall U news
    | SUpdate a _ _ _ => forall r, U r -> U (apply_assigns a r)
    | SDelete _ _ _ => True
    end.

  Lemma in_firstn_in : forall (A : Type) n (l : list A) x, In x (firstn n l) -> In x l.
  Proof.
    intros A n. induction n as [|n IH]; intros [|y l] x H; cbn in H; try contradiction.
    destruct H as [H|H]; [left; exact H|right; apply IH; exact H].
  Qed.

  Lemma targets_U : forall w ord lim rows, Forall U rows -> Forall U (targets sch w ord lim rows).
  Proof.
    intros w ord lim rows H. rewrite Forall_forall in *. intros x Hx. apply H.
    unfold targets, limit_rows, order_rows in Hx.
    assert (Hl : forall l, In x (match lim with None => l | Some n => firstn (N.to_nat n) l end) -> In x l).
    { intros l. destruct lim; [apply in_firstn_in|exact (fun h => h)]. }
    apply Hl in Hx.
    assert (Ho : In x (filter (pred_true sch w) rows)).
    { destruct ord as [[c desc]|]; [|exact Hx]. eapply Permutation_in; [apply sort_by_perm|exact Hx]. }
    apply filter_In in Ho. exact (proj1 Ho).
  Qed.

  Theorem exec_sim : forall rows st, Pre rows -> stmt_in_U st ->
    exec b1 i1 d1 u1 c1 sch rows st = exec b2 i2 d2 u2 c2 sch rows st /\
    Pre (snd (exec b2 i2 d2 u2 c2 sch rows st)).
  Proof.
    intros rows st HP HS. pose proof (Hb rows HP) as HR0. pose proof (PreU rows HP) as HUr.
    destruct st as [m news|a w ord lim|w ord lim]; cbn [exec].
    - destruct m as [| | |a]; cbn in HS.
      + pose proof (sim_plain news _ _ 0%N HR0 HS) as H. unfold rel_opt in H.
        destruct (ins_plain i1 (b1 rows) news 0) as [[x n]|], (ins_plain i2 (b2 rows) news 0) as [[y n']|];
          try contradiction; [|split; [reflexivity|exact HP]].
        destruct H as [H ->]. destruct (Hc _ _ H) as [E HP']. rewrite E. split; [reflexivity|exact HP'].
      + destruct (sim_ignore news rows 0%N HP HS) as [E HP']. rewrite E.
        destruct (ins_ignore b2 i2 c2 rows news 0) as [cur n]. split; [reflexivity|exact HP'].
      + pose proof (sim_replace (S (length rows + length news)) news _ _ 0%N HR0 HS) as H. unfold rel_opt in H.
        destruct (ins_replace i1 d1 _ (b1 rows) news 0) as [[x n]|], (ins_replace i2 d2 _ (b2 rows) news 0) as [[y n']|];
          try contradiction; [|split; [reflexivity|exact HP]].
        destruct H as [H ->]. destruct (Hc _ _ H) as [E HP']. rewrite E. split; [reflexivity|exact HP'].
      + destruct HS as [HS Ha]. pose proof (sim_odku a Ha news _ _ 0%N HR0 HS) as H. unfold rel_opt in H.
        destruct (ins_odku i1 u1 sch a (b1 rows) news 0) as [[x n]|], (ins_odku i2 u2 sch a (b2 rows) news 0) as [[y n']|];
          try contradiction; [|split; [reflexivity|exact HP]].
        destruct H as [H ->]. destruct (Hc _ _ H) as [E HP']. rewrite E. split; [reflexivity|exact HP'].
    - cbn in HS. pose proof (sim_update a HS (targets sch w ord lim rows) _ _ 0%N 0%N HR0 (targets_U w ord lim rows HUr)) as H.
      destruct (upd_loop u1 sch a (b1 rows) _ 0 0) as [[[x m1] k1]|], (upd_loop u2 sch a (b2 rows) _ 0 0) as [[[y m2] k2]|];
        try contradiction; [|split; [reflexivity|exact HP]].
      destruct H as [H [-> ->]]. destruct (Hc _ _ H) as [E HP']. rewrite E. split; [reflexivity|exact HP'].
    - destruct (is_truncate w ord lim); [split; [reflexivity|exact PreNil]|].
      pose proof (sim_delete (targets sch w ord lim rows) _ _ HR0 (targets_U w ord lim rows HUr)) as H.
      destruct (Hc _ _ H) as [E HP']. rewrite E. split; [reflexivity|exact HP'].
  Qed.
End ExecSim.
