(* C19 - the same write pipeline for one DECIMAL(p,1) column and for one VARCHAR(n) column (with a STORED generated
   column CHAR_LENGTH(s)), one statement at a time.

   insertIter.Next: checks on the value AS WRITTEN, then the conversion: DECIMAL rounds to the column's scale (half away
   from zero) and an out-of-range value is an error, IGNORE: 0 (decimal.go ConvertToNullDecimal returns no clamped value,
   insert.go falls back to Type.Zero()); VARCHAR: too long is an error, IGNORE: truncated (convertDataAndWarn).
   UPDATE: SetField.Eval converts FIRST (IGNORE: 0 / truncated), then the checks run on the converted value.
   Comparison `d op k` converts both sides to the LEFT type, i.e. the written value is rounded to the column's scale
   (expression/comparison.go); `d * k op m` is exact decimal arithmetic.
   Decimal values are integers in hundredths (written) and tenths (stored). *)
From Coq Require Import List ZArith Bool String Lia Arith.
Import ListNotations.
Open Scope Z_scope.

Definition round_half_away (h : Z) : Z := if 0 <=? h then (h + 5) / 10 else - ((- h + 5) / 10).

Inductive dcop := DLt | DLe | DGt | DGe | DEq | DNe.
Definition dcop_holds (o : dcop) (x y : Z) : bool :=
  match o with
  | DLt => x <? y | DLe => x <=? y | DGt => y <? x | DGe => y <=? x | DEq => x =? y | DNe => negb (x =? y)
  end.

(* CHECK (d op k)  |  CHECK (d * m op k), k and m integer literals *)
Inductive dcheck := DCmp (o : dcop) (k : Z) | DMulCmp (m : Z) (o : dcop) (k : Z).

(* on a written value h (hundredths) *)
Definition dcheck_written (h : Z) (c : dcheck) : bool :=
  match c with
  | DCmp o k => dcop_holds o (round_half_away h) (k * 10)
  | DMulCmp m o k => dcop_holds o (h * m) (k * 100)
  end.
(* on a stored value v (tenths) *)
Definition dcheck_stored (v : Z) (c : dcheck) : bool := dcheck_written (v * 10) c.

Inductive dstmt :=
| DIns (ign : bool) (h : Z)                (* INSERT [IGNORE] the decimal literal h/100 into an empty table *)
| DUpd (ign : bool) (old : Z) (h : Z).     (* UPDATE [IGNORE] the row holding old/10 to the literal h/100 *)

Inductive dkind := DkCheck | DkRange.
(* stored value (tenths) and warnings, or nothing stored / unchanged and warnings, or an error *)
Inductive dres := DStored (v : Z) (w : N) | DSkipped (w : N) | DErr (k : dkind).

Definition d_in_range (p : Z) (v : Z) : bool := Z.abs v <? 10 ^ p.

Definition dexec (p : Z) (chks : list dcheck) (s : dstmt) : dres :=
  match s with
  | DIns ign h =>
      if forallb (dcheck_written h) chks then
        let v := round_half_away h in
        if d_in_range p v then DStored v 0
        else if ign then DStored 0 1 else DErr DkRange
      else if ign then DSkipped 1 else DErr DkCheck
  | DUpd ign old h =>
      let v := round_half_away h in
      if negb (d_in_range p v) && negb ign then DErr DkRange
      else
        let w := if d_in_range p v then 0%N else 1%N in
        let v := if d_in_range p v then v else 0 in
        if v =? old then DSkipped w
        else if forallb (dcheck_stored v) chks then DStored v w
        else if ign then DSkipped (w + 1) else DErr DkCheck
  end.

Definition dkind_eqb (a b : dkind) : bool :=
  match a, b with DkCheck, DkCheck | DkRange, DkRange => true | _, _ => false end.
Definition dres_eqb (a b : dres) : bool :=
  match a, b with
  | DStored v w, DStored v' w' => (v =? v') && N.eqb w w'
  | DSkipped w, DSkipped w' => N.eqb w w'
  | DErr k, DErr k' => dkind_eqb k k'
  | _, _ => false
  end.

(* the property on the stored value *)
Definition dres_ok (chks : list dcheck) (r : dres) : Prop :=
  match r with DStored v _ => forallb (dcheck_stored v) chks = true | _ => True end.

(* ---- VARCHAR(n) with g INT AS (CHAR_LENGTH(s)) STORED ---- *)
Open Scope string_scope.

(* CHECK (s <> 'lit')  |  CHECK (CHAR_LENGTH(s) op k) *)
Inductive scheck := SNe (lit : string) | SLen (o : dcop) (k : Z).
Definition scheck_holds (s : string) (c : scheck) : bool :=
  match c with
  | SNe lit => negb (String.eqb s lit)
  | SLen o k => dcop_holds o (Z.of_nat (String.length s)) k
  end.

Inductive sstmt :=
| SIns (ign : bool) (s : string)
| SUpd (ign : bool) (old : string) (s : string).

Inductive skind := SkCheck | SkTooLong.
(* stored string, stored generated length, warnings *)
Inductive sres := SStored (s : string) (g : Z) (w : N) | SSkipped (w : N) | SErr (k : skind).

Definition trunc (n : nat) (s : string) : string := substring 0 n s.

Definition sexec (n : nat) (chks : list scheck) (st : sstmt) : sres :=
  match st with
  | SIns ign s =>
      (* row source: s as written, g from s as written; checks; conversion *)
      if forallb (scheck_holds s) chks then
        if (String.length s <=? n)%nat then SStored s (Z.of_nat (String.length s)) 0
        else if ign then SStored (trunc n s) (Z.of_nat (String.length s)) 1 else SErr SkTooLong
      else if ign then SSkipped 1 else SErr SkCheck
  | SUpd ign old s =>
      let long := negb (String.length s <=? n)%nat in
      if long && negb ign then SErr SkTooLong
      else
        let w := if long then 1%N else 0%N in
        let s' := if long then trunc n s else s in
        if String.eqb s' old then SSkipped w
        else if forallb (scheck_holds s') chks then SStored s' (Z.of_nat (String.length s')) w
        else if ign then SSkipped (w + 1) else SErr SkCheck
  end.

Definition skind_eqb (a b : skind) : bool :=
  match a, b with SkCheck, SkCheck | SkTooLong, SkTooLong => true | _, _ => false end.
Definition sres_eqb (a b : sres) : bool :=
  match a, b with
  | SStored s g w, SStored s' g' w' => String.eqb s s' && (g =? g')%Z && N.eqb w w'
  | SSkipped w, SSkipped w' => N.eqb w w'
  | SErr k, SErr k' => skind_eqb k k'
  | _, _ => false
  end.

Definition sres_ok (chks : list scheck) (r : sres) : Prop :=
  match r with
  | SStored s g _ => forallb (scheck_holds s) chks = true /\ g = Z.of_nat (String.length s)
  | _ => True
  end.

(* ---------- what holds and what does not ---------- *)
Close Scope string_scope.
Open Scope Z_scope.

(* UPDATE converts before the checks: whatever it stores satisfies every CHECK (DECIMAL and VARCHAR, IGNORE or not) *)
Lemma decimal_update_ok p chks ign old h : dres_ok chks (dexec p chks (DUpd ign old h)).
Proof.
  cbn. destruct (negb (d_in_range p (round_half_away h)) && negb ign); cbn; auto.
  match goal with |- context [if ?v =? old then _ else _] => destruct (v =? old) end; cbn; auto.
  match goal with |- context [forallb ?f chks] => destruct (forallb f chks) eqn:E end; cbn; auto.
  destruct ign; cbn; auto.
Qed.

Lemma varchar_update_ok n chks ign old s : sres_ok chks (sexec n chks (SUpd ign old s)).
Proof.
  cbn. destruct (negb (String.length s <=? n)%nat && negb ign); cbn; auto.
  match goal with |- context [if String.eqb ?v old then _ else _] => destruct (String.eqb v old) end; cbn; auto.
  match goal with |- context [forallb ?f chks] => destruct (forallb f chks) eqn:E end; cbn; auto.
  destruct ign; cbn; auto.
Qed.

(* INSERT of a value that needs no conversion (one fractional digit, in range; a string that fits) is fine too *)
Lemma decimal_insert_exact_ok p chks ign v :
  d_in_range p v = true -> dres_ok chks (dexec p chks (DIns ign (v * 10))).
Proof.
  intros Hr. cbn.
  assert (Hv : round_half_away (v * 10) = v).
  { unfold round_half_away. destruct (0 <=? v * 10) eqn:E.
    - apply Z.leb_le in E. rewrite <- (Z.div_unique_pos (v * 10 + 5) 10 v 5); lia.
    - apply Z.leb_gt in E. rewrite <- (Z.div_unique_pos (- (v * 10) + 5) 10 (- v) 5); lia. }
  destruct (forallb (dcheck_written (v * 10)) chks) eqn:E; [|destruct ign; exact I].
  rewrite Hv, Hr. cbn. exact E.
Qed.

Lemma varchar_insert_fits_ok n chks ign s :
  (String.length s <= n)%nat -> sres_ok chks (sexec n chks (SIns ign s)).
Proof.
  intros Hl. cbn. destruct (forallb (scheck_holds s) chks) eqn:E; [|destruct ign; exact I].
  apply Nat.leb_le in Hl. rewrite Hl. cbn. auto.
Qed.

(* DECIMAL(3,1), CHECK (d * 2 < 20): INSERT 9.96 stores 10.0 *)
Lemma decimal_rounding_witness :
  dexec 3 [DMulCmp 2 DLt 20] (DIns false 996) = DStored 100 0 /\ ~ dres_ok [DMulCmp 2 DLt 20] (DStored 100 0).
Proof. split; [vm_compute; reflexivity|cbn; discriminate]. Qed.

(* DECIMAL(3,1), CHECK (d <> 0): INSERT IGNORE -1000.50 stores 0.0 *)
Lemma decimal_ignore_range_witness :
  dexec 3 [DCmp DNe 0] (DIns true (-100050)) = DStored 0 1 /\ ~ dres_ok [DCmp DNe 0] (DStored 0 1).
Proof. split; [vm_compute; reflexivity|cbn; discriminate]. Qed.

(* VARCHAR(3), CHECK (s <> 'abc'): INSERT IGNORE 'abcd' stores 'abc' with the generated length 4 *)
Lemma varchar_truncate_witness :
  sexec 3 [SNe "abc"] (SIns true "abcd") = SStored "abc" 4 1 /\ ~ sres_ok [SNe "abc"] (SStored "abc" 4 1).
Proof. split; [vm_compute; reflexivity|cbn; intros [H _]; discriminate]. Qed.
