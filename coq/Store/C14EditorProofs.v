(* Proofs about the editor model (Store/C14Editor.v) used by C14:
   - ApplyEdits keeps the primary keys of the stored rows pairwise different (as Go values), whatever the pending
     edits are; hence every statement and every history does;
   - for binary collations / integers that is difference under the collation;
   - exactness of a plain multi-row INSERT when the row-key strings are injective on the keys present. *)
From Coq Require Import List NArith ZArith Bool Lia Permutation DecimalN.
Import ListNotations.
From GMS Require Import Store.C14Editor.

(* ---------- equality tests ---------- *)
Lemma str_eqb_spec : forall a b, str_eqb a b = true <-> a = b.
Proof.
  induction a as [|x a IH]; intros [|y b]; cbn; split; intros H; try reflexivity; try discriminate.
  - apply andb_prop in H. destruct H as [H1 H2]. apply N.eqb_eq in H1. apply IH in H2. congruence.
  - injection H as -> ->. rewrite N.eqb_refl. cbn. apply IH. reflexivity.
Qed.

Lemma val_eqb_spec : forall a b, val_eqb a b = true <-> a = b.
Proof.
  intros [|x|x] [|y|y]; cbn; split; intros H; try reflexivity; try discriminate.
  - apply Z.eqb_eq in H. congruence.
  - injection H as ->. apply Z.eqb_refl.
  - apply str_eqb_spec in H. congruence.
  - injection H as ->. apply str_eqb_spec. reflexivity.
Qed.

Lemma trunc_zero : forall v, trunc 0 v = v.
Proof. intros [| |s]; reflexivity. Qed.

Lemma cols_match_nil_spec : forall cols r1 r2, cols_match cols [] r1 r2 = true <-> proj cols r1 = proj cols r2.
Proof.
  induction cols as [|c cs IH]; intros r1 r2; cbn.
  - split; reflexivity.
  - rewrite !trunc_zero. rewrite andb_true_iff, val_eqb_spec, IH. unfold proj. cbn. split.
    + intros [H1 H2]. rewrite H1, H2. reflexivity.
    + intros H. injection H as H1 H2. split; assumption.
Qed.

Lemma pk_match_spec : forall sch r1 r2, pk_match sch r1 r2 = true <-> key sch r1 = key sch r2.
Proof. intros. apply cols_match_nil_spec. Qed.

(* ---------- sorting is a permutation ---------- *)
Lemma insert_sorted_perm : forall lt r l, Permutation (insert_sorted lt r l) (r :: l).
Proof.
  intros lt r l. induction l as [|x l IH]; cbn.
  - apply Permutation_refl.
  - destruct (lt r x).
    + apply Permutation_refl.
    + eapply Permutation_trans; [apply perm_skip; exact IH | apply perm_swap].
Qed.

Lemma sort_by_perm_acc : forall lt l acc,
  Permutation (fold_left (fun acc r => insert_sorted lt r acc) l acc) (l ++ acc).
Proof.
  intros lt l. induction l as [|x l IH]; intros acc; cbn.
  - apply Permutation_refl.
  - eapply Permutation_trans; [apply IH|].
    eapply Permutation_trans; [apply Permutation_app_head; apply insert_sorted_perm|].
    apply Permutation_sym. apply Permutation_middle.
Qed.

Lemma sort_by_perm : forall lt l, Permutation (sort_by lt l) l.
Proof. intros. unfold sort_by. rewrite <- (app_nil_r l) at 2. apply sort_by_perm_acc. Qed.

Lemma sort_rows_perm : forall sch l, Permutation (sort_rows sch l) l.
Proof. intros. apply sort_by_perm. Qed.

(* ---------- ApplyEdits keeps the primary keys pairwise different ---------- *)
Definition keys_nodup (sch : schema) (rows : list row) : Prop := NoDup (map (key sch) rows).

Lemma remove_first_incl : forall (f : row -> bool) l x, In x (remove_first f l) -> In x l.
Proof.
  intros f l. induction l as [|y l IH]; cbn; intros x H; [exact H|].
  destruct (f y); [right; exact H|]. destruct H as [H|H]; [left; exact H|right; apply IH; exact H].
Qed.

Lemma remove_first_nodup : forall sch (f : row -> bool) l, keys_nodup sch l -> keys_nodup sch (remove_first f l).
Proof.
  intros sch f l. unfold keys_nodup. induction l as [|y l IH]; cbn; intros H; [exact H|].
  inversion H as [|? ? Hn Hd]; subst. destruct (f y); [exact Hd|].
  cbn. constructor; [|apply IH; exact Hd].
  intros Hin. apply Hn. apply in_map_iff in Hin. destruct Hin as [z [Hz Hin]].
  apply in_map_iff. exists z. split; [exact Hz|]. eapply remove_first_incl; exact Hin.
Qed.

Lemma replace_first_some_keys : forall sch r l l',
  replace_first (fun pr => pk_match sch pr r) r l = Some l' -> map (key sch) l' = map (key sch) l.
Proof.
  intros sch r l. induction l as [|y l IH]; cbn; intros l' H; [discriminate|].
  destruct (pk_match sch y r) eqn:E.
  - injection H as <-. cbn. apply pk_match_spec in E. rewrite E. reflexivity.
  - destruct (replace_first _ r l) eqn:E2; [|discriminate]. injection H as <-. cbn. f_equal. apply IH. reflexivity.
Qed.

Lemma replace_first_none : forall sch r l,
  replace_first (fun pr => pk_match sch pr r) r l = None -> ~ In (key sch r) (map (key sch) l).
Proof.
  intros sch r l. induction l as [|y l IH]; cbn; intros H Hin; [exact Hin|].
  destruct (pk_match sch y r) eqn:E; [discriminate|].
  destruct (replace_first _ r l) eqn:E2; [discriminate|].
  destruct Hin as [Hin|Hin].
  - assert (pk_match sch y r = true) by (apply pk_match_spec; exact Hin). congruence.
  - apply IH; [reflexivity|exact Hin].
Qed.

Lemma nodup_snoc : forall (A : Type) (l : list A) (x : A), NoDup l -> ~ In x l -> NoDup (l ++ [x]).
Proof.
  intros A l x H Hn. induction H as [|y l Hy Hd IH]; cbn.
  - constructor; [intros []|constructor].
  - constructor.
    + intros Hin. apply in_app_or in Hin. destruct Hin as [Hin|[Hin|[]]]; [exact (Hy Hin)|].
      apply Hn. left. symmetry. exact Hin.
    + apply IH. intros Hin. apply Hn. right. exact Hin.
Qed.

Lemma insert_helper_nodup : forall sch l r, keys_nodup sch l -> keys_nodup sch (pk_insert_helper sch l r).
Proof.
  intros sch l r H. unfold pk_insert_helper, keys_nodup in *.
  destruct (replace_first _ r l) eqn:E.
  - rewrite (replace_first_some_keys _ _ _ _ E). exact H.
  - rewrite map_app. cbn. apply nodup_snoc; [exact H|]. apply replace_first_none. exact E.
Qed.

Lemma fold_left_preserves : forall (A B : Type) (P : A -> Prop) (f : A -> B -> A) (l : list B) (a : A),
  (forall a b, P a -> P (f a b)) -> P a -> P (fold_left f l a).
Proof. intros A B P f l. induction l as [|b l IH]; intros a Hf Ha; cbn; [exact Ha|]. apply IH; [exact Hf|]. apply Hf. exact Ha. Qed.

Lemma perm_keys_nodup : forall sch l l', Permutation l l' -> keys_nodup sch l' -> keys_nodup sch l.
Proof.
  intros sch l l' Hp H. unfold keys_nodup in *.
  eapply Permutation_NoDup; [apply Permutation_sym; apply Permutation_map; exact Hp|exact H].
Qed.

(* the central fact: whatever the accumulator holds, ApplyEdits yields pairwise different primary keys *)
Lemma pk_commit_nodup : forall sch s, keys_nodup sch (p_rows s) -> keys_nodup sch (pk_commit sch s).
Proof.
  intros sch s H. unfold pk_commit. eapply perm_keys_nodup; [apply sort_rows_perm|].
  unfold pk_apply_unsorted. apply fold_left_preserves.
  - intros a b Ha. apply insert_helper_nodup. exact Ha.
  - apply fold_left_preserves; [|exact H]. intros a b Ha. apply remove_first_nodup. exact Ha.
Qed.

(* ---------- the statement iterators preserve an editor invariant (generic) ---------- *)
Section ExecInv.
  Context {St : Type}.
  Variable e_begin : list row -> St.
  Variable e_insert : St -> row -> res St.
  Variable e_delete : St -> row -> St.
  Variable e_update : St -> row -> row -> res St.
  Variable e_commit : St -> list row.
  Variable sch : schema.
  Variable P : list row -> Prop.
  Variable Inv : St -> Prop.
  Hypothesis Hnil : P [].
  Hypothesis Hb : forall rows, P rows -> Inv (e_begin rows).
  Hypothesis Hi : forall s r s', Inv s -> e_insert s r = ROk s' -> Inv s'.
  Hypothesis Hd : forall s r, Inv s -> Inv (e_delete s r).
  Hypothesis Hu : forall s o n s', Inv s -> e_update s o n = ROk s' -> Inv s'.
  Hypothesis Hc : forall s, Inv s -> P (e_commit s).

  Lemma ins_plain_inv : forall rows s n s' n', Inv s -> ins_plain e_insert s rows n = Some (s', n') -> Inv s'.
  Proof.
    induction rows as [|r rows IH]; cbn; intros s n s' n' HI H.
    - injection H as <- _. exact HI.
    - destruct (e_insert s r) eqn:E; [|discriminate]. eapply IH; [|exact H]. eapply Hi; eauto.
  Qed.

  Lemma ins_ignore_inv : forall rows cur n, P cur -> P (fst (ins_ignore e_begin e_insert e_commit cur rows n)).
  Proof.
    induction rows as [|r rows IH]; cbn; intros cur n HP; [exact HP|].
    destruct (e_insert (e_begin cur) r) eqn:E.
    - apply IH. apply Hc. eapply Hi; [apply Hb; exact HP|exact E].
    - apply IH. exact HP.
  Qed.

  Lemma replace_one_inv : forall fuel s r d s' d', Inv s -> replace_one e_insert e_delete fuel s r d = Some (s', d') -> Inv s'.
  Proof.
    induction fuel as [|f IH]; cbn; intros s r d s' d' HI H; [discriminate|].
    destruct (e_insert s r) eqn:E.
    - injection H as <- _. eapply Hi; eauto.
    - eapply IH; [|exact H]. apply Hd. exact HI.
  Qed.

  Lemma ins_replace_inv : forall fuel rows s n s' n',
    Inv s -> ins_replace e_insert e_delete fuel s rows n = Some (s', n') -> Inv s'.
  Proof.
    intros fuel. induction rows as [|r rows IH]; cbn; intros s n s' n' HI H.
    - injection H as <- _. exact HI.
    - destruct (replace_one e_insert e_delete fuel s r false) as [[s1 d]|] eqn:E; [|discriminate].
      eapply IH; [|exact H]. eapply replace_one_inv; eauto.
  Qed.

  Lemma ins_odku_inv : forall a rows s n s' n',
    Inv s -> ins_odku e_insert e_update sch a s rows n = Some (s', n') -> Inv s'.
  Proof.
    intros a. induction rows as [|r rows IH]; cbn; intros s n s' n' HI H.
    - injection H as <- _. exact HI.
    - destruct (e_insert s r) eqn:E.
      + eapply IH; [|exact H]. eapply Hi; eauto.
      + destruct (e_update s existing (apply_assigns a existing)) eqn:E2; [|discriminate].
        eapply IH; [|exact H]. eapply Hu; eauto.
  Qed.

  Lemma upd_loop_inv : forall a ts s m c s' m' c',
    Inv s -> upd_loop e_update sch a s ts m c = Some (s', m', c') -> Inv s'.
  Proof.
    intros a. induction ts as [|o ts IH]; cbn; intros s m c s' m' c' HI H.
    - injection H as <- _ _. exact HI.
    - destruct (row_equals sch o (apply_assigns a o)).
      + eapply IH; [|exact H]. exact HI.
      + destruct (e_update s o (apply_assigns a o)) eqn:E; [|discriminate].
        eapply IH; [|exact H]. eapply Hu; eauto.
  Qed.

  Lemma exec_preserves : forall rows st, P rows ->
    P (snd (exec e_begin e_insert e_delete e_update e_commit sch rows st)).
  Proof.
    intros rows st HP. destruct st as [m news|a w ord lim|w ord lim]; cbn.
    - destruct m as [| | |a].
      + destruct (ins_plain e_insert (e_begin rows) news 0) as [[s n]|] eqn:E; cbn; [|exact HP].
        apply Hc. eapply ins_plain_inv; [apply Hb; exact HP|exact E].
      + pose proof (ins_ignore_inv news rows 0%N HP) as H.
        destruct (ins_ignore e_begin e_insert e_commit rows news 0) as [cur n]. exact H.
      + destruct (ins_replace e_insert e_delete _ (e_begin rows) news 0) as [[s n]|] eqn:E; cbn; [|exact HP].
        apply Hc. eapply ins_replace_inv; [apply Hb; exact HP|exact E].
      + destruct (ins_odku e_insert e_update sch a (e_begin rows) news 0) as [[s n]|] eqn:E; cbn; [|exact HP].
        apply Hc. eapply ins_odku_inv; [apply Hb; exact HP|exact E].
    - destruct (upd_loop e_update sch a (e_begin rows) _ 0 0) as [[[s m] c]|] eqn:E; cbn; [|exact HP].
      apply Hc. eapply upd_loop_inv; [apply Hb; exact HP|exact E].
    - destruct (is_truncate w ord lim); cbn; [exact Hnil|].
      apply Hc. apply fold_left_preserves; [|apply Hb; exact HP]. intros s r HI. apply Hd. exact HI.
  Qed.
End ExecInv.

(* ---------- every statement on a keyed table keeps the primary keys pairwise different ---------- *)
Lemma pk_insert_rows : forall sch s r s', pk_insert sch s r = ROk s' -> p_rows s' = p_rows s.
Proof.
  intros sch s r s' H. unfold pk_insert in H.
  destruct (pk_get sch s r); [discriminate|].
  destruct (check_unique _ _ r); [discriminate|]. injection H as <-. reflexivity.
Qed.

Lemma pk_update_rows : forall sch s o n s', pk_update sch s o n = ROk s' -> p_rows s' = p_rows s.
Proof.
  intros sch s o n s' H. unfold pk_update in H.
  destruct (if pk_match sch o n then None else pk_get sch (pk_acc_delete sch s o) n); [discriminate|].
  destruct (check_unique _ _ n); [discriminate|]. injection H as <-. reflexivity.
Qed.

Theorem pk_exec_keys_nodup : forall sch rows st,
  keys_nodup sch rows -> keys_nodup sch (snd (pk_exec sch rows st)).
Proof.
  intros sch rows st H. unfold pk_exec.
  apply (exec_preserves pk_begin (pk_insert sch) (pk_delete sch) (pk_update sch) (pk_commit sch) sch
           (keys_nodup sch) (fun s => keys_nodup sch (p_rows s))).
  - constructor.
  - intros r Hr. exact Hr.
  - intros s r s' HI E. rewrite (pk_insert_rows _ _ _ _ E). exact HI.
  - intros s r HI. exact HI.
  - intros s o n s' HI E. rewrite (pk_update_rows _ _ _ _ _ E). exact HI.
  - intros s HI. apply pk_commit_nodup. exact HI.
  - exact H.
Qed.

Theorem history_keys_nodup : forall sch h rows,
  keyless sch = false -> keys_nodup sch rows -> keys_nodup sch (run_history sch rows h).
Proof.
  intros sch h. induction h as [|st h IH]; intros rows Hk H; cbn; [exact H|].
  apply IH; [exact Hk|]. unfold impl_exec. rewrite Hk. apply pk_exec_keys_nodup. exact H.
Qed.

(* ---------- from Go equality to equality under the collation ---------- *)
Definition coll_key_eq (sch : schema) (a b : row) : bool :=
  forallb (fun c => match val_cmp (col_coll sch c) (col a c) (col b c) with Eq => true | _ => false end) (s_pk sch).

Definition pk_binary (sch : schema) : Prop := forall c, In c (s_pk sch) -> col_coll sch c = CBin.

Lemma str_cmp_eq : forall a b, str_cmp a b = Eq -> a = b.
Proof.
  induction a as [|x a IH]; intros [|y b]; cbn; intros H; try reflexivity; try discriminate.
  destruct (N.compare x y) eqn:E; try discriminate. apply N.compare_eq in E. f_equal; [exact E|apply IH; exact H].
Qed.

Lemma val_cmp_bin_eq : forall a b, val_cmp CBin a b = Eq -> a = b.
Proof.
  intros [|x|x] [|y|y]; cbn; intros H; try reflexivity; try discriminate.
  - apply Z.compare_eq in H. congruence.
  - apply str_cmp_eq in H. congruence.
Qed.

Lemma coll_key_eq_binary : forall sch a b, pk_binary sch -> coll_key_eq sch a b = true -> key sch a = key sch b.
Proof.
  intros sch a b Hb H. unfold coll_key_eq in H. unfold key, proj. unfold pk_binary in Hb.
  induction (s_pk sch) as [|c cs IH]; cbn in *; [reflexivity|].
  apply andb_prop in H. destruct H as [H1 H2].
  f_equal.
  - rewrite (Hb c (or_introl eq_refl)) in H1. destruct (val_cmp CBin (col a c) (col b c)) eqn:E; try discriminate.
    apply val_cmp_bin_eq. exact E.
  - apply IH; [intros c' Hc; apply Hb; right; exact Hc|exact H2].
Qed.

(* "no two stored rows are equal in the primary key under the collation" *)
Definition no_equal_keys (sch : schema) (rows : list row) : Prop :=
  ForallOrdPairs (fun a b => coll_key_eq sch a b = false) rows.

Lemma nodup_map_pairs : forall (A B : Type) (f : A -> B) (l : list A),
  NoDup (map f l) -> ForallOrdPairs (fun a b => f a <> f b) l.
Proof.
  intros A B f l. induction l as [|x l IH]; cbn; intros H; [constructor|].
  inversion H as [|? ? Hn Hd]; subst. constructor; [|apply IH; exact Hd].
  apply Forall_forall. intros y Hy E. apply Hn. rewrite E. apply in_map. exact Hy.
Qed.

Lemma FOP_impl : forall (A : Type) (R R' : A -> A -> Prop) (l : list A),
  (forall a b, R a b -> R' a b) -> ForallOrdPairs R l -> ForallOrdPairs R' l.
Proof.
  intros A R R' l HR H. induction H as [|x l Hx Hl IH]; constructor; [|exact IH].
  eapply Forall_impl; [|exact Hx]. intros b. apply HR.
Qed.

Theorem history_no_equal_keys_binary : forall sch h,
  keyless sch = false -> pk_binary sch -> no_equal_keys sch (run_history sch [] h).
Proof.
  intros sch h Hk Hb. unfold no_equal_keys.
  eapply FOP_impl; [|apply nodup_map_pairs; apply (history_keys_nodup sch h [] Hk); constructor].
  intros a b Hne. cbv beta in Hne. destruct (coll_key_eq sch a b) eqn:E; [|reflexivity].
  exfalso. apply Hne. apply coll_key_eq_binary; assumption.
Qed.

(* ---------- exactness of a plain multi-row INSERT ---------- *)
(* the row-key strings are injective on the rows present *)
Definition inj_on (sch : schema) (l : list row) : Prop :=
  forall a b, In a l -> In b l -> key_str sch a = key_str sch b -> key sch a = key sch b.

(* some unique index in which r has no NULL already holds r's (prefix of the) values, as Go values *)
Definition uq_conf (uniq : list (list nat * list N)) (cur : list row) (r : row) : bool :=
  existsb (fun u => negb (has_null (fst u) r) && existsb (fun x => cols_match (fst u) (snd u) x r) cur) uniq.

Definition conflicts (sch : schema) (cur : list row) (r : row) : bool :=
  existsb (fun x => pk_match sch x r) cur || uq_conf (s_uniq sch) cur r.

(* reference: rows go in one by one; the first row that collides with a stored or an earlier row fails the statement *)
Fixpoint spec_insert (sch : schema) (cur news : list row) : option (list row) :=
  match news with
  | [] => Some cur
  | r :: ns => if conflicts sch cur r then None else spec_insert sch (cur ++ [r]) ns
  end.

Lemma existsb_false_iff : forall (A : Type) (f : A -> bool) l, existsb f l = false <-> forall x, In x l -> f x = false.
Proof.
  intros A f l. induction l as [|y l IH]; cbn.
  - split; [intros _ x []|reflexivity].
  - rewrite orb_false_iff, IH. split.
    + intros [H1 H2] x [<-|Hx]; [exact H1|apply H2; exact Hx].
    + intros H. split; [apply H; left; reflexivity|intros x Hx; apply H; right; exact Hx].
Qed.

Lemma find_none_iff : forall (A : Type) (f : A -> bool) l, find f l = None <-> existsb f l = false.
Proof.
  intros A f l. induction l as [|y l IH]; cbn; [split; reflexivity|].
  destruct (f y); cbn; [split; discriminate|exact IH].
Qed.

Lemma find_snd_none_iff : forall (f : row -> bool) (m : smap),
  find (fun kv => f (snd kv)) m = None <-> existsb f (map snd m) = false.
Proof.
  intros f m. induction m as [|[k v] m IH]; cbn; [split; reflexivity|].
  destruct (f v); cbn; [split; discriminate|exact IH].
Qed.

Lemma m_get_none_iff : forall k m, m_get k m = None <-> forall kv, In kv m -> fst kv <> k.
Proof.
  intros k m. induction m as [|[k' v] m IH]; cbn.
  - split; [intros _ kv []|reflexivity].
  - destruct (str_eqb k k') eqn:E.
    + apply str_eqb_spec in E. subst k'. split; [discriminate|]. intros H. exfalso. apply (H (k, v)); [left; reflexivity|reflexivity].
    + rewrite IH. split.
      * intros H kv [<-|Hin]; [cbn; intros ->; rewrite (proj2 (str_eqb_spec k k) eq_refl) in E; discriminate|apply H; exact Hin].
      * intros H kv Hin. apply H. right. exact Hin.
Qed.

Lemma m_set_none : forall k v m, m_get k m = None -> m_set k v m = m ++ [(k, v)].
Proof.
  intros k v m. induction m as [|[k' v'] m IH]; cbn; intros H; [reflexivity|].
  destruct (str_eqb k k'); [discriminate|]. rewrite IH; [reflexivity|exact H].
Qed.

Lemma key_str_of_key : forall sch a b, key sch a = key sch b -> key_str sch a = key_str sch b.
Proof. intros sch a b H. unfold key_str. rewrite H. reflexivity. Qed.

Definition adds_ok (sch : schema) (m : smap) : Prop := forall kv, In kv m -> fst kv = key_str sch (snd kv).

Lemma pk_get_plain : forall sch s r,
  p_dels s = [] -> adds_ok sch (p_adds s) -> inj_on sch (r :: map snd (p_adds s)) ->
  (pk_get sch s r = None <-> existsb (fun x => pk_match sch x r) (p_rows s ++ map snd (p_adds s)) = false).
Proof.
  intros sch s r Hd Ha Hinj. unfold pk_get. rewrite Hd. cbn [m_get]. rewrite existsb_app, orb_false_iff. split.
  - intros H. destruct (m_get (key_str sch r) (p_adds s)) eqn:E; [discriminate|]. split.
    + apply find_none_iff. exact H.
    + apply existsb_false_iff. intros x Hx. destruct (pk_match sch x r) eqn:Em; [|reflexivity]. exfalso.
      apply pk_match_spec in Em. apply in_map_iff in Hx. destruct Hx as [kv [<- Hkv]].
      apply (proj1 (m_get_none_iff _ _) E kv Hkv). rewrite (Ha kv Hkv). apply key_str_of_key. exact Em.
  - intros [H1 H2]. destruct (m_get (key_str sch r) (p_adds s)) eqn:E.
    + exfalso. assert (Hex : exists kv, In kv (p_adds s) /\ fst kv = key_str sch r).
      { clear -E. induction (p_adds s) as [|[k' v'] m IH]; cbn in E; [discriminate|].
        destruct (str_eqb (key_str sch r) k') eqn:E2.
        - apply str_eqb_spec in E2. exists (k', v'). split; [left; reflexivity|cbn; congruence].
        - destruct (IH E) as [kv [Hin Hk]]. exists kv. split; [right; exact Hin|exact Hk]. }
      destruct Hex as [kv [Hin Hk]].
      assert (Hm : pk_match sch (snd kv) r = true).
      { apply pk_match_spec. apply Hinj; [right; apply in_map; exact Hin|left; reflexivity|]. rewrite <- (Ha kv Hin). exact Hk. }
      rewrite (proj1 (existsb_false_iff _ _ _) H2 (snd kv) (in_map snd _ _ Hin)) in Hm. discriminate.
    + apply find_none_iff. exact H1.
Qed.

Lemma gbc_plain : forall s r cols pls,
  p_dels s = [] ->
  (pk_get_by_cols s r cols pls = None <->
   existsb (fun x => cols_match cols pls x r) (p_rows s ++ map snd (p_adds s)) = false).
Proof.
  intros s r cols pls Hd. unfold pk_get_by_cols. rewrite Hd. cbn [existsb]. rewrite existsb_app, orb_false_iff.
  destruct (find (fun kv => cols_match cols pls (snd kv) r) (p_adds s)) eqn:E.
  - split; [discriminate|]. intros [_ H2]. apply find_snd_none_iff in H2. rewrite H2 in E. discriminate.
  - rewrite find_none_iff. apply (find_snd_none_iff (fun x => cols_match cols pls x r)) in E. tauto.
Qed.

Lemma check_unique_plain : forall s r uniq,
  p_dels s = [] ->
  (check_unique (pk_get_by_cols s) uniq r = None <-> uq_conf uniq (p_rows s ++ map snd (p_adds s)) r = false).
Proof.
  intros s r uniq Hd. induction uniq as [|[cols pls] u IH]; [cbn; split; reflexivity|].
  unfold uq_conf in *. cbn [check_unique existsb fst snd].
  destruct (has_null cols r); cbn [negb andb orb]; [exact IH|].
  destruct (pk_get_by_cols s r cols pls) eqn:E.
  - split; [discriminate|]. rewrite orb_false_iff. intros [H _]. apply (gbc_plain s r cols pls Hd) in H. congruence.
  - apply (gbc_plain s r cols pls Hd) in E. rewrite E. cbn [orb]. exact IH.
Qed.

Lemma replace_first_none_iff : forall f r l, replace_first f r l = None <-> existsb f l = false.
Proof.
  intros f r l. induction l as [|y l IH]; cbn; [split; reflexivity|].
  destruct (f y); cbn; [split; discriminate|]. destruct (replace_first f r l); [rewrite <- IH; split; discriminate|exact IH].
Qed.

Lemma inj_on_incl : forall sch l l', incl l l' -> inj_on sch l' -> inj_on sch l.
Proof. intros sch l l' Hi H a b Ha Hb. apply H; apply Hi; assumption. Qed.

(* the loop of a plain INSERT, started with [done] already pending *)
Lemma ins_plain_exact : forall sch news s n,
  p_dels s = [] -> adds_ok sch (p_adds s) ->
  inj_on sch (map snd (p_adds s) ++ news) ->
  fold_left (pk_insert_helper sch) (map snd (p_adds s)) (p_rows s) = p_rows s ++ map snd (p_adds s) ->
  match spec_insert sch (p_rows s ++ map snd (p_adds s)) news with
  | None => ins_plain (pk_insert sch) s news n = None
  | Some l => exists s', ins_plain (pk_insert sch) s news n = Some (s', (n + N.of_nat (length news))%N) /\
                         p_rows s' = p_rows s /\ p_dels s' = [] /\
                         fold_left (pk_insert_helper sch) (map snd (p_adds s')) (p_rows s') = l
  end.
Proof.
  intros sch news. induction news as [|r ns IH]; intros s n Hd Ha Hinj Hf; cbn [spec_insert ins_plain].
  - exists s. rewrite N.add_0_r. repeat split; try assumption.
  - assert (Hinj1 : inj_on sch (r :: map snd (p_adds s))).
    { eapply inj_on_incl; [|exact Hinj]. intros x [<-|Hx]; apply in_or_app; [right; left; reflexivity|left; exact Hx]. }
    unfold conflicts.
    assert (Epi : pk_insert sch s r =
                  match pk_get sch s r with
                  | Some ex => RDup ex
                  | None => match check_unique (pk_get_by_cols s) (s_uniq sch) r with
                            | Some ex => RDup ex
                            | None => ROk (pk_acc_insert sch s r)
                            end
                  end) by reflexivity.
    rewrite Epi. clear Epi.
    destruct (pk_get sch s r) eqn:Eg.
    + destruct (existsb (fun x => pk_match sch x r) (p_rows s ++ map snd (p_adds s))) eqn:Ee; cbn; [reflexivity|].
      pose proof (proj2 (pk_get_plain sch s r Hd Ha Hinj1) Ee) as X. rewrite Eg in X. discriminate.
    + pose proof (proj1 (pk_get_plain sch s r Hd Ha Hinj1) Eg) as Hg. rewrite Hg. cbn [orb].
      destruct (check_unique (pk_get_by_cols s) (s_uniq sch) r) eqn:Ec.
      * destruct (uq_conf (s_uniq sch) (p_rows s ++ map snd (p_adds s)) r) eqn:Eq; [reflexivity|].
        pose proof (proj2 (check_unique_plain s r (s_uniq sch) Hd) Eq) as X. rewrite Ec in X. discriminate.
      * rewrite (proj1 (check_unique_plain s r (s_uniq sch) Hd) Ec).
        assert (Eset : p_adds (pk_acc_insert sch s r) = p_adds s ++ [(key_str sch r, r)]).
        { cbn. apply m_set_none. unfold pk_get in Eg. destruct (m_get (key_str sch r) (p_adds s)); [discriminate|reflexivity]. }
        specialize (IH (pk_acc_insert sch s r) (n + 1)%N).
        rewrite Eset in IH. rewrite map_app in IH. cbn [map snd] in IH. cbn [p_rows p_dels pk_acc_insert] in IH.
        rewrite app_assoc in IH.
        assert (Hstep : fold_left (pk_insert_helper sch) (map snd (p_adds s) ++ [r]) (p_rows s)
                        = (p_rows s ++ map snd (p_adds s)) ++ [r]).
        { rewrite fold_left_app. cbn. rewrite Hf. unfold pk_insert_helper.
          rewrite (proj2 (replace_first_none_iff _ r _) Hg). reflexivity. }
        destruct (spec_insert sch ((p_rows s ++ map snd (p_adds s)) ++ [r]) ns) eqn:Es.
        -- destruct IH as [s' [H1 [H2 [H3 H4]]]]; try assumption.
           ++ intros kv Hin. apply in_app_or in Hin. destruct Hin as [Hin|[<-|[]]]; [apply Ha; exact Hin|reflexivity].
           ++ rewrite <- app_assoc. exact Hinj.
           ++ exists s'. split; [|repeat split; assumption].
              rewrite H1. f_equal. f_equal. cbn [length]. lia.
        -- apply IH; try assumption.
           ++ intros kv Hin. apply in_app_or in Hin. destruct Hin as [Hin|[<-|[]]]; [apply Ha; exact Hin|reflexivity].
           ++ rewrite <- app_assoc. exact Hinj.
Qed.

Theorem insert_plain_exact : forall sch rows news,
  keyless sch = false -> inj_on sch news ->
  impl_exec sch rows (SInsert IPlain news) =
  match spec_insert sch rows news with
  | Some l => (OOk (N.of_nat (length news)) 0, sort_rows sch l)
  | None => (ODupKey, rows)
  end.
Proof.
  intros sch rows news Hk Hinj. unfold impl_exec. rewrite Hk. unfold pk_exec. cbn [exec].
  pose proof (ins_plain_exact sch news (pk_begin rows) 0%N eq_refl) as H. cbn [pk_begin p_adds p_rows map app] in H.
  rewrite app_nil_r in H.
  assert (Ha : adds_ok sch []) by (intros kv []).
  specialize (H Ha Hinj eq_refl).
  destruct (spec_insert sch rows news) as [l|].
  - destruct H as [s' [H1 [H2 [H3 H4]]]]. rewrite H1. cbn. f_equal.
    unfold pk_commit, pk_apply_unsorted. rewrite H3. cbn [map fold_left]. rewrite H4. reflexivity.
  - rewrite H. reflexivity.
Qed.

(* ---------- the row key string is injective (length-prefix decoding) ---------- *)
Definition is_digit (c : N) : Prop := (48 <= c <= 57)%N.

Lemma bytes_of_uint_digits : forall u, Forall is_digit (bytes_of_uint u).
Proof. induction u; cbn; constructor; try assumption; unfold is_digit; lia. Qed.

Lemma bytes_of_uint_inj : forall u v, bytes_of_uint u = bytes_of_uint v -> u = v.
Proof. induction u; destruct v; cbn; intros H; try discriminate; try reflexivity; injection H as H; f_equal; apply IHu; exact H. Qed.

Lemma render_N_inj : forall a b, render_N a = render_N b -> a = b.
Proof. intros a b H. apply DecimalN.Unsigned.to_uint_inj. apply bytes_of_uint_inj. exact H. Qed.

Lemma render_N_digits : forall n, Forall is_digit (render_N n).
Proof. intros n. apply bytes_of_uint_digits. Qed.

Lemma render_Z_inj : forall a b, render_Z a = render_Z b -> a = b.
Proof.
  assert (Hm : forall n x, render_N n = 45%N :: x -> False).
  { intros p x H. pose proof (render_N_digits p) as D. rewrite H in D. inversion D as [|? ? Hd _]. unfold is_digit in Hd. lia. }
  intros [|p|p] [|q|q]; unfold render_Z; intros H; try reflexivity.
  - apply render_N_inj in H. discriminate.
  - exfalso. exact (Hm _ _ H).
  - apply render_N_inj in H. discriminate.
  - apply render_N_inj in H. congruence.
  - exfalso. exact (Hm _ _ H).
  - exfalso. symmetry in H. exact (Hm _ _ H).
  - exfalso. symmetry in H. exact (Hm _ _ H).
  - injection H as H. apply render_N_inj in H. congruence.
Qed.

(* %v is injective on the values of one column kind: integers (decimal) and strings (the bytes themselves) *)
Inductive kind := KInt | KStr.
Definition has_kind (k : kind) (v : val) : Prop :=
  match k, v with KInt, VInt _ => True | KStr, VStr _ => True | _, _ => False end.

Lemma render_inj_kind : forall k a b, has_kind k a -> has_kind k b -> render a = render b -> a = b.
Proof.
  intros [|] [|x|x] [|y|y]; cbn; intros Ha Hb H; try contradiction.
  - apply render_Z_inj in H. congruence.
  - congruence.
Qed.

Lemma split_colon : forall l1 l2 r1 r2, Forall is_digit l1 -> Forall is_digit l2 ->
  l1 ++ 58%N :: r1 = l2 ++ 58%N :: r2 -> l1 = l2 /\ r1 = r2.
Proof.
  induction l1 as [|x l1 IH]; intros [|y l2] r1 r2 H1 H2 H; cbn in H.
  - injection H as H. split; [reflexivity|exact H].
  - injection H as Hx _. inversion H2 as [|? ? Hd _]. unfold is_digit in Hd. lia.
  - injection H as Hx _. inversion H1 as [|? ? Hd _]. unfold is_digit in Hd. lia.
  - injection H as Hx H. inversion H1; inversion H2; subst. destruct (IH l2 r1 r2) as [E1 E2]; try assumption. split; congruence.
Qed.

Lemma app_eq_len : forall (A : Type) (p1 p2 t1 t2 : list A), length p1 = length p2 -> p1 ++ t1 = p2 ++ t2 -> p1 = p2 /\ t1 = t2.
Proof.
  induction p1 as [|x p1 IH]; intros [|y p2] t1 t2 Hl H; cbn in *; try discriminate.
  - split; [reflexivity|exact H].
  - injection H as -> H. injection Hl as Hl. destruct (IH p2 t1 t2 Hl H) as [-> ->]. split; reflexivity.
Qed.

Lemma key_part_app_inj : forall a b t1 t2, key_part a ++ t1 = key_part b ++ t2 -> render a = render b /\ t1 = t2.
Proof.
  intros a b t1 t2 H. unfold key_part in H. rewrite <- !app_assoc in H. cbn [app] in H.
  destruct (split_colon _ _ _ _ (render_N_digits _) (render_N_digits _) H) as [Hn Hr].
  apply render_N_inj in Hn. apply Nat2N.inj in Hn. exact (app_eq_len _ _ _ _ _ Hn Hr).
Qed.

Lemma key_parts_inj : forall ks k1 k2, Forall2 has_kind ks k1 -> Forall2 has_kind ks k2 ->
  concat (map key_part k1) = concat (map key_part k2) -> k1 = k2.
Proof.
  induction ks as [|k ks IH]; intros k1 k2 H1 H2 H; inversion H1; inversion H2; subst; [reflexivity|].
  cbn in H. destruct (key_part_app_inj _ _ _ _ H) as [Hr Ht]. f_equal.
  - eapply render_inj_kind; eassumption.
  - apply IH; assumption.
Qed.

(* the key columns of r hold values of the kinds ks (integers / strings; a primary key has no NULL) *)
Definition key_kinds (sch : schema) (ks : list kind) (r : row) : Prop := Forall2 has_kind ks (key sch r).

Theorem row_key_injective : forall sch ks a b,
  key_kinds sch ks a -> key_kinds sch ks b -> key_str sch a = key_str sch b -> key sch a = key sch b.
Proof. intros sch ks a b Ha Hb H. exact (key_parts_inj ks _ _ Ha Hb H). Qed.

Theorem insert_plain_exact_typed : forall sch ks rows news,
  keyless sch = false -> Forall (key_kinds sch ks) news ->
  impl_exec sch rows (SInsert IPlain news) =
  match spec_insert sch rows news with
  | Some l => (OOk (N.of_nat (length news)) 0, sort_rows sch l)
  | None => (ODupKey, rows)
  end.
Proof.
  intros sch ks rows news Hk Hn. apply insert_plain_exact; [exact Hk|].
  intros a b Ha Hb. rewrite Forall_forall in Hn. apply (row_key_injective sch ks); [apply Hn; exact Ha|apply Hn; exact Hb].
Qed.

(* ---------- the faithful model violates the property: witnesses ---------- *)
Definition sch_ci : schema := {| s_pk := [0%nat]; s_uniq := []; s_coll := [CCi; CBin] |}.
Definition h_ci : list stmt :=
  [SInsert IPlain [[VStr [97%N]; VInt 1]]; SInsert IPlain [[VStr [65%N]; VInt 2]]].    (* 'a' then 'A' *)

Lemma missed_duplicate_ci : keyless sch_ci = false /\ ~ no_equal_keys sch_ci (run_history sch_ci [] h_ci).
Proof.
  split; [reflexivity|]. intros H.
  assert (E : run_history sch_ci [] h_ci = [[VStr [97%N]; VInt 1]; [VStr [65%N]; VInt 2]]) by (vm_compute; reflexivity).
  rewrite E in H. inversion H as [|a l Hfa Hl]; subst. inversion Hfa as [|b l' Hb Hl']; subst.
  vm_compute in Hb. discriminate.
Qed.

Definition sch_ab : schema := {| s_pk := [0%nat; 1%nat]; s_uniq := []; s_coll := [CBin; CBin; CBin] |}.
Definition news_ab : list row := [[VInt 1; VInt 12; VInt 0]; [VInt 11; VInt 2; VInt 0]].

(* the former false duplicate (row keys "112" / "112") is accepted now: the keys are "1:12:12" and "2:111:2" *)
Lemma former_false_duplicate_accepted :
  key_str sch_ab [VInt 1; VInt 12; VInt 0] <> key_str sch_ab [VInt 11; VInt 2; VInt 0] /\
  impl_exec sch_ab [] (SInsert IPlain news_ab) = (OOk 2 0, news_ab).
Proof. split; [vm_compute; discriminate|vm_compute; reflexivity]. Qed.

Definition sch_u : schema := {| s_pk := [0%nat]; s_uniq := [([1%nat], [0%N])]; s_coll := [CBin; CBin] |}.
Definition h_u : list stmt :=
  [SInsert IPlain [[VInt 1; VInt 5]; [VInt 2; VInt 6]; [VInt 3; VInt 7]];
   SInsert IReplace [[VInt 1; VInt 9]; [VInt 2; VInt 5]; [VInt 3; VInt 5]]].

Lemma unique_freed_value_taken_twice :
  run_history sch_u [] h_u = [[VInt 1; VInt 9]; [VInt 2; VInt 5]; [VInt 3; VInt 5]] /\
  uq_conf (s_uniq sch_u) [[VInt 2; VInt 5]] [VInt 3; VInt 5] = true.
Proof. split; vm_compute; reflexivity. Qed.

(* non-vacuity *)
Lemma key_kinds_example : Forall (key_kinds sch_ab [KInt; KInt]) news_ab.
Proof. repeat constructor. Qed.
