(* C13, unique secondary indexes, histories: the reference keeps the stored rows consistent with the unique indexes
   ([urows], for EVERY statement kind), hence the statement-level refinements of Store/C13Unique.v chain into histories of
   INSERT / INSERT IGNORE / DELETE / guarded UPDATE statements. *)
From Coq Require Import List NArith ZArith Bool Lia Permutation.
Import ListNotations.
From GMS Require Import Store.C14Editor Store.C14EditorProofs Store.C13Refine Store.C13RefineProofs Store.C13Keyless
  Store.C13Unique.

(* ---------- an invariant of the editor state is an invariant of the statement ---------- *)
Section ExecInv.
  Context {St : Type}.
  Variable e_begin : list row -> St.
  Variable e_insert : St -> row -> res St.
  Variable e_delete : St -> row -> St.
  Variable e_update : St -> row -> row -> res St.
  Variable e_commit : St -> list row.
  Variable sch : schema.
  Variable P : St -> Prop.
  Variable Q : list row -> Prop.
  Hypothesis Qnil : Q [].
  Hypothesis Hb : forall rows, Q rows -> P (e_begin rows).
  Hypothesis Hi : forall s r s', P s -> e_insert s r = ROk s' -> P s'.
  Hypothesis Hd : forall s r, P s -> P (e_delete s r).
  Hypothesis Hu : forall s o n s', P s -> e_update s o n = ROk s' -> P s'.
  Hypothesis Hc : forall s, P s -> Q (e_commit s).

  Lemma inv_plain : forall rows s n s' n', P s -> ins_plain e_insert s rows n = Some (s', n') -> P s'.
  Proof.
    induction rows as [|r rows IH]; cbn [ins_plain]; intros s n s' n' HP H; [injection H as <- _; exact HP|].
    destruct (e_insert s r) as [s1|] eqn:E; [|discriminate]. eapply IH; [eapply Hi; eassumption|exact H].
  Qed.

  Lemma inv_ignore : forall rows cur n, Q cur -> Q (fst (ins_ignore e_begin e_insert e_commit cur rows n)).
  Proof.
    induction rows as [|r rows IH]; cbn [ins_ignore]; intros cur n HQ; [exact HQ|].
    destruct (e_insert (e_begin cur) r) as [s1|] eqn:E; apply IH; [|exact HQ].
    apply Hc. eapply Hi; [apply Hb; exact HQ|exact E].
  Qed.

  Lemma inv_replace_one : forall fuel s r d s' d', P s -> replace_one e_insert e_delete fuel s r d = Some (s', d') -> P s'.
  Proof.
    induction fuel as [|f IH]; cbn [replace_one]; intros s r d s' d' HP H; [discriminate|].
    destruct (e_insert s r) as [s1|ex] eqn:E.
    - injection H as <- _. eapply Hi; eassumption.
    - eapply IH; [apply Hd; exact HP|exact H].
  Qed.

  Lemma inv_replace : forall fuel rows s n s' n', P s -> ins_replace e_insert e_delete fuel s rows n = Some (s', n') -> P s'.
  Proof.
    intros fuel. induction rows as [|r rows IH]; cbn [ins_replace]; intros s n s' n' HP H; [injection H as <- _; exact HP|].
    destruct (replace_one e_insert e_delete fuel s r false) as [[s1 d]|] eqn:E; [|discriminate].
    eapply IH; [eapply inv_replace_one; eassumption|exact H].
  Qed.

  Lemma inv_odku : forall a rows s n s' n', P s -> ins_odku e_insert e_update sch a s rows n = Some (s', n') -> P s'.
  Proof.
    intros a. induction rows as [|r rows IH]; cbn [ins_odku]; intros s n s' n' HP H; [injection H as <- _; exact HP|].
    destruct (e_insert s r) as [s1|ex] eqn:E; [eapply IH; [eapply Hi; eassumption|exact H]|].
    destruct (e_update s ex (apply_assigns a ex)) as [s1|] eqn:E2; [|discriminate].
    eapply IH; [eapply Hu; eassumption|exact H].
  Qed.

  Lemma inv_update : forall a ts s m c s' m' c', P s -> upd_loop e_update sch a s ts m c = Some (s', m', c') -> P s'.
  Proof.
    intros a. induction ts as [|o ts IH]; cbn [upd_loop]; intros s m c s' m' c' HP H; [injection H as <- _ _; exact HP|].
    destruct (row_equals sch o (apply_assigns a o)); [eapply IH; eassumption|].
    destruct (e_update s o (apply_assigns a o)) as [s1|] eqn:E; [|discriminate].
    eapply IH; [eapply Hu; eassumption|exact H].
  Qed.

  Lemma inv_delete : forall ts s, P s -> P (fold_left e_delete ts s).
  Proof. induction ts as [|r ts IH]; cbn [fold_left]; intros s HP; [exact HP|]. apply IH. apply Hd. exact HP. Qed.

  Theorem exec_inv : forall rows st, Q rows -> Q (snd (exec e_begin e_insert e_delete e_update e_commit sch rows st)).
  Proof.
    intros rows st HQ. pose proof (Hb rows HQ) as HP0.
    destruct st as [m news|a w ord lim|w ord lim]; cbn [exec].
    - destruct m as [| | |a].
      + destruct (ins_plain e_insert (e_begin rows) news 0) as [[s n]|] eqn:E; cbn [snd]; [|exact HQ].
        apply Hc. eapply inv_plain; eassumption.
      + pose proof (inv_ignore news rows 0%N HQ) as H.
        destruct (ins_ignore e_begin e_insert e_commit rows news 0) as [cur n]. exact H.
      + destruct (ins_replace e_insert e_delete _ (e_begin rows) news 0) as [[s n]|] eqn:E; cbn [snd]; [|exact HQ].
        apply Hc. eapply inv_replace; eassumption.
      + destruct (ins_odku e_insert e_update sch a (e_begin rows) news 0) as [[s n]|] eqn:E; cbn [snd]; [|exact HQ].
        apply Hc. eapply inv_odku; eassumption.
    - destruct (upd_loop e_update sch a (e_begin rows) _ 0 0) as [[[s m] c]|] eqn:E; cbn [snd]; [|exact HQ].
      apply Hc. eapply inv_update; eassumption.
    - destruct (is_truncate w ord lim); cbn [snd]; [exact Qnil|]. apply Hc. apply inv_delete. exact HP0.
  Qed.
End ExecInv.

(* ---------- the reference keeps [urows] ---------- *)
Lemma cols_match_sym : forall cols pls x y, cols_match cols pls x y = true -> cols_match cols pls y x = true.
Proof.
  induction cols as [|c cs IH]; intros pls x y H; cbn in *; [reflexivity|].
  apply andb_prop in H. destruct H as [A B]. apply andb_true_intro. split; [|apply IH; exact B].
  apply val_eqb_spec in A. apply val_eqb_spec. congruence.
Qed.

Lemma check_unique_none : forall g u r, check_unique g u r = None ->
  forall cols pls, In (cols, pls) u -> has_null cols r = false -> g r cols pls = None.
Proof.
  intros g. induction u as [|[c p] u IH]; intros r H cols pls Hin Hn; cbn in *; [contradiction|].
  destruct Hin as [E|Hin].
  - injection E as -> ->. rewrite Hn in H. destruct (g r cols pls); [discriminate|reflexivity].
  - apply IH; try assumption. destruct (has_null c r); [exact H|]. destruct (g r c p); [discriminate|exact H].
Qed.

Section Urows.
  Variable sch : schema.

  Lemma urows_incl : forall l l', incl l l' -> urows sch l' -> urows sch l.
  Proof. intros l l' Hi Hu cols pls x y Hin Hx Hy. apply Hu; [exact Hin|apply Hi; exact Hx|apply Hi; exact Hy]. Qed.

  Lemma urows_snoc : forall L r, urows sch L -> check_unique (sp_get_by_cols L) (s_uniq sch) r = None -> urows sch (L ++ [r]).
  Proof.
    intros L r Hu Hc cols pls x y Hin Hx Hy Hn Hm.
    assert (Hfree : has_null cols r = false -> forall z, In z L -> cols_match cols pls z r = false).
    { intros Hnr z Hz. pose proof (check_unique_none _ _ _ Hc cols pls Hin Hnr) as Hf. unfold sp_get_by_cols in Hf.
      apply find_none_iff in Hf. exact (proj1 (existsb_false_iff _ _ _) Hf z Hz). }
    apply in_app_or in Hx. apply in_app_or in Hy.
    destruct Hx as [Hx|[<-|[]]], Hy as [Hy|[<-|[]]].
    - exact (Hu cols pls x y Hin Hx Hy Hn Hm).
    - rewrite (Hfree Hn x Hx) in Hm. discriminate.
    - pose proof (has_null_match _ _ _ _ Hm Hn) as Hnr. apply cols_match_sym in Hm.
      rewrite (Hfree Hnr y Hy) in Hm. discriminate.
    - reflexivity.
  Qed.

  Lemma sp_insert_urows : forall L r L', urows sch L -> sp_insert sch L r = ROk L' -> urows sch L'.
  Proof.
    intros L r L' Hu H. unfold sp_insert in H. destruct (sp_get sch L r); [discriminate|].
    destruct (check_unique (sp_get_by_cols L) (s_uniq sch) r) eqn:E; [discriminate|]. injection H as <-.
    apply urows_snoc; assumption.
  Qed.

  Lemma sp_delete_urows : forall L r, urows sch L -> urows sch (sp_delete sch L r).
  Proof. intros L r Hu. eapply urows_incl; [|exact Hu]. intros x Hx. eapply remove_first_incl. exact Hx. Qed.

  Lemma sp_update_urows : forall L o n L', urows sch L -> sp_update sch L o n = ROk L' -> urows sch L'.
  Proof.
    intros L o n L' Hu H. unfold sp_update in H.
    destruct (if pk_match sch o n then None else sp_get sch (sp_delete sch L o) n); [discriminate|].
    destruct (check_unique (sp_get_by_cols (sp_delete sch L o)) (s_uniq sch) n) eqn:E; [discriminate|]. injection H as <-.
    apply urows_snoc; [apply sp_delete_urows; exact Hu|exact E].
  Qed.

  Lemma sp_commit_urows : forall L, urows sch L -> urows sch (sp_commit sch L).
  Proof.
    intros L Hu. eapply urows_incl; [|exact Hu]. intros x Hx. unfold sp_commit in Hx.
    eapply Permutation_in; [apply sort_rows_perm|exact Hx].
  Qed.

  Theorem spec_exec_urows : forall rows st, urows sch rows -> urows sch (snd (spec_exec sch rows st)).
  Proof.
    intros rows st. unfold spec_exec.
    apply (exec_inv sp_begin (sp_insert sch) (sp_delete sch) (sp_update sch) (sp_commit sch) sch (urows sch) (urows sch)).
    - intros cols pls x y _ [].
    - intros r H. exact H.
    - intros s r s'. apply sp_insert_urows.
    - intros s r. apply sp_delete_urows.
    - intros s o n s'. apply sp_update_urows.
    - apply sp_commit_urows.
  Qed.
End Urows.

(* ---------- histories on tables with unique indexes ---------- *)
Definition uq_stmt_ok (sch : schema) (U : row -> Prop) (rows : list row) (st : stmt) : Prop :=
  match st with
  | SInsert IPlain news => Forall U news
  | SInsert IIgnore news => Forall U news
  | SDelete _ _ _ => True
  | SUpdate a w ord lim =>
      (forall r, U r -> U (apply_assigns a r)) /\ news_ok sch (news sch a (targets sch w ord lim rows))
  | _ => False
  end.

(* every statement of the history satisfies its guard on the table the REFERENCE has reached *)
Fixpoint uq_hist_ok (sch : schema) (U : row -> Prop) (rows : list row) (h : list stmt) : Prop :=
  match h with
  | [] => True
  | st :: h' => uq_stmt_ok sch U rows st /\ uq_hist_ok sch U (snd (spec_exec sch rows st)) h'
  end.

Theorem uniq_stmt_refines : forall sch ks, pk_binary sch ->
  forall rows st, Pre sch (key_kinds sch ks) rows -> urows sch rows -> uq_stmt_ok sch (key_kinds sch ks) rows st ->
    pk_exec sch rows st = spec_exec sch rows st /\
    Pre sch (key_kinds sch ks) (snd (spec_exec sch rows st)) /\ urows sch (snd (spec_exec sch rows st)).
Proof.
  intros sch ks Hb rows st HP Hu Hs.
  assert (H : pk_exec sch rows st = spec_exec sch rows st /\ Pre sch (key_kinds sch ks) (snd (spec_exec sch rows st))).
  { destruct st as [m news|a w ord lim|w ord lim].
    - destruct m as [| | |a]; cbn in Hs; try contradiction;
        apply (uniq_insert_delete_refines_typed sch ks Hb rows _ HP); exact Hs.
    - destruct Hs as [Ha Hn]. apply (uniq_update_refines_typed sch ks Hb rows a w ord lim HP Hu Ha Hn).
    - apply (uniq_insert_delete_refines_typed sch ks Hb rows _ HP). exact I. }
  destruct H as [E HP']. split; [exact E|split; [exact HP'|apply spec_exec_urows; exact Hu]].
Qed.

Theorem uniq_history_refines : forall sch ks, pk_binary sch -> keyless sch = false ->
  forall h rows, Pre sch (key_kinds sch ks) rows -> urows sch rows -> uq_hist_ok sch (key_kinds sch ks) rows h ->
    run_history sch rows h = spec_history sch rows h.
Proof.
  intros sch ks Hb Hk. induction h as [|st h IH]; intros rows HP Hu Hh; [reflexivity|].
  destruct Hh as [Hst Hh]. destruct (uniq_stmt_refines sch ks Hb rows st HP Hu Hst) as [E [HP' Hu']].
  change (run_history sch (snd (impl_exec sch rows st)) h = spec_history sch (snd (spec_exec sch rows st)) h).
  assert (Ei : impl_exec sch rows st = pk_exec sch rows st) by (unfold impl_exec; rewrite Hk; reflexivity).
  rewrite Ei, E. apply IH; assumption.
Qed.
