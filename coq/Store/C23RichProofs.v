(* C23 - proofs about the rich trigger model (Store/C23Rich.v). *)
From Coq Require Import List ZArith Bool Lia.
Import ListNotations.
From GMS Require Import Store.C23Trigger Store.C23Rich.
Open Scope Z_scope.

(* what one affected row writes: the BEFORE bodies chained through NEW, then the AFTER bodies on the stored row *)
Definition row_effs child (blk : blkT) (ts : list rtrigger) (old new : row) : list eff :=
  let '(eb, new', _) := run_bef child blk (rbefores ts) old new in
  eb ++ fst (run_aft child blk (rafters ts) old new').

(* NEW as the BEFORE triggers leave it *)
Definition stored_new child (blk : blkT) (ts : list rtrigger) (old new : row) : row :=
  snd (fst (run_bef child blk (rbefores ts) old new)).

Lemma row_step_ok child blk ts op cur old new cur' e :
  row_step child blk ts op cur old new = (cur', e, Ok) ->
  e = row_effs child blk ts old new /\ op old (stored_new child blk ts old new) cur = Some cur'.
Proof.
  unfold row_step, row_effs, stored_new.
  destruct (run_bef child blk (rbefores ts) old new) as [[eb n'] fb]. cbn [fst snd].
  destruct fb; [discriminate|].
  destruct (op old n' cur) as [c1|]; [|discriminate].
  destruct (run_aft child blk (rafters ts) old n') as [ea fa]. cbn [fst].
  destruct fa; [discriminate|]. intros H. injection H as <- <-. auto.
Qed.

(* a statement that succeeds: exactly one block per affected row, in row order; every row operation was done on NEW as
   the BEFORE triggers left it *)
Theorem proc_ok_blocks child blk ts op : forall rows cur cur' e,
  proc (fun c p => row_step child blk ts op c (fst p) (snd p)) rows cur = (cur', e, Ok) ->
  e = flat_map (fun p => row_effs child blk ts (fst p) (snd p)) rows /\
  fold_left (fun c p => match c with
                        | Some c => op (fst p) (stored_new child blk ts (fst p) (snd p)) c
                        | None => None end) rows (Some cur) = Some cur'.
Proof.
  induction rows as [|p rows IH]; intros cur cur' e H; cbn in H.
  - injection H as <- <-. auto.
  - destruct (row_step child blk ts op cur (fst p) (snd p)) as [[c1 e1] o1] eqn:E.
    destruct o1; try discriminate.
    destruct (proc _ rows c1) as [[c2 e2] o2] eqn:E2. injection H as <- <- ->.
    apply row_step_ok in E. destruct E as [-> Hop]. apply IH in E2. destruct E2 as [-> Hf].
    cbn [flat_map fold_left]. rewrite Hop. auto.
Qed.

(* a statement that fails in a BEFORE trigger or in the row operation leaves the table as it was *)
Lemma rexec_restore blk s tb q tb' e : rexec_with blk s tb q = (tb', e, FailRestore) -> tb' = tb.
Proof.
  unfold rexec_with. destruct (proc _ (affected q tb) tb) as [[c e'] o]. destruct o; intros H; injection H; congruence.
Qed.

(* ---- IF branches: the engine agrees with MySQL when no SET stands before the end of the branch ---- *)
Definition is_set (s : sstmt) : bool := match s with SSetV _ => true | _ => false end.
Fixpoint set_only_last (l : list sstmt) : bool :=
  match l with
  | [] => true
  | s :: l' => match l' with [] => true | _ => negb (is_set s) && set_only_last l' end
  end.

Lemma run_block_cons child s l old new : l <> [] -> is_set s = false ->
  run_block child (s :: l) old new =
    (fst (run_s child s old new) ++ fst (run_block child l old new), snd (run_block child l old new)).
Proof.
  intros Hl Hs. unfold run_block. cbn [flat_map fst snd has_set existsb].
  replace (match s with SSetV _ => true | _ => false end) with false by (destruct s; cbn in Hs; congruence).
  cbn [orb]. destruct l as [|a l]; [congruence|]. reflexivity.
Qed.

Theorem run_block_seq child : forall l old new, set_only_last l = true -> run_block child l old new = run_seq child l old new.
Proof.
  induction l as [|s l IH]; intros old new H; [reflexivity|].
  destruct l as [|a l].
  - unfold run_block. cbn. destruct s; cbn; now rewrite ?app_nil_r.
  - change (set_only_last (s :: a :: l)) with (negb (is_set s) && set_only_last (a :: l)) in H.
    apply andb_true_iff in H. destruct H as [Hs Hl]. apply negb_true_iff in Hs.
    assert (Hne : a :: l <> []) by discriminate.
    remember (a :: l) as l' eqn:El.
    rewrite run_block_cons by auto. rewrite (IH old new Hl).
    change (run_seq child (s :: l') old new) with
      (let '(e1, n1) := run_s child s old new in let '(e2, n2) := run_seq child l' old n1 in (e1 ++ e2, n2)).
    assert (Hn : run_s child s old new = (fst (run_s child s old new), new)) by (destruct s; cbn in *; congruence).
    rewrite Hn. cbn [fst]. destruct (run_seq child l' old new) as [e2 n2]. reflexivity.
Qed.

(* ---- witnesses ---- *)
(* BEFORE INSERT: IF NEW.v > 5 THEN SET NEW.v = 5; INSERT INTO audit VALUES (1, NEW.id, NEW.v); END IF *)
Definition if_trigs := mkRS [mkR Before [BIf 5 [SSetV (RConst 5); SAudit 1 NewId NewV]]] [] [] [].
Lemma if_witness_engine : rexec if_trigs [] (RIns [(2, 9)]) = ([(2, 9)], [EA (1, 2, 9)], Ok).
Proof. vm_compute. reflexivity. Qed.
Lemma if_witness_mysql : rexec_spec if_trigs [] (RIns [(2, 9)]) = ([(2, 5)], [EA (1, 2, 5)], Ok).
Proof. vm_compute. reflexivity. Qed.

(* AFTER INSERT: IF NEW.v > 5 THEN SIGNAL; INSERT INTO t VALUES (1,3),(2,9),(3,1) fails, rows 1 and 2 stay *)
Definition sig_trigs := mkRS [mkR After [BSignal NewV 5]] [] [] [].
Lemma after_fail_witness : rexec sig_trigs [] (RIns [(1, 3); (2, 9); (3, 1)]) = ([(1, 3); (2, 9)], [], FailKeep).
Proof. vm_compute. reflexivity. Qed.

(* nested chain, SIGNAL-free: b1 BEFORE INSERT ON t: audit 1; INSERT INTO t2 (NEW.id, NEW.v); a1 AFTER INSERT ON t: audit 2;
   c1 BEFORE INSERT ON t2: audit 11; SET NEW.b = NEW.b + 1;  c2 AFTER INSERT ON t2: audit 12 *)
Definition chain_trigs := mkRS
  [mkR Before [BS (SAudit 1 NewId NewV); BS (SChild NewId NewV)]; mkR After [BS (SAudit 2 NewId NewV)]] [] []
  [mkR Before [BS (SAudit 11 NewId NewV); BS (SSetV (RAdd 1))]; mkR After [BS (SAudit 12 NewId NewV)]].
Lemma chain_example : rexec chain_trigs [] (RIns [(1, 3); (2, 9)]) =
  ([(1, 3); (2, 9)],
   [EA (1, 1, 3); EA (11, 1, 3); EC (1, 4); EA (12, 1, 4); EA (2, 1, 3);
    EA (1, 2, 9); EA (11, 2, 9); EC (2, 10); EA (12, 2, 10); EA (2, 2, 9)], Ok).
Proof. vm_compute. reflexivity. Qed.
