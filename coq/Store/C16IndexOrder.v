(* C16 — second part of the proofs: the index storage is SORTED after every operation (sortSecondaryIndexes: stable
   insertion by the first [nsort] key columns, NULL first), and histories whose index names are all lower-case never
   panic. *)
From Coq Require Import List NArith ZArith Bool Arith Lia Permutation Sorted.
Import ListNotations.
From GMS Require Import Store.C16Index Store.C16IndexProofs.

(* ---------- val_cmp is a total order ---------- *)
Lemma ns_cmp_refl a : ns_cmp a a = Eq.
Proof. induction a as [|x a IH]; cbn; auto. rewrite N.compare_refl. exact IH. Qed.

Lemma ns_cmp_eq a : forall b, ns_cmp a b = Eq -> a = b.
Proof.
  induction a as [|x a IH]; intros [|y b] H; cbn in H; try discriminate; auto.
  destruct (N.compare x y) eqn:E; try discriminate. apply N.compare_eq in E. subst. f_equal. apply IH. exact H.
Qed.

Lemma ns_cmp_antisym a : forall b, ns_cmp a b = CompOpp (ns_cmp b a).
Proof.
  induction a as [|x a IH]; intros [|y b]; cbn; auto.
  rewrite (N.compare_antisym y x). destruct (N.compare y x); cbn; auto.
Qed.

Lemma ns_cmp_lt_trans a : forall b c, ns_cmp a b = Lt -> ns_cmp b c = Lt -> ns_cmp a c = Lt.
Proof.
  induction a as [|x a IH]; intros [|y b] [|z c] H1 H2; cbn in *; try discriminate; auto.
  destruct (N.compare x y) eqn:E1, (N.compare y z) eqn:E2; try discriminate.
  - apply N.compare_eq in E1. apply N.compare_eq in E2. subst. rewrite N.compare_refl. eapply IH; eassumption.
  - apply N.compare_eq in E1. subst. rewrite E2. reflexivity.
  - apply N.compare_eq in E2. subst. rewrite E1. reflexivity.
  - assert (N.compare x z = Lt) as -> by (apply N.compare_lt_iff; apply N.compare_lt_iff in E1; apply N.compare_lt_iff in E2; eapply N.lt_trans; eassumption).
    reflexivity.
Qed.

Lemma val_cmp_refl a : val_cmp a a = Eq.
Proof. destruct a; cbn; auto. apply Z.compare_refl. apply ns_cmp_refl. Qed.

Lemma val_cmp_eq a b : val_cmp a b = Eq -> a = b.
Proof.
  destruct a, b; cbn; intros H; try discriminate; auto.
  - apply Z.compare_eq in H. congruence.
  - apply ns_cmp_eq in H. congruence.
Qed.

Lemma val_cmp_antisym a b : val_cmp a b = CompOpp (val_cmp b a).
Proof.
  destruct a, b; cbn; auto. apply Z.compare_antisym. apply ns_cmp_antisym.
Qed.

Lemma val_cmp_lt_trans a b c : val_cmp a b = Lt -> val_cmp b c = Lt -> val_cmp a c = Lt.
Proof.
  destruct a, b, c; cbn; intros H1 H2; try discriminate; auto.
  - apply Z.compare_lt_iff. apply Z.compare_lt_iff in H1. apply Z.compare_lt_iff in H2. eapply Z.lt_trans; eassumption.
  - eapply ns_cmp_lt_trans; eassumption.
Qed.

(* ---------- key_cmp on tuples of one length is a total preorder ---------- *)
Definition kle (n : nat) (a b : row) : Prop := key_cmp n a b <> Gt.

Lemma key_cmp_antisym n : forall a b, key_cmp n a b = CompOpp (key_cmp n b a).
Proof.
  induction n as [|n IH]; intros [|x a] [|y b]; cbn; auto.
  rewrite (val_cmp_antisym x y). destruct (val_cmp y x); cbn; auto.
Qed.

Lemma kle_trans n : forall a b c, length a = length b -> length b = length c ->
  kle n a b -> kle n b c -> kle n a c.
Proof.
  unfold kle. induction n as [|n IH]; intros [|x a] [|y b] [|z c] L1 L2 H1 H2; cbn in *; try discriminate; auto.
  destruct (val_cmp x y) eqn:E1; [| |congruence].
  - apply val_cmp_eq in E1. subst y. destruct (val_cmp x z) eqn:E2; [|discriminate|congruence].
    apply (IH a b c); auto.
  - destruct (val_cmp y z) eqn:E2; [| |congruence].
    + apply val_cmp_eq in E2. subst z. rewrite E1. discriminate.
    + rewrite (val_cmp_lt_trans _ _ _ E1 E2). discriminate.
Qed.

Definition sorted_by (n : nat) (l : list entry) : Prop :=
  StronglySorted (fun x y => kle n (fst x) (fst y)) l.

Definition keys_len (L : nat) (l : list entry) : Prop := Forall (fun e => length (fst e) = L) l.

Lemma Forall_impl_c16 {A} (P Q R : A -> Prop) l :
  (forall z, P z -> Q z -> R z) -> Forall P l -> Forall Q l -> Forall R l.
Proof.
  intros H HP HQ. induction l as [|x t IH]; constructor; inversion HP; inversion HQ; subst; auto.
Qed.

Lemma Forall_ins_entry (P : entry -> Prop) n x l : P x -> Forall P l -> Forall P (ins_entry n x l).
Proof.
  intros Hx Hl. eapply Permutation_Forall; [apply Permutation_sym; apply ins_entry_perm|]. constructor; assumption.
Qed.

Lemma ins_entry_sorted n L (x : entry) (l : list entry) :
  length (fst x) = L -> keys_len L l -> sorted_by n l -> sorted_by n (ins_entry n x l).
Proof.
  intros Lx Ll S. induction l as [|y t IH]; cbn [ins_entry].
  - constructor; constructor.
  - destruct (key_cmp n (fst x) (fst y)) eqn:E;
      inversion Ll as [|? ? Ly Lt']; subst; inversion S as [|? ? St Fy]; subst.
    + constructor; [exact S|]. constructor; [cbv beta; unfold kle; rewrite E; discriminate|].
      eapply Forall_impl_c16; [|exact Fy|exact Lt']. intros z Hz Lz. cbv beta in *.
      apply (kle_trans n (fst x) (fst y) (fst z));
        [symmetry; exact Ly | transitivity (length (fst x)); [exact Ly | symmetry; exact Lz] | unfold kle; rewrite E; discriminate | exact Hz].
    + constructor; [exact S|]. constructor; [cbv beta; unfold kle; rewrite E; discriminate|].
      eapply Forall_impl_c16; [|exact Fy|exact Lt']. intros z Hz Lz. cbv beta in *.
      apply (kle_trans n (fst x) (fst y) (fst z));
        [symmetry; exact Ly | transitivity (length (fst x)); [exact Ly | symmetry; exact Lz] | unfold kle; rewrite E; discriminate | exact Hz].
    + constructor; [apply IH; assumption|]. apply Forall_ins_entry; [|exact Fy].
      cbv beta. unfold kle. rewrite key_cmp_antisym, E. discriminate.
Qed.

Lemma sort_entries_keys_len n L l : keys_len L l -> keys_len L (sort_entries n l).
Proof. intros H. eapply Permutation_Forall; [apply Permutation_sym; apply sort_entries_perm | exact H]. Qed.

Theorem sort_entries_sorted n L l : keys_len L l -> sorted_by n (sort_entries n l).
Proof.
  induction l as [|x t IH]; intros H; cbn; [constructor|]. inversion H as [|? ? Hx Ht]; subst.
  apply (ins_entry_sorted n (length (fst x))); [reflexivity | apply sort_entries_keys_len; exact Ht | apply IH; exact Ht].
Qed.

(* ---------- storage keys ---------- *)
Definition KeysInv (td : tdata) : Prop := forall nm, mem_name nm (skeys td) = false -> stor td nm = [].
Definition SortedInv (td : tdata) : Prop :=
  forall k d, In (k, d) (defs td) -> sorted_by (nsort d) (stor td (iname d)).

Lemma mem_name_app n a b : mem_name n (a ++ b) = mem_name n a || mem_name n b.
Proof. unfold mem_name. apply existsb_app. Qed.

Lemma mem_add_key n m l : mem_name n (add_key m l) = mem_name n l || name_eqb n m.
Proof.
  unfold add_key. destruct (mem_name m l) eqn:E.
  - destruct (name_eqb n m) eqn:E2; [|rewrite orb_false_r; reflexivity].
    apply name_eqb_eq in E2. subst. rewrite E. reflexivity.
  - rewrite mem_name_app. cbn. rewrite orb_false_r. reflexivity.
Qed.

Lemma mem_fold_add n ds : forall l,
  mem_name n (fold_left (fun ks kd => add_key (iname (snd kd)) ks) ds l)
  = mem_name n l || existsb (fun kd : name * idef => name_eqb n (iname (snd kd))) ds.
Proof.
  induction ds as [|kd t IH]; intros l; cbn [fold_left existsb]; [rewrite orb_false_r; reflexivity|].
  rewrite IH, mem_add_key, orb_assoc. reflexivity.
Qed.

Lemma def_named_existsb ds nm d :
  def_named ds nm = Some d -> existsb (fun kd : name * idef => name_eqb nm (iname (snd kd))) ds = true.
Proof.
  unfold def_named. destruct (find (fun kd => name_eqb (iname (snd kd)) nm) ds) as [kd|] eqn:F; [|discriminate].
  intros _. apply find_some in F. destruct F as [F1 F2]. apply existsb_exists. exists kd. split; [exact F1|].
  apply name_eqb_eq in F2. apply name_eqb_eq. congruence.
Qed.

Lemma mem_name_cons n x l : mem_name n (x :: l) = name_eqb n x || mem_name n l.
Proof. reflexivity. Qed.

Lemma mem_filter_ne n k l :
  mem_name n (filter (fun x => negb (name_eqb x k)) l) = mem_name n l && negb (name_eqb n k).
Proof.
  induction l as [|x t IH]; [reflexivity|]. cbn [filter]. rewrite mem_name_cons.
  destruct (name_eqb x k) eqn:E; cbn [negb].
  - rewrite IH. destruct (name_eqb n x) eqn:E2; cbn [orb]; [|reflexivity].
    apply name_eqb_eq in E2. subst. rewrite E. cbn. rewrite andb_false_r. reflexivity.
  - rewrite mem_name_cons, IH. destruct (name_eqb n x) eqn:E2; cbn [orb]; [|reflexivity].
    apply name_eqb_eq in E2. subst. rewrite E. reflexivity.
Qed.

Lemma del_loc_nil l : del_loc l [] = [].
Proof. reflexivity. Qed.

Lemma KeysInv_add_row td r l : KeysInv td -> KeysInv (add_row_to_indexes td r l).
Proof.
  intros K nm H. unfold add_row_to_indexes in *. cbn [skeys stor defs] in *. rewrite mem_fold_add in H. apply orb_false_elim in H. destruct H as [H1 H2].
  destruct (def_named (defs td) nm) eqn:D; [apply def_named_existsb in D; congruence | apply K; exact H1].
Qed.

Lemma KeysInv_with_parts td ps : KeysInv td -> KeysInv (with_parts td ps).
Proof. intros K nm H. apply K. exact H. Qed.

Lemma KeysInv_delete_row td l : KeysInv td -> KeysInv (delete_row_from_indexes td l).
Proof. intros K nm H. cbn in *. rewrite (K nm H). destruct (def_named (defs td) nm); reflexivity. Qed.

Lemma KeysInv_delete_helper td r : KeysInv td -> KeysInv (delete_helper td r).
Proof.
  intros K. unfold delete_helper. destruct (find_row (del_pred td r) (parts td) 0); [|exact K].
  apply KeysInv_delete_row. apply KeysInv_with_parts. exact K.
Qed.

Lemma KeysInv_insert_helper td p r : KeysInv td -> KeysInv (insert_helper td p r).
Proof.
  intros K. unfold insert_helper.
  destruct (match pkcols td with [] => None | n :: l => find_row (fun x => pk_match (n :: l) x r) (parts td) 0 end);
    apply KeysInv_add_row; apply KeysInv_with_parts; exact K.
Qed.

Lemma KeysInv_apply_rows td dels adds : KeysInv td -> KeysInv (apply_rows td dels adds).
Proof.
  intros K. unfold apply_rows.
  assert (K1 : KeysInv (fold_left delete_helper dels td)).
  { revert td K. induction dels as [|r t IH]; intros td K; cbn; [exact K|]. apply IH. apply KeysInv_delete_helper. exact K. }
  revert K1. generalize (fold_left delete_helper dels td). induction adds as [|a t IH]; intros td0 K0; cbn; [exact K0|].
  apply IH. apply KeysInv_insert_helper. exact K0.
Qed.

Lemma KeysInv_swap td l1 l2 : KeysInv td -> KeysInv (swap_td td l1 l2).
Proof.
  intros K. unfold swap_td. destruct (row_at (parts td) l1); [|exact K]. destruct (row_at (parts td) l2); [|exact K].
  intros nm H. cbn in *. rewrite (K nm H). reflexivity.
Qed.

Lemma KeysInv_bubble_pass ls : forall td, KeysInv td -> KeysInv (bubble_pass td ls).
Proof.
  induction ls as [|l1 t IH]; intros td K; cbn; [exact K|]. destruct t as [|l2 t']; [exact K|].
  apply IH. destruct (row_at (parts td) l1); [|exact K]. destruct (row_at (parts td) l2); [|exact K].
  destruct (row_cmp (pkcols td) r r0); try exact K. apply KeysInv_swap. exact K.
Qed.

Lemma KeysInv_sort_rows td : KeysInv td -> KeysInv (sort_rows td).
Proof.
  unfold sort_rows. generalize (length (flat_locs (parts td))). intros n. revert td.
  induction n as [|n IH]; intros td K; cbn; [exact K|]. apply IH. apply KeysInv_bubble_pass. exact K.
Qed.

Lemma KeysInv_sort_secondary td td' : KeysInv td -> sort_secondary td = Ok td' -> KeysInv td'.
Proof.
  intros K H. unfold sort_secondary in H. destruct (existsb (stale_key td) (skeys td)); [discriminate|].
  injection H as <-. intros nm Hm. cbn [stor skeys] in *. rewrite Hm. apply K. exact Hm.
Qed.

Lemma nodup_fst_inj {A B} (l : list (A * B)) k d d' :
  NoDup (map fst l) -> In (k, d) l -> In (k, d') l -> d = d'.
Proof.
  induction l as [|[k0 d0] t IH]; intros N H1 H2; [contradiction|]. cbn in N. inversion N as [|? ? NI N']; subst.
  destruct H1 as [H1|H1], H2 as [H2|H2].
  - congruence.
  - injection H1 as -> ->. exfalso. apply NI. apply (in_map fst) in H2. exact H2.
  - injection H2 as -> ->. exfalso. apply NI. apply (in_map fst) in H1. exact H1.
  - apply IH; assumption.
Qed.

Lemma def_keyed_in ds k d : defs_ok ds -> In (k, d) ds -> def_keyed ds k = Some d.
Proof.
  intros [N L] H. unfold def_keyed. destruct (find (fun kd => name_eqb (fst kd) k) ds) as [[k' d']|] eqn:F.
  - apply find_some in F. destruct F as [F1 F2]. cbn in F2. apply name_eqb_eq in F2. subst k'.
    f_equal. cbn. eapply nodup_fst_inj; eassumption.
  - exfalso. eapply find_none in F; [|exact H]. cbn in F. rewrite name_eqb_refl in F. discriminate.
Qed.

Lemma wf_keys_len d ps es : wf d ps es -> keys_len (length (icols d)) es.
Proof.
  intros (_ & K & _). apply Forall_forall. intros [k l] H. cbn. destruct (K _ _ H) as (r & _ & ->).
  unfold key_of. apply map_length.
Qed.

(* sortSecondaryIndexes leaves every index's storage sorted on its first [nsort] key columns *)
Theorem SortedInv_sort_secondary td td' :
  Inv td -> KeysInv td -> sort_secondary td = Ok td' -> SortedInv td'.
Proof.
  intros [OK W] K H. unfold sort_secondary in H. destruct (existsb (stale_key td) (skeys td)); [discriminate|].
  injection H as <-. intros k d Hd. cbn [stor skeys defs parts] in *.
  destruct (mem_name (iname d) (skeys td)) eqn:M.
  - pose proof (proj2 OK _ _ Hd) as Ek. rewrite <- Ek, (def_keyed_in _ _ _ OK Hd).
    eapply sort_entries_sorted. eapply wf_keys_len. apply (W _ _ Hd).
  - rewrite (K _ M). constructor.
Qed.

(* ---------- storage keys are names of live indexes (no orphaned storage) ---------- *)
Definition NoStaleP (ds : list (name * idef)) (ks : list name) : Prop :=
  forall k, In k ks -> def_named ds k <> None.
Definition NoStale (td : tdata) : Prop := NoStaleP (defs td) (skeys td).

Definition Good (td : tdata) : Prop := Inv td /\ KeysInv td /\ SortedInv td /\ NoStale td.

Lemma mem_name_In n l : mem_name n l = true <-> In n l.
Proof.
  unfold mem_name. rewrite existsb_exists. split.
  - intros (x & H & E). apply name_eqb_eq in E. subst. exact H.
  - intros H. exists n. split; [exact H | apply name_eqb_refl].
Qed.

Lemma def_named_of_in ds k d : In (k, d) ds -> def_named ds (iname d) <> None.
Proof.
  intros H. unfold def_named. destruct (find (fun kd => name_eqb (iname (snd kd)) (iname d)) ds) eqn:F; [discriminate|].
  eapply find_none in F; [|exact H]. cbn in F. rewrite name_eqb_refl in F. discriminate.
Qed.

Lemma def_named_some ds nm d : def_named ds nm = Some d -> exists k, In (k, d) ds /\ iname d = nm.
Proof.
  unfold def_named. destruct (find (fun kd => name_eqb (iname (snd kd)) nm) ds) as [[k d']|] eqn:F; [|discriminate].
  intros E. injection E as <-. apply find_some in F. destruct F as [F1 F2]. cbn in F2. apply name_eqb_eq in F2. eauto.
Qed.

Lemma NoStaleP_fold_add ds ks : NoStaleP ds ks -> NoStaleP ds (fold_left (fun ks kd => add_key (iname (snd kd)) ks) ds ks).
Proof.
  intros N k H. apply mem_name_In in H. rewrite mem_fold_add in H. apply orb_prop in H. destruct H as [H|H].
  - apply N. apply mem_name_In. exact H.
  - apply existsb_exists in H. destruct H as ([k0 d] & Hin & E). cbn in E. apply name_eqb_eq in E. subst k.
    eapply def_named_of_in. exact Hin.
Qed.

Lemma skeys_delete_helper td r : skeys (delete_helper td r) = skeys td.
Proof. unfold delete_helper. destruct (find_row (del_pred td r) (parts td) 0); reflexivity. Qed.

Lemma NoStale_delete_helper td r : NoStale td -> NoStale (delete_helper td r).
Proof. unfold NoStale. rewrite defs_delete_helper, skeys_delete_helper. auto. Qed.

Lemma NoStale_insert_helper td p r : NoStale td -> NoStale (insert_helper td p r).
Proof.
  unfold NoStale, insert_helper.
  destruct (match pkcols td with [] => None | n :: l => find_row (fun x => pk_match (n :: l) x r) (parts td) 0 end);
    cbn; apply NoStaleP_fold_add.
Qed.

Lemma NoStale_apply_rows td dels adds : NoStale td -> NoStale (apply_rows td dels adds).
Proof.
  intros K. unfold apply_rows.
  assert (K1 : NoStale (fold_left delete_helper dels td)).
  { revert td K. induction dels as [|r t IH]; intros td K; cbn; [exact K|]. apply IH. apply NoStale_delete_helper. exact K. }
  revert K1. generalize (fold_left delete_helper dels td). induction adds as [|a t IH]; intros td0 K0; cbn; [exact K0|].
  apply IH. apply NoStale_insert_helper. exact K0.
Qed.

Lemma NoStale_swap td l1 l2 : NoStale td -> NoStale (swap_td td l1 l2).
Proof.
  unfold NoStale, swap_td. destruct (row_at (parts td) l1); [|auto]. destruct (row_at (parts td) l2); auto.
Qed.

Lemma NoStale_bubble_pass ls : forall td, NoStale td -> NoStale (bubble_pass td ls).
Proof.
  induction ls as [|l1 t IH]; intros td K; cbn; [exact K|]. destruct t as [|l2 t']; [exact K|].
  apply IH. destruct (row_at (parts td) l1); [|exact K]. destruct (row_at (parts td) l2); [|exact K].
  destruct (row_cmp (pkcols td) r r0); try exact K. apply NoStale_swap. exact K.
Qed.

Lemma NoStale_sort_rows td : NoStale td -> NoStale (sort_rows td).
Proof.
  unfold sort_rows. generalize (length (flat_locs (parts td))). intros n. revert td.
  induction n as [|n IH]; intros td K; cbn; [exact K|]. apply IH. apply NoStale_bubble_pass. exact K.
Qed.

(* with no orphaned storage, sortSecondaryIndexes finds an index for every storage key: it cannot panic *)
Lemma sort_secondary_ok td : Inv td -> NoStale td -> exists td', sort_secondary td = Ok td' /\ NoStale td'.
Proof.
  intros [OK W] N. unfold sort_secondary.
  assert (E : existsb (stale_key td) (skeys td) = false).
  { destruct (existsb (stale_key td) (skeys td)) eqn:E; [|reflexivity]. apply existsb_exists in E.
    destruct E as (k & Hk & S). exfalso. specialize (N _ Hk). destruct (def_named (defs td) k) as [d|] eqn:D; [|congruence].
    apply def_named_some in D. destruct D as (k0 & Hin & <-). unfold stale_key in S.
    rewrite <- (proj2 OK _ _ Hin), (def_keyed_in _ _ _ OK Hin) in S. discriminate. }
  rewrite E. eexists. split; [reflexivity|]. exact N.
Qed.

Lemma Good_apply_edits td dels adds :
  Inv td -> KeysInv td -> NoStale td -> apply_fresh td dels adds = true ->
  exists td', apply_edits td dels adds = Ok td' /\ Good td'.
Proof.
  intros I K N F. pose proof (Inv_apply_rows _ _ _ I F) as I1. pose proof (KeysInv_apply_rows td dels adds K) as K1.
  pose proof (NoStale_apply_rows td dels adds N) as N1. unfold apply_edits. destruct (pkcols td) eqn:P.
  - destruct (sort_secondary_ok _ I1 N1) as (td' & E & N'). exists td'. split; [exact E|].
    split; [eapply Inv_sort_secondary; eassumption|]. split; [eapply KeysInv_sort_secondary; eassumption|].
    split; [eapply SortedInv_sort_secondary; eassumption | exact N'].
  - pose proof (Inv_sort_rows _ I1) as I2. pose proof (KeysInv_sort_rows _ K1) as K2. pose proof (NoStale_sort_rows _ N1) as N2.
    destruct (sort_secondary_ok _ I2 N2) as (td' & E & N'). exists td'. split; [exact E|].
    split; [eapply Inv_sort_secondary; eassumption|]. split; [eapply KeysInv_sort_secondary; eassumption|].
    split; [eapply SortedInv_sort_secondary; eassumption | exact N'].
Qed.

Lemma Good_truncate td : defs_ok (defs td) -> Good (truncate td).
Proof.
  intros OK. split; [apply Inv_truncate; exact OK|]. split; [intros nm _; reflexivity|].
  split; [intros k d _; cbn; constructor | intros k []].
Qed.

Lemma wf_icols d d' ps es : icols d = icols d' -> wf d ps es -> wf d' ps es.
Proof.
  intros E (N & K & C). split; [exact N|]. split; [|exact C]. intros k l H. destruct (K _ _ H) as (r & Hr & ->).
  exists r. split; [exact Hr|]. unfold key_of. rewrite E. reflexivity.
Qed.

Lemma def_keyed_filter_none ds f k : def_keyed ds k = None -> def_keyed (filter f ds) k = None.
Proof.
  intros H. apply def_keyed_none in H. unfold def_keyed.
  destruct (find (fun kd => name_eqb (fst kd) k) (filter f ds)) as [[k' d']|] eqn:F; [|reflexivity].
  exfalso. apply find_some in F. destruct F as [F1 F2]. cbn in F2. apply name_eqb_eq in F2. subst k'.
  apply filter_In in F1. destruct F1 as [F1 _]. apply H. apply (in_map fst) in F1. exact F1.
Qed.

Lemma no_def_named ds nm : defs_ok ds -> def_keyed ds (lower nm) = None -> def_named ds nm = None.
Proof.
  intros OK H. destruct (def_named ds nm) as [d|] eqn:D; [|reflexivity]. exfalso.
  apply def_named_some in D. destruct D as (k & Hin & <-). apply def_keyed_none in H. apply H.
  rewrite <- (proj2 OK _ _ Hin). apply (in_map fst) in Hin. exact Hin.
Qed.

(* a remaining definition after the one keyed [k0] is filtered out *)
Lemma in_filtered ds k0 d0 k d :
  defs_ok ds -> In (k0, d0) ds -> In (k, d) ds -> iname d <> iname d0 ->
  In (k, d) (filter (fun kd => negb (name_eqb (fst kd) k0)) ds).
Proof.
  intros OK H0 H NE. apply filter_In. split; [exact H|]. cbn. apply negb_true_iff. apply name_eqb_neq. intros ->.
  apply NE. f_equal. eapply nodup_fst_inj; [apply OK | exact H | exact H0].
Qed.

Lemma Good_drop_index td nm : Good td -> Good (drop_index td nm).
Proof.
  intros (I & K & S & N). split; [apply Inv_drop_index; exact I|]. unfold drop_index.
  destruct (def_keyed (defs td) (lower nm)) as [d|] eqn:F; [|exact (conj K (conj S N))].
  pose proof (def_keyed_some _ _ _ F) as Hd. destruct I as [OK W]. split; [|split].
  - intros n Hm. cbn [stor skeys] in *. rewrite mem_filter_ne in Hm. destruct (name_eqb n (iname d)); [reflexivity|].
    cbn in Hm. rewrite andb_true_r in Hm. apply K. exact Hm.
  - intros k d2 H2. cbn [stor defs] in *. apply filter_In in H2. destruct H2 as [H2 _].
    destruct (name_eqb (iname d2) (iname d)); [constructor | apply (S _ _ H2)].
  - intros k Hk. cbn [skeys defs] in *. apply filter_In in Hk. destruct Hk as [Hk NE]. apply negb_true_iff in NE.
    apply name_eqb_neq in NE. specialize (N _ Hk). destruct (def_named (defs td) k) as [d2|] eqn:D; [|congruence].
    apply def_named_some in D. destruct D as (k2 & H2 & E2). subst k.
    eapply def_named_of_in. eapply in_filtered; eauto.
Qed.

Lemma Good_rename_index td a b : Good td -> Good (rename_index td a b).
Proof.
  intros (I & K & S & N). unfold rename_index. destruct (name_eqb a b); [exact (conj I (conj K (conj S N)))|].
  destruct (def_keyed (defs td) (lower a)) as [d|] eqn:Fa; [|exact (conj I (conj K (conj S N)))].
  destruct (def_keyed (defs td) (lower b)) eqn:Fb; [exact (conj I (conj K (conj S N)))|].
  pose proof (def_keyed_some _ _ _ Fa) as Hd. destruct I as [OK W].
  set (d' := {| iname := b; icols := icols d; nsort := nsort d |}).
  set (fds := filter (fun kd => negb (name_eqb (fst kd) (lower a))) (defs td)).
  assert (OK' : defs_ok (fds ++ [(lower b, d')])).
  { apply (defs_ok_add fds d'); [apply defs_ok_filter; exact OK | apply def_keyed_filter_none; exact Fb]. }
  assert (NB : def_named (defs td) b = None) by (apply no_def_named; assumption).
  assert (SB : mem_name b (skeys td) = false).
  { destruct (mem_name b (skeys td)) eqn:M; [|reflexivity]. apply mem_name_In in M. apply N in M. congruence. }
  (* a definition that stays: its name is neither the old nor the new one *)
  assert (STAY : forall k d2, In (k, d2) fds -> In (k, d2) (defs td) /\ iname d2 <> iname d /\ iname d2 <> b).
  { intros k d2 H. apply filter_In in H. destruct H as [H NE]. cbn in NE. apply negb_true_iff in NE. apply name_eqb_neq in NE.
    split; [exact H|]. split.
    - intros E. apply NE. pose proof (defs_ok_names _ _ _ _ _ OK H Hd E) as EE. congruence.
    - intros E. pose proof (def_named_of_in _ _ _ H) as X. rewrite E, NB in X. congruence. }
  destruct (mem_name (iname d) (skeys td)) eqn:M.
  - (* the storage moves *)
    split; [split; [exact OK'|]|split; [|split]].
    + intros k d2 H. cbn [defs stor parts] in *. apply in_app_or in H. destruct H as [H|[H|[]]].
      * destruct (STAY _ _ H) as (H0 & N1 & N2). apply name_eqb_neq in N1. apply name_eqb_neq in N2. rewrite N2, N1. apply (W _ _ H0).
      * injection H as <- <-. cbn [iname]. rewrite name_eqb_refl. apply (wf_icols d d'); [reflexivity | apply (W _ _ Hd)].
    + intros n Hm. cbn [stor skeys] in *. rewrite mem_add_key, mem_filter_ne in Hm. apply orb_false_elim in Hm. destruct Hm as [H1 H2].
      rewrite H2. destruct (name_eqb n (iname d)); [reflexivity|]. cbn in H1. rewrite andb_true_r in H1. apply K. exact H1.
    + intros k d2 H. cbn [defs stor] in *. apply in_app_or in H. destruct H as [H|[H|[]]].
      * destruct (STAY _ _ H) as (H0 & N1 & N2). apply name_eqb_neq in N1. apply name_eqb_neq in N2. rewrite N2, N1. apply (S _ _ H0).
      * injection H as <- <-. cbn [iname nsort]. rewrite name_eqb_refl. apply (S _ _ Hd).
    + intros k Hk. cbn [skeys defs] in *. apply mem_name_In in Hk. rewrite mem_add_key, mem_filter_ne in Hk.
      apply orb_prop in Hk. destruct Hk as [Hk|Hk].
      * apply andb_prop in Hk. destruct Hk as [H1 H2]. apply mem_name_In in H1. apply negb_true_iff in H2. apply name_eqb_neq in H2.
        specialize (N _ H1). destruct (def_named (defs td) k) as [d2|] eqn:D; [|congruence].
        apply def_named_some in D. destruct D as (k2 & Hin & E2). subst k.
        apply (def_named_of_in _ k2 d2). apply in_or_app. left. eapply in_filtered; eauto.
      * apply name_eqb_eq in Hk. subst k. apply (def_named_of_in _ (lower b) d'). apply in_or_app. right. left. reflexivity.
  - (* there was no storage entry: nothing moves; both names hold no storage *)
    pose proof (K _ M) as E0. pose proof (K _ SB) as EB.
    split; [split; [exact OK'|]|split; [|split]].
    + intros k d2 H. cbn [defs stor parts] in *. apply in_app_or in H. destruct H as [H|[H|[]]].
      * destruct (STAY _ _ H) as (H0 & _ & _). apply (W _ _ H0).
      * injection H as <- <-. change (iname d') with b. rewrite EB. apply (wf_icols d d'); [reflexivity|]. rewrite <- E0. apply (W _ _ Hd).
    + exact K.
    + intros k d2 H. cbn [defs stor] in *. apply in_app_or in H. destruct H as [H|[H|[]]].
      * destruct (STAY _ _ H) as (H0 & _ & _). apply (S _ _ H0).
      * injection H as <- <-. change (iname d') with b. rewrite EB. constructor.
    + intros k Hk. cbn [skeys defs] in *. pose proof (N _ Hk) as X. destruct (def_named (defs td) k) as [d2|] eqn:D; [|congruence].
      apply def_named_some in D. destruct D as (k2 & Hin & E2). subst k.
      apply (def_named_of_in _ k2 d2). apply in_or_app. left. eapply in_filtered; eauto.
      intros E. rewrite E in Hk. apply mem_name_In in Hk. congruence.
Qed.

(* every operation of a guarded history runs (no panic, whatever the index names) and preserves the invariants *)
Theorem Good_step hp td o : Good td -> step_ok hp td o = true -> exists td', step hp td o = Ok td' /\ Good td'.
Proof.
  intros G SO. pose proof G as (I & K & S & N). destruct o as [dels adds| |d|nm|a b| |d]; cbn [step].
  - apply Good_apply_edits; assumption.
  - eexists. split; [reflexivity|]. apply Good_truncate. apply I.
  - unfold create_index. cbn in SO. destruct (def_keyed (defs td) (lower (iname d))) eqn:F; [eauto|].
    assert (G0 : Good (truncate (add_def td d))) by (apply Good_truncate; cbn; apply defs_ok_add; [apply I | exact F]).
    destruct G0 as (I0 & K0 & _ & N0). apply Good_apply_edits; assumption.
  - eexists. split; [reflexivity|]. apply Good_drop_index. exact G.
  - eexists. split; [reflexivity|]. apply Good_rename_index. exact G.
  - eauto.
  - discriminate.
Qed.

Theorem Good_run hp h : forall td, Good td -> hist_ok hp td h = true -> exists td', run hp td h = Ok td' /\ Good td'.
Proof.
  induction h as [|o t IH]; intros td G S; cbn in *; [eauto|].
  apply andb_prop in S. destruct S as [S1 S2]. destruct (Good_step hp td o G S1) as (td1 & E & G1).
  rewrite E in *. apply IH; assumption.
Qed.

Lemma Good_init n pks : Good (init n pks).
Proof. split; [apply Inv_init|]. split; [intros nm _; reflexivity|]. split; [intros k d [] | intros k []]. Qed.
