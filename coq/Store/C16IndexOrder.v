(* C16 — second part of the proofs: the index storage is SORTED after every operation (sortSecondaryIndexes: stable
   insertion by the first [nsort] key columns, NULL first), and histories whose index names are all lower-case never
   panic. *)
From Coq Require Import List NArith ZArith Bool Arith Lia Permutation Sorted.
Import ListNotations.
From GMS Require Import Store.C16Index Store.C16IndexProofs.

(* ---------- val_cmp is a total order ---------- *)
Lemma ns_cmp_refl a : ns_cmp a a = Eq.
Proof. induction a as [|x a IH]; cbn; auto. rewrite N.compare_refl. exact IH. Qed.

Lemma ns_cmp_eq a : forall b, ns_cmp a b = Eq -> a = b.
Proof.
  induction a as [|x a IH]; intros [|y b] H; cbn in H; try discriminate; auto.
  destruct (N.compare x y) eqn:E; try discriminate. apply N.compare_eq in E. subst. f_equal. apply IH. exact H.
Qed.

Lemma ns_cmp_antisym a : forall b, ns_cmp a b = CompOpp (ns_cmp b a).
Proof.
  induction a as [|x a IH]; intros [|y b]; cbn; auto.
  rewrite (N.compare_antisym y x). destruct (N.compare y x); cbn; auto.
Qed.

Lemma ns_cmp_lt_trans a : forall b c, ns_cmp a b = Lt -> ns_cmp b c = Lt -> ns_cmp a c = Lt.
Proof.
  induction a as [|x a IH]; intros [|y b] [|z c] H1 H2; cbn in *; try discriminate; auto.
  destruct (N.compare x y) eqn:E1, (N.compare y z) eqn:E2; try discriminate.
  - apply N.compare_eq in E1. apply N.compare_eq in E2. subst. rewrite N.compare_refl. eapply IH; eassumption.
  - apply N.compare_eq in E1. subst. rewrite E2. reflexivity.
  - apply N.compare_eq in E2. subst. rewrite E1. reflexivity.
  - assert (N.compare x z = Lt) as -> by (apply N.compare_lt_iff; apply N.compare_lt_iff in E1; apply N.compare_lt_iff in E2; eapply N.lt_trans; eassumption).
    reflexivity.
Qed.

Lemma val_cmp_refl a : val_cmp a a = Eq.
Proof. destruct a; cbn; auto. apply Z.compare_refl. apply ns_cmp_refl. Qed.

Lemma val_cmp_eq a b : val_cmp a b = Eq -> a = b.
Proof.
  destruct a, b; cbn; intros H; try discriminate; auto.
  - apply Z.compare_eq in H. congruence.
  - apply ns_cmp_eq in H. congruence.
Qed.

Lemma val_cmp_antisym a b : val_cmp a b = CompOpp (val_cmp b a).
Proof.
  destruct a, b; cbn; auto. apply Z.compare_antisym. apply ns_cmp_antisym.
Qed.

Lemma val_cmp_lt_trans a b c : val_cmp a b = Lt -> val_cmp b c = Lt -> val_cmp a c = Lt.
Proof.
  destruct a, b, c; cbn; intros H1 H2; try discriminate; auto.
  - apply Z.compare_lt_iff. apply Z.compare_lt_iff in H1. apply Z.compare_lt_iff in H2. eapply Z.lt_trans; eassumption.
  - eapply ns_cmp_lt_trans; eassumption.
Qed.

(* ---------- key_cmp on tuples of one length is a total preorder ---------- *)
Definition kle (n : nat) (a b : row) : Prop := key_cmp n a b <> Gt.

Lemma key_cmp_antisym n : forall a b, key_cmp n a b = CompOpp (key_cmp n b a).
Proof.
  induction n as [|n IH]; intros [|x a] [|y b]; cbn; auto.
  rewrite (val_cmp_antisym x y). destruct (val_cmp y x); cbn; auto.
Qed.

Lemma kle_trans n : forall a b c, length a = length b -> length b = length c ->
  kle n a b -> kle n b c -> kle n a c.
Proof.
  unfold kle. induction n as [|n IH]; intros [|x a] [|y b] [|z c] L1 L2 H1 H2; cbn in *; try discriminate; auto.
  destruct (val_cmp x y) eqn:E1; [| |congruence].
  - apply val_cmp_eq in E1. subst y. destruct (val_cmp x z) eqn:E2; [|discriminate|congruence].
    apply (IH a b c); auto.
  - destruct (val_cmp y z) eqn:E2; [| |congruence].
    + apply val_cmp_eq in E2. subst z. rewrite E1. discriminate.
    + rewrite (val_cmp_lt_trans _ _ _ E1 E2). discriminate.
Qed.

Definition sorted_by (n : nat) (l : list entry) : Prop :=
  StronglySorted (fun x y => kle n (fst x) (fst y)) l.

Definition keys_len (L : nat) (l : list entry) : Prop := Forall (fun e => length (fst e) = L) l.

Lemma Forall_impl_c16 {A} (P Q R : A -> Prop) l :
  (forall z, P z -> Q z -> R z) -> Forall P l -> Forall Q l -> Forall R l.
Proof.
  intros H HP HQ. induction l as [|x t IH]; constructor; inversion HP; inversion HQ; subst; auto.
Qed.

Lemma Forall_ins_entry (P : entry -> Prop) n x l : P x -> Forall P l -> Forall P (ins_entry n x l).
Proof.
  intros Hx Hl. eapply Permutation_Forall; [apply Permutation_sym; apply ins_entry_perm|]. constructor; assumption.
Qed.

Lemma ins_entry_sorted n L (x : entry) (l : list entry) :
  length (fst x) = L -> keys_len L l -> sorted_by n l -> sorted_by n (ins_entry n x l).
Proof.
  intros Lx Ll S. induction l as [|y t IH]; cbn [ins_entry].
  - constructor; constructor.
  - destruct (key_cmp n (fst x) (fst y)) eqn:E;
      inversion Ll as [|? ? Ly Lt']; subst; inversion S as [|? ? St Fy]; subst.
    + constructor; [exact S|]. constructor; [cbv beta; unfold kle; rewrite E; discriminate|].
      eapply Forall_impl_c16; [|exact Fy|exact Lt']. intros z Hz Lz. cbv beta in *.
      apply (kle_trans n (fst x) (fst y) (fst z));
        [symmetry; exact Ly | transitivity (length (fst x)); [exact Ly | symmetry; exact Lz] | unfold kle; rewrite E; discriminate | exact Hz].
    + constructor; [exact S|]. constructor; [cbv beta; unfold kle; rewrite E; discriminate|].
      eapply Forall_impl_c16; [|exact Fy|exact Lt']. intros z Hz Lz. cbv beta in *.
      apply (kle_trans n (fst x) (fst y) (fst z));
        [symmetry; exact Ly | transitivity (length (fst x)); [exact Ly | symmetry; exact Lz] | unfold kle; rewrite E; discriminate | exact Hz].
    + constructor; [apply IH; assumption|]. apply Forall_ins_entry; [|exact Fy].
      cbv beta. unfold kle. rewrite key_cmp_antisym, E. discriminate.
Qed.

Lemma sort_entries_keys_len n L l : keys_len L l -> keys_len L (sort_entries n l).
Proof. intros H. eapply Permutation_Forall; [apply Permutation_sym; apply sort_entries_perm | exact H]. Qed.

Theorem sort_entries_sorted n L l : keys_len L l -> sorted_by n (sort_entries n l).
Proof.
  induction l as [|x t IH]; intros H; cbn; [constructor|]. inversion H as [|? ? Hx Ht]; subst.
  apply (ins_entry_sorted n (length (fst x))); [reflexivity | apply sort_entries_keys_len; exact Ht | apply IH; exact Ht].
Qed.

(* ---------- storage keys ---------- *)
Definition KeysInv (td : tdata) : Prop := forall nm, mem_name nm (skeys td) = false -> stor td nm = [].
Definition SortedInv (td : tdata) : Prop :=
  forall k d, In (k, d) (defs td) -> sorted_by (nsort d) (stor td (iname d)).

Lemma mem_name_app n a b : mem_name n (a ++ b) = mem_name n a || mem_name n b.
Proof. unfold mem_name. apply existsb_app. Qed.

Lemma mem_add_key n m l : mem_name n (add_key m l) = mem_name n l || name_eqb n m.
Proof.
  unfold add_key. destruct (mem_name m l) eqn:E.
  - destruct (name_eqb n m) eqn:E2; [|rewrite orb_false_r; reflexivity].
    apply name_eqb_eq in E2. subst. rewrite E. reflexivity.
  - rewrite mem_name_app. cbn. rewrite orb_false_r. reflexivity.
Qed.

Lemma mem_fold_add n ds : forall l,
  mem_name n (fold_left (fun ks kd => add_key (iname (snd kd)) ks) ds l)
  = mem_name n l || existsb (fun kd : name * idef => name_eqb n (iname (snd kd))) ds.
Proof.
  induction ds as [|kd t IH]; intros l; cbn [fold_left existsb]; [rewrite orb_false_r; reflexivity|].
  rewrite IH, mem_add_key, orb_assoc. reflexivity.
Qed.

Lemma def_named_existsb ds nm d :
  def_named ds nm = Some d -> existsb (fun kd : name * idef => name_eqb nm (iname (snd kd))) ds = true.
Proof.
  unfold def_named. destruct (find (fun kd => name_eqb (iname (snd kd)) nm) ds) as [kd|] eqn:F; [|discriminate].
  intros _. apply find_some in F. destruct F as [F1 F2]. apply existsb_exists. exists kd. split; [exact F1|].
  apply name_eqb_eq in F2. apply name_eqb_eq. congruence.
Qed.

Lemma mem_name_cons n x l : mem_name n (x :: l) = name_eqb n x || mem_name n l.
Proof. reflexivity. Qed.

Lemma mem_filter_ne n k l :
  mem_name n (filter (fun x => negb (name_eqb x k)) l) = mem_name n l && negb (name_eqb n k).
Proof.
  induction l as [|x t IH]; [reflexivity|]. cbn [filter]. rewrite mem_name_cons.
  destruct (name_eqb x k) eqn:E; cbn [negb].
  - rewrite IH. destruct (name_eqb n x) eqn:E2; cbn [orb]; [|reflexivity].
    apply name_eqb_eq in E2. subst. rewrite E. cbn. rewrite andb_false_r. reflexivity.
  - rewrite mem_name_cons, IH. destruct (name_eqb n x) eqn:E2; cbn [orb]; [|reflexivity].
    apply name_eqb_eq in E2. subst. rewrite E. reflexivity.
Qed.

Lemma del_loc_nil l : del_loc l [] = [].
Proof. reflexivity. Qed.

Lemma KeysInv_add_row td r l : KeysInv td -> KeysInv (add_row_to_indexes td r l).
Proof.
  intros K nm H. unfold add_row_to_indexes in *. cbn [skeys stor defs] in *. rewrite mem_fold_add in H. apply orb_false_elim in H. destruct H as [H1 H2].
  destruct (def_named (defs td) nm) eqn:D; [apply def_named_existsb in D; congruence | apply K; exact H1].
Qed.

Lemma KeysInv_with_parts td ps : KeysInv td -> KeysInv (with_parts td ps).
Proof. intros K nm H. apply K. exact H. Qed.

Lemma KeysInv_delete_row td l : KeysInv td -> KeysInv (delete_row_from_indexes td l).
Proof. intros K nm H. cbn in *. rewrite (K nm H). destruct (def_named (defs td) nm); reflexivity. Qed.

Lemma KeysInv_delete_helper td r : KeysInv td -> KeysInv (delete_helper td r).
Proof.
  intros K. unfold delete_helper. destruct (find_row (del_pred td r) (parts td) 0); [|exact K].
  apply KeysInv_delete_row. apply KeysInv_with_parts. exact K.
Qed.

Lemma KeysInv_insert_helper td p r : KeysInv td -> KeysInv (insert_helper td p r).
Proof.
  intros K. unfold insert_helper.
  destruct (match pkcols td with [] => None | n :: l => find_row (fun x => pk_match (n :: l) x r) (parts td) 0 end);
    apply KeysInv_add_row; apply KeysInv_with_parts; exact K.
Qed.

Lemma KeysInv_apply_rows td dels adds : KeysInv td -> KeysInv (apply_rows td dels adds).
Proof.
  intros K. unfold apply_rows.
  assert (K1 : KeysInv (fold_left delete_helper dels td)).
  { revert td K. induction dels as [|r t IH]; intros td K; cbn; [exact K|]. apply IH. apply KeysInv_delete_helper. exact K. }
  revert K1. generalize (fold_left delete_helper dels td). induction adds as [|a t IH]; intros td0 K0; cbn; [exact K0|].
  apply IH. apply KeysInv_insert_helper. exact K0.
Qed.

Lemma KeysInv_swap td l1 l2 : KeysInv td -> KeysInv (swap_td td l1 l2).
Proof.
  intros K. unfold swap_td. destruct (row_at (parts td) l1); [|exact K]. destruct (row_at (parts td) l2); [|exact K].
  intros nm H. cbn in *. rewrite (K nm H). reflexivity.
Qed.

Lemma KeysInv_bubble_pass ls : forall td, KeysInv td -> KeysInv (bubble_pass td ls).
Proof.
  induction ls as [|l1 t IH]; intros td K; cbn; [exact K|]. destruct t as [|l2 t']; [exact K|].
  apply IH. destruct (row_at (parts td) l1); [|exact K]. destruct (row_at (parts td) l2); [|exact K].
  destruct (row_cmp (pkcols td) r r0); try exact K. apply KeysInv_swap. exact K.
Qed.

Lemma KeysInv_sort_rows td : KeysInv td -> KeysInv (sort_rows td).
Proof.
  unfold sort_rows. generalize (length (flat_locs (parts td))). intros n. revert td.
  induction n as [|n IH]; intros td K; cbn; [exact K|]. apply IH. apply KeysInv_bubble_pass. exact K.
Qed.

Lemma KeysInv_sort_secondary td td' : KeysInv td -> sort_secondary td = Ok td' -> KeysInv td'.
Proof.
  intros K H. unfold sort_secondary in H. destruct (existsb (stale_key td) (skeys td)); [discriminate|].
  injection H as <-. intros nm Hm. cbn [stor skeys] in *. rewrite Hm. apply K. exact Hm.
Qed.

Lemma nodup_fst_inj {A B} (l : list (A * B)) k d d' :
  NoDup (map fst l) -> In (k, d) l -> In (k, d') l -> d = d'.
Proof.
  induction l as [|[k0 d0] t IH]; intros N H1 H2; [contradiction|]. cbn in N. inversion N as [|? ? NI N']; subst.
  destruct H1 as [H1|H1], H2 as [H2|H2].
  - congruence.
  - injection H1 as -> ->. exfalso. apply NI. apply (in_map fst) in H2. exact H2.
  - injection H2 as -> ->. exfalso. apply NI. apply (in_map fst) in H1. exact H1.
  - apply IH; assumption.
Qed.

Lemma def_keyed_in ds k d : defs_ok ds -> In (k, d) ds -> def_keyed ds k = Some d.
Proof.
  intros [N L] H. unfold def_keyed. destruct (find (fun kd => name_eqb (fst kd) k) ds) as [[k' d']|] eqn:F.
  - apply find_some in F. destruct F as [F1 F2]. cbn in F2. apply name_eqb_eq in F2. subst k'.
    f_equal. cbn. eapply nodup_fst_inj; eassumption.
  - exfalso. eapply find_none in F; [|exact H]. cbn in F. rewrite name_eqb_refl in F. discriminate.
Qed.

Lemma wf_keys_len d ps es : wf d ps es -> keys_len (length (icols d)) es.
Proof.
  intros (_ & K & _). apply Forall_forall. intros [k l] H. cbn. destruct (K _ _ H) as (r & _ & ->).
  unfold key_of. apply map_length.
Qed.

(* sortSecondaryIndexes leaves every index's storage sorted on its first [nsort] key columns *)
Theorem SortedInv_sort_secondary td td' :
  Inv td -> KeysInv td -> sort_secondary td = Ok td' -> SortedInv td'.
Proof.
  intros [OK W] K H. unfold sort_secondary in H. destruct (existsb (stale_key td) (skeys td)); [discriminate|].
  injection H as <-. intros k d Hd. cbn [stor skeys defs parts] in *.
  destruct (mem_name (iname d) (skeys td)) eqn:M.
  - pose proof (proj2 OK _ _ Hd) as Ek. rewrite <- Ek, (def_keyed_in _ _ _ OK Hd).
    eapply sort_entries_sorted. eapply wf_keys_len. apply (W _ _ Hd).
  - rewrite (K _ M). constructor.
Qed.

Definition Good (td : tdata) : Prop := Inv td /\ KeysInv td /\ SortedInv td.

Lemma Good_apply_edits td dels adds td' :
  Inv td -> KeysInv td -> apply_fresh td dels adds = true -> apply_edits td dels adds = Ok td' -> Good td'.
Proof.
  intros I K F E. pose proof (Inv_apply_edits _ _ _ _ I F E) as I'. unfold apply_edits in E.
  pose proof (Inv_apply_rows _ _ _ I F) as I1. pose proof (KeysInv_apply_rows td dels adds K) as K1.
  destruct (pkcols td).
  - split; [exact I'|]. split; [eapply KeysInv_sort_secondary; eassumption | eapply SortedInv_sort_secondary; eassumption].
  - pose proof (Inv_sort_rows _ I1) as I2. pose proof (KeysInv_sort_rows _ K1) as K2.
    split; [exact I'|]. split; [eapply KeysInv_sort_secondary; eassumption | eapply SortedInv_sort_secondary; eassumption].
Qed.

Lemma Good_truncate td : defs_ok (defs td) -> Good (truncate td).
Proof.
  intros OK. split; [apply Inv_truncate; exact OK|]. split.
  - intros nm _. reflexivity.
  - intros k d _. cbn. constructor.
Qed.

Theorem Good_step hp td o td' : Good td -> step_ok hp td o = true -> step hp td o = Ok td' -> Good td'.
Proof.
  intros (I & K & S) SO E. destruct o as [dels adds| |d|nm|a b| |d]; cbn in E.
  - eapply Good_apply_edits; eassumption.
  - injection E as <-. apply Good_truncate. apply I.
  - unfold create_index in E. cbn in SO. destruct (def_keyed (defs td) (lower (iname d))) eqn:F.
    + injection E as <-. exact (conj I (conj K S)).
    + assert (G : Good (truncate (add_def td d))) by (apply Good_truncate; cbn; apply defs_ok_add; [apply I | exact F]).
      destruct G as (I0 & K0 & _). eapply Good_apply_edits; eassumption.
  - injection E as <-. split; [apply Inv_drop_index; exact I|]. unfold drop_index.
    destruct (def_keyed (defs td) (lower nm)); [|split; assumption]. split.
    + intros n Hm. cbn [stor skeys] in *. rewrite mem_filter_ne in Hm. destruct (name_eqb n (lower nm)); [reflexivity|].
      cbn in Hm. rewrite andb_true_r in Hm. apply K. exact Hm.
    + intros k d Hd. cbn [stor defs] in *. apply filter_In in Hd. destruct Hd as [Hd _].
      destruct (name_eqb (iname d) (lower nm)); [constructor | apply (S _ _ Hd)].
  - discriminate.
  - injection E as <-. exact (conj I (conj K S)).
  - discriminate.
Qed.

Theorem Good_run hp h : forall td td', Good td -> hist_ok hp td h = true -> run hp td h = Ok td' -> Good td'.
Proof.
  induction h as [|o t IH]; intros td td' G S E; cbn in *.
  - injection E as <-. exact G.
  - apply andb_prop in S. destruct S as [S1 S2]. destruct (step hp td o) as [td1|] eqn:E1; [|discriminate].
    eapply IH; [eapply Good_step; eassumption | exact S2 | exact E].
Qed.

Lemma Good_init n pks : Good (init n pks).
Proof. split; [apply Inv_init|]. split; [intros nm _; reflexivity | intros k d []]. Qed.

(* ---------- no panic when every index name is lower-case ---------- *)
Definition Low (ds : list (name * idef)) (ks : list name) : Prop :=
  defs_ok ds /\ (forall k d, In (k, d) ds -> snd (iname d) = false) /\
  (forall k, In k ks -> snd k = false /\ def_keyed ds k <> None).

Definition LowInv (td : tdata) : Prop := Low (defs td) (skeys td).

Lemma mem_name_In n l : mem_name n l = true <-> In n l.
Proof.
  unfold mem_name. rewrite existsb_exists. split.
  - intros (x & H & E). apply name_eqb_eq in E. subst. exact H.
  - intros H. exists n. split; [exact H | apply name_eqb_refl].
Qed.

Lemma lower_low k : snd k = false -> lower k = k.
Proof. destruct k as [a b]. cbn. intros ->. reflexivity. Qed.

Lemma Low_fold_add ds ks : Low ds ks -> Low ds (fold_left (fun ks kd => add_key (iname (snd kd)) ks) ds ks).
Proof.
  intros (OK & L1 & L2). split; [exact OK|]. split; [exact L1|]. intros k H.
  apply mem_name_In in H. rewrite mem_fold_add in H. apply orb_prop in H. destruct H as [H|H].
  - apply L2. apply mem_name_In. exact H.
  - apply existsb_exists in H. destruct H as ([k0 d] & Hin & E). cbn in E. apply name_eqb_eq in E. subst k.
    pose proof (L1 _ _ Hin) as Hl. split; [exact Hl|].
    pose proof (proj2 OK _ _ Hin) as Ek. rewrite (lower_low _ Hl) in Ek. subst k0.
    rewrite (def_keyed_in _ _ _ OK Hin). discriminate.
Qed.

Lemma skeys_delete_helper td r : skeys (delete_helper td r) = skeys td.
Proof. unfold delete_helper. destruct (find_row (del_pred td r) (parts td) 0); reflexivity. Qed.

Lemma LowInv_delete_helper td r : LowInv td -> LowInv (delete_helper td r).
Proof. unfold LowInv. rewrite defs_delete_helper, skeys_delete_helper. auto. Qed.

Lemma LowInv_insert_helper td p r : LowInv td -> LowInv (insert_helper td p r).
Proof.
  unfold LowInv, insert_helper.
  destruct (match pkcols td with [] => None | n :: l => find_row (fun x => pk_match (n :: l) x r) (parts td) 0 end);
    cbn; apply Low_fold_add.
Qed.

Lemma LowInv_apply_rows td dels adds : LowInv td -> LowInv (apply_rows td dels adds).
Proof.
  intros K. unfold apply_rows.
  assert (K1 : LowInv (fold_left delete_helper dels td)).
  { revert td K. induction dels as [|r t IH]; intros td K; cbn; [exact K|]. apply IH. apply LowInv_delete_helper. exact K. }
  revert K1. generalize (fold_left delete_helper dels td). induction adds as [|a t IH]; intros td0 K0; cbn; [exact K0|].
  apply IH. apply LowInv_insert_helper. exact K0.
Qed.

Lemma LowInv_swap td l1 l2 : LowInv td -> LowInv (swap_td td l1 l2).
Proof.
  unfold LowInv, swap_td. destruct (row_at (parts td) l1); [|auto]. destruct (row_at (parts td) l2); auto.
Qed.

Lemma LowInv_bubble_pass ls : forall td, LowInv td -> LowInv (bubble_pass td ls).
Proof.
  induction ls as [|l1 t IH]; intros td K; cbn; [exact K|]. destruct t as [|l2 t']; [exact K|].
  apply IH. destruct (row_at (parts td) l1); [|exact K]. destruct (row_at (parts td) l2); [|exact K].
  destruct (row_cmp (pkcols td) r r0); try exact K. apply LowInv_swap. exact K.
Qed.

Lemma LowInv_sort_rows td : LowInv td -> LowInv (sort_rows td).
Proof.
  unfold sort_rows. generalize (length (flat_locs (parts td))). intros n. revert td.
  induction n as [|n IH]; intros td K; cbn; [exact K|]. apply IH. apply LowInv_bubble_pass. exact K.
Qed.

Lemma LowInv_sort_secondary_ok td : LowInv td -> exists td', sort_secondary td = Ok td' /\ LowInv td'.
Proof.
  intros (OK & L1 & L2). unfold sort_secondary.
  assert (E : existsb (stale_key td) (skeys td) = false).
  { destruct (existsb (stale_key td) (skeys td)) eqn:E; [|reflexivity]. apply existsb_exists in E.
    destruct E as (k & Hk & S). destruct (L2 _ Hk) as [Hl Hd]. unfold stale_key in S.
    rewrite (lower_low _ Hl) in S. destruct (def_keyed (defs td) k); [discriminate|congruence]. }
  rewrite E. eexists. split; [reflexivity|]. split; [exact OK|]. split; assumption.
Qed.

Lemma pkcols_apply_rows td dels adds : pkcols (apply_rows td dels adds) = pkcols td.
Proof.
  unfold apply_rows.
  assert (E : pkcols (fold_left delete_helper dels td) = pkcols td).
  { revert td. induction dels as [|r t IH]; intros td; cbn; [reflexivity|]. rewrite IH. apply pkcols_delete_helper. }
  rewrite <- E. generalize (fold_left delete_helper dels td). induction adds as [|a t IH]; intros td0; cbn; [reflexivity|].
  rewrite IH. unfold insert_helper.
  destruct (match pkcols td0 with [] => None | n :: l => find_row (fun x => pk_match (n :: l) x (snd a)) (parts td0) 0 end); reflexivity.
Qed.

Lemma LowInv_apply_edits td dels adds : LowInv td -> exists td', apply_edits td dels adds = Ok td' /\ LowInv td'.
Proof.
  intros K. unfold apply_edits. pose proof (LowInv_apply_rows td dels adds K) as K1.
  destruct (pkcols td); [apply LowInv_sort_secondary_ok; exact K1|].
  apply LowInv_sort_secondary_ok. apply LowInv_sort_rows. exact K1.
Qed.

Lemma find_app_c16 {A} (f : A -> bool) (a b : list A) :
  find f (a ++ b) = match find f a with Some x => Some x | None => find f b end.
Proof. induction a as [|x t IH]; cbn; [reflexivity|]. destruct (f x); [reflexivity | exact IH]. Qed.

Lemma def_keyed_app_some ds x k : def_keyed ds k <> None -> def_keyed (ds ++ [x]) k <> None.
Proof.
  unfold def_keyed. rewrite find_app_c16. destruct (find (fun kd => name_eqb (fst kd) k) ds); [discriminate|congruence].
Qed.

Lemma def_keyed_filter_ne ds k k' : k' <> k ->
  def_keyed (filter (fun kd => negb (name_eqb (fst kd) k)) ds) k' = def_keyed ds k'.
Proof.
  intros NE. unfold def_keyed. induction ds as [|[k0 d0] t IH]; [reflexivity|]. cbn [filter fst].
  destruct (name_eqb k0 k) eqn:E; cbn [negb].
  - apply name_eqb_eq in E. subst k0. cbn [find fst].
    replace (name_eqb k k') with false by (symmetry; apply name_eqb_neq; congruence). exact IH.
  - cbn [find fst]. destruct (name_eqb k0 k'); [reflexivity | exact IH].
Qed.

Theorem LowInv_step hp td o :
  LowInv td -> op_lower o = true -> exists td', step hp td o = Ok td' /\ (step_ok hp td o = true -> LowInv td').
Proof.
  intros K Lo. destruct o as [dels adds| |d|nm|a b| |d]; cbn [step].
  - destruct (LowInv_apply_edits td dels (map (fun r => (hp r, r)) adds) K) as (td' & E & K'). eauto.
  - eexists. split; [reflexivity|]. intros _. destruct K as (OK & L1 & _). split; [exact OK|]. split; [exact L1|]. intros k [].
  - unfold create_index. destruct (def_keyed (defs td) (lower (iname d))) eqn:F; [eauto|].
    assert (K0 : LowInv (truncate (add_def td d))).
    { destruct K as (OK & L1 & _). cbn in Lo. apply negb_true_iff in Lo. split; [cbn; apply defs_ok_add; assumption|]. split.
      - intros k d' H. cbn in H. apply in_app_or in H. destruct H as [H|[H|[]]]; [eapply L1; exact H|]. injection H as _ <-. exact Lo.
      - intros k []. }
    destruct (LowInv_apply_edits _ [] (map (fun r => (hp r, r)) (all_rows td)) K0) as (td' & E & K'). eauto.
  - eexists. split; [reflexivity|]. intros _. unfold drop_index.
    destruct (def_keyed (defs td) (lower nm)); [|exact K]. destruct K as (OK & L1 & L2). split; [cbn; apply defs_ok_filter; exact OK|]. split.
    + intros k d H. cbn in H. apply filter_In in H. destruct H as [H _]. eapply L1. exact H.
    + intros k H. cbn in H. apply filter_In in H. destruct H as [H NE]. apply negb_true_iff in NE. apply name_eqb_neq in NE.
      destruct (L2 _ H) as [Hl Hd]. split; [exact Hl|]. cbn. rewrite def_keyed_filter_ne by exact NE. exact Hd.
  - eexists. split; [reflexivity|]. intros S. discriminate.
  - eauto.
  - destruct (def_keyed (defs td) (lower (iname d))); eexists; (split; [reflexivity|]); intros S; discriminate.
Qed.

(* a history whose index names are all lower-case (and which obeys the editor's guard) never panics *)
Theorem no_panic hp h : forall td,
  LowInv td -> hist_ok hp td h = true -> forallb op_lower h = true -> run hp td h <> Panic.
Proof.
  induction h as [|o t IH]; intros td K S L; cbn in *; [discriminate|].
  apply andb_prop in S. destruct S as [S1 S2]. apply andb_prop in L. destruct L as [L1 L2].
  destruct (LowInv_step hp td o K L1) as (td' & E & K'). rewrite E in *. apply IH; auto.
Qed.

Lemma LowInv_init n pks : LowInv (init n pks).
Proof. split; [split; [constructor | intros k d []]|]. split; [intros k d [] | intros k []]. Qed.
