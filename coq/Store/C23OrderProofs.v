(* C23 - proofs about the model of plan.OrderTriggers (Store/C23Order.v): it agrees with the MySQL placement rule when the
   triggers of the event carry no clause or exactly one clause; with two clauses it does not (witness). *)
From Coq Require Import List ZArith Bool Arith Lia.
Import ListNotations.
From GMS Require Import Store.C23Trigger Store.C23TriggerProofs Store.C23Order.
Open Scope nat_scope.

Lemma go_loop_no_clause cT : forall rest f i o, Forall no_clause rest -> go_loop cT f i rest o = Some o.
Proof.
  induction rest as [|x r IH]; intros f i o H; destruct f; cbn; auto.
  inversion H as [|? ? Hx Hr]; subst. unfold step. rewrite Hx. apply IH. exact Hr.
Qed.

Lemma go_loop_skip cT : forall l1 rest f i o, Forall no_clause l1 ->
  go_loop cT (length l1 + f) i (l1 ++ rest) o = go_loop cT f (length l1 + i) rest o.
Proof.
  induction l1 as [|x l1 IH]; intros rest f i o H; cbn [length app plus]; auto.
  inversion H as [|? ? Hx Hr]; subst. cbn [go_loop]. unfold step. rewrite Hx.
  rewrite IH by exact Hr. f_equal. lia.
Qed.

Lemma remove_nth_app {A} (l1 : list A) x l2 : remove_nth (length l1) (l1 ++ x :: l2) = l1 ++ l2.
Proof. induction l1 as [|a l1 IH]; cbn; auto. now rewrite IH. Qed.

Lemma find_ref_app g : forall (a : list item) y cy z,
  (forall b, In b a -> t_tag (fst b) <> g) -> t_tag y = g -> find_ref g (a ++ (y, cy) :: z) = Some (length a).
Proof.
  induction a as [|[t c] a IH]; intros y cy z H Hy; cbn.
  - apply Z.eqb_eq in Hy. now rewrite Hy.
  - assert (Z.eqb (t_tag t) g = false) as -> by (apply Z.eqb_neq; apply (H (t, c)); now left).
    rewrite IH; auto. intros b Hb. apply H. now right.
Qed.

Lemma Forall_firstn_nc n : forall l : list item, Forall no_clause l -> Forall no_clause (firstn n l).
Proof. induction n; intros [|a l] H; cbn; auto. inversion H; subst. constructor; auto. Qed.
Lemma Forall_skipn_nc n : forall l : list item, Forall no_clause l -> Forall no_clause (skipn n l).
Proof. induction n; intros [|a l] H; cbn; auto. inversion H; subst. auto. Qed.

Lemma overwrite_no_clause r src : Forall no_clause r -> Forall no_clause src -> Forall no_clause (overwrite r src).
Proof.
  intros Hr Hs. unfold overwrite. apply Forall_firstn_nc. apply Forall_app. split; auto. now apply Forall_skipn_nc.
Qed.

Lemma befores_map_fst (l : list item) : befores (map fst l) = map fst (filter (fun x => is_before (fst x)) l).
Proof. unfold befores. induction l as [|[t c] l IH]; cbn; auto. destruct (is_before t); cbn; now rewrite IH. Qed.
Lemma afters_map_fst (l : list item) : afters (map fst l) = map fst (filter (fun x => negb (is_before (fst x))) l).
Proof. unfold afters. induction l as [|[t c] l IH]; cbn; auto. destruct (is_before t); cbn; now rewrite IH. Qed.

Lemma order_triggers_app u : forall v acc, order_triggers (u ++ v) acc = order_triggers v (order_triggers u acc).
Proof. induction u as [|[x c] u IH]; intros v acc; cbn; auto. destruct c; apply IH. Qed.

Lemma order_triggers_no_clause l : forall acc, Forall no_clause l -> order_triggers l acc = acc ++ map fst l.
Proof.
  induction l as [|[x c] l IH]; intros acc H; cbn; [now rewrite app_nil_r|].
  inversion H as [|? ? Hx Hl]; subst. cbn in Hx. unfold no_clause in Hx. cbn in Hx. subst c.
  rewrite IH by exact Hl. now rewrite <- app_assoc.
Qed.

Lemma Forall_filter_nc (P : item -> bool) l : Forall no_clause l -> Forall no_clause (filter P l).
Proof. induction l as [|a l IH]; intros H; cbn; auto. inversion H; subst. destruct (P a); auto. Qed.

(* ---- no placement clause: creation order, as MySQL prescribes ---- *)
Theorem go_order_no_clause l : Forall no_clause l -> go_order l = Some (mysql_order l).
Proof.
  intros H. unfold go_order, go_ordered. rewrite go_loop_no_clause by exact H.
  unfold mysql_order. rewrite !order_triggers_no_clause by (apply Forall_filter_nc; exact H).
  cbn [app]. now rewrite befores_map_fst, afters_map_fst.
Qed.

(* ---- exactly one placement clause among the triggers of the event, naming an earlier trigger of the same time ---- *)
Definition placed (c : clause) (a : list item) (y x : item) (z : list item) : list item :=
  match c with Precedes _ => a ++ x :: y :: z | _ => a ++ y :: x :: z end.
Definition clause_ref (c : clause) : option Z :=
  match c with NoClause => None | Follows g | Precedes g => Some g end.

Lemma go_ordered_one_clause a y cy b x c l2 g :
  Forall no_clause (a ++ (y, cy) :: b) -> Forall no_clause l2 -> clause_ref c = Some g ->
  (forall e, In e a -> t_tag (fst e) <> g) -> t_tag y = g ->
  go_ordered ((a ++ (y, cy) :: b) ++ (x, c) :: l2) = Some (placed c a (y, cy) (x, c) (b ++ l2)).
Proof.
  intros H1 H2 Hc Ha Hy. unfold go_ordered.
  set (l1 := a ++ (y, cy) :: b) in *. set (cT := gocap _).
  rewrite app_length. cbn [length]. rewrite (go_loop_skip cT l1 ((x, c) :: l2)) by exact H1.
  cbn [go_loop]. unfold step. cbn [snd]. rewrite Nat.add_0_r.
  rewrite !remove_nth_app.
  replace (l1 ++ l2) with (a ++ (y, cy) :: b ++ l2) by (unfold l1; now rewrite <- app_assoc).
  assert (Hnc : Forall no_clause (a ++ (y, cy) :: b ++ l2)).
  { unfold l1 in H1. apply Forall_app in H1. destruct H1 as [Hfa Hfb]. apply Forall_app. split; auto.
    inversion Hfb; subst. constructor; auto. apply Forall_app. split; auto. }
  destruct c as [|g'|g']; cbn in Hc; [discriminate| |]; injection Hc as ->;
    rewrite (find_ref_app g a y cy (b ++ l2) Ha Hy); cbn [placed].
  - (* FOLLOWS *)
    replace (a ++ (y, cy) :: b ++ l2) with ((a ++ [(y, cy)]) ++ b ++ l2) in * by (now rewrite <- app_assoc).
    assert (Hlen : S (length a) = length (a ++ [(y, cy)])) by (rewrite app_length; cbn; lia).
    rewrite Hlen, firstn_app, skipn_app, Nat.sub_diag, firstn_all, skipn_all. cbn [firstn skipn app].
    rewrite app_nil_r.
    assert (Hbl : Forall no_clause (b ++ l2)) by (apply Forall_app in Hnc; tauto).
    match goal with |- context [if ?c then _ else _] => destruct c end;
      (rewrite go_loop_no_clause; [now rewrite <- app_assoc|]); [apply overwrite_no_clause|]; auto.
  - (* PRECEDES *)
    rewrite firstn_app, skipn_app, Nat.sub_diag, firstn_all, skipn_all. cbn [firstn skipn app].
    rewrite app_nil_r.
    assert (Hbl : Forall no_clause ((y, cy) :: b ++ l2)) by (apply Forall_app in Hnc; tauto).
    match goal with |- context [if ?c then _ else _] => destruct c end;
      (rewrite go_loop_no_clause; [reflexivity|]); [apply overwrite_no_clause|]; auto.
Qed.

Lemma filter_app_item (P : item -> bool) (u v : list item) : filter P (u ++ v) = filter P u ++ filter P v.
Proof. apply filter_app. Qed.

Lemma mysql_one_class (P : item -> bool) a y cy b x c l2 g :
  Forall no_clause (a ++ (y, cy) :: b) -> Forall no_clause l2 -> clause_ref c = Some g ->
  (forall e, In e a -> t_tag (fst e) <> g) -> t_tag y = g -> P (y, cy) = P (x, c) ->
  order_triggers (filter P ((a ++ (y, cy) :: b) ++ (x, c) :: l2)) [] =
    map fst (filter P (placed c a (y, cy) (x, c) (b ++ l2))).
Proof.
  intros H1 H2 Hc Ha Hy HP.
  assert (Hfa : Forall no_clause a /\ Forall no_clause b).
  { apply Forall_app in H1. destruct H1 as [? Hb]. inversion Hb; subst. tauto. }
  destruct Hfa as [Hfa Hfb].
  rewrite filter_app_item. cbn [filter].
  destruct (P (x, c)) eqn:Px.
  - (* the class of x and y *)
    rewrite order_triggers_app.
    rewrite (order_triggers_no_clause (filter P (a ++ (y, cy) :: b)) []) by (apply Forall_filter_nc; exact H1). cbn [app].
    rewrite filter_app_item. cbn [filter]. rewrite HP.
    rewrite map_app. cbn [map fst].
    assert (Htags : forall t, In t (map fst (filter P a)) -> t_tag t <> g).
    { intros t Ht. apply in_map_iff in Ht. destruct Ht as [e [<- He]]. apply filter_In in He. apply Ha. tauto. }
    destruct c as [|g'|g']; cbn in Hc; [discriminate| |]; injection Hc as ->; cbn [order_triggers placed].
    + rewrite (place_after_spec x g _ y _ Htags Hy).
      rewrite order_triggers_no_clause by (apply Forall_filter_nc; exact H2).
      rewrite filter_app_item. cbn [filter]. rewrite HP, Px. rewrite filter_app_item.
      rewrite !map_app. cbn [map fst]. rewrite !map_app. now rewrite <- !app_assoc.
    + rewrite (place_before_spec x g _ y _ Htags Hy).
      rewrite order_triggers_no_clause by (apply Forall_filter_nc; exact H2).
      rewrite filter_app_item. cbn [filter]. rewrite Px, HP. rewrite filter_app_item.
      rewrite !map_app. cbn [map fst]. rewrite !map_app. now rewrite <- !app_assoc.
  - (* the other class: x and y are not in it *)
    rewrite <- filter_app_item. rewrite order_triggers_no_clause.
    2:{ apply Forall_filter_nc. apply Forall_app. split; auto. }
    cbn [app]. f_equal. rewrite !filter_app_item. cbn [filter]. rewrite HP.
    destruct c as [|g'|g']; cbn in Hc; try discriminate; cbn [placed];
      rewrite !filter_app_item; cbn [filter]; rewrite ?HP, ?Px, !filter_app_item; now rewrite <- ?app_assoc.
Qed.

Theorem go_order_one_clause a y cy b x c l2 g :
  Forall no_clause (a ++ (y, cy) :: b) -> Forall no_clause l2 -> clause_ref c = Some g ->
  (forall e, In e a -> t_tag (fst e) <> g) -> t_tag y = g -> is_before y = is_before x ->
  go_order ((a ++ (y, cy) :: b) ++ (x, c) :: l2) = Some (mysql_order ((a ++ (y, cy) :: b) ++ (x, c) :: l2)).
Proof.
  intros H1 H2 Hc Ha Hy Ht. unfold go_order. rewrite (go_ordered_one_clause a y cy b x c l2 g) by assumption.
  unfold mysql_order. f_equal. f_equal.
  - rewrite befores_map_fst. symmetry. apply (mysql_one_class _ a y cy b x c l2 g); auto.
  - rewrite afters_map_fst. symmetry. apply (mysql_one_class _ a y cy b x c l2 g); auto. cbn. now rewrite Ht.
Qed.

(* ---- two clauses: the second one is lost (the known finding, inside the model) ---- *)
Open Scope Z_scope.
Definition ow (tm : ttime) (tag : Z) (c : clause) : item := (mkTrig tm tag NewId NewV None, c).
Definition order_witness : list item :=
  [ow After 1 NoClause; ow After 2 NoClause; ow After 3 (Precedes 1);
   ow Before 4 NoClause; ow Before 5 NoClause; ow Before 6 (Follows 4)].
Lemma order_witness_go :
  option_map (fun p => (map t_tag (fst p), map t_tag (snd p))) (go_order order_witness) = Some ([4; 5; 6], [3; 1; 2]).
Proof. vm_compute. reflexivity. Qed.
Lemma order_witness_mysql :
  (fun p => (map t_tag (fst p), map t_tag (snd p))) (mysql_order order_witness) = ([4; 6; 5], [3; 1; 2]).
Proof. vm_compute. reflexivity. Qed.

(* every clause names an earlier trigger of its class, yet one trigger fires twice and another never *)
Definition dup_witness : list item :=
  [ow Before 1 NoClause; ow Before 2 (Precedes 1); ow Before 3 (Precedes 1); ow Before 4 NoClause; ow Before 5 (Precedes 4)].
Lemma dup_witness_go : option_map (fun p => map t_tag (fst p)) (go_order dup_witness) = Some [2; 3; 1; 3; 5].
Proof. vm_compute. reflexivity. Qed.
Lemma dup_witness_mysql : map t_tag (fst (mysql_order dup_witness)) = [2; 3; 1; 5; 4].
Proof. vm_compute. reflexivity. Qed.
