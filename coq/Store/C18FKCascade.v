(* C18 - referential integrity through cascades: DELETE that cascades through CASCADE / SET NULL keys, for ANY foreign
   key graph (cycles and self references included), by induction on the cascade fuel.

   Idea.  A cascading delete only ever removes rows and sets key columns to NULL: the database afterwards is "below" the
   database before ([sub_db]).  A row that disappears leaves no reference to its id behind ([B]).  These two facts are
   stable under composition, and together with integrity before they give integrity after. *)
From Coq Require Import List ZArith Bool Lia Arith Permutation.
Import ListNotations.
From GMS Require Import Store.C18FK Store.C18FKProofs.
Open Scope Z_scope.

(* ---------- rows below rows ---------- *)
Definition le_col (a' a : option Z) : Prop := a' = None \/ a' = a.
Definition le_row (r' r : row) : Prop :=
  rid r' = rid r /\ le_col (get_col false r') (get_col false r) /\ le_col (get_col true r') (get_col true r).
Definition sub_db (d' d : db) : Prop :=
  forall t r', In r' (tab d' t) -> exists r, In r (tab d t) /\ le_row r' r.
(* primary keys are unique *)
Definition uniq (d : db) : Prop := forall t, NoDup (map rid (tab d t)).

Lemma le_col_refl a : le_col a a. Proof. now right. Qed.
Lemma le_col_trans a b c : le_col a b -> le_col b c -> le_col a c.
Proof. unfold le_col. intros [-> | ->] H; auto. Qed.
Lemma le_row_refl r : le_row r r.
Proof. repeat split; apply le_col_refl. Qed.
Lemma le_row_trans a b c : le_row a b -> le_row b c -> le_row a c.
Proof.
  intros (A1 & A2 & A3) (B1 & B2 & B3). split; [congruence|]. split; eapply le_col_trans; eauto.
Qed.
Lemma le_row_col r' r c k : le_row r' r -> get_col c r' = Some k -> get_col c r = Some k.
Proof. intros (_ & A & B) H. destruct c; [destruct B as [E|E]|destruct A as [E|E]]; congruence. Qed.

Lemma sub_db_refl d : sub_db d d.
Proof. intros t r H. exists r. split; auto. apply le_row_refl. Qed.
Lemma sub_db_trans a b c : sub_db a b -> sub_db b c -> sub_db a c.
Proof.
  intros H1 H2 t r Hr. destruct (H1 t r Hr) as (r1 & Hr1 & L1). destruct (H2 t r1 Hr1) as (r2 & Hr2 & L2).
  exists r2. split; auto. eapply le_row_trans; eauto.
Qed.

Section Cascade.
Variable fks : list fk.

(* nothing references key k of table t *)
Definition norefs (d : db) (t : nat) (k : Z) : Prop :=
  forall f c, In f fks -> parent f = t -> In c (tab d (child f)) -> get_col (ccol f) c <> Some k.

(* every row of d is still there in d' (by id), or nothing references it any more *)
Definition B (d d' : db) : Prop :=
  forall t p, In p (tab d t) -> (exists p', In p' (tab d' t) /\ rid p' = rid p) \/ norefs d' t (rid p).

Definition P (d d' : db) : Prop := sub_db d' d /\ uniq d' /\ B d d'.

Lemma norefs_sub d d' t k : sub_db d' d -> norefs d t k -> norefs d' t k.
Proof.
  intros Hs Hn f c Hf Hp Hc E. destruct (Hs _ _ Hc) as (c0 & Hc0 & L).
  apply (Hn f c0 Hf Hp Hc0). eapply le_row_col; eauto.
Qed.

Lemma P_refl d : uniq d -> P d d.
Proof.
  intros U. split; [apply sub_db_refl|]. split; auto. intros t p Hp. left. exists p. auto.
Qed.

Lemma P_trans a b c : P a b -> P b c -> P a c.
Proof.
  intros (S1 & U1 & B1) (S2 & U2 & B2). split; [eapply sub_db_trans; eauto|]. split; auto.
  intros t p Hp. destruct (B1 t p Hp) as [(p1 & Hp1 & E1)|Hn].
  - destruct (B2 t p1 Hp1) as [(p2 & Hp2 & E2)|Hn2].
    + left. exists p2. split; auto. congruence.
    + right. now rewrite <- E1.
  - right. eapply norefs_sub; eauto.
Qed.

(* integrity is inherited along P *)
Lemma RI_P d d' : RI fks d -> P d d' -> RI fks d'.
Proof.
  intros HRI (Hs & _ & HB) f c k Hf Hc Hk.
  destruct (Hs _ _ Hc) as (c0 & Hc0 & L).
  pose proof (le_row_col _ _ _ _ L Hk) as Hk0.
  destruct (HRI f c0 k Hf Hc0 Hk0) as (p & Hp & Hpk).
  destruct (HB _ p Hp) as [(p' & Hp' & E)|Hn].
  - exists p'. split; auto. congruence.
  - exfalso. apply (Hn f c Hf eq_refl Hc). now rewrite Hpk.
Qed.

(* ---------- list facts ---------- *)
Lemma NoDup_map_filter {A Bt} (g : A -> Bt) (p : A -> bool) l : NoDup (map g l) -> NoDup (map g (filter p l)).
Proof.
  induction l as [|a l IH]; cbn; intros H; auto. inversion H as [|? ? Hn Hd]; subst.
  destruct (p a); cbn; auto. constructor; auto.
  intros Hin. apply Hn. apply in_map_iff in Hin. destruct Hin as (x & E & Hx). apply filter_In in Hx.
  apply in_map_iff. exists x. tauto.
Qed.

Lemma insert_sorted_perm r l : Permutation (insert_sorted r l) (r :: l).
Proof.
  induction l as [|a l IH]; cbn; auto. destruct (rid r <? rid a); auto.
  eapply perm_trans; [apply perm_skip; exact IH|apply perm_swap].
Qed.

Lemma NoDup_insert_sorted r l :
  NoDup (map rid l) -> ~ In (rid r) (map rid l) -> NoDup (map rid (insert_sorted r l)).
Proof.
  intros H Hn. eapply Permutation_NoDup; [apply Permutation_sym, Permutation_map, insert_sorted_perm|].
  cbn. constructor; auto.
Qed.

Lemma not_in_remove_id k l : ~ In k (map rid (remove_id k l)).
Proof.
  intros H. apply in_map_iff in H. destruct H as (x & E & Hx). apply in_remove_id in Hx. tauto.
Qed.

Lemma uniq_same_id l x y : NoDup (map rid l) -> In x l -> In y l -> rid x = rid y -> x = y.
Proof.
  induction l as [|a l IH]; cbn; intros H Hx Hy E; [contradiction|].
  inversion H as [|? ? Hn Hd]; subst.
  destruct Hx as [->|Hx], Hy as [->|Hy]; auto.
  - exfalso. apply Hn. rewrite E. now apply in_map.
  - exfalso. apply Hn. rewrite <- E. now apply in_map.
Qed.

(* ---------- removing a row ---------- *)
Definition removed (d : db) (t : nat) (k : Z) : db := set_tab d t (remove_id k (tab d t)).

Lemma removed_sub d t k : sub_db (removed d t k) d.
Proof.
  intros t' r Hr. unfold removed in Hr. rewrite tab_after_edit in Hr.
  destruct (Nat.eqb t' t && Nat.ltb t (length d)) eqn:E.
  - apply andb_true_iff in E. destruct E as [E _]. apply Nat.eqb_eq in E. subst t'.
    apply in_remove_id in Hr. exists r. split; [tauto|apply le_row_refl].
  - exists r. split; auto. apply le_row_refl.
Qed.

Lemma removed_uniq d t k : uniq d -> uniq (removed d t k).
Proof.
  intros U t'. unfold removed. rewrite tab_after_edit.
  destruct (Nat.eqb t' t && Nat.ltb t (length d)) eqn:E; auto.
  apply andb_true_iff in E. destruct E as [E _]. apply Nat.eqb_eq in E. subst t'.
  unfold remove_id. apply NoDup_map_filter. apply U.
Qed.

Lemma removed_gone d t k c : In c (tab (removed d t k) t) -> rid c <> k.
Proof.
  unfold removed. rewrite tab_after_edit. rewrite Nat.eqb_refl. cbn [andb].
  destruct (Nat.ltb t (length d)) eqn:E.
  - intros H. apply in_remove_id in H. tauto.
  - intros H. apply Nat.ltb_ge in E. rewrite tab_out_of_range in H by auto. contradiction.
Qed.

Lemma removed_keeps d t k t' p : In p (tab d t') -> (t' <> t \/ rid p <> k) -> In p (tab (removed d t k) t').
Proof.
  intros Hp Hne. unfold removed. rewrite tab_after_edit.
  destruct (Nat.eqb t' t && Nat.ltb t (length d)) eqn:E; auto.
  apply andb_true_iff in E. destruct E as [E _]. apply Nat.eqb_eq in E. subst t'.
  apply in_remove_id. split; auto. destruct Hne; congruence.
Qed.

(* ---------- replacing a row by a row below it (same id): the SET NULL step ---------- *)
Definition replaced (d : db) (t : nat) (old new : row) : db :=
  set_tab d t (insert_sorted new (remove_id (rid old) (tab d t))).

Lemma replaced_P d t old new :
  uniq d -> In old (tab d t) -> le_row new old -> P d (replaced d t old new).
Proof.
  intros U Hold L. pose proof L as (Eid & _).
  assert (Hlt : Nat.ltb t (length d) = true).
  { apply Nat.ltb_lt. destruct (Nat.ltb_spec t (length d)); auto.
    rewrite tab_out_of_range in Hold by auto. contradiction. }
  split; [|split].
  - intros t' r Hr. unfold replaced in Hr. rewrite tab_after_edit in Hr.
    destruct (Nat.eqb t' t && Nat.ltb t (length d)) eqn:E.
    + apply andb_true_iff in E. destruct E as [E _]. apply Nat.eqb_eq in E. subst t'.
      apply in_insert_sorted in Hr. destruct Hr as [->|Hr].
      * exists old. split; auto.
      * apply in_remove_id in Hr. exists r. split; [tauto|apply le_row_refl].
    + exists r. split; auto. apply le_row_refl.
  - intros t'. unfold replaced. rewrite tab_after_edit.
    destruct (Nat.eqb t' t && Nat.ltb t (length d)) eqn:E; auto.
    apply andb_true_iff in E. destruct E as [E _]. apply Nat.eqb_eq in E. subst t'.
    apply NoDup_insert_sorted.
    + unfold remove_id. apply NoDup_map_filter. apply U.
    + rewrite Eid. apply not_in_remove_id.
  - intros t' p Hp. left. unfold replaced. rewrite tab_after_edit.
    destruct (Nat.eqb t' t && Nat.ltb t (length d)) eqn:E; [|eauto].
    apply andb_true_iff in E. destruct E as [E _]. apply Nat.eqb_eq in E. subst t'.
    destruct (Z.eq_dec (rid p) (rid old)) as [Hq|Hq].
    + exists new. split; [apply in_insert_sorted; now left|congruence].
    + exists p. split; auto. apply in_insert_sorted. right. apply in_remove_id. auto.
Qed.

Lemma replaced_rows d t old new x :
  In x (tab (replaced d t old new) t) -> x = new \/ (In x (tab d t) /\ rid x <> rid old).
Proof.
  unfold replaced. rewrite tab_after_edit, Nat.eqb_refl. cbn [andb].
  destruct (Nat.ltb t (length d)) eqn:E.
  - intros H. apply in_insert_sorted in H. destruct H as [->|H]; auto. apply in_remove_id in H. auto.
  - intros H. right. apply Nat.ltb_ge in E. rewrite tab_out_of_range in H by auto. contradiction.
Qed.

Lemma replaced_other d t old new t' : t' <> t -> tab (replaced d t old new) t' = tab d t'.
Proof. intros H. unfold replaced. now apply tab_set_tab_other. Qed.

(* an update that keeps the id runs no referential action: its result, when it succeeds, is [replaced] *)
Lemma upd_same_id n d t old new d' :
  rid new = rid old -> upd (S n) fks d t old new = Ok d' -> d' = replaced d t old new.
Proof.
  intros E H. rewrite upd_unfold in H. rewrite E, Z.eqb_refl in H. cbn [negb andb] in H.
  destruct (existsb _ fks); [discriminate|].
  rewrite existsb_all_false in H by (intros f; rewrite andb_false_r; reflexivity).
  rewrite fold_res_all_ok in H by (intros dc f Hf; rewrite andb_false_r; reflexivity).
  now injection H as <-.
Qed.

Lemma replaced_keeps d t old new x :
  In x (tab d t) -> rid x <> rid old -> In x (tab (replaced d t old new) t).
Proof.
  intros Hx Hn. unfold replaced. rewrite tab_after_edit, Nat.eqb_refl. cbn [andb].
  destruct (Nat.ltb t (length d)) eqn:E; auto.
  apply in_insert_sorted. right. apply in_remove_id. auto.
Qed.

Lemma rid_set_col c v r : rid (set_col c v r) = rid r.
Proof. unfold set_col, rid. destruct c; reflexivity. Qed.
Lemma get_set_col c v r : get_col c (set_col c v r) = v.
Proof. unfold set_col, get_col. destruct c; reflexivity. Qed.
Lemma le_row_set_null c r : le_row (set_col c None r) r.
Proof.
  split; [apply rid_set_col|]. unfold set_col, get_col, le_col. destruct r as [[k a] b]. destruct c; cbn; auto.
Qed.

Lemma in_children d f k c : In c (children d f k) <-> In c (tab d (child f)) /\ get_col (ccol f) c = Some k.
Proof.
  unfold children. rewrite filter_In. split; intros [H1 H2]; split; auto.
  - destruct (get_col (ccol f) c); cbn in H2; try discriminate. apply Z.eqb_eq in H2. congruence.
  - rewrite H2. cbn. apply Z.eqb_refl.
Qed.

Lemma fold_res_cons {A} (g : db -> A -> res) a l d d' :
  fold_res g (a :: l) d = Ok d' -> exists d1, g d a = Ok d1 /\ fold_res g l d1 = Ok d'.
Proof. cbn. destruct (g d a) as [d1|e]; cbn; [eauto|discriminate]. Qed.

(* ---------- the two inner loops ---------- *)
Definition gone (d : db) (t : nat) (k : Z) : Prop := forall x, In x (tab d t) -> rid x <> k.

Lemma gone_sub d d' t k : sub_db d' d -> gone d t k -> gone d' t k.
Proof. intros Hs Hg x Hx. destruct (Hs _ _ Hx) as (x0 & Hx0 & (E & _)). rewrite E. now apply Hg. Qed.

(* what one level of fuel delivers for a delete *)
Definition del_ok (n : nat) : Prop :=
  forall d t r d', uniq d -> del n fks d t r = Ok d' -> P d d' /\ gone d' t (rid r).

Lemma cascade_loop n tc : del_ok n -> forall L d d',
  uniq d -> fold_res (fun dc c => del n fks dc tc c) L d = Ok d' ->
  P d d' /\ forall c, In c L -> gone d' tc (rid c).
Proof.
  intros IHn. induction L as [|c L IH]; intros d d' U H.
  - cbn in H. injection H as <-. split; [now apply P_refl|]. intros c [].
  - apply fold_res_cons in H. destruct H as (d1 & H1 & H2).
    destruct (IHn _ _ _ _ U H1) as [P1 G1]. pose proof P1 as (_ & U1 & _).
    destruct (IH _ _ U1 H2) as [P2 G2]. split; [eapply P_trans; eauto|].
    intros c0 [<-|Hc0]; [|now apply G2]. destruct P2 as (S2 & _). eapply gone_sub; eauto.
Qed.

Lemma setnull_loop n tc col : forall L d d',
  uniq d -> (forall c, In c L -> In c (tab d tc)) -> NoDup (map rid L) ->
  fold_res (fun dc c => upd n fks dc tc c (set_col col None c)) L d = Ok d' ->
  P d d' /\ forall c, In c L -> forall x, In x (tab d' tc) -> rid x = rid c -> get_col col x = None.
Proof.
  induction L as [|c L IH]; intros d d' U Hin Hnd H.
  - cbn in H. injection H as <-. split; [now apply P_refl|]. intros c [].
  - apply fold_res_cons in H. destruct H as (d1 & H1 & H2).
    destruct n as [|m]; [discriminate|].
    apply upd_same_id in H1; [|apply rid_set_col]. subst d1.
    assert (Hc : In c (tab d tc)) by (apply Hin; now left).
    pose proof (replaced_P d tc c (set_col col None c) U Hc (le_row_set_null col c)) as P1.
    pose proof P1 as (_ & U1 & _).
    inversion Hnd as [|? ? Hnotin Hnd']; subst.
    assert (Hin' : forall c', In c' L -> In c' (tab (replaced d tc c (set_col col None c)) tc)).
    { intros c' Hc'. apply replaced_keeps; [apply Hin; now right|].
      intros E. apply Hnotin. rewrite <- E. now apply in_map. }
    destruct (IH _ _ U1 Hin' Hnd' H2) as [P2 N2]. split; [eapply P_trans; eauto|].
    intros c0 [<-|Hc0]; [|now apply N2].
    intros x Hx Ex. destruct P2 as (S2 & _). destruct (S2 _ _ Hx) as (x1 & Hx1 & L1).
    assert (x1 = set_col col None c) as ->.
    { destruct (replaced_rows _ _ _ _ _ Hx1) as [E|[_ Hne]]; auto. destruct L1 as (E1 & _). congruence. }
    destruct L1 as (_ & A & Bc). pose proof (get_set_col col None c) as G.
    destruct col; [destruct Bc as [E|E]|destruct A as [E|E]]; congruence.
Qed.

(* ---------- the main induction on the cascade fuel ---------- *)
Theorem del_ok_all : forall n, del_ok n.
Proof.
  induction n as [|n IHn]; intros d t r d' U H; [discriminate|].
  rewrite del_unfold in H. set (k := rid r) in *.
  destruct (existsb _ fks) eqn:Hres; [discriminate|].
  fold (removed d t k) in H. set (d1 := removed d t k) in *.
  assert (U1 : uniq d1) by (now apply removed_uniq).
  (* the loop over the keys that reference table t *)
  assert (Hloop : forall rest done dc,
            fks = done ++ rest -> uniq dc -> sub_db dc d1 ->
            (forall f, In f done -> parent f = t -> forall c, In c (tab dc (child f)) -> get_col (ccol f) c <> Some k) ->
            fold_res (fun dc f =>
                        if Nat.eqb (parent f) t then
                          match ondel f with
                          | Cascade => fold_res (fun dc' c => del n fks dc' (child f) c) (children dc f k) dc
                          | SetNull => fold_res (fun dc' c => upd n fks dc' (child f) c (set_col (ccol f) None c))
                                                (children dc f k) dc
                          | _ => Ok dc
                          end
                        else Ok dc) rest dc = Ok d' ->
            P dc d' /\ norefs d' t k).
  { induction rest as [|f rest IHr]; intros done dc Hf Udc Sdc Hdone Hfold.
    - cbn in Hfold. injection Hfold as <-. split; [now apply P_refl|].
      intros f c Hfin Hp Hc. rewrite app_nil_r in Hf. subst done. now apply (Hdone f Hfin Hp c).
    - apply fold_res_cons in Hfold. destruct Hfold as (dc1 & Hstep & Hfold).
      assert (Hfin : In f fks) by (rewrite Hf; apply in_or_app; right; now left).
      (* one key: a P step that leaves no reference to k through f *)
      assert (Hs : P dc dc1 /\ (parent f = t -> forall c, In c (tab dc1 (child f)) -> get_col (ccol f) c <> Some k)).
      { destruct (Nat.eqb_spec (parent f) t) as [Ep|Ep].
        - destruct (ondel f) eqn:Ea.
          + (* RESTRICT *) injection Hstep as <-. split; [now apply P_refl|]. intros _ c Hc Hk.
            destruct (Sdc _ _ Hc) as (c1 & Hc1 & L1). destruct (removed_sub d t k _ _ Hc1) as (c0 & Hc0 & L0).
            pose proof (le_row_col _ _ _ _ (le_row_trans _ _ _ L1 L0) Hk) as Hk0.
            assert (existsb (fun f0 => Nat.eqb (parent f0) t && restrictish (ondel f0)
                      && negb (match children d f0 k with [] => true | _ => false end)) fks = true); [|congruence].
            apply existsb_exists. exists f. split; auto. rewrite Ea.
            replace (Nat.eqb (parent f) t) with true by (symmetry; now apply Nat.eqb_eq). cbn.
            assert (Hin : In c0 (children d f k)) by (apply in_children; auto).
            destruct (children d f k); [contradiction|reflexivity].
          + (* NO ACTION *) injection Hstep as <-. split; [now apply P_refl|]. intros _ c Hc Hk.
            destruct (Sdc _ _ Hc) as (c1 & Hc1 & L1). destruct (removed_sub d t k _ _ Hc1) as (c0 & Hc0 & L0).
            pose proof (le_row_col _ _ _ _ (le_row_trans _ _ _ L1 L0) Hk) as Hk0.
            assert (existsb (fun f0 => Nat.eqb (parent f0) t && restrictish (ondel f0)
                      && negb (match children d f0 k with [] => true | _ => false end)) fks = true); [|congruence].
            apply existsb_exists. exists f. split; auto. rewrite Ea.
            replace (Nat.eqb (parent f) t) with true by (symmetry; now apply Nat.eqb_eq). cbn.
            assert (Hin : In c0 (children d f k)) by (apply in_children; auto).
            destruct (children d f k); [contradiction|reflexivity].
          + (* CASCADE *)
            destruct (cascade_loop n (child f) IHn _ _ _ Udc Hstep) as [P1 G1]. split; auto.
            intros _ c Hc Hk. destruct P1 as (S1 & _). destruct (S1 _ _ Hc) as (c0 & Hc0 & L0).
            pose proof (le_row_col _ _ _ _ L0 Hk) as Hk0.
            assert (Hin : In c0 (children dc f k)) by (apply in_children; auto).
            apply (G1 c0 Hin c Hc). now destruct L0.
          + (* SET NULL *)
            assert (Hpre : forall c, In c (children dc f k) -> In c (tab dc (child f))) by (intros c Hc; now apply in_children in Hc).
            assert (Hnd : NoDup (map rid (children dc f k))) by (unfold children; apply NoDup_map_filter; apply Udc).
            destruct (setnull_loop n (child f) (ccol f) _ _ _ Udc Hpre Hnd Hstep) as [P1 N1]. split; auto.
            intros _ c Hc Hk. destruct P1 as (S1 & _). destruct (S1 _ _ Hc) as (c0 & Hc0 & L0).
            pose proof (le_row_col _ _ _ _ L0 Hk) as Hk0.
            assert (Hin : In c0 (children dc f k)) by (apply in_children; auto).
            rewrite (N1 c0 Hin c Hc) in Hk; [discriminate|now destruct L0].
        - injection Hstep as <-. split; [now apply P_refl|]. intros E. contradiction. }
      destruct Hs as [P1 Nf]. pose proof P1 as (S1 & Udc1 & _).
      assert (Hdone' : forall f0, In f0 (done ++ [f]) -> parent f0 = t ->
                         forall c, In c (tab dc1 (child f0)) -> get_col (ccol f0) c <> Some k).
      { intros f0 Hf0 Hp c Hc. apply in_app_or in Hf0. destruct Hf0 as [Hf0|[<-|[]]]; [|now apply Nf].
        intros Hk. destruct (S1 _ _ Hc) as (c0 & Hc0 & L0). apply (Hdone f0 Hf0 Hp c0 Hc0). eapply le_row_col; eauto. }
      assert (Hf' : fks = (done ++ [f]) ++ rest) by (rewrite <- app_assoc; exact Hf).
      destruct (IHr (done ++ [f]) dc1 Hf' Udc1 (sub_db_trans _ _ _ S1 Sdc) Hdone' Hfold) as [P2 N2].
      split; auto. eapply P_trans; eauto. }
  destruct (Hloop fks [] d1 eq_refl U1 (sub_db_refl d1) (fun f Hf => match Hf with end) H) as [(S1 & Ud' & B1) N1].
  split; [split; [|split]|].
  - eapply sub_db_trans; [exact S1|apply removed_sub].
  - exact Ud'.
  - intros t0 p Hp. destruct (Nat.eq_dec t0 t) as [->|Ht].
    + destruct (Z.eq_dec (rid p) k) as [->|Hk]; [now right|].
      apply B1. apply removed_keeps; auto.
    + apply B1. apply removed_keeps; auto.
  - eapply gone_sub; [exact S1|]. intros x Hx. eapply removed_gone; eauto.
Qed.

(* DELETE keeps referential integrity, for every key graph and every assignment of actions *)
Theorem delete_preserves_ri d t k d' :
  uniq d -> RI fks d -> exec_res fks d (SDelete t k) = Ok d' -> RI fks d' /\ uniq d'.
Proof.
  intros U HRI H. cbn [exec_res] in H.
  destruct (find_id k (tab d t)) as [r|]; [|injection H as <-; auto].
  destruct (del_ok_all fuel0 _ _ _ _ U H) as [Pd _]. split; [eapply RI_P; eauto|]. now destruct Pd as (_ & U' & _).
Qed.

End Cascade.

(* =============================================================================================================== *)
(* UPDATE of a parent id k -> k' (k <> k') that cascades through ON UPDATE CASCADE / SET NULL keys.                  *)
Section CascadeUpd.
Variable fks : list fk.
Variable t : nat.
Variable k k' : Z.
Hypothesis Hkk : k <> k'.

(* columns may become NULL or the new key *)
Definition le_colU (a' a : option Z) : Prop := a' = None \/ a' = a \/ a' = Some k'.
Definition le_rowU (r' r : row) : Prop :=
  rid r' = rid r /\ le_colU (get_col false r') (get_col false r) /\ le_colU (get_col true r') (get_col true r).
Definition subU (d' d : db) : Prop := forall t0 r', In r' (tab d' t0) -> exists r, In r (tab d t0) /\ le_rowU r' r.
Definition same_ids (d' d : db) : Prop := forall t0 x, has_id x (tab d' t0) = has_id x (tab d t0).
(* integrity, except that references to the OLD key of table t may be pending *)
Definition RIk (d : db) : Prop :=
  forall f c k0, In f fks -> In c (tab d (child f)) -> get_col (ccol f) c = Some k0 ->
                 has_id k0 (tab d (parent f)) = true \/ (parent f = t /\ k0 = k).

Lemma le_colU_refl a : le_colU a a. Proof. right. now left. Qed.
Lemma le_colU_trans a b c : le_colU a b -> le_colU b c -> le_colU a c.
Proof. unfold le_colU. intros [-> | [-> | ->]] H; auto. Qed.
Lemma le_rowU_refl r : le_rowU r r.
Proof. repeat split; apply le_colU_refl. Qed.
Lemma le_rowU_trans a b c : le_rowU a b -> le_rowU b c -> le_rowU a c.
Proof. intros (A1 & A2 & A3) (B1 & B2 & B3). split; [congruence|]. split; eapply le_colU_trans; eauto. Qed.
Lemma subU_refl d : subU d d.
Proof. intros t0 r H. exists r. split; auto. apply le_rowU_refl. Qed.
Lemma subU_trans a b c : subU a b -> subU b c -> subU a c.
Proof.
  intros H1 H2 t0 r Hr. destruct (H1 _ _ Hr) as (r1 & Hr1 & L1). destruct (H2 _ _ Hr1) as (r2 & Hr2 & L2).
  exists r2. split; auto. eapply le_rowU_trans; eauto.
Qed.
(* a reference to the old key can only come from a reference to the old key *)
Lemma le_rowU_old r' r c : le_rowU r' r -> get_col c r' = Some k -> get_col c r = Some k.
Proof.
  intros (_ & A & Bc) H. destruct c; [destruct Bc as [E|[E|E]]|destruct A as [E|[E|E]]]; try congruence.
Qed.
Lemma same_ids_refl d : same_ids d d. Proof. intros t0 x. reflexivity. Qed.
Lemma same_ids_trans a b c : same_ids a b -> same_ids b c -> same_ids a c.
Proof. intros H1 H2 t0 x. now rewrite H1. Qed.

Definition norefU (d : db) (f : fk) : Prop := forall c, In c (tab d (child f)) -> get_col (ccol f) c <> Some k.
Lemma norefU_sub d d' f : subU d' d -> norefU d f -> norefU d' f.
Proof.
  intros Hs Hn c Hc E. destruct (Hs _ _ Hc) as (c0 & Hc0 & L). apply (Hn c0 Hc0). eapply le_rowU_old; eauto.
Qed.

Lemma has_id_replaced d tc old new t0 x :
  In old (tab d tc) -> rid new = rid old -> has_id x (tab (replaced d tc old new) t0) = has_id x (tab d t0).
Proof.
  intros Hold E. destruct (Nat.eq_dec t0 tc) as [->|Hn]; [|now rewrite replaced_other].
  destruct (has_id x (tab d tc)) eqn:H1.
  - apply has_id_spec in H1. destruct H1 as (p & Hp & Ep). apply has_id_spec.
    destruct (Z.eq_dec (rid p) (rid old)) as [Hq|Hq].
    + exists new. split; [|congruence]. unfold replaced. rewrite tab_after_edit, Nat.eqb_refl. cbn [andb].
      destruct (Nat.ltb tc (length d)) eqn:El; [apply in_insert_sorted; now left|].
      apply Nat.ltb_ge in El. rewrite tab_out_of_range in Hold by auto. contradiction.
    + exists p. split; auto. now apply replaced_keeps.
  - destruct (has_id x (tab (replaced d tc old new) tc)) eqn:H2; auto.
    apply has_id_spec in H2. destruct H2 as (p & Hp & Ep).
    assert (has_id x (tab d tc) = true); [|congruence]. apply has_id_spec.
    destruct (replaced_rows _ _ _ _ _ Hp) as [->|[Hp0 _]]; [exists old; split; auto; congruence|eauto].
Qed.

(* an update that keeps the id: the reference checks it passed, and its result *)
Lemma upd_same_id_checks n d tc old new d' :
  rid new = rid old -> upd (S n) fks d tc old new = Ok d' ->
  d' = replaced d tc old new /\
  forall g, In g fks -> child g = tc -> get_col (ccol g) old <> get_col (ccol g) new -> check_ref d g new = true.
Proof.
  intros E H. split; [eapply upd_same_id; eauto|].
  rewrite upd_unfold in H. destruct (existsb _ fks) eqn:Ex; [discriminate|].
  intros g Hg Hc Hne. destruct (check_ref d g new) eqn:Ec; auto. exfalso.
  assert (existsb (fun f => Nat.eqb (child f) tc && negb (opt_eqb (get_col (ccol f) old) (get_col (ccol f) new))
                            && negb (check_ref d f new)) fks = true); [|congruence].
  apply existsb_exists. exists g. split; auto. rewrite Ec.
  replace (Nat.eqb (child g) tc) with true by (symmetry; now apply Nat.eqb_eq). cbn. rewrite andb_true_r.
  apply negb_true_iff. destruct (opt_eqb (get_col (ccol g) old) (get_col (ccol g) new)) eqn:Eo; auto.
  exfalso. apply Hne. destruct (get_col (ccol g) old), (get_col (ccol g) new); cbn in Eo; try discriminate; auto.
  apply Z.eqb_eq in Eo. congruence.
Qed.

Lemma optZ_eq_dec (a b : option Z) : {a = b} + {a <> b}.
Proof. decide equality. apply Z.eq_dec. Qed.

Definition Inv (d0 dc : db) : Prop := uniq dc /\ same_ids dc d0 /\ RIk dc /\ subU dc d0.

(* one child row rewritten (same id, one key column to NULL or to the new key) *)
Lemma child_step n dc tc c col v dc' :
  uniq dc -> RIk dc -> In c (tab dc tc) -> (v = None \/ v = Some k') ->
  upd n fks dc tc c (set_col col v c) = Ok dc' ->
  dc' = replaced dc tc c (set_col col v c) /\ uniq dc' /\ same_ids dc' dc /\ RIk dc' /\ subU dc' dc.
Proof.
  intros U HR Hc Hv H. destruct n as [|m]; [discriminate|].
  set (new := set_col col v c) in *.
  assert (Eid : rid new = rid c) by apply rid_set_col.
  destruct (upd_same_id_checks _ _ _ _ _ _ Eid H) as [-> Hchk].
  assert (LU : le_rowU new c).
  { split; [exact Eid|]. unfold new, set_col, get_col, le_colU. destruct c as [[i a] b].
    destruct col; cbn; destruct Hv as [->| ->]; auto. }
  assert (Hids : same_ids (replaced dc tc c new) dc) by (intros t0 x; now apply has_id_replaced).
  split; [reflexivity|]. split; [|split; [exact Hids|split]].
  - (* uniq: as for the NULL step *)
    intros t'. unfold replaced. rewrite tab_after_edit.
    destruct (Nat.eqb t' tc && Nat.ltb tc (length dc)) eqn:E; [|apply U].
    apply andb_true_iff in E. destruct E as [E _]. apply Nat.eqb_eq in E. subst t'.
    apply NoDup_insert_sorted; [unfold remove_id; apply NoDup_map_filter; apply U|rewrite Eid; apply not_in_remove_id].
  - (* RIk *)
    intros g x k0 Hg Hx Hk0. rewrite Hids.
    destruct (Nat.eq_dec (child g) tc) as [Ec|Ec].
    + rewrite Ec in Hx. destruct (replaced_rows _ _ _ _ _ Hx) as [->|[Hx0 _]].
      * destruct (optZ_eq_dec (get_col (ccol g) c) (get_col (ccol g) new)) as [Es|Es].
        -- rewrite <- Ec in Hc. apply (HR g c k0 Hg Hc). congruence.
        -- pose proof (Hchk g Hg Ec Es) as Hcr. unfold check_ref in Hcr. rewrite Hk0 in Hcr.
           apply orb_true_iff in Hcr. destruct Hcr as [Hh|Hs]; [now left|].
           apply andb_true_iff in Hs. destruct Hs as [Hs1 Hs2]. apply Nat.eqb_eq in Hs1. apply Z.eqb_eq in Hs2.
           left. apply has_id_spec. exists c. split; [congruence|congruence].
      * rewrite <- Ec in Hx0. now apply (HR g x k0 Hg Hx0).
    + rewrite replaced_other in Hx by auto. now apply (HR g x k0 Hg Hx).
  - (* subU *)
    intros t0 r Hr. destruct (Nat.eq_dec t0 tc) as [->|Hn].
    + destruct (replaced_rows _ _ _ _ _ Hr) as [->|[Hr0 _]]; [exists c; auto|].
      exists r. split; auto. apply le_rowU_refl.
    + rewrite replaced_other in Hr by auto. exists r. split; auto. apply le_rowU_refl.
Qed.

Lemma child_loop n tc col v : (v = None \/ v = Some k') -> forall L d d',
  uniq d -> RIk d -> (forall c, In c L -> In c (tab d tc)) -> NoDup (map rid L) ->
  fold_res (fun dc c => upd n fks dc tc c (set_col col v c)) L d = Ok d' ->
  uniq d' /\ same_ids d' d /\ RIk d' /\ subU d' d /\
  forall c, In c L -> forall x, In x (tab d' tc) -> rid x = rid c -> get_col col x <> Some k.
Proof.
  intros Hv. induction L as [|c L IH]; intros d d' U HR Hin Hnd H.
  - cbn in H. injection H as <-. split; [exact U|]. split; [apply same_ids_refl|]. split; [exact HR|].
    split; [apply subU_refl|]. intros c [].
  - apply fold_res_cons in H. destruct H as (d1 & H1 & H2).
    assert (Hc : In c (tab d tc)) by (apply Hin; now left).
    destruct (child_step _ _ _ _ _ _ _ U HR Hc Hv H1) as (E1 & U1 & I1 & R1 & S1).
    inversion Hnd as [|? ? Hnotin Hnd']; subst.
    assert (Hin' : forall c', In c' L -> In c' (tab (replaced d tc c (set_col col v c)) tc)).
    { intros c' Hc'. apply replaced_keeps; [apply Hin; now right|].
      intros E. apply Hnotin. rewrite <- E. now apply in_map. }
    destruct (IH _ _ U1 R1 Hin' Hnd' H2) as (U2 & I2 & R2 & S2 & N2).
    split; [exact U2|]. split; [eapply same_ids_trans; eauto|]. split; [exact R2|].
    split; [eapply subU_trans; eauto|].
    intros c0 [<-|Hc0]; [|now apply N2].
    intros x Hx Ex. destruct (S2 _ _ Hx) as (x1 & Hx1 & L1).
    assert (x1 = set_col col v c) as ->.
    { destruct (replaced_rows _ _ _ _ _ Hx1) as [E|[_ Hne]]; auto. destruct L1 as (E1 & _). congruence. }
    destruct L1 as (_ & A & Bc). pose proof (get_set_col col v c) as G.
    destruct col; [destruct Bc as [E|[E|E]]|destruct A as [E|[E|E]]]; destruct Hv as [-> | ->]; congruence.
Qed.

(* the parent row moved from id k to id k' *)
Definition moved (d : db) (new : row) : db := set_tab d t (insert_sorted new (remove_id k (tab d t))).

Lemma moved_rows d new t0 x : In x (tab (moved d new) t0) -> (t0 = t /\ x = new) \/ (In x (tab d t0) /\ (t0 = t -> rid x <> k)).
Proof.
  unfold moved. rewrite tab_after_edit. destruct (Nat.eqb t0 t && Nat.ltb t (length d)) eqn:E.
  - apply andb_true_iff in E. destruct E as [E _]. apply Nat.eqb_eq in E. subst t0.
    intros H. apply in_insert_sorted in H. destruct H as [->|H]; auto. apply in_remove_id in H. right. tauto.
  - intros H. right. split; auto. intros ->. rewrite Nat.eqb_refl in E. cbn in E.
    apply Nat.ltb_ge in E. rewrite tab_out_of_range in H by auto. contradiction.
Qed.

Lemma moved_keeps d new t0 p : In p (tab d t0) -> (t0 <> t \/ rid p <> k) -> In p (tab (moved d new) t0).
Proof.
  intros Hp Hne. unfold moved. rewrite tab_after_edit.
  destruct (Nat.eqb t0 t && Nat.ltb t (length d)) eqn:E; auto.
  apply andb_true_iff in E. destruct E as [E _]. apply Nat.eqb_eq in E. subst t0.
  apply in_insert_sorted. right. apply in_remove_id. split; auto. destruct Hne; congruence.
Qed.

Theorem upd_id_ok n d old new d' :
  uniq d -> RI fks d -> In old (tab d t) -> rid old = k -> rid new = k' ->
  (forall c, get_col c new = get_col c old) ->
  upd (S n) fks d t old new = Ok d' -> RI fks d' /\ uniq d'.
Proof.
  intros U HRI Hold Eo En Hcols H. rewrite upd_unfold in H. rewrite Eo, En in H.
  assert (Hne : (k =? k') = false) by (now apply Z.eqb_neq). rewrite Hne in H. cbn [negb andb] in H.
  destruct (existsb _ fks) eqn:Hchk; [discriminate|].
  destruct (existsb (fun f => Nat.eqb (parent f) t && restrictish (eff_onupd f) && true
                               && negb (match children d f k with [] => true | _ => false end)) fks) eqn:Hres; [discriminate|].
  destruct (has_id k' (tab d t)) eqn:Hdup; [discriminate|]. cbn [andb] in H.
  fold (moved d new) in H. set (d1 := moved d new) in *.
  assert (Hlt : Nat.ltb t (length d) = true).
  { apply Nat.ltb_lt. destruct (Nat.ltb_spec t (length d)); auto. rewrite tab_out_of_range in Hold by auto. contradiction. }
  assert (Hnew1 : In new (tab d1 t)).
  { unfold d1, moved. rewrite tab_after_edit, Nat.eqb_refl, Hlt. cbn. apply in_insert_sorted. now left. }
  assert (U1 : uniq d1).
  { intros t0. unfold d1, moved. rewrite tab_after_edit.
    destruct (Nat.eqb t0 t && Nat.ltb t (length d)) eqn:E; [|apply U].
    apply NoDup_insert_sorted; [unfold remove_id; apply NoDup_map_filter; apply U|].
    rewrite En. intros Hin. apply in_map_iff in Hin. destruct Hin as (x & Ex & Hx). apply in_remove_id in Hx.
    assert (has_id k' (tab d t) = true); [|congruence]. apply has_id_spec. exists x. tauto. }
  assert (R1 : RIk d1).
  { intros f c k0 Hf Hc Hk0.
    assert (Hc0 : exists c0, In c0 (tab d (child f)) /\ get_col (ccol f) c0 = Some k0).
    { destruct (moved_rows _ _ _ _ Hc) as [[Et ->]|[Hc0 _]]; [|eauto].
      exists old. split; [now rewrite Et|]. now rewrite <- Hcols. }
    destruct Hc0 as (c0 & Hc0 & Hk00). destruct (HRI f c0 k0 Hf Hc0 Hk00) as (p & Hp & Hpk).
    destruct (Nat.eq_dec (parent f) t) as [Ep|Ep].
    - destruct (Z.eq_dec k0 k) as [->|Hk]; [now right|]. left. apply has_id_spec. exists p. split; auto.
      apply moved_keeps; auto. right. congruence.
    - left. apply has_id_spec. exists p. split; auto. apply moved_keeps; auto. }
  (* keys with a RESTRICT-like update action: nothing referenced the old key, before or after the move *)
  assert (Hrestrict : forall f, In f fks -> parent f = t -> restrictish (eff_onupd f) = true -> norefU d1 f).
  { intros f Hf Hp Hr c Hc Hk.
    assert (Hno : children d f k = []).
    { destruct (children d f k) eqn:Ec; auto. exfalso.
      assert (existsb (fun f0 => Nat.eqb (parent f0) t && restrictish (eff_onupd f0) && true
                                 && negb (match children d f0 k with [] => true | _ => false end)) fks = true); [|congruence].
      apply existsb_exists. exists f. split; auto. rewrite Hr, Ec.
      replace (Nat.eqb (parent f) t) with true by (symmetry; now apply Nat.eqb_eq). reflexivity. }
    assert (Hc0 : exists c0, In c0 (tab d (child f)) /\ get_col (ccol f) c0 = Some k).
    { destruct (moved_rows _ _ _ _ Hc) as [[Et ->]|[Hc0 _]]; [|eauto].
      exists old. split; [now rewrite Et|]. now rewrite <- Hcols. }
    destruct Hc0 as (c0 & Hc0 & Hk0). assert (In c0 (children d f k)) by (apply in_children; auto).
    rewrite Hno in H0. contradiction. }
  assert (Hloop : forall rest done dc,
            fks = done ++ rest -> uniq dc -> RIk dc -> subU dc d1 ->
            (forall f, In f done -> parent f = t -> norefU dc f) ->
            fold_res (fun dc f =>
                        if Nat.eqb (parent f) t && true then
                          match eff_onupd f with
                          | Cascade => fold_res (fun dc' c => upd n fks dc' (child f) c (set_col (ccol f) (Some k') c))
                                                (children dc f k) dc
                          | SetNull => fold_res (fun dc' c => upd n fks dc' (child f) c (set_col (ccol f) None c))
                                                (children dc f k) dc
                          | _ => Ok dc
                          end
                        else Ok dc) rest dc = Ok d' ->
            uniq d' /\ RIk d' /\ forall f, In f fks -> parent f = t -> norefU d' f).
  { induction rest as [|f rest IHr]; intros done dc Hf Udc Rdc Sdc Hdone Hfold.
    - cbn in Hfold. injection Hfold as <-. rewrite app_nil_r in Hf. subst done. auto.
    - apply fold_res_cons in Hfold. destruct Hfold as (dc1 & Hstep & Hfold).
      assert (Hfin : In f fks) by (rewrite Hf; apply in_or_app; right; now left).
      assert (Hs : uniq dc1 /\ RIk dc1 /\ subU dc1 dc /\ (parent f = t -> norefU dc1 f)).
      { rewrite andb_true_r in Hstep. destruct (Nat.eqb_spec (parent f) t) as [Ep|Ep].
        - assert (Hpre : forall c, In c (children dc f k) -> In c (tab dc (child f))) by (intros c Hc; now apply in_children in Hc).
          assert (Hnd : NoDup (map rid (children dc f k))) by (unfold children; apply NoDup_map_filter; apply Udc).
          destruct (eff_onupd f) eqn:Ea.
          + injection Hstep as <-. repeat split; auto using subU_refl. intros _.
            eapply norefU_sub; [exact Sdc|]. apply Hrestrict; auto. now rewrite Ea.
          + injection Hstep as <-. repeat split; auto using subU_refl. intros _.
            eapply norefU_sub; [exact Sdc|]. apply Hrestrict; auto. now rewrite Ea.
          + destruct (child_loop n (child f) (ccol f) (Some k') (or_intror eq_refl) _ _ _ Udc Rdc Hpre Hnd Hstep)
              as (U2 & _ & R2 & S2 & N2). repeat split; auto.
            intros _ c Hc Hk. destruct (S2 _ _ Hc) as (c0 & Hc0 & L0).
            pose proof (le_rowU_old _ _ _ L0 Hk) as Hk0.
            assert (Hin : In c0 (children dc f k)) by (apply in_children; auto).
            apply (N2 c0 Hin c Hc); auto. now destruct L0.
          + destruct (child_loop n (child f) (ccol f) None (or_introl eq_refl) _ _ _ Udc Rdc Hpre Hnd Hstep)
              as (U2 & _ & R2 & S2 & N2). repeat split; auto.
            intros _ c Hc Hk. destruct (S2 _ _ Hc) as (c0 & Hc0 & L0).
            pose proof (le_rowU_old _ _ _ L0 Hk) as Hk0.
            assert (Hin : In c0 (children dc f k)) by (apply in_children; auto).
            apply (N2 c0 Hin c Hc); auto. now destruct L0.
        - injection Hstep as <-. repeat split; auto using subU_refl. intros E. contradiction. }
      destruct Hs as (U2 & R2 & S2 & Nf).
      assert (Hdone' : forall f0, In f0 (done ++ [f]) -> parent f0 = t -> norefU dc1 f0).
      { intros f0 Hf0 Hp. apply in_app_or in Hf0. destruct Hf0 as [Hf0|[<-|[]]]; [|now apply Nf].
        eapply norefU_sub; [exact S2|]. now apply Hdone. }
      assert (Hf' : fks = (done ++ [f]) ++ rest) by (rewrite <- app_assoc; exact Hf).
      apply (IHr (done ++ [f]) dc1 Hf' U2 R2 (subU_trans _ _ _ S2 Sdc) Hdone' Hfold). }
  destruct (Hloop fks [] d1 eq_refl U1 R1 (subU_refl d1) (fun f Hf => match Hf with end) H) as (Ud' & Rd' & Nd').
  split; auto. intros f c k0 Hf Hc Hk0.
  destruct (Rd' f c k0 Hf Hc Hk0) as [Hh|[Hp ->]].
  - apply has_id_spec in Hh. destruct Hh as (p & Hp & Epk). eauto.
  - exfalso. apply (Nd' f Hf Hp c Hc Hk0).
Qed.

End CascadeUpd.

(* UPDATE of an id keeps referential integrity, for every key graph and every assignment of actions *)
Theorem update_id_preserves_ri fks d t k k' d' :
  uniq d -> RI fks d -> exec_res fks d (SUpdId t k k') = Ok d' -> RI fks d' /\ uniq d'.
Proof.
  intros U HRI H. cbn [exec_res] in H.
  destruct (find_id k (tab d t)) as [r|] eqn:Ef; [|injection H as <-; auto].
  apply find_id_some in Ef. destruct Ef as [Hr Hrk].
  destruct (k =? k') eqn:E; [injection H as <-; auto|]. apply Z.eqb_neq in E.
  change fuel0 with (S 19) in H.
  eapply (upd_id_ok fks t k k' E 19 d r (k', snd (fst r), snd r)); eauto.
  all: try (intros c; destruct r as [[i a] b]; destruct c; reflexivity).
Qed.

(* =============================================================================================================== *)
(* Every statement, every history.                                                                                   *)
Lemma replaced_uniq d t old new : uniq d -> rid new = rid old -> uniq (replaced d t old new).
Proof.
  intros U E t'. unfold replaced. rewrite tab_after_edit.
  destruct (Nat.eqb t' t && Nat.ltb t (length d)) eqn:Et; [|apply U].
  apply NoDup_insert_sorted; [unfold remove_id; apply NoDup_map_filter; apply U|rewrite E; apply not_in_remove_id].
Qed.

Theorem ri_preserved fks d s d' :
  uniq d -> RI fks d -> exec_res fks d s = Ok d' -> RI fks d' /\ uniq d'.
Proof.
  intros U HRI H. destruct s as [t r|t k|t k k'|t k c v].
  - split; [eapply insert_preserves_ri; eauto|].
    cbn [exec_res] in H. destruct (existsb _ fks); [discriminate|].
    destruct (has_id (rid r) (tab d t)) eqn:Eh; [discriminate|]. injection H as <-.
    intros t'. rewrite tab_after_edit. destruct (Nat.eqb t' t && Nat.ltb t (length d)) eqn:Et; [|apply U].
    apply NoDup_insert_sorted; [apply U|]. intros Hin. apply in_map_iff in Hin. destruct Hin as (x & Ex & Hx).
    assert (has_id (rid r) (tab d t) = true); [|congruence]. apply has_id_spec. eauto.
  - eapply delete_preserves_ri; eauto.
  - eapply update_id_preserves_ri; eauto.
  - split; [eapply update_column_preserves_ri; eauto|].
    cbn [exec_res] in H. destruct (find_id k (tab d t)) as [r|]; [|now injection H as <-].
    destruct (opt_eqb (get_col c r) v); [now injection H as <-|].
    change fuel0 with (S 19) in H. apply upd_same_id in H; [|apply rid_set_col]. subst d'.
    apply replaced_uniq; auto. apply rid_set_col.
Qed.

Lemma exec_fst fks d s : fst (exec fks d s) = match exec_res fks d s with Ok d' => d' | Err _ => d end.
Proof. unfold exec. destruct (exec_res fks d s); reflexivity. Qed.

Theorem ri_invariant fks : forall h d, uniq d -> RI fks d -> RI fks (run fks d h) /\ uniq (run fks d h).
Proof.
  induction h as [|s h IH]; intros d U HRI; cbn [run]; auto.
  rewrite exec_fst. destruct (exec_res fks d s) as [d'|e] eqn:E; [|now apply IH].
  destruct (ri_preserved _ _ _ _ U HRI E). now apply IH.
Qed.

Lemma tab_repeat_nil n t : tab (repeat [] n) t = [].
Proof. unfold tab. revert t. induction n as [|n IH]; intros [|t]; cbn; auto. Qed.

Theorem ri_from_empty fks n h : RI fks (run fks (repeat [] n) h).
Proof.
  apply ri_invariant.
  - intros t. rewrite tab_repeat_nil. constructor.
  - intros f r k _ Hr. rewrite tab_repeat_nil in Hr. contradiction.
Qed.
