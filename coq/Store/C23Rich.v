(* C23 - richer trigger bodies, failing triggers and a nested trigger chain (depth 2), as the engine runs them.

   Tables: t (id INT PRIMARY KEY, v INT) with triggers; t2 (k AUTO_INCREMENT, a, b) with its own INSERT triggers (level 2);
   audit (k AUTO_INCREMENT, tag, x, y).  Bodies (sql/plan/trigger.go TriggerBeginEndBlock, rowexec triggerBlockIter /
   blockIter / ifElseIter): a BEGIN ... END list of
     INSERT INTO audit (tag,x,y) VALUES (tag, f, f)          | SET NEW.v = NEW.v + c / NEW.v * c / c
     INSERT INTO t2 (a,b) VALUES (f, f)   (fires t2's triggers)| IF f > k THEN SIGNAL SQLSTATE '45000'; END IF
     IF NEW.v > k THEN s1; ...; sn; END IF
   As the engine is: the statements of the top-level BEGIN ... END see the row as the statements before left it, but the
   statements of an IF branch (plan.Block) ALL run on the row as it entered the IF, and when the branch contains a SET
   the row leaving it is taken from the output of its LAST statement - a SET NEW.v that is not the last statement of
   its branch is lost, and after a last INSERT INTO audit (tag, x, y) NEW becomes (x, y) ([run_block]; MySQL runs
   them in sequence, [run_seq]).
   Failure (SIGNAL, duplicate key): what the audit / t2 already got stays (memory sessions have no savepoints).  When a
   BEFORE trigger or the row operation fails the table under edit is restored by its editor; when an AFTER trigger fails
   the rows written so far INCLUDING the current one stay ([FailKeep]), the remaining rows are not processed.
   UPDATE runs over the matching rows as they were when the statement started, in id order; a changed id that meets an
   existing row is a duplicate key error at that row. *)
From Coq Require Import List ZArith Bool.
Import ListNotations.
From GMS Require Import Store.C23Trigger.
Open Scope Z_scope.

Inductive rset := RAdd (c : Z) | RMul (c : Z) | RConst (c : Z).
Definition do_set (o : rset) (new : row) : row :=
  match o with RAdd c => (fst new, snd new + c) | RMul c => (fst new, snd new * c) | RConst c => (fst new, c) end.

Inductive sstmt :=
| SAudit (tag : Z) (x y : field)
| SSetV (o : rset)
| SChild (x y : field).

Inductive bstmt :=
| BS (s : sstmt)
| BSignal (f : field) (k : Z)
| BIf (k : Z) (l : list sstmt).

Record rtrigger := mkR { r_time : ttime; r_body : list bstmt }.

(* what a statement writes outside the table under edit, in order *)
Inductive eff := EA (e : entry) | EC (r : row).

Section Stmts.
  (* INSERT INTO t2 VALUES (a, b): everything it writes (t2's triggers' audit rows and the t2 row itself) *)
  Variable child : row -> list eff.

  Definition run_s (s : sstmt) (old new : row) : list eff * row :=
    match s with
    | SAudit tag x y => ([EA (tag, get x old new, get y old new)], new)
    | SSetV o => ([], do_set o new)
    | SChild x y => (child (get x old new, get y old new), new)
    end.

  (* MySQL: in sequence *)
  Fixpoint run_seq (l : list sstmt) (old new : row) : list eff * row :=
    match l with
    | [] => ([], new)
    | s :: l' => let '(e1, n1) := run_s s old new in let '(e2, n2) := run_seq l' old n1 in (e1 ++ e2, n2)
    end.

  (* the engine's IF branch (rowexec buildBlock: every child is built on the SAME input row, the rows of the last child are
     the block's rows; triggerBlockIter then, when a SET NEW occurs anywhere in the IF statement, takes the BACK HALF of
     that output row as the new row - meant for a plain SET whose output is old row ++ new row; for INSERT INTO audit the
     output is (k, tag, x, y), so NEW becomes (x, y)) *)
  Definition has_set (l : list sstmt) : bool := existsb (fun s => match s with SSetV _ => true | _ => false end) l.
  Definition out_row (s : sstmt) (old new : row) : row :=
    match s with
    | SSetV o => do_set o new
    | SAudit _ x y | SChild x y => (get x old new, get y old new)
    end.
  Definition run_block (l : list sstmt) (old new : row) : list eff * row :=
    (flat_map (fun s => fst (run_s s old new)) l,
     if has_set l then out_row (last l (SSetV (RAdd 0))) old new else new).

End Stmts.

Definition blkT := (row -> list eff) -> list sstmt -> row -> row -> list eff * row.

Section Exec.
  Variable child : row -> list eff.
  Variable blk : blkT.

  (* effects, NEW afterwards, failed? *)
  Definition run_b (b : bstmt) (old new : row) : list eff * row * bool :=
    match b with
    | BS s => (run_s child s old new, false)
    | BSignal f k => ([], new, k <? get f old new)
    | BIf k l => if k <? snd new then (blk child l old new, false) else ([], new, false)
    end.

  Fixpoint run_body (body : list bstmt) (old new : row) : list eff * row * bool :=
    match body with
    | [] => ([], new, false)
    | b :: body' =>
        let '(e1, n1, f1) := run_b b old new in
        if f1 then (e1, n1, true)
        else let '(e2, n2, f2) := run_body body' old n1 in (e1 ++ e2, n2, f2)
    end.

  (* the BEFORE triggers of one row, chained through NEW; stops at the first failing body *)
  Fixpoint run_bef (ts : list rtrigger) (old new : row) : list eff * row * bool :=
    match ts with
    | [] => ([], new, false)
    | t :: ts' =>
        let '(e1, n1, f1) := run_body (r_body t) old new in
        if f1 then (e1, n1, true)
        else let '(e2, n2, f2) := run_bef ts' old n1 in (e1 ++ e2, n2, f2)
    end.

  (* the AFTER triggers of one row: NEW is the stored row for each of them *)
  Fixpoint run_aft (ts : list rtrigger) (old new : row) : list eff * bool :=
    match ts with
    | [] => ([], false)
    | t :: ts' =>
        let '(e1, _, f1) := run_body (r_body t) old new in
        if f1 then (e1, true)
        else let '(e2, f2) := run_aft ts' old new in (e1 ++ e2, f2)
    end.
End Exec.

Definition r_is_before (t : rtrigger) : bool := match r_time t with Before => true | After => false end.
Definition rbefores (ts : list rtrigger) := filter r_is_before ts.
Definition rafters (ts : list rtrigger) := filter (fun t => negb (r_is_before t)) ts.

(* level 2: t2's INSERT triggers (no nested insert below them; they never fail: no SIGNAL, key is AUTO_INCREMENT) *)
Definition no_child : row -> list eff := fun _ => [].
Definition child2 (blk : blkT) (ts2 : list rtrigger) (r : row) : list eff :=
  let '(eb, r', _) := run_bef no_child blk (rbefores ts2) r r in
  eb ++ EC r' :: fst (run_aft no_child blk (rafters ts2) r' r').

Inductive outcome := Ok | FailRestore | FailKeep.

Definition remove_id (k : Z) (tb : table) : table := filter (fun r => negb (fst r =? k)) tb.

(* one affected row: OLD, NEW as the statement computed it; [op] is the row operation on the current table
   (None = duplicate key) *)
Definition row_step child (blk : blkT) (ts : list rtrigger) (op : row -> row -> table -> option table)
    (cur : table) (old new : row) : table * list eff * outcome :=
  let '(eb, new', fb) := run_bef child blk (rbefores ts) old new in
  if fb then (cur, eb, FailRestore)
  else match op old new' cur with
       | None => (cur, eb, FailRestore)
       | Some cur' =>
           let '(ea, fa) := run_aft child blk (rafters ts) old new' in
           (cur', eb ++ ea, if fa then FailKeep else Ok)
       end.

Fixpoint proc (step : table -> row * row -> table * list eff * outcome) (rows : list (row * row)) (cur : table)
    : table * list eff * outcome :=
  match rows with
  | [] => (cur, [], Ok)
  | r :: rs =>
      let '(cur', e, o) := step cur r in
      match o with
      | Ok => let '(c2, e2, o2) := proc step rs cur' in (c2, e ++ e2, o2)
      | _ => (cur', e, o)
      end
  end.

Definition op_ins (old new : row) (cur : table) : option table :=
  if has_id (fst new) cur then None else Some (insert_sorted new cur).
Definition op_upd (old new : row) (cur : table) : option table :=
  if negb (fst new =? fst old) && has_id (fst new) cur then None
  else Some (insert_sorted new (remove_id (fst old) cur)).
Definition op_del (old new : row) (cur : table) : option table := Some (remove_id (fst old) cur).

Inductive rstmt :=
| RIns (rows : list row)
| RUpdV (c : Z) (k : option Z)        (* UPDATE t SET v = v + c [WHERE id = k] *)
| RUpdId (c : Z) (k : Z)              (* UPDATE t SET id = id + c WHERE v >= k *)
| RDel (k : Z).                       (* DELETE FROM t WHERE id >= k *)

Record rset_trigs := mkRS { rs_ins : list rtrigger; rs_upd : list rtrigger; rs_del : list rtrigger; rs_t2 : list rtrigger }.

(* the affected rows of a statement as (OLD, NEW) pairs, in the order they are processed *)
Definition affected (q : rstmt) (tb : table) : list (row * row) :=
  match q with
  | RIns rows => map (fun r => (r, r)) rows
  | RUpdV c k => map (fun r => (r, (fst r, snd r + c))) (filter (matches k) tb)
  | RUpdId c k => map (fun r => (r, (fst r + c, snd r))) (filter (fun r => k <=? snd r) tb)
  | RDel k => map (fun r => (r, r)) (filter (fun r => k <=? fst r) tb)
  end.

Definition trigs_of (s : rset_trigs) (q : rstmt) : list rtrigger :=
  match q with RIns _ => rs_ins s | RUpdV _ _ | RUpdId _ _ => rs_upd s | RDel _ => rs_del s end.
Definition op_of (q : rstmt) := match q with RIns _ => op_ins | RUpdV _ _ | RUpdId _ _ => op_upd | RDel _ => op_del end.

Definition rexec_with (blk : blkT) (s : rset_trigs) (tb : table) (q : rstmt) : table * list eff * outcome :=
  let child := child2 blk (rs_t2 s) in
  let '(cur, e, o) := proc (fun cur p => row_step child blk (trigs_of s q) (op_of q) cur (fst p) (snd p)) (affected q tb) tb in
  ((match o with FailRestore => tb | _ => cur end), e, o).

(* the engine / what MySQL prescribes for the IF branches *)
Definition rexec := rexec_with run_block.
Definition rexec_spec := rexec_with run_seq.

Definition audits (e : list eff) : list entry := flat_map (fun x => match x with EA a => [a] | EC _ => [] end) e.
Definition childs (e : list eff) : list row := flat_map (fun x => match x with EC r => [r] | EA _ => [] end) e.
